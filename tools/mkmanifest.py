#!/usr/bin/env python3
"""Regenerate MANIFEST.json from the property modules that exist (tools/pv/props/Cxx.py)."""
import importlib, json, os, sys
V = os.path.dirname(os.path.dirname(os.path.abspath(__file__)))
sys.path.insert(0, os.path.join(V, 'tools'))
props = [json.loads(l) for l in open(os.path.join(V, 'properties.jsonl'))]
TECH = {
 'C01': 'Coq theorems (all well-formed replays): read(emit r) = game_of r, write(game_of r) = emit r; writer model = interpreters of tables regenerated from ser.rs / slippi.rs (payload sizes, raw size, frame write order, write() steps); same-shape obligations on regenerated frame tables; differential run of reader/writer/recorder models against the library',
 'C02': 'Coq theorems over the archive model with library codecs as explicit premises, incl. the full chain .slp -> .slpp -> .slp on every well-formed replay; differential run through the real arrow2/tar/serde under each compression',
 'C03': 'translator-regenerated layout tables + Coq theorems (all versions/payloads; end to end on parsed games) + kernel-checked agreement with the hand spec; spec-offset oracle on the real columns and record views',
 'C04': 'Coq theorems: parsed frames = direct fold over the event history, columns written out explicitly; event-handler arms = step lists regenerated from parse_event; differential run incl. presence-pattern sweeps',
 'C05': 'Coq theorems over the hand model of game_start/player/game_end restated through read layouts regenerated from the source; serde renderings; 3-way differential run (implementation, model, Python spec transcription) with byte-sensitivity sweep',
 'C06': 'Coq theorem: the reader model returns a value or an error for every byte string (no panic branch reachable, fuel sufficient), stream faults surface as errors; class-prediction differential run on structure-aware mutants, fault at every read call',
 'C07': 'Coq theorems: reads extend (stable under appended bytes), every proper prefix of a well-formed replay is rejected (full and skip), .slpp cut at entry boundaries rejected; exhaustive prefix runs for .slp and .slpp',
 'C08': 'Coq theorems: unknown declared events are no-ops in any state and anywhere in a whole file; extra payload bytes ignored; splitter handling regenerated from source; differential run with insertions at every boundary, both read modes',
 'C09': 'Coq theorems over the regenerated guard (all versions) and both writer models (refuse above, .slp refuses only then) + differential run of both real writers on games with and without frames',
 'C10': 'Coq theorems: skip-frames read = full read on start/end/metadata with zero frames, result writable and a fixed point; reader = assembly of pieces regenerated from read(); differential run for .slp and .slpp',
 'C11': 'Coq theorems: hashed bytes = consumed bytes = whole file, for every fragmentation schedule, full and skip reads; differential run with scheduled readers against one-shot XXH3',
 'C12': 'Coq theorems: every call appends only, exact byte accounting, one-shot = driver + epilogue, every call and both one-shot reads independent of fragmentation; call regenerated from parse_event; differential run of the incremental API incl. in-progress views',
 'C13': 'Coq theorems over regenerated transpose tables (identity on names, Option kinds = gates) and end to end: view of row i = i-th frame occurrence; differential run of transpose_one (finished and in-progress) against column dumps',
 'C14': 'Coq theorems over regenerated Arrow tables (schema = spec, positional round trip, export total with per-version children) + differential run of into/from_struct_array',
 'C15': 'Coq theorem over the hand model of rollbacks (all id sequences >= -123) + differential run: exhaustive short sequences, aliasing ids, masks of parsed games',
 'C16': 'Coq theorems: UBJSON write/read round trip on all well-formed trees, order preserved, truncation rejected, JSON rendering injective; markers regenerated from source; differential run on random trees',
 'C17': 'Coq theorems: canonical fixed point; every irregular rendering (unknown events, junk, independent in-frame reorderings; decidable class) reads to the canonical game and rewrites to a self-consistent fixed point; declared length = regenerated raw_size terms; differential run incl. class membership',
 'C18': 'Coq theorems over the tar block model and entry tables regenerated from the .slpp writer/reader (order, presence, dispatch, stop point); byte-for-byte archive prediction in the differential run',
 'C19': 'Coq theorems: regenerated fix_char = stated map (all code points), idempotent, scalar-valued; NUL truncation for any strict decoder; exhaustive differential runs',
 'C20': 'Coq theorems over regenerated gte/lt and the hand model of display/parse + exhaustive/boundary differential runs',
}
checks = []
claimed = []
for p in props:
    pid = p['id']
    if not os.path.exists(os.path.join(V, 'tools', 'pv', 'props', pid + '.py')):
        continue
    mod = importlib.import_module('pv.props.' + pid)
    if getattr(mod, 'DISABLED', False) or not mod.THEOREMS:
        continue
    claimed.append(pid)
    checks.append({
        'property_id': pid,
        'quick_cmd': './check %s quick' % pid,
        'thorough_cmd': './check %s thorough' % pid,
        'evidence_file': '/verif/evidence/%s.json' % pid,
        'replay_cmd_template': 'cat {path}',
        'engine': 'coq-proof+correspondence',
        'level_claimed': {'category': 'proof', 'text': mod.LEVEL, 'design_ref': 'DESIGN.md section 7 ' + pid + ' (plan) and section 13.5 (as proved)'},
        'level_note': 'Trusted: Coq 8.16.1 kernel + VM; no axioms (Print Assumptions: closed under the global context); tools/rust2coq.py; extraction (ExtrOcamlBasic only) + OCaml driver; Rust harness; hand transcriptions named in DESIGN.md section 9.' + (' ' + mod.NOTE if hasattr(mod, 'NOTE') else ''),
        'technique': TECH[pid],
    })
na = [{'property_id': p['id'], 'reason': 'check under construction in this session (model and theorems not yet committed); see DESIGN.md section 11 staging'}
      for p in props if p['id'] not in claimed]
m = {
    'version': 1,
    'setup_cmd': './setup.sh',
    'hooks': {'guard': 'peppi_verif', 'enable': 'no source hooks are needed: the harness uses only public API (the cfg name peppi_verif is reserved and unused)',
              'baseline_off_cmd': 'cd /repo && cargo test --workspace --no-fail-fast --offline', 'source_commits': [], 'add_only': True},
    'engines': [{'name': 'coq-proof+correspondence', 'path': '/verif/check', 'serves_properties': claimed,
                 'kind_free_text': 'Coq 8.16.1 theorems over a model regenerated from /repo (tools/rust2coq.py) and hand-written (coq/theories/Model), tied to the code by a differential run of the extracted model against the real library (harness/)'}],
    'checks': checks,
    'notes': 'Genuine defects found and repaired (12 fix: commits in /repo) and one recorded known finding (C12): see known_findings.json and DESIGN.md sections 8 and 13.3. Seeded changes used to test the checks: /verif/seeded (110, all caught with a concrete failing input; DESIGN.md 13.4). Harmless refactorings used to test for needless alarms: /verif/tools/selftest/benign (16; 15 raise no alarm on any property; DESIGN.md 13.7).',
    'not_applicable': na,
}
json.dump(m, open(os.path.join(V, 'MANIFEST.json'), 'w'), indent=1)
print('claimed:', ' '.join(claimed))
