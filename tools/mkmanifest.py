#!/usr/bin/env python3
"""Regenerate MANIFEST.json from the property modules that exist (tools/pv/props/Cxx.py)."""
import importlib, json, os, sys
V = os.path.dirname(os.path.dirname(os.path.abspath(__file__)))
sys.path.insert(0, os.path.join(V, 'tools'))
props = [json.loads(l) for l in open(os.path.join(V, 'properties.jsonl'))]
TECH = {
 'C01': 'Coq theorems: reader on the recorder model = fold of add_frame, writer on that game = the recorder bytes; T-gen same-shape obligations; differential run of reader/writer/recorder models',
 'C02': 'Coq theorems over the archive model with library codecs as hypotheses; differential run through the real arrow2/tar/serde under each compression',
 'C03': 'translator-regenerated layout tables + Coq theorem (all versions/payloads) + kernel-checked agreement with the hand spec; spec-offset oracle on the real columns',
 'C04': 'Coq theorem: parsed frames = direct fold over the event history (rows, presence bits, item offsets); differential run incl. presence-pattern sweeps',
 'C05': 'Coq theorems over the hand model of game_start/game_end and serde renderings; 3-way differential run (implementation, model, Python spec transcription) with byte-sensitivity sweep',
 'C06': 'Coq theorem: the reader model returns a value or an error for every byte string (no panic branch reachable, fuel sufficient); class-prediction differential run on structure-aware mutants',
 'C07': 'Coq theorem: every proper prefix of a finished well-formed replay is rejected (parser extension lemma); exhaustive prefix runs for .slp and .slpp',
 'C08': 'Coq theorems: unknown declared events are no-ops of the event handler and extra payload bytes are ignored by the row decoder; differential run with insertions at every boundary',
 'C09': 'Coq theorem over the regenerated guard (all versions) + differential run of both real writers',
 'C10': 'Coq theorem: skip-frames read = full read on start/end/metadata with zero frames; differential run for .slp and .slpp',
 'C11': 'Coq theorem: hashed bytes = consumed bytes = whole file, independent of fragmentation and skip; differential run with fragmenting readers against one-shot XXH3',
 'C12': 'Coq theorems: fragmentation independence of the read loop, bytes_read accounting, monotone state; differential run of the incremental API',
 'C13': 'Coq theorem over regenerated transpose tables (identity on names, Option kinds = gates) + differential run of transpose_one against column dumps',
 'C14': 'Coq theorems over regenerated Arrow tables (schema = spec, positional round trip) + differential run of into/from_struct_array',
 'C15': 'Coq theorem over the hand model of rollbacks (all id sequences >= -123) + differential run, exhaustive on short sequences',
 'C16': 'Coq theorems: UBJSON write/read round trip on all well-formed trees, order preserved; differential run on random trees',
 'C17': 'Coq theorem: write of any accepted game of a tolerated-irregular replay is a fixed point with consistent declared length; differential run',
 'C18': 'Coq theorems over the tar block model (entry order, presence conditions, determinism); byte-for-byte archive prediction in the differential run',
 'C19': 'Coq theorems: regenerated fix_char = stated map (all code points), idempotent, scalar-valued; NUL truncation for any strict decoder; exhaustive differential runs',
 'C20': 'Coq theorems over regenerated gte/lt and the hand model of display/parse + exhaustive/boundary differential runs',
}
checks = []
claimed = []
for p in props:
    pid = p['id']
    if not os.path.exists(os.path.join(V, 'tools', 'pv', 'props', pid + '.py')):
        continue
    mod = importlib.import_module('pv.props.' + pid)
    if getattr(mod, 'DISABLED', False) or not mod.THEOREMS:
        continue
    claimed.append(pid)
    checks.append({
        'property_id': pid,
        'quick_cmd': './check %s quick' % pid,
        'thorough_cmd': './check %s thorough' % pid,
        'evidence_file': '/verif/evidence/%s.json' % pid,
        'replay_cmd_template': 'cat {path}',
        'engine': 'coq-proof+correspondence',
        'level_claimed': {'category': 'proof', 'text': mod.LEVEL, 'design_ref': 'DESIGN.md section 7 ' + pid},
        'level_note': 'Trusted: Coq 8.16.1 kernel + VM; no axioms (Print Assumptions: closed under the global context); tools/rust2coq.py; extraction (ExtrOcamlBasic only) + OCaml driver; Rust harness; hand transcriptions named in DESIGN.md section 9.' + (' ' + mod.NOTE if hasattr(mod, 'NOTE') else ''),
        'technique': TECH[pid],
    })
na = [{'property_id': p['id'], 'reason': 'check under construction in this session (model and theorems not yet committed); see DESIGN.md section 11 staging'}
      for p in props if p['id'] not in claimed]
m = {
    'version': 1,
    'setup_cmd': './setup.sh',
    'hooks': {'guard': 'peppi_verif', 'enable': 'no source hooks are needed: the harness uses only public API (the cfg name peppi_verif is reserved and unused)',
              'baseline_off_cmd': 'cd /repo && cargo test --workspace --no-fail-fast --offline', 'source_commits': [], 'add_only': True},
    'engines': [{'name': 'coq-proof+correspondence', 'path': '/verif/check', 'serves_properties': claimed,
                 'kind_free_text': 'Coq 8.16.1 theorems over a model regenerated from /repo (tools/rust2coq.py) and hand-written (coq/theories/Model), tied to the code by a differential run of the extracted model against the real library (harness/)'}],
    'checks': checks,
    'notes': 'Genuine defects found and repaired: see known_findings.json and DESIGN.md section 8.',
    'not_applicable': na,
}
json.dump(m, open(os.path.join(V, 'MANIFEST.json'), 'w'), indent=1)
print('claimed:', ' '.join(claimed))
