#!/bin/sh
# Run the checks against the seeded changes kept under /verif/seeded/<id>/ (never committed in /repo):
# apply one, run the check of its property (quick; thorough if quick misses it), undo it, record the outcome.
# usage: tools/seeded_run.sh [id ...]        (default: all)        results: .work/seeded_results/<id>.txt
cd "$(dirname "$0")/.."
mkdir -p .work/seeded_results
if [ -n "$(git -C /repo status --short)" ]; then echo "/repo is not clean"; exit 2; fi
ids="$*"
[ -z "$ids" ] && ids=$(ls seeded | grep '^C..-m')
for id in $ids; do
  prop=$(echo $id | cut -d- -f1)
  out=.work/seeded_results/$id.txt
  if ! git -C /repo apply "$PWD/seeded/$id/patch.diff"; then echo "$id APPLY-FAILED" | tee $out; continue; fi
  tier=quick
  ./check $prop quick > .work/seeded_results/$id.log 2>&1; rc=$?
  if [ $rc -eq 0 ]; then
    tier=thorough
    ./check $prop thorough > .work/seeded_results/$id.log 2>&1; rc=$?
  fi
  git -C /repo checkout -- .
  v=$(grep -m1 '^VIOLATION' .work/seeded_results/$id.log)
  if [ $rc -ne 0 ] && [ -n "$v" ]; then echo "$id CAUGHT tier=$tier $v" | tee $out
  elif [ $rc -ne 0 ]; then echo "$id ERROR rc=$rc (no VIOLATION line)" | tee $out
  else echo "$id MISSED" | tee $out; fi
  # keep the replay file of the violation for the record
  rp=$(echo "$v" | sed -n 's/.*replay=\([^ ]*\).*/\1/p')
  [ -n "$rp" ] && [ -f "$rp" ] && cp "$rp" .work/seeded_results/$id.replay 2>/dev/null
done
if [ -n "$(git -C /repo status --short)" ]; then echo "WARNING: /repo not clean at the end"; fi
