#!/usr/bin/env python3
"""rust2coq: regenerate the T-gen part of the Coq model from /repo's current sources.

Two front ends (DESIGN.md section 4):
  (a) generated-code front end: the per-struct functions of src/frame/{mutable.rs,immutable/*.rs}
      -> syntax tables (Gen/Tables.v);
  (b) expression front end: small pure functions and constants -> Gallina definitions (Gen/Funs.v).

Anything it does not recognise is a loud failure (exit 3, message naming file/item/token): the checks then
treat every property that depends on the tables as "tie broken" and go searching for a failing input.
Output files are only rewritten when their content changes.
"""
import os, re, sys, json

REPO = os.environ.get('PEPPI_REPO', '/repo')
OUT = os.path.join(os.path.dirname(os.path.dirname(os.path.abspath(__file__))), 'coq', 'theories', 'Gen')


class TranslateError(Exception):
    pass


# ------------------------------------------------------------------------------------------------
# tokenizer

TOKEN_RE = re.compile(r'''
    (?P<ws>\s+)
  | (?P<lcomment>//[^\n]*)
  | (?P<bcomment>/\*.*?\*/)
  | (?P<str>b?"(?:[^"\\]|\\.)*")
  | (?P<char>b?'(?:[^'\\]|\\.)')
  | (?P<lifetime>'[A-Za-z_][A-Za-z0-9_]*)
  | (?P<num>0x[0-9a-fA-F_]+(?:[iu](?:8|16|32|64|size))?|[0-9][0-9_]*(?:\.[0-9]+)?(?:[iuf](?:8|16|32|64|size))?)
  | (?P<id>r\#[A-Za-z_][A-Za-z0-9_]*|[A-Za-z_][A-Za-z0-9_]*)
  | (?P<punct>\.\.=|\.\.\.|::|->|=>|==|!=|<=|>=|&&|\|\||\+=|-=|\*=|\.\.|[{}()\[\];,.:<>=+\-*/%!&|?#@^~$])
''', re.S | re.X)


def tokenize(src, fname='?'):
    toks = []
    pos = 0
    while pos < len(src):
        m = TOKEN_RE.match(src, pos)
        if not m:
            raise TranslateError('%s: cannot tokenize at %r' % (fname, src[pos:pos + 30]))
        k = m.lastgroup
        if k not in ('ws', 'lcomment', 'bcomment'):
            toks.append((k, m.group(k)))
        pos = m.end()
    return toks


def match_close(toks, i):
    """toks[i] is an opening bracket; return index of the matching close"""
    op = toks[i][1]
    cl = {'{': '}', '(': ')', '[': ']'}[op]
    d = 0
    j = i
    while j < len(toks):
        t = toks[j][1]
        if toks[j][0] == 'punct':
            if t == op:
                d += 1
            elif t == cl:
                d -= 1
                if d == 0:
                    return j
        j += 1
    raise TranslateError('unbalanced %s' % op)


def tv(toks):
    return [t[1] for t in toks]


def sj(toks):
    """statement text with single spaces between tokens; rustfmt's trailing commas before a closing bracket dropped"""
    s = ' '.join(t[1] for t in toks)
    return re.sub(r' , (\)|\]|\})', r' \1', s)


def find_seq(toks, seq, start=0):
    vals = tv(toks)
    n = len(seq)
    for i in range(start, len(vals) - n + 1):
        if vals[i:i + n] == seq:
            return i
    return -1


def impl_blocks(toks):
    """yield (kind, name, from_name, body_tokens): kind 'impl' | 'from'"""
    i = 0
    vals = tv(toks)
    while i < len(vals):
        if vals[i] == 'impl' and toks[i][0] == 'id':
            # impl [<..>] Path [for Type] {
            j = i + 1
            hdr = []
            while vals[j] != '{':
                hdr.append(vals[j])
                j += 1
            e = match_close(toks, j)
            h = ' '.join(hdr)
            m = re.fullmatch(r'From < mutable :: (\w+) > for (\w+)', h)
            if m:
                yield ('from', m.group(2), m.group(1), toks[j + 1:e])
            else:
                m2 = re.fullmatch(r'(\w+)', h)
                if m2:
                    yield ('impl', m2.group(1), None, toks[j + 1:e])
                else:
                    yield ('other', h, None, toks[j + 1:e])
            i = e + 1
        else:
            i += 1


def fns_in(body):
    """yield (name, params_tokens, ret_tokens, body_tokens) for each fn directly in an impl body"""
    i = 0
    vals = tv(body)
    while i < len(vals):
        if vals[i] == 'fn' and body[i][0] == 'id':
            name = vals[i + 1]
            j = i + 2
            if vals[j] == '<':
                d = 0
                while True:
                    if vals[j] == '<':
                        d += 1
                    elif vals[j] == '>':
                        d -= 1
                        if d == 0:
                            break
                    j += 1
                j += 1
            assert vals[j] == '(', (name, vals[j])
            pe = match_close(body, j)
            params = body[j + 1:pe]
            k = pe + 1
            ret = []
            while vals[k] != '{':
                ret.append(body[k])
                k += 1
            be = match_close(body, k)
            yield (name, params, ret, body[k + 1:be])
            i = be + 1
        elif vals[i] == '{':
            i = match_close(body, i) + 1
        else:
            i += 1


def read(rel):
    p = os.path.join(REPO, rel)
    with open(p) as f:
        return f.read()


# ------------------------------------------------------------------------------------------------
# (b) expression front end: Rust expression -> AST -> Gallina

class P:
    """Pratt parser over a token list for the expression subset described in DESIGN.md section 4(b)"""

    def __init__(self, toks, where):
        self.t = toks
        self.i = 0
        self.where = where

    def peek(self, k=0):
        return self.t[self.i + k][1] if self.i + k < len(self.t) else None

    def kind(self):
        return self.t[self.i][0] if self.i < len(self.t) else None

    def eat(self, v=None):
        if self.i >= len(self.t):
            raise TranslateError('%s: unexpected end of tokens' % self.where)
        tok = self.t[self.i]
        if v is not None and tok[1] != v:
            raise TranslateError('%s: expected %r, got %r' % (self.where, v, tok[1]))
        self.i += 1
        return tok[1]

    def done(self):
        return self.i >= len(self.t)

    BIN = {'||': 1, '&&': 2, '==': 3, '!=': 3, '<': 3, '<=': 3, '>': 3, '>=': 3, '+': 5, '-': 5, '*': 6}

    def expr(self, minp=0):
        lhs = self.unary()
        while True:
            op = self.peek()
            if op in self.BIN and self.BIN[op] >= minp and self.kind() == 'punct':
                p = self.BIN[op]
                self.eat()
                rhs = self.expr(p + 1)
                lhs = ('bin', op, lhs, rhs)
            elif op == 'as' and self.kind() == 'id':
                self.eat()
                ty = self.eat()
                lhs = ('cast', lhs, ty)
            else:
                return lhs

    def unary(self):
        if self.peek() == '!' and self.kind() == 'punct':
            self.eat()
            return ('not', self.unary())
        if self.peek() == '*' and self.kind() == 'punct':
            self.eat()
            return self.unary()
        if self.peek() == '&' and self.kind() == 'punct':
            self.eat()
            return self.unary()
        return self.postfix()

    def postfix(self):
        e = self.atom()
        while True:
            if self.peek() == '.' and self.kind() == 'punct':
                self.eat()
                if self.kind() == 'num':
                    e = ('field', e, int(self.eat()))
                else:
                    name = self.eat()
                    if self.peek() == '(':
                        args = self.args()
                        e = ('method', e, name, args)
                    else:
                        e = ('fieldn', e, name)
            elif self.peek() == '?' and self.kind() == 'punct':
                self.eat()
            else:
                return e

    def args(self):
        self.eat('(')
        a = []
        while self.peek() != ')':
            a.append(self.expr())
            if self.peek() == ',':
                self.eat()
        self.eat(')')
        return a

    def block(self):
        self.eat('{')
        lets = []
        while self.peek() == 'let':
            self.eat()
            name = self.eat()
            if self.peek() == ':':
                self.eat()
                self.eat()
            self.eat('=')
            v = self.expr()
            self.eat(';')
            lets.append((name, v))
        e = self.expr()
        if self.peek() == ';':
            self.eat()
        self.eat('}')
        for name, v in reversed(lets):
            e = ('let', name, v, e)
        return e

    def pattern(self):
        # integer | a..=b | _ | x
        if self.kind() == 'num':
            a = num(self.eat())
            if self.peek() == '..=':
                self.eat()
                b = num(self.eat())
                return ('range', a, b)
            return ('lit', a)
        v = self.eat()
        if v == '_':
            return ('wild',)
        return ('bind', v)

    def atom(self):
        k = self.kind()
        v = self.peek()
        if k == 'num':
            self.eat()
            return ('num', num(v))
        if v == '(' and k == 'punct':
            self.eat()
            if self.peek() == ')':
                self.eat()
                return ('unit',)
            e = self.expr()
            self.eat(')')
            return e
        if v == '{' and k == 'punct':
            return self.block()
        if v == 'if':
            self.eat()
            c = self.expr()
            a = self.block()
            self.eat('else')
            if self.peek() == 'if':
                b = self.atom()
            else:
                b = self.block()
            return ('if', c, a, b)
        if v == 'match':
            self.eat()
            scrut = self.expr()
            self.eat('{')
            arms = []
            while self.peek() != '}':
                pat = self.pattern()
                self.eat('=>')
                e = self.expr()
                if self.peek() == ',':
                    self.eat()
                arms.append((pat, e))
            self.eat('}')
            return ('match', scrut, arms)
        if k == 'id':
            path = [self.eat()]
            while self.peek() == '::':
                self.eat()
                if self.peek() == '<':   # turbofish: skip
                    d = 0
                    while True:
                        x = self.eat()
                        if x == '<':
                            d += 1
                        elif x == '>':
                            d -= 1
                            if d == 0:
                                break
                    continue
                path.append(self.eat())
            name = '::'.join(path)
            if self.peek() == '!' and self.peek(1) == '(':
                # macro call: err!(...) -> opaque
                self.eat()
                j = match_close(self.t, self.i)
                self.i = j + 1
                return ('macro', name)
            if self.peek() == '(' and self.kind() == 'punct':
                a = self.args()
                return ('call', name, a)
            return ('var', name)
        raise TranslateError('%s: unexpected token %r' % (self.where, v))


def num(s):
    s = re.sub(r'(?<=[0-9a-fA-F_])[iu](8|16|32|64|size)$', '', s).replace('_', '')
    return int(s, 16) if s.startswith('0x') else int(s)


class G:
    """Gallina printer; every integer is an N; comparisons are boolean"""

    def __init__(self, env, where, result_bool=False):
        self.env = env    # name -> gallina text
        self.where = where
        self.result_bool = result_bool

    def e(self, a):
        k = a[0]
        if k == 'num':
            return '%d' % a[1]
        if k == 'var':
            n = a[1]
            if n in self.env:
                return self.env[n]
            raise TranslateError('%s: unknown name %s' % (self.where, n))
        if k == 'field':
            return '(v%d %s)' % (a[2], self.e(a[1]))
        if k == 'not':
            return '(negb %s)' % self.e(a[1])
        if k == 'cast':
            return self.e(a[1])
        if k == 'bin':
            op, l, r = a[1], self.e(a[2]), self.e(a[3])
            m = {'||': '(orb %s %s)', '&&': '(andb %s %s)', '==': '(N.eqb %s %s)', '!=': '(negb (N.eqb %s %s))',
                 '<': '(N.ltb %s %s)', '<=': '(N.leb %s %s)', '+': '(N.add %s %s)', '-': '(N.sub %s %s)',
                 '*': '(N.mul %s %s)'}
            if op == '>':
                return '(N.ltb %s %s)' % (r, l)
            if op == '>=':
                return '(N.leb %s %s)' % (r, l)
            return m[op] % (l, r)
        if k == 'if':
            return '(if %s then %s else %s)' % (self.e(a[1]), self.e(a[2]), self.e(a[3]))
        if k == 'let':
            inner = G(dict(self.env, **{a[1]: a[1]}), self.where, self.result_bool)
            return '(let %s := %s in %s)' % (a[1], self.e(a[2]), inner.e(a[3]))
        if k == 'method':
            recv, name, args = a[1], a[2], a[3]
            if name in ('gte', 'lt') and len(args) == 2:
                return '(slippi_Version_%s %s %s %s)' % (name, self.e(recv), self.e(args[0]), self.e(args[1]))
            if name == 'unwrap' and recv[0] == 'call' and recv[1] == 'char::try_from' and len(recv[2]) == 1:
                # the result must be a Unicode scalar value: a proof obligation (Model/ShiftJis.v), not an assumption
                return self.e(recv[2][0])
            raise TranslateError('%s: unsupported method %s' % (self.where, name))
        if k == 'call':
            name, args = a[1], a[2]
            if name == 'Ok' and self.result_bool:
                return 'true'
            if name == 'Err' and self.result_bool:
                return 'false'
            if name in ('u32::from', 'u64::from', 'usize::from', 'i64::from'):
                return self.e(args[0])
            raise TranslateError('%s: unsupported call %s' % (self.where, name))
        if k == 'match':
            scrut = self.e(a[1])
            out = None
            # build nested ifs from the last arm backwards
            arms = a[2]
            if arms[-1][0][0] not in ('wild', 'bind'):
                raise TranslateError('%s: match without a catch-all arm' % self.where)
            last = arms[-1]
            if last[0][0] == 'bind':
                out = G(dict(self.env, **{last[0][1]: 'scrut'}), self.where, self.result_bool).e(last[1])
            else:
                out = self.e(last[1])
            for pat, body in reversed(arms[:-1]):
                if pat[0] == 'lit':
                    c = '(N.eqb scrut %d)' % pat[1]
                elif pat[0] == 'range':
                    c = '(andb (N.leb %d scrut) (N.leb scrut %d))' % (pat[1], pat[2])
                else:
                    raise TranslateError('%s: catch-all arm not last' % self.where)
                out = '(if %s then %s else %s)' % (c, self.e(body), out)
            return '(let scrut := %s in %s)' % (scrut, out)
        raise TranslateError('%s: unsupported expression %r' % (self.where, k))


def parse_params(ptoks, where):
    """-> list of (name, type string)"""
    out = []
    cur = []
    d = 0
    for t in ptoks + [('punct', ',')]:
        if t[1] in '<([':
            d += 1
        if t[1] in '>)]':
            d -= 1
        if t[1] == ',' and d == 0:
            if cur:
                vals = [x[1] for x in cur]
                if vals[-1] == 'self':
                    out.append(('self', 'Self'))
                else:
                    i = vals.index(':')
                    nm = [x for x in vals[:i] if x != 'mut'][-1]
                    out.append((nm, ' '.join(vals[i + 1:])))
            cur = []
        else:
            cur.append(t)
    return out


def find_fn(rel, impl_name, fn_name):
    toks = tokenize(read(rel), rel)
    if impl_name is None:
        for name, params, ret, body in fns_in(toks):
            if name == fn_name:
                return params, ret, body
    else:
        for kind, name, frm, body in impl_blocks(toks):
            if kind == 'impl' and name == impl_name:
                for n, params, ret, b in fns_in(body):
                    if n == fn_name:
                        return params, ret, b
    raise TranslateError('%s: fn %s%s not found' % (rel, (impl_name + '::') if impl_name else '', fn_name))


def find_const(rel, name):
    """`const NAME: T = <expr>;` -> (type string, expr tokens)"""
    toks = tokenize(read(rel), rel)
    vals = tv(toks)
    for i in range(len(vals) - 2):
        if vals[i] == 'const' and vals[i + 1] == name:
            j = i + 2
            assert vals[j] == ':'
            k = vals.index('=', j)
            e = k + 1
            d = 0
            while not (vals[e] == ';' and d == 0):
                if vals[e] in '([{':
                    d += 1
                if vals[e] in ')]}':
                    d -= 1
                e += 1
            return ' '.join(vals[j + 1:k]), toks[k + 1:e]
    raise TranslateError('%s: const %s not found' % (rel, name))


def version_const(rel, name, ty='Version'):
    t, e = find_const(rel, name)
    v = tv(e)
    if t != ty or len(v) != 8 or v[0] != ty or v[1] != '(' or v[3] != ',' or v[5] != ',' or v[7] != ')':
        raise TranslateError('%s: const %s is not a %s(a, b, c) literal: %s' % (rel, name, ty, ' '.join(v)))
    return (num(v[2]), num(v[4]), num(v[6]))


def byte_array_const(rel, name):
    t, e = find_const(rel, name)
    v = tv(e)
    if v[0] != '[' or v[-1] != ']':
        raise TranslateError('%s: const %s is not an array literal' % (rel, name))
    return [num(x) for x in v[1:-1] if x != ',']


def int_const(rel, name):
    t, e = find_const(rel, name)
    v = tv(e)
    if len(v) == 1:
        return num(v[0])
    if len(v) == 2 and v[0] == '-':
        return -num(v[1])
    raise TranslateError('%s: const %s is not an integer literal: %s' % (rel, name, ' '.join(v)))


def check_version_struct(rel):
    """the struct must be `#[derive(.. PartialOrd, Ord ..)] pub struct Version(pub u8, pub u8, pub u8);`
    so that `<`/`<=` are the lexicographic order on (major, minor, patch)"""
    toks = tokenize(read(rel), rel)
    vals = tv(toks)
    i = find_seq(toks, ['struct', 'Version'])
    if i < 0:
        raise TranslateError('%s: struct Version not found' % rel)
    body = vals[i + 2:i + 2 + 13]
    if body[:12] != ['(', 'pub', 'u8', ',', 'pub', 'u8', ',', 'pub', 'u8', ')', ';'][:12] and \
       body[:11] != ['(', 'pub', 'u8', ',', 'pub', 'u8', ',', 'pub', 'u8', ')', ';']:
        raise TranslateError('%s: struct Version is not (pub u8, pub u8, pub u8): %s' % (rel, ' '.join(body)))
    # nearest preceding derive
    j = i
    while j > 0 and not (vals[j] == 'derive' and vals[j - 1] == '['):
        j -= 1
    e = match_close(toks, j + 1)
    ders = [x for x in vals[j + 2:e] if x != ',']
    if 'PartialOrd' not in ders or 'Ord' not in ders or 'PartialEq' not in ders:
        raise TranslateError('%s: Version does not derive PartialEq/PartialOrd/Ord: %s' % (rel, ders))
    return ders


def fn_to_gallina(rel, impl_name, fn_name, coq_name, self_ty='version', result_bool=False, extra_env=None):
    params, ret, body = find_fn(rel, impl_name, fn_name)
    where = '%s %s::%s' % (rel, impl_name or '', fn_name)
    ps = parse_params(params, where)
    env = dict(extra_env or {})
    binders = []
    for nm, ty in ps:
        if nm == 'self':
            env['self'] = 'self'
            binders.append('(self : %s)' % self_ty)
        else:
            env[nm] = nm
            t = 'version' if ty in ('Version', 'slippi :: Version') else 'N'
            binders.append('(%s : %s)' % (nm, t))
    p = P([('punct', '{')] + body + [('punct', '}')], where)
    ast = p.block()
    if not p.done():
        raise TranslateError('%s: trailing tokens after body' % where)
    g = G(env, where, result_bool)
    return 'Definition %s %s := %s.' % (coq_name, ' '.join(binders), g.e(ast)), ast


def enum_codes(rel, name):
    toks = tokenize(read(rel), rel)
    vals = tv(toks)
    i = find_seq(toks, ['enum', name, '{'])
    if i < 0:
        raise TranslateError('%s: enum %s not found' % (rel, name))
    e = match_close(toks, i + 2)
    body = vals[i + 3:e]
    out = []
    j = 0
    while j < len(body):
        if j + 2 < len(body) and body[j + 1] == '=':
            out.append((body[j], num(body[j + 2])))
            j += 3
        elif body[j] == ',':
            j += 1
        else:
            raise TranslateError('%s: enum %s has a variant without explicit code near %s' % (rel, name, body[j]))
    return out


def cargo_preserve_order():
    s = read('Cargo.toml')
    m = re.search(r'^serde_json\s*=\s*\{([^}]*)\}', s, re.M)
    if not m:
        return False
    f = re.search(r'features\s*=\s*\[([^\]]*)\]', m.group(1))
    return bool(f and '"preserve_order"' in f.group(1))


def gen_funs():
    L = []
    L.append('(* GENERATED by tools/rust2coq.py from the Rust sources under %s -- do not edit. *)' % REPO)
    L.append('From Coq Require Import NArith ZArith Bool List.')
    L.append('Import ListNotations.')
    L.append('Local Open Scope N_scope.')
    L.append('')
    L.append('Definition version := (N * N * N)%type.')
    L.append('Definition v0 (v : version) : N := fst (fst v).')
    L.append('Definition v1 (v : version) : N := snd (fst v).')
    L.append('Definition v2 (v : version) : N := snd v.')
    L.append('')
    L.append('(* src/io/slippi/mod.rs *)')
    ders = check_version_struct('src/io/slippi/mod.rs')
    L.append('Definition slippi_Version_derives_lex_order : bool := true. (* derive(%s) on (pub u8, pub u8, pub u8) *)' % ', '.join(ders))
    d, _ = fn_to_gallina('src/io/slippi/mod.rs', 'Version', 'gte', 'slippi_Version_gte')
    L.append(d)
    d, _ = fn_to_gallina('src/io/slippi/mod.rs', 'Version', 'lt', 'slippi_Version_lt')
    L.append(d)
    mv = version_const('src/io/slippi/mod.rs', 'MAX_SUPPORTED_VERSION')
    L.append('Definition MAX_SUPPORTED_VERSION : version := (%d, %d, %d).' % mv)
    L.append('Definition SLIPPI_FILE_SIGNATURE : list N := [%s].' % '; '.join(map(str, byte_array_const('src/io/slippi/mod.rs', 'FILE_SIGNATURE'))))
    # lexicographic order used for derived <= / < on Version
    L.append('Definition version_le (a b : version) : bool :=')
    L.append('  orb (N.ltb (v0 a) (v0 b)) (andb (N.eqb (v0 a) (v0 b)) (orb (N.ltb (v1 a) (v1 b)) (andb (N.eqb (v1 a) (v1 b)) (N.leb (v2 a) (v2 b))))).')
    L.append('Definition version_lt (a b : version) : bool := negb (version_le b a).')
    # assert_max_version: `if version <= MAX_SUPPORTED_VERSION { Ok(()) } else { Err(..) }`
    params, ret, body = find_fn('src/io/slippi/mod.rs', None, 'assert_max_version')
    L.append(translate_version_guard('src/io/slippi/mod.rs', 'assert_max_version', body, 'assert_max_version_ok'))
    L.append('')
    L.append('(* src/io/peppi/mod.rs *)')
    check_version_struct('src/io/peppi/mod.rs')
    L.append('Definition PEPPI_CURRENT_VERSION : version := (%d, %d, %d).' % version_const('src/io/peppi/mod.rs', 'CURRENT_VERSION'))
    L.append('Definition PEPPI_MIN_VERSION : version := (%d, %d, %d).' % version_const('src/io/peppi/mod.rs', 'MIN_VERSION'))
    L.append('Definition PEPPI_FILE_SIGNATURE : list N := [%s].' % '; '.join(map(str, byte_array_const('src/io/peppi/mod.rs', 'FILE_SIGNATURE'))))
    params, ret, body = find_fn('src/io/peppi/mod.rs', None, 'assert_current_version')
    L.append(translate_version_guard('src/io/peppi/mod.rs', 'assert_current_version', body, 'assert_current_version_ok'))
    L.append('')
    L.append('(* src/game/mod.rs, src/frame/mod.rs *)')
    for nm in ('NUM_PORTS', 'MAX_PLAYERS', 'ICE_CLIMBERS'):
        L.append('Definition %s : N := %d.' % (nm, int_const('src/game/mod.rs', nm)))
    L.append('Definition FIRST_INDEX : Z := (%d)%%Z.' % int_const('src/frame/mod.rs', 'FIRST_INDEX'))
    d, _ = fn_to_gallina('src/game/mod.rs', 'End', 'size', 'game_End_size')
    L.append(d)
    L.append('')
    L.append('(* src/io/slippi/de.rs *)')
    ev = enum_codes('src/io/slippi/de.rs', 'Event')
    for n, c in ev:
        L.append('Definition Event_%s : N := %d.' % (n, c))
    L.append('Definition Event_codes : list N := [%s].' % '; '.join(str(c) for _, c in ev))
    L.append('')
    L.append('(* src/io/ubjson/de.rs *)')
    L.append('Definition UBJSON_MAX_DEPTH : N := %d.' % int_const('src/io/ubjson/de.rs', 'MAX_DEPTH'))
    L.append('')
    L.append('(* src/game/shift_jis.rs *)')
    d, ast = fn_to_gallina('src/game/shift_jis.rs', None, 'fix_char', 'fix_char_u32', extra_env={})
    L.append(d)
    L.append('')
    L.append('(* src/game/mod.rs enums (TryFromPrimitive): the accepted codes *)')
    for en in ('PlayerType', 'DashBack', 'ShieldDrop', 'Language', 'EndMethod', 'Port'):
        codes = enum_codes('src/game/mod.rs', en)
        L.append('Definition %s_codes : list N := [%s].' % (en, '; '.join(str(c) for _, c in codes)))
        L.append('Definition %s_names : list (N * list N) := [%s].' % (en, '; '.join('(%d, [%s])' % (c, '; '.join(str(b) for b in n.encode())) for n, c in codes)))
    L.append('')
    L.append('(* Cargo.toml *)')
    L.append('Definition serde_json_preserve_order : bool := %s.' % ('true' if cargo_preserve_order() else 'false'))
    return '\n'.join(L) + '\n'


def translate_version_guard(rel, fn, body, coq_name):
    """`if version <= CONST { Ok(()) } else { Err(..) }`  or  `if version < CONST { Err(..) } else { Ok(()) }`"""
    where = '%s %s' % (rel, fn)
    p = P([('punct', '{')] + body + [('punct', '}')], where)
    ast = p.block()
    if ast[0] != 'if' or ast[1][0] != 'bin' or ast[1][2] != ('var', 'version') or ast[1][3][0] != 'var':
        raise TranslateError('%s: not of the form `if version <op> CONST {..} else {..}`' % where)
    op = ast[1][1]
    const = ast[1][3][1]
    cmap = {'MAX_SUPPORTED_VERSION': 'MAX_SUPPORTED_VERSION', 'MIN_VERSION': 'PEPPI_MIN_VERSION', 'CURRENT_VERSION': 'PEPPI_CURRENT_VERSION'}
    if const not in cmap:
        raise TranslateError('%s: unknown constant %s' % (where, const))
    c = cmap[const]
    cmp_ = {'<=': 'version_le version %s' % c, '<': 'version_lt version %s' % c,
            '>=': 'version_le %s version' % c, '>': 'version_lt %s version' % c}.get(op)
    if cmp_ is None:
        raise TranslateError('%s: unsupported comparison %s on Version' % (where, op))

    def res(a):
        if a[0] == 'call' and a[1] == 'Ok':
            return 'true'
        if a[0] == 'call' and a[1] == 'Err':
            return 'false'
        raise TranslateError('%s: branch is neither Ok(..) nor Err(..)' % where)
    return 'Definition %s (version : version) : bool := if %s then %s else %s.' % (coq_name, cmp_, res(ast[2]), res(ast[3]))


# ------------------------------------------------------------------------------------------------
# (a) generated-code front end

PRIMS = ('u8', 'i8', 'u16', 'i16', 'u32', 'i32', 'f32')
PRIM_COQ = {'u8': 'U8', 'i8': 'I8', 'u16': 'U16', 'i16': 'I16', 'u32': 'U32', 'i32': 'I32', 'f32': 'F32'}
ARROW_TY = {'UInt8': 'u8', 'Int8': 'i8', 'UInt16': 'u16', 'Int16': 'i16', 'UInt32': 'u32', 'Int32': 'i32', 'Float32': 'f32'}
GEN_STRUCTS = ['End', 'Item', 'ItemMisc', 'Position', 'Post', 'Pre', 'Start', 'StateFlags', 'TriggersPhysical',
               'Velocities', 'Velocity']


def split_stmts(toks):
    """split a token list into statements at top-level ';' ; an `if ... { }` block is a statement by itself"""
    out = []
    cur = []
    i = 0
    while i < len(toks):
        t = toks[i]
        if t[1] in ('{', '(', '[') and t[0] == 'punct':
            e = match_close(toks, i)
            cur.extend(toks[i:e + 1])
            i = e + 1
            if cur and cur[0][1] == 'if' and t[1] == '{':
                # if-block (possibly followed by ';')
                if i < len(toks) and toks[i][1] == ';':
                    i += 1
                out.append(cur)
                cur = []
            continue
        if t[1] == ';' and t[0] == 'punct':
            if cur:
                out.append(cur)
            cur = []
        else:
            cur.append(t)
        i += 1
    if cur:
        out.append(cur)
    return out


def fname(s):
    return s[2:] if s.startswith('r#') else s


def parse_gate(st, where):
    """`if version . gte ( M , m ) { body }` -> (M, m, body tokens) or None"""
    v = tv(st)
    if v[:5] == ['if', 'version', '.', 'gte', '('] and v[6] == ',' and v[8] == ')' and v[9] == '{':
        e = match_close(st, 9)
        if e != len(st) - 1:
            raise TranslateError('%s: tokens after gate block' % where)
        return num(v[5]), num(v[7]), st[10:e]
    return None


def parse_instrs(toks, kind, where):
    res = []
    for st in split_stmts(toks):
        g = parse_gate(st, where)
        if g:
            res.append(('Gate', g[0], g[1], parse_instrs(g[2], kind, where)))
            continue
        s = sj(st)
        it = None
        if kind == 'read_push':
            m = re.fullmatch(r'r \. read_(\w+)(?: :: < BE >)? \( \) \. map \( \| x \| (?:\{ )?self \. ([\w#]+)( \. as_mut \( \) \. unwrap \( \))? \. push \( Some \( x \) \)(?: \})? \) \?', s)
            if m and m.group(1) in PRIMS:
                it = ('Fld', fname(m.group(2)), m.group(1), bool(m.group(3)))
            m = re.fullmatch(r'self \. ([\w#]+)( \. as_mut \( \) \. unwrap \( \))? \. read_push \( r , version \) \?', s)
            if m:
                it = ('Sub', fname(m.group(1)), bool(m.group(2)))
            if s == 'self . validity . as_mut ( ) . map ( | v | v . push ( true ) )':
                it = ('ValidityTrue',)
            if s == 'Ok ( ( ) )':
                it = ('Ret',)
        elif kind == 'write':
            m = re.fullmatch(r'w \. write_(\w+)(?: :: < BE >)? \( self \. ([\w#]+)( \. as_ref \( \) \. unwrap \( \))? \. value \( i \)(?: ,)? \) \?', s)
            if m and m.group(1) in PRIMS:
                it = ('Fld', fname(m.group(2)), m.group(1), bool(m.group(3)))
            m = re.fullmatch(r'self \. ([\w#]+)( \. as_ref \( \) \. unwrap \( \))? \. write \( w , version , i \) \?', s)
            if m:
                it = ('Sub', fname(m.group(1)), bool(m.group(2)))
            if s == 'Ok ( ( ) )':
                it = ('Ret',)
        elif kind == 'size':
            m = re.fullmatch(r'size \+= size_of :: < (\w+) > \( \)', s)
            if m and m.group(1) in PRIMS:
                it = ('Prim', m.group(1))
            m = re.fullmatch(r'size \+= (\w+) :: size \( version \)', s)
            if m:
                it = ('SubT', m.group(1))
            if s in ('let mut size = 0usize', 'size'):
                it = ('Ret',)
        elif kind == 'push_null':
            m = re.fullmatch(r'self \. ([\w#]+)( \. as_mut \( \) \. unwrap \( \))? \. push_null \( \)', s)
            if m:
                it = ('Fld', fname(m.group(1)), None, bool(m.group(2)))
            m = re.fullmatch(r'self \. ([\w#]+)( \. as_mut \( \) \. unwrap \( \))? \. push_null \( version \)', s)
            if m:
                it = ('Sub', fname(m.group(1)), bool(m.group(2)))
            if s == 'let len = self . len ( )':
                it = ('Ret',)
            if s == 'self . validity . get_or_insert_with ( || MutableBitmap :: from_len_set ( len ) ) . push ( false )':
                it = ('ValidityFalse',)
        elif kind == 'data_type':
            m = re.fullmatch(r'fields \. push \( Field :: new \( "(\w+)" , DataType :: (\w+) , false \) \)', s)
            if m and m.group(2) in ARROW_TY:
                it = ('Fld', m.group(1), ARROW_TY[m.group(2)], False)
            m = re.fullmatch(r'fields \. push \( Field :: new \( "(\w+)" , (\w+) :: data_type \( version \) , false \) \)', s)
            if m:
                it = ('SubT', m.group(1), m.group(2))
        elif kind == 'into_struct_array':
            m = re.fullmatch(r'values \. push \( self \. ([\w#]+)( \. unwrap \( \))? \. boxed \( \) \)', s)
            if m:
                it = ('Fld', fname(m.group(1)), None, bool(m.group(2)))
            m = re.fullmatch(r'values \. push \( self \. ([\w#]+)( \. unwrap \( \))? \. into_struct_array \( version \) \. boxed \( \) \)', s)
            if m:
                it = ('Sub', fname(m.group(1)), bool(m.group(2)))
        if it is None:
            raise TranslateError('%s: unrecognised %s statement: %s' % (where, kind, s[:200]))
        if it[0] != 'Ret':
            res.append(it)
    return res


def parse_with_capacity(body, where):
    """`Self { f: <init>, ... }` or `Self ( <init>, ... )` -> list of (field, kind, ty, gate)"""
    v = tv(body)
    if v[0] != 'Self' or v[1] not in ('{', '('):
        raise TranslateError('%s: with_capacity is not a Self literal' % where)
    tup = v[1] == '('
    e = match_close(body, 1)
    inner = body[2:e]
    fields = []
    cur = []
    d = 0
    for t in inner + [('punct', ',')]:
        if t[0] == 'punct' and t[1] in '([{':
            d += 1
        if t[0] == 'punct' and t[1] in ')]}':
            d -= 1
        if t[1] == ',' and d == 0:
            if cur:
                fields.append(cur)
            cur = []
        else:
            cur.append(t)
    out = []
    for idx, f in enumerate(fields):
        s = sj(f)
        if tup:
            name, init = str(idx), s
        else:
            m = re.match(r'([\w#]+) : (.*)$', s)
            if not m:
                raise TranslateError('%s: bad field init %s' % (where, s))
            name, init = fname(m.group(1)), m.group(2)
        m = re.fullmatch(r'MutablePrimitiveArray :: < (\w+) > :: with_capacity \( capacity \)', init)
        if m:
            out.append((name, 'prim', m.group(1), None))
            continue
        m = re.fullmatch(r'(\w+) :: with_capacity \( capacity , version \)', init)
        if m:
            out.append((name, 'sub', m.group(1), None))
            continue
        m = re.fullmatch(r'version \. gte \( (\d+) , (\d+) \) \. then \( \|\| MutablePrimitiveArray :: < (\w+) > :: with_capacity \( capacity \) \)', init)
        if m:
            out.append((name, 'prim', m.group(3), (int(m.group(1)), int(m.group(2)))))
            continue
        m = re.fullmatch(r'version \. gte \( (\d+) , (\d+) \) \. then \( \|\| (\w+) :: with_capacity \( capacity , version \) \)', init)
        if m:
            out.append((name, 'sub', m.group(3), (int(m.group(1)), int(m.group(2)))))
            continue
        if name == 'validity' and init == 'None':
            out.append((name, 'validity_none', None, None))
            continue
        m = re.fullmatch(r'version \. lt \( (\d+) , (\d+) \) \. then \( \|\| MutableBitmap :: with_capacity \( capacity \) \)', init)
        if name == 'validity' and m:
            out.append((name, 'validity_lt', None, (int(m.group(1)), int(m.group(2)))))
            continue
        raise TranslateError('%s: unrecognised with_capacity initialiser for %s: %s' % (where, name, init))
    return out


def parse_self_literal(body, where, ctor_pat):
    """`Path { f: e, ...}` or `Path ( e, ... )` -> list of (name, expr string)"""
    v = tv(body)
    # find the literal start
    i = 0
    while i < len(v) and not (v[i] in ('{', '(') and body[i][0] == 'punct'):
        i += 1
    head = ' '.join(v[:i])
    if not re.fullmatch(ctor_pat, head):
        raise TranslateError('%s: unexpected literal head %s' % (where, head))
    tup = v[i] == '('
    e = match_close(body, i)
    inner = body[i + 1:e]
    fields = []
    cur = []
    d = 0
    for t in inner + [('punct', ',')]:
        if t[0] == 'punct' and t[1] in '([{':
            d += 1
        if t[0] == 'punct' and t[1] in ')]}':
            d -= 1
        if t[1] == ',' and d == 0:
            if cur:
                fields.append(cur)
            cur = []
        else:
            cur.append(t)
    out = []
    for idx, f in enumerate(fields):
        s = sj(f)
        if tup:
            out.append((str(idx), s))
        else:
            m = re.match(r'([\w#]+) : (.*)$', s)
            if not m:
                raise TranslateError('%s: bad field %s' % (where, s))
            out.append((fname(m.group(1)), m.group(2)))
    return out


def parse_transpose(body, where):
    out = []
    for name, e in parse_self_literal(body, where, r'transpose :: \w+'):
        m = re.fullmatch(r'self \. ([\w#]+) \. values \( \) \[ i \]', e)
        if m:
            out.append((name, fname(m.group(1)), 'val', False))
            continue
        m = re.fullmatch(r'self \. ([\w#]+) \. as_ref \( \) \. map \( \| x \| x \. values \( \) \[ i \] \)', e)
        if m:
            out.append((name, fname(m.group(1)), 'val', True))
            continue
        m = re.fullmatch(r'self \. ([\w#]+) \. transpose_one \( i , version \)', e)
        if m:
            out.append((name, fname(m.group(1)), 'sub', False))
            continue
        m = re.fullmatch(r'self \. ([\w#]+) \. as_ref \( \) \. map \( \| x \| x \. transpose_one \( i , version \) \)', e)
        if m:
            out.append((name, fname(m.group(1)), 'sub', True))
            continue
        raise TranslateError('%s: unrecognised transpose_one field %s: %s' % (where, name, e))
    return out


def parse_from_mutable(body, where):
    out = []
    for name, e in parse_self_literal(body, where, r'Self'):
        m = re.fullmatch(r'x \. ([\w#]+) \. into \( \)', e)
        if m:
            out.append((name, fname(m.group(1)), 'plain'))
            continue
        m = re.fullmatch(r'x \. ([\w#]+) \. map \( \| (\w) \| \2 \. into \( \) \)', e)
        if m:
            out.append((name, fname(m.group(1)), 'opt'))
            continue
        raise TranslateError('%s: unrecognised From<mutable> field %s: %s' % (where, name, e))
    return out


def parse_from_struct_array(body, where):
    sts = split_stmts(body)
    if ' '.join(tv(sts[0])) != 'let ( _ , values , validity ) = array . into_data ( )':
        raise TranslateError('%s: unexpected first statement of from_struct_array' % where)
    out = []
    for name, e in parse_self_literal(sts[1], where, r'Self'):
        m = re.fullmatch(r'values \[ (\d+) \] \. as_any \( \) \. downcast_ref :: < PrimitiveArray < (\w+) > > \( \) \. unwrap \( \) \. clone \( \)', e)
        if m:
            out.append((name, int(m.group(1)), 'prim', m.group(2), False))
            continue
        m = re.fullmatch(r'values \. get \( (\d+) \) \. map \( \| x \| \{ x \. as_any \( \) \. downcast_ref :: < PrimitiveArray < (\w+) > > \( \) \. unwrap \( \) \. clone \( \) \} \)', e)
        if m:
            out.append((name, int(m.group(1)), 'prim', m.group(2), True))
            continue
        m = re.fullmatch(r'(\w+) :: from_struct_array \( values \[ (\d+) \] \. as_any \( \) \. downcast_ref :: < StructArray > \( \) \. unwrap \( \) \. clone \( \) , version(?: ,)? \)', e)
        if m:
            out.append((name, int(m.group(2)), 'sub', m.group(1), False))
            continue
        m = re.fullmatch(r'values \. get \( (\d+) \) \. map \( \| x \| \{ (\w+) :: from_struct_array \( x \. as_any \( \) \. downcast_ref :: < StructArray > \( \) \. unwrap \( \) \. clone \( \) , version(?: ,)? \) \} \)', e)
        if m:
            out.append((name, int(m.group(1)), 'sub', m.group(2), True))
            continue
        if name == 'validity' and e == 'validity':
            out.append((name, -1, 'validity', None, False))
            continue
        raise TranslateError('%s: unrecognised from_struct_array field %s: %s' % (where, name, e))
    return out


def parse_struct_decl(toks, name, where):
    """pub struct Name { pub f: T, ... } or pub struct Name ( pub T, ... ) ; -> list of (field, type string)"""
    vals = tv(toks)
    i = find_seq(toks, ['struct', name])
    if i < 0:
        raise TranslateError('%s: struct %s not found' % (where, name))
    j = i + 2
    e = match_close(toks, j)
    tup = vals[j] == '('
    inner = toks[j + 1:e]
    fields = []
    cur = []
    d = 0
    for t in inner + [('punct', ',')]:
        if t[1] in '<([':
            d += 1
        if t[1] in '>)]':
            d -= 1
        if t[1] == ',' and d == 0:
            if cur:
                fields.append(cur)
            cur = []
        else:
            cur.append(t)
    out = []
    for idx, f in enumerate(fields):
        v = [x for x in tv(f) if x != 'pub']
        # drop attributes #[...]
        while v and v[0] == '#':
            k = v.index(']')
            v = v[k + 1:]
            v = [x for x in v if x != 'pub']
        if tup:
            out.append((str(idx), ' '.join(v)))
        else:
            k = v.index(':')
            out.append((fname(v[0]), ' '.join(v[k + 1:])))
    return out


def coq_str(s):
    return '"%s"' % s


def instr_coq(ins, ind='  '):
    """instr tree -> Coq term of type list instr"""
    parts = []
    for it in ins:
        if it[0] == 'Fld':
            parts.append('Fld %s %s %s' % (coq_str(it[1]), ('(Some %s)' % PRIM_COQ[it[2]]) if it[2] else 'None', 'true' if it[3] else 'false'))
        elif it[0] == 'Sub':
            parts.append('Sub %s %s' % (coq_str(it[1]), 'true' if it[2] else 'false'))
        elif it[0] == 'SubT':
            if len(it) == 2:
                parts.append('SubT "" %s' % coq_str(it[1]))
            else:
                parts.append('SubT %s %s' % (coq_str(it[1]), coq_str(it[2])))
        elif it[0] == 'Prim':
            parts.append('Prim %s' % PRIM_COQ[it[1]])
        elif it[0] == 'ValidityTrue':
            parts.append('ValidityTrue')
        elif it[0] == 'ValidityFalse':
            parts.append('ValidityFalse')
        elif it[0] == 'Gate':
            parts.append('Gate %d %d %s' % (it[1], it[2], instr_coq(it[3], ind + '  ')))
    return '[' + ('; ').join(parts) + ']'


def gen_tables():
    files = {
        'mutable': 'src/frame/mutable.rs',
        'imm': 'src/frame/immutable/mod.rs',
        'slippi': 'src/frame/immutable/slippi.rs',
        'peppi': 'src/frame/immutable/peppi.rs',
        'transpose': 'src/frame/transpose.rs',
    }
    toks = {k: tokenize(read(v), v) for k, v in files.items()}
    T = {s: {} for s in GEN_STRUCTS}
    seen = set()
    for key in ('mutable', 'imm', 'slippi', 'peppi'):
        for kind, name, frm, body in impl_blocks(toks[key]):
            if name not in GEN_STRUCTS:
                continue
            if kind == 'from':
                for n, params, ret, b in fns_in(body):
                    if n == 'from':
                        T[name]['from_mutable'] = parse_from_mutable(b, '%s From<mutable::%s>' % (files[key], name))
                continue
            if kind != 'impl':
                continue
            for n, params, ret, b in fns_in(body):
                where = '%s %s::%s' % (files[key], name, n)
                if key == 'mutable':
                    if n == 'with_capacity':
                        T[name]['with_capacity'] = parse_with_capacity(b, where)
                    elif n == 'push_null':
                        T[name]['push_null'] = parse_instrs(b, 'push_null', where)
                    elif n == 'read_push':
                        T[name]['read_push'] = parse_instrs(b, 'read_push', where)
                    elif n == 'transpose_one':
                        T[name]['mut_transpose'] = parse_transpose(b, where)
                    elif n == 'len':
                        T[name]['len'] = ' '.join(tv(b))
                    else:
                        raise TranslateError('%s: unexpected fn' % where)
                elif key == 'imm':
                    if n == 'transpose_one':
                        T[name]['imm_transpose'] = parse_transpose(b, where)
                    else:
                        raise TranslateError('%s: unexpected fn' % where)
                elif key == 'slippi':
                    if n == 'write':
                        T[name]['write'] = parse_instrs(b, 'write', where)
                    elif n == 'size':
                        T[name]['size'] = parse_instrs(b, 'size', where)
                    else:
                        raise TranslateError('%s: unexpected fn' % where)
                elif key == 'peppi':
                    if n == 'data_type':
                        sts = split_stmts(b)
                        # let mut fields = vec![]; { ... }; DataType::Struct(fields)
                        if ' '.join(tv(sts[0])) != 'let mut fields = vec ! [ ]' or ' '.join(tv(sts[-1])) != 'DataType :: Struct ( fields )':
                            raise TranslateError('%s: unexpected shape' % where)
                        inner = []
                        for st in sts[1:-1]:
                            if st[0][1] == '{':
                                inner.extend(st[1:match_close(st, 0)])
                            else:
                                inner.extend(st + [('punct', ';')])
                        T[name]['data_type'] = parse_instrs(inner, 'data_type', where)
                    elif n == 'into_struct_array':
                        sts = split_stmts(b)
                        if ' '.join(tv(sts[0])) != 'let mut values = vec ! [ ]':
                            raise TranslateError('%s: unexpected first statement' % where)
                        last = sj(sts[-1])
                        m = re.fullmatch(r'StructArray :: new \( Self :: data_type \( version \) , values , (self \. validity|None) \)', last)
                        if not m:
                            raise TranslateError('%s: unexpected last statement %s' % (where, last))
                        mid = []
                        for st in sts[1:-1]:
                            mid.extend(st + [('punct', ';')])
                        T[name]['into_struct_array'] = parse_instrs(mid, 'into_struct_array', where)
                        T[name]['into_validity'] = (m.group(1) != 'None')
                    elif n == 'from_struct_array':
                        T[name]['from_struct_array'] = parse_from_struct_array(b, where)
                    else:
                        raise TranslateError('%s: unexpected fn' % where)
    # struct declarations
    for name in GEN_STRUCTS:
        T[name]['mut_decl'] = parse_struct_decl(toks['mutable'], name, files['mutable'])
        T[name]['imm_decl'] = parse_struct_decl(toks['imm'], name, files['imm'])
        T[name]['tr_decl'] = parse_struct_decl(toks['transpose'], name, files['transpose'])
    need = ['with_capacity', 'push_null', 'read_push', 'mut_transpose', 'imm_transpose', 'from_mutable', 'write', 'size',
            'data_type', 'into_struct_array', 'from_struct_array']
    for name in GEN_STRUCTS:
        for k in need:
            if k not in T[name]:
                raise TranslateError('generated code: %s::%s not found' % (name, k))
    return T


def frames_json():
    return json.loads(read('gen/resources/frames.json'))


def emit_tables(T):
    L = []
    L.append('(* GENERATED by tools/rust2coq.py from src/frame/{mutable.rs,immutable/{mod,slippi,peppi}.rs,transpose.rs}')
    L.append('   and gen/resources/frames.json -- do not edit. *)')
    L.append('From Coq Require Import NArith Bool List String.')
    L.append('From Peppi Require Import Layout.Syntax.')
    L.append('Import ListNotations.')
    L.append('Local Open Scope string_scope.')
    L.append('Local Open Scope N_scope.')
    L.append('')

    def deftab(coqname, kind):
        L.append('Definition %s : table := [' % coqname)
        rows = []
        for s in GEN_STRUCTS:
            rows.append('  (%s, %s)' % (coq_str(s), instr_coq(T[s][kind])))
        L.append(';\n'.join(rows))
        L.append('].')
        L.append('')

    deftab('tbl_read_push', 'read_push')
    deftab('tbl_push_null', 'push_null')
    deftab('tbl_write', 'write')
    deftab('tbl_size', 'size')
    deftab('tbl_data_type', 'data_type')
    deftab('tbl_into_struct_array', 'into_struct_array')

    def gate(g):
        return 'None' if g is None else '(Some (%d, %d))' % g

    L.append('Definition tbl_with_capacity : list (string * list wc_field) := [')
    rows = []
    for s in GEN_STRUCTS:
        fs = []
        for (n, k, ty, g) in T[s]['with_capacity']:
            if k == 'prim':
                fs.append('WcPrim %s %s %s' % (coq_str(n), PRIM_COQ[ty], gate(g)))
            elif k == 'sub':
                fs.append('WcSub %s %s %s' % (coq_str(n), coq_str(ty), gate(g)))
            elif k == 'validity_none':
                fs.append('WcValidityNone')
            elif k == 'validity_lt':
                fs.append('WcValidityLt %d %d' % g)
        rows.append('  (%s, [%s])' % (coq_str(s), '; '.join(fs)))
    L.append(';\n'.join(rows))
    L.append('].')
    L.append('')

    def deftr(coqname, kind):
        L.append('Definition %s : list (string * list tr_field) := [' % coqname)
        rows = []
        for s in GEN_STRUCTS:
            fs = ['TrF %s %s %s %s' % (coq_str(t), coq_str(src), 'TrVal' if k == 'val' else 'TrSub', 'true' if o else 'false')
                  for (t, src, k, o) in T[s][kind]]
            rows.append('  (%s, [%s])' % (coq_str(s), '; '.join(fs)))
        L.append(';\n'.join(rows))
        L.append('].')
        L.append('')

    deftr('tbl_mut_transpose', 'mut_transpose')
    deftr('tbl_imm_transpose', 'imm_transpose')

    L.append('Definition tbl_from_mutable : list (string * list (string * string * bool)) := [')
    rows = []
    for s in GEN_STRUCTS:
        fs = ['(%s, %s, %s)' % (coq_str(t), coq_str(src), 'true' if k == 'opt' else 'false') for (t, src, k) in T[s]['from_mutable']]
        rows.append('  (%s, [%s])' % (coq_str(s), '; '.join(fs)))
    L.append(';\n'.join(rows))
    L.append('].')
    L.append('')

    L.append('Definition tbl_from_struct_array : list (string * list fsa_field) := [')
    rows = []
    for s in GEN_STRUCTS:
        fs = []
        for (n, idx, k, ty, o) in T[s]['from_struct_array']:
            if k == 'prim':
                fs.append('FsaPrim %s %d %s %s' % (coq_str(n), idx, PRIM_COQ[ty], 'true' if o else 'false'))
            elif k == 'sub':
                fs.append('FsaSub %s %d %s %s' % (coq_str(n), idx, coq_str(ty), 'true' if o else 'false'))
            else:
                fs.append('FsaValidity')
        rows.append('  (%s, [%s])' % (coq_str(s), '; '.join(fs)))
    L.append(';\n'.join(rows))
    L.append('].')
    L.append('')
    L.append('Definition tbl_into_validity : list (string * bool) := [%s].' % '; '.join(
        '(%s, %s)' % (coq_str(s), 'true' if T[s]['into_validity'] else 'false') for s in GEN_STRUCTS))
    L.append('')

    # struct declarations: (field, elem kind, optional)
    def decl(coqname, key, prim_re, sub_re):
        L.append('Definition %s : list (string * list decl_field) := [' % coqname)
        rows = []
        for s in GEN_STRUCTS:
            fs = []
            for (n, ty) in T[s][key]:
                opt = False
                t = ty
                m = re.fullmatch(r'Option < (.*) >', t)
                if m:
                    opt = True
                    t = m.group(1)
                m = re.fullmatch(prim_re, t)
                if m:
                    fs.append('DPrim %s %s %s' % (coq_str(n), PRIM_COQ[m.group(1)], 'true' if opt else 'false'))
                    continue
                if t in ('MutableBitmap', 'Bitmap'):
                    fs.append('DValidity %s' % ('true' if opt else 'false'))
                    continue
                m = re.fullmatch(sub_re, t)
                if m and m.group(1) in GEN_STRUCTS:
                    fs.append('DSub %s %s %s' % (coq_str(n), coq_str(m.group(1)), 'true' if opt else 'false'))
                    continue
                raise TranslateError('struct %s (%s): unrecognised field type %s: %s' % (s, key, n, ty))
            rows.append('  (%s, [%s])' % (coq_str(s), '; '.join(fs)))
        L.append(';\n'.join(rows))
        L.append('].')
        L.append('')

    decl('tbl_mut_decl', 'mut_decl', r'MutablePrimitiveArray < (\w+) >', r'(\w+)')
    decl('tbl_imm_decl', 'imm_decl', r'PrimitiveArray < (\w+) >', r'(\w+)')
    decl('tbl_tr_decl', 'tr_decl', r'(u8|i8|u16|i16|u32|i32|f32)', r'(\w+)')

    # frames.json: third, redundant view
    fj = frames_json()
    L.append('Definition tbl_frames_json : list (string * list fj_field) := [')
    rows = []
    for s in GEN_STRUCTS:
        if s not in fj:
            raise TranslateError('frames.json: struct %s missing' % s)
        fs = []
        for idx, f in enumerate(fj[s]['fields']):
            n = f.get('name', str(idx))
            ty = f['type']
            ver = f.get('version')
            if ver is not None:
                mm = re.fullmatch(r'(\d+)\.(\d+)', ver)
                if not mm:
                    raise TranslateError('frames.json: %s.%s has a malformed version %r' % (s, n, ver))
            g = 'None' if ver is None else '(Some (%d, %d))' % (int(mm.group(1)), int(mm.group(2)))
            if ty in PRIMS:
                fs.append('FjPrim %s %s %s' % (coq_str(n), PRIM_COQ[ty], g))
            else:
                fs.append('FjSub %s %s %s' % (coq_str(n), coq_str(ty), g))
        rows.append('  (%s, [%s])' % (coq_str(s), '; '.join(fs)))
    L.append(';\n'.join(rows))
    L.append('].')
    return '\n'.join(L) + '\n'


def write_if_changed(path, content):
    os.makedirs(os.path.dirname(path), exist_ok=True)
    try:
        with open(path) as f:
            if f.read() == content:
                return False
    except FileNotFoundError:
        pass
    with open(path, 'w') as f:
        f.write(content)
    return True


def main():
    report = {'repo': REPO, 'files': [], 'changed': [], 'errors': []}
    ok = True
    for name, gen in (('Funs.v', gen_funs), ('Tables.v', lambda: emit_tables(gen_tables()))):
        try:
            content = gen()
            if write_if_changed(os.path.join(OUT, name), content):
                report['changed'].append(name)
            report['files'].append(name)
        except TranslateError as e:
            ok = False
            report['errors'].append({'file': name, 'error': str(e)})
            # never keep a stale table: replace it by a file that fails to compile with the message
            write_if_changed(os.path.join(OUT, name),
                             '(* rust2coq FAILED: %s *)\nFail Definition translator_failed := 0.\nDefinition translator_failed : False := I.\n' % str(e).replace('*)', '* )'))
    print(json.dumps(report))
    sys.exit(0 if ok else 3)


if __name__ == '__main__':
    main()
