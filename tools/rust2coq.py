#!/usr/bin/env python3
"""rust2coq: regenerate the T-gen part of the Coq model from /repo's current sources.

Front ends (DESIGN.md section 4):
  (a) generated-code front end: the per-struct functions of src/frame/{mutable.rs,immutable/*.rs}
      -> syntax tables (Gen/Tables.v);
  (b) expression front end: small pure functions and constants -> Gallina definitions (Gen/Funs.v);
  (c) read-layout front end: the sequential cursor reads of game_start / player / game_end in
      src/io/slippi/de.rs -> (name, offset, width) tables (Gen/Layouts.v), checked against the hand model
      Model/Start.v by Proofs/StartLayout.v;
  (d) writer-table front end: the `sizes.push` tree of payload_sizes (src/io/slippi/ser.rs) -> Gen/WriterSizes.v
      (checked against Model/Writer.v by Proofs/WriterLayout.v); the tar_append sequence of src/io/peppi/ser.rs
      fn write and the file-name match of src/io/peppi/de.rs fn read -> Gen/SlppEntries.v (checked against
      Model/Slpp.v by Proofs/SlppLayout.v);
  (e) frame-write front end: Frame::write, PortData/Data::write_pre/post (src/frame/immutable/slippi.rs) ->
      Gen/FrameWrite.v (Proofs/FrameWriteLayout.v);
  (f) message-splitter front end: handle_splitter_event (de.rs) and gecko_codes (ser.rs) -> Gen/Splitter.v
      (Proofs/SplitterLayout.v);
  (g) read()-tail front end: skip-frames arithmetic, loop condition, frame_close gate, duplicate Game End, metadata
      dispatch of src/io/slippi/de.rs fn read, through the expression front end -> Gen/ReadTail.v (Proofs/ReadLayout.v);
  (h) UBJSON marker front end: src/io/ubjson/{de,ser}.rs -> Gen/UbjsonMarkers.v (Proofs/UbjsonLayout.v);
  (i) writer front end, second part: PayloadSizes::raw_size, frame_counts, gecko_codes_size -> Gen/WriterRaw.v
      (Proofs/WriterRawLayout.v); the statement sequence of slippi::write -> Gen/WriterSteps.v (Proofs/WriterStepsLayout.v);
  (j) event-handler front end: the arms of parse_event and the impl ParseState helpers (src/io/slippi/de.rs) ->
      Gen/ParseEvent.v (Proofs/ParseLayout.v);
  (k) Arrow-glue front end: Data / PortData / Frame :: {data_type, into_struct_array, from_struct_array} of the hand-written
      head of src/frame/immutable/peppi.rs (children in push order with their version gates, the reader's field-name
      assertions and positional indices) -> Gen/ArrowFrame.v (Proofs/ArrowFrameLayout.v);
  (l) frame-level transpose front end: the hand-written Frame / PortData / Data :: transpose_one of
      src/frame/immutable/mod.rs and src/frame/mutable.rs -> Gen/FrameTranspose.v (Proofs/FrameTransposeLayout.v);
  (m) reader-prologue front end: parse_header, parse_payloads, parse_game_start (src/io/slippi/de.rs) through the expression
      front end -> Gen/ReadPrologue.v (Proofs/ReadPrologueLayout.v);
  (n) .slpp helper front end: read_peppi_gecko_codes / read_peppi_metadata / read_peppi_start / read_peppi_end and the arms of
      fn read that call them (src/io/peppi/de.rs), the gecko_codes.raw block of src/io/peppi/ser.rs fn write ->
      Gen/SlppHelpers.v (Proofs/SlppHelpersLayout.v);
  (o) rollback-marking front end: Frame::rollbacks / rollbacks_ (src/frame/immutable/mod.rs): iteration order per variant,
      initial values, the checked index expressions (i64 over Z), the loop body as a decision table -> Gen/RollbacksSrc.v
      (Proofs/RollbacksLayout.v);
  (p) version-text front end: impl fmt::Display / str::FromStr for Version (src/io/slippi/mod.rs, src/io/peppi/mod.rs) and
      fn parse_u8 (src/io/mod.rs) -> Gen/VersionTextSrc.v (Proofs/VersionTextLayout.v);
  (q) MeleeString front end: impl TryFrom<&[u8]> for MeleeString, to_normalized (src/game/shift_jis.rs) and the
      MeleeString::try_from call sites of fn player (src/io/slippi/de.rs) -> Gen/MeleeStringSrc.v (Proofs/MeleeStringLayout.v);
  (r) hashing front end: struct HashingReader and its impls, fn format_hash (src/io/mod.rs), the option / hashing lines of
      fn read (src/io/slippi/de.rs) -> Gen/HashingSrc.v (Proofs/HashingLayout.v);
  (s) port-occupancy front end: fn port_occupancy (src/game/mod.rs) -> Gen/PortOccupancySrc.v (Proofs/PortOccupancyLayout.v);
  (t) Game Start -> player wiring front end: the statement of fn game_start (src/io/slippi/de.rs) that calls `player(..)`: the port
      range, the block / component / index passed for every parameter, the collecting adaptor chain (any chain in which an Err or a
      player can disappear is rejected) -> Gen/StartWiring.v (Proofs/StartWiringLayout.v);
  (u) JSON-shape front end: the `#[derive(Serialize)]` declarations reachable from game::Start / game::End (src/game/mod.rs,
      src/io/slippi/mod.rs, src/game/shift_jis.rs): keys in order, serde attributes, field kinds, unit enums -> Gen/JsonShape.v
      (Proofs/JsonShapeLayout.v);
  (v) UBJSON body front end: width / signedness / byte order of every read and write of src/io/ubjson/{de,ser}.rs, the steps of
      to_utf8, the depth guard and the depths passed around, the writer's length prefix and integer conversion ->
      Gen/UbjsonBodies.v (Proofs/UbjsonBodiesLayout.v);
  (w) tar-entry front end: the statements of fn tar_append and the closing statement of fn write (src/io/peppi/ser.rs) ->
      Gen/TarSrc.v (Proofs/TarLayout.v);
  (x) .slpp writer-content front end: the content expression of every tar_append of fn write (src/io/peppi/ser.rs) in a normal form
      (JSON of a struct literal / of a value as is, raw bytes, the prefixed gecko buffer, the Arrow file buffer with its schema, chunk,
      writer options and calls), the first statement, struct Peppi / Version / Quirks / Game -> Gen/SlppWriteSrc.v (Proofs/SlppWriteLayout.v);
  (y) .slpp reader-assembly front end: the accumulators of fn read (src/io/peppi/de.rs), the statements of the frames.arrow arm (both
      branches of the skip_frames test), which accumulators are required / optional in the final Game literal; (z) fn read_arrow_frames:
      magic bytes, prologue, the action on each stream item and after the loop -> Gen/SlppReadSrc.v (Proofs/SlppReadLayout.v);
  (aa) .slpp option defaults: struct Opts of ser.rs / de.rs, their Default, the one use of `opts` in fn write / fn read ->
      Gen/SlppOptsSrc.v (Proofs/SlppOptsLayout.v).

Anything it does not recognise is a loud failure (exit 3, message naming file/item/token): the checks then
treat every property that depends on the tables as "tie broken" and go searching for a failing input.
Output files are only rewritten when their content changes.

Harmless refactorings of the Rust text are absorbed by a normalisation pre-pass in front of all front ends (section
"normalisation pre-pass" below): local binder names and `1 + x` / `x + 1` are canonicalised always; integer literal spelling,
literal-only arithmetic, a single-use private integer const, `!v.gte(a, b)`, `x.map(f).unwrap_or(d)`, `match e { Some(p) => .., None => {} }`,
a single-use `let` of a pure expression, a single-use private helper fn, a `for`/push loop that is a map/collect, and one kind of
statement exchange are rewritten only to re-try a front end that failed.  Every rewrite is an equivalence of Rust programs;
tools/selftest/benign_check.py reports which of the benign patches under tools/selftest/benign still disturb a table.
`rust2coq.py --dump-binders` prints the two reference tables (EXPECTED_BINDERS, EXPECTED_SUMS) for the sources under $PEPPI_REPO.
"""
import os, re, sys, json

REPO = os.environ.get('PEPPI_REPO', '/repo')
OUT = os.path.join(os.path.dirname(os.path.dirname(os.path.abspath(__file__))), 'coq', 'theories', 'Gen')


class TranslateError(Exception):
    pass


# ------------------------------------------------------------------------------------------------
# tokenizer

TOKEN_RE = re.compile(r'''
    (?P<ws>\s+)
  | (?P<lcomment>//[^\n]*)
  | (?P<bcomment>/\*.*?\*/)
  | (?P<str>b?"(?:[^"\\]|\\.)*")
  | (?P<char>b?'(?:[^'\\]|\\.)')
  | (?P<lifetime>'[A-Za-z_][A-Za-z0-9_]*)
  | (?P<num>0x[0-9a-fA-F_]+(?:[iu](?:8|16|32|64|size))?|[0-9][0-9_]*(?:\.[0-9]+)?(?:[iuf](?:8|16|32|64|size))?)
  | (?P<id>r\#[A-Za-z_][A-Za-z0-9_]*|[A-Za-z_][A-Za-z0-9_]*)
  | (?P<punct>\.\.=|\.\.\.|::|->|=>|==|!=|<=|>=|&&|\|\||\+=|-=|\*=|\.\.|[{}()\[\];,.:<>=+\-*/%!&|?#@^~$])
''', re.S | re.X)


def tokenize(src, fname='?'):
    toks = []
    pos = 0
    while pos < len(src):
        m = TOKEN_RE.match(src, pos)
        if not m:
            raise TranslateError('%s: cannot tokenize at %r' % (fname, src[pos:pos + 30]))
        k = m.lastgroup
        if k not in ('ws', 'lcomment', 'bcomment'):
            toks.append((k, m.group(k)))
        pos = m.end()
    return toks


def match_close(toks, i):
    """toks[i] is an opening bracket; return index of the matching close"""
    op = toks[i][1]
    cl = {'{': '}', '(': ')', '[': ']'}[op]
    d = 0
    j = i
    while j < len(toks):
        t = toks[j][1]
        if toks[j][0] == 'punct':
            if t == op:
                d += 1
            elif t == cl:
                d -= 1
                if d == 0:
                    return j
        j += 1
    raise TranslateError('unbalanced %s' % op)


def tv(toks):
    return [t[1] for t in toks]


def sj(toks):
    """statement text with single spaces between tokens; rustfmt's trailing commas before a closing bracket dropped"""
    s = ' '.join(t[1] for t in toks)
    return re.sub(r' , (\)|\]|\})', r' \1', s)


def find_seq(toks, seq, start=0):
    vals = tv(toks)
    n = len(seq)
    for i in range(start, len(vals) - n + 1):
        if vals[i:i + n] == seq:
            return i
    return -1


def impl_blocks(toks):
    """yield (kind, name, from_name, body_tokens): kind 'impl' | 'from'"""
    i = 0
    vals = tv(toks)
    while i < len(vals):
        if vals[i] == 'impl' and toks[i][0] == 'id':
            # impl [<..>] Path [for Type] {
            j = i + 1
            hdr = []
            while vals[j] != '{':
                hdr.append(vals[j])
                j += 1
            e = match_close(toks, j)
            h = ' '.join(hdr)
            m = re.fullmatch(r'From < mutable :: (\w+) > for (\w+)', h)
            if m:
                yield ('from', m.group(2), m.group(1), toks[j + 1:e])
            else:
                m2 = re.fullmatch(r'(\w+)', h)
                if m2:
                    yield ('impl', m2.group(1), None, toks[j + 1:e])
                else:
                    yield ('other', h, None, toks[j + 1:e])
            i = e + 1
        else:
            i += 1


def fns_in(body):
    """yield (name, params_tokens, ret_tokens, body_tokens) for each fn directly in an impl body"""
    i = 0
    vals = tv(body)
    while i < len(vals):
        if vals[i] == 'fn' and body[i][0] == 'id':
            name = vals[i + 1]
            j = i + 2
            if vals[j] == '<':
                d = 0
                while True:
                    if vals[j] == '<':
                        d += 1
                    elif vals[j] == '>':
                        d -= 1
                        if d == 0:
                            break
                    j += 1
                j += 1
            assert vals[j] == '(', (name, vals[j])
            pe = match_close(body, j)
            params = body[j + 1:pe]
            k = pe + 1
            ret = []
            while vals[k] != '{':
                ret.append(body[k])
                k += 1
            be = match_close(body, k)
            yield (name, params, ret, body[k + 1:be])
            i = be + 1
        elif vals[i] == '{':
            i = match_close(body, i) + 1
        else:
            i += 1


def read(rel):
    p = os.path.join(REPO, rel)
    with open(p) as f:
        return f.read()


# ------------------------------------------------------------------------------------------------
# normalisation pre-pass: the front ends never tokenize a Rust file themselves, they ask file_toks(rel).
#
# Every front end recognises a fixed set of statement shapes; a behaviour-PRESERVING edit of the Rust text must not look like a
# behaviour change.  Two mechanisms, both of which only ever replace the program by an EQUIVALENT program (so whatever a front
# end then reads off the text is true of the source as written):
#
#   (1) always on -- canonicalisation against two small tables recorded from the reference sources (`--dump-binders`):
#       alpha_canon: the names of local binders (parameters, `let`, closure parameters, `for`, match-arm / `if let` bindings) carry
#       no meaning in Rust, but the matchers below are written against the names of the sources they were developed on.
#       EXPECTED_BINDERS records, per function, the binder names in source order; where the binder list of the current source
#       differs from it in a run of the same length, the binders of that run are renamed back BY POSITION, each within its own
#       scope and only when the new name is fresh there (does not occur in the scope in a variable position, is not captured by a
#       format string) -- the textbook condition under which alpha-renaming preserves meaning -- and not against the role the
#       source gives the local (a local that initialises struct field F is never renamed to another known name than F).  Field
#       names, functions, constants, types and macro names are never touched.  A renaming that is not possible is simply not
#       done; the front end then sees the source as it is.
#       sum_canon: `1 + x` / `x + 1` (EXPECTED_SUMS: which way round each such sum is written, per function).
#   (2) only when a front end FAILED on the source as it is -- structural rewrites (NORM_PASSES), each a real equivalence of Rust
#       programs under the side conditions stated at its definition.  main() re-runs the failed front end on variants of the
#       files it read: first every single rewrite site on its own, then each pass at all its sites, then all passes together;
#       the first variant the front end accepts is used, and if none is, the ORIGINAL failure is reported.  A front end that
#       accepts the source as it is never sees a structural rewrite, so every table that was generated before is generated unchanged.

NORM_LEVEL = ()          # the structural passes currently enabled (a tuple of names from NORM_PASSES)
_FILE_CACHE = {}
_READ_LOG = set()        # the .rs files asked for since the log was last cleared (main() uses it to skip useless retries)
KEYWORDS = frozenset('as break const continue crate else enum extern false fn for if impl in let loop match mod move mut pub ref return '
                     'self Self static struct super trait true type unsafe use where while async await dyn box'.split())
INT_TYPES_ALL = ('u8', 'u16', 'u32', 'u64', 'u128', 'usize', 'i8', 'i16', 'i32', 'i64', 'i128', 'isize')


_RAW_CACHE = {}


def raw_toks(rel):
    if rel not in _RAW_CACHE:
        _RAW_CACHE[rel] = tokenize(read(rel), rel)
    return list(_RAW_CACHE[rel])


def file_toks(rel):
    """the token list of a Rust source file of the crate, after the normalisation pre-pass"""
    _READ_LOG.add(rel)
    level = tuple(x for x in NORM_LEVEL if not isinstance(x, tuple) or x[1] == rel)
    key = (rel, level)
    if key not in _FILE_CACHE:
        _FILE_CACHE[key] = normalise(raw_toks(rel), rel, level)
    return list(_FILE_CACHE[key])


def normalise(toks, rel, level):
    """level: pass names (the pass at every site of every file) and / or (pass name, file, k) (only at the k-th site of that file)"""
    for name, site in NORM_PASSES:
        for item in level:
            try:
                if item == name:
                    toks, _ = apply_pass(site, toks, rel)
                elif isinstance(item, tuple) and item[0] == name and item[1] == rel:
                    toks, _ = apply_pass(site, toks, rel, pick=item[2])
            except TranslateError:
                raise
            except Exception:          # a pass that trips over an unforeseen shape rewrites nothing
                pass
    for canon in (alpha_canon, sum_canon):
        try:
            toks = canon(toks, rel)
        except TranslateError:
            raise
        except Exception:
            pass
    return toks


def P_(v):
    return ('punct', v)


def I_(v):
    return ('id', v)


def bracket_maps(toks):
    """-> (partner index of every bracket, index of the enclosing opening bracket (or -1) of every token)"""
    st = []
    match = {}
    parent = [-1] * len(toks)
    for i, (k, v) in enumerate(toks):
        if k == 'punct' and v in ('(', '[', '{'):
            parent[i] = st[-1] if st else -1
            st.append(i)
        elif k == 'punct' and v in (')', ']', '}'):
            if st:
                o = st.pop()
                match[o] = i
                match[i] = o
            parent[i] = st[-1] if st else -1
        else:
            parent[i] = st[-1] if st else -1
    return match, parent


def skip_angle(toks, i, match):
    """toks[i] is `<` opening generic arguments: index just after the matching `>`"""
    d = 0
    j = i
    while j < len(toks):
        t = toks[j]
        if t == P_('<'):
            d += 1
        elif t == P_('>'):
            d -= 1
            if d == 0:
                return j + 1
        elif t == P_('->'):
            pass
        elif t[0] == 'punct' and t[1] in ('(', '[', '{'):
            j = match.get(j, j)
        elif t[0] == 'punct' and t[1] in (';', ')', ']', '}'):
            return i + 1          # not a generic argument list after all
        j += 1
    return i + 1


def top_find(toks, lo, hi, vals, match, kinds=('punct',)):
    """index of the first token in [lo, hi) at bracket depth 0 whose text is in vals (turbofish `::<..>` skipped), or -1"""
    i = lo
    while i < hi:
        k, v = toks[i]
        if k in kinds and v in vals:
            return i
        if k == 'punct':
            if v in ('(', '[', '{'):
                i = match.get(i, hi) + 1
                continue
            if v == '::' and i + 1 < hi and toks[i + 1] == P_('<'):
                i = skip_angle(toks, i + 1, match)
                continue
        i += 1
    return -1


def top_split(toks, lo, hi, sep, match):
    """[lo, hi) split at depth-0 `sep`, closure parameter lists and turbofish skipped; -> list of (lo, hi), empty last segment dropped"""
    out = []
    s = i = lo
    while i < hi:
        k, v = toks[i]
        if k == 'punct':
            if v in ('(', '[', '{'):
                i = match.get(i, hi) + 1
                continue
            if v == '::' and i + 1 < hi and toks[i + 1] == P_('<'):
                i = skip_angle(toks, i + 1, match)
                continue
            if v == '|' and is_closure_open(toks, i):
                j = closure_params_end(toks, i, hi, match)
                if j > 0:
                    i = j + 1
                    continue
            if v == sep:
                out.append((s, i))
                s = i + 1
        i += 1
    if s < hi:
        out.append((s, hi))
    return out


def is_operand_end(tok):
    k, v = tok
    if k in ('num', 'str', 'char'):
        return True
    if k == 'id':
        return v not in KEYWORDS or v in ('self', 'Self', 'true', 'false')
    return k == 'punct' and v in (')', ']', '}', '?', '>')


def is_closure_open(toks, i):
    """toks[i] is `|`: does it open a closure parameter list (as opposed to a binary `|` / an or-pattern)?"""
    if i == 0:
        return True
    return not is_operand_end(toks[i - 1])


def closure_params_end(toks, i, hi, match):
    """toks[i] is `|` opening closure parameters: index of the closing `|`, or -1"""
    j = i + 1
    while j < hi:
        t = toks[j]
        if t == P_('|'):
            return j
        if t[0] == 'punct' and t[1] in ('(', '[', '{'):
            j = match.get(j, hi)
        elif t[0] == 'punct' and t[1] in (';', ')', ']', '}'):
            return -1
        j += 1
    return -1


def expr_end(toks, i, hi, match):
    """the expression starting at i extends to (exclusive) the first depth-0 `,` / `;` / closing bracket"""
    j = i
    while j < hi:
        k, v = toks[j]
        if k == 'punct':
            if v in ('(', '[', '{'):
                j = match.get(j, hi) + 1
                continue
            if v == '::' and j + 1 < hi and toks[j + 1] == P_('<'):
                j = skip_angle(toks, j + 1, match)
                continue
            if v in (',', ';', ')', ']', '}'):
                return j
        j += 1
    return hi


def header_kw(toks, b, parent):
    """toks[b] is `{`: the keyword (if / while / match / for / else / loop / unsafe / fn ..) whose block it is, or None when the
    brace follows a path (a struct literal or struct pattern) or stands alone"""
    if b == 0:
        return None
    p = toks[b - 1]
    if p[0] == 'id' and p[1] in ('else', 'loop', 'unsafe', 'move', 'async'):
        return p[1]
    if p[0] == 'punct' and p[1] in ('=>', '=', ';', '{', '}', '(', ',', '[', '|', '||'):
        return 'block'
    # walk back over the tokens of the same nesting level up to the start of the statement
    j = b - 1
    lvl = parent[b]
    while j >= 0:
        k, v = toks[j]
        if parent[j] == lvl:
            if k == 'punct' and v in (';', '{', '}', '=>'):
                break
            if k == 'id' and v in ('if', 'while', 'match', 'for', 'fn', 'impl', 'struct', 'enum', 'trait', 'mod', 'union', 'loop'):
                return v
        elif j == lvl:
            break
        j -= 1
    return None


def is_struct_brace(toks, b, parent):
    """toks[b] is `{`: the braces of a struct literal / struct pattern?"""
    if b <= 0 or toks[b] != P_('{'):
        return False
    p = toks[b - 1]
    if not (p[0] == 'id' and p[1] not in KEYWORDS or p == I_('Self') or p == P_('>')):
        return False
    if p[0] == 'id' and not (p[1][:1].isupper()):
        return False
    return header_kw(toks, b, parent) is None


def is_var_pos(toks, k, parent):
    """is the identifier token k in a position where it can denote a local variable?  -> False | 'var' | 'shorthand'
    (a `{ name, .. }` field of a struct literal / pattern, which is both the field name and the variable)"""
    prv = toks[k - 1] if k > 0 else ('', '')
    nxt = toks[k + 1] if k + 1 < len(toks) else ('', '')
    if prv in (P_('.'), P_('::')) or nxt == P_('::'):
        return False
    if nxt == P_('!') and k + 2 < len(toks) and toks[k + 2][0] == 'punct' and toks[k + 2][1] in ('(', '[', '{'):
        return False          # macro name
    if prv[0] == 'lifetime' or prv in (I_('fn'), I_('struct'), I_('enum'), I_('mod'), I_('use'), I_('type'), I_('trait'), I_('const'), I_('static')):
        return False
    enc = parent[k]
    in_struct = enc >= 0 and toks[enc] == P_('{') and is_struct_brace(toks, enc, parent)
    if in_struct and prv in (P_('{'), P_(',')):
        if nxt == P_(':'):
            return False      # field name
        if nxt in (P_(','), P_('}')):
            return 'shorthand'
    return 'var'


# ---- functions and their binders

def fn_items(toks, match=None, parent=None):
    """every `fn name(..) [-> T] { .. }` of the file, at any depth: dicts with key, name, owner, fn (index of `fn`),
    params (lo, hi), ret (lo, hi), body (lo, hi) -- index ranges without the brackets"""
    if match is None:
        match, parent = bracket_maps(toks)
    out = []
    seen = {}
    for i, t in enumerate(toks):
        if t != I_('fn') or i + 2 >= len(toks) or toks[i + 1][0] != 'id':
            continue
        j = i + 2
        if toks[j] == P_('<'):
            j = skip_angle(toks, j, match)
        if j >= len(toks) or toks[j] != P_('(') or j not in match:
            continue
        pe = match[j]
        b = pe + 1
        while b < len(toks) and toks[b] not in (P_('{'), P_(';')):
            if toks[b][0] == 'punct' and toks[b][1] in ('(', '['):
                b = match.get(b, b)
            b += 1
        if b >= len(toks) or toks[b] != P_('{') or b not in match:
            continue
        owner = ''
        enc = parent[i]
        if enc >= 0 and toks[enc] == P_('{'):
            h = enc - 1
            while h >= 0 and not (parent[h] == parent[enc] and toks[h][0] == 'punct' and toks[h][1] in (';', '}', '{')) and h != parent[enc]:
                h -= 1
            hdr = [x for x in toks[h + 1:enc]]
            hv = tv(hdr)
            if 'impl' in hv:
                owner = ' '.join(hv[hv.index('impl') + 1:])
            elif 'fn' in hv:
                owner = 'fn ' + hv[hv.index('fn') + 1]
        key = '%s|%s' % (owner, toks[i + 1][1])
        n = seen.get(key, 0)
        seen[key] = n + 1
        if n:
            key += '#%d' % n
        pub = i > 0 and (toks[i - 1] == I_('pub') or (toks[i - 1] == P_(')') and match.get(i - 1, 0) > 0 and toks[match[i - 1] - 1] == I_('pub')))
        out.append({'key': key, 'name': toks[i + 1][1], 'owner': owner, 'fn': i, 'params': (j + 1, pe), 'ret': (pe + 1, b),
                    'body': (b + 1, match[b]), 'pub': pub, 'generic': toks[i + 2] == P_('<')})
    return out


BINDER_RE = re.compile(r'(?:r#)?[a-z_][a-z0-9_]*$')


def pat_binders(toks, lo, hi, parent):
    """indices of the identifiers that a pattern in [lo, hi) binds"""
    out = []
    for i in range(lo, hi):
        k, v = toks[i]
        if k != 'id' or v == '_' or v in KEYWORDS or not BINDER_RE.match(v):
            continue
        nxt = toks[i + 1] if i + 1 < len(toks) else ('', '')
        prv = toks[i - 1] if i > 0 else ('', '')
        if nxt[0] == 'punct' and nxt[1] in ('::', '(', '{', '!') and i + 1 < hi:
            continue
        if prv in (P_('::'), P_('.')):
            continue
        if nxt == P_(':') and i + 1 < hi:
            continue          # the field name of a struct pattern
        out.append(i)
    return out


def fn_binders(toks, f, match, parent):
    """the binders of a function in source order: (index of the identifier, name, scope lo, scope hi, check lo) --
    the name is visible in [scope lo, scope hi); [check lo, scope hi) is where a new name has to be fresh"""
    out = []
    lo, hi = f['params']
    blo, bhi = f['body']
    for (a, b) in top_split_params(toks, lo, hi, match):
        c = top_find(toks, a, b, (':',), match)
        for i in pat_binders(toks, a, c if c >= 0 else b, parent):
            out.append((i, toks[i][1], blo, bhi, blo))
    i = blo
    while i < bhi:
        t = toks[i]
        if t == I_('let'):
            prv = toks[i - 1] if i > 0 else ('', '')
            e = top_find(toks, i + 1, bhi, (':', '=', ';'), match)
            if e < 0:
                i += 1
                continue
            if prv in (I_('if'), I_('while'), P_('&&')):
                eq = e if toks[e] == P_('=') else top_find(toks, e, bhi, ('=',), match)
                b = eq + 1
                while 0 <= eq and b < bhi and toks[b] != P_('{'):
                    if toks[b][0] == 'punct' and toks[b][1] in ('(', '['):
                        b = match.get(b, b)
                    b += 1
                if eq >= 0 and b < bhi and b in match:
                    for x in pat_binders(toks, i + 1, e, parent):
                        out.append((x, toks[x][1], b + 1, match[b], b + 1))
            else:
                end = top_find(toks, i + 1, bhi, (';',), match)
                enc = parent[i]
                shi = match[enc] if enc >= 0 and enc in match else bhi
                if end >= 0:
                    for x in pat_binders(toks, i + 1, e, parent):
                        out.append((x, toks[x][1], end + 1, shi, i))
        elif t == P_('|') and is_closure_open(toks, i):
            j = closure_params_end(toks, i, bhi, match)
            if j > 0:
                k = j + 1
                if k < bhi and toks[k] == P_('->'):
                    while k < bhi and toks[k] != P_('{'):
                        k += 1
                if k < bhi and toks[k] == P_('{') and k in match:
                    end = match[k] + 1
                else:
                    end = expr_end(toks, k, bhi, match)
                for (a, b) in top_split_params(toks, i + 1, j, match):
                    c = top_find(toks, a, b, (':',), match)
                    for x in pat_binders(toks, a, c if c >= 0 else b, parent):
                        out.append((x, toks[x][1], i, end, i))
                i = j
        elif t == I_('for') and i + 1 < bhi and toks[i + 1] != P_('<'):
            n = top_find(toks, i + 1, bhi, ('in',), match, kinds=('id',))
            if n > 0:
                b = n + 1
                while b < bhi and toks[b] != P_('{'):
                    if toks[b][0] == 'punct' and toks[b][1] in ('(', '['):
                        b = match.get(b, b)
                    b += 1
                if b < bhi and b in match:
                    for x in pat_binders(toks, i + 1, n, parent):
                        out.append((x, toks[x][1], b + 1, match[b], b + 1))
        elif t == I_('match'):
            b = i + 1
            while b < bhi and toks[b] != P_('{'):
                if toks[b][0] == 'punct' and toks[b][1] in ('(', '['):
                    b = match.get(b, b)
                b += 1
            if b < bhi and b in match:
                for arm in match_arms_at(toks, b, match):
                    for x in pat_binders(toks, arm['pat'][0], arm['pat'][1], parent):
                        out.append((x, toks[x][1], arm['pat'][1], arm['end'], arm['pat'][0]))
        i += 1
    out.sort()
    return out


def top_split_params(toks, lo, hi, match):
    """a parameter list split at depth-0 commas (generic arguments `<..>` in the types skipped)"""
    out = []
    s = i = lo
    d = 0
    while i < hi:
        k, v = toks[i]
        if k == 'punct':
            if v in ('(', '[', '{'):
                i = match.get(i, hi) + 1
                continue
            if v == '<':
                d += 1
            elif v == '>' and d > 0:
                d -= 1
            elif v == ',' and d == 0:
                if s < i:
                    out.append((s, i))
                s = i + 1
        i += 1
    if s < hi:
        out.append((s, hi))
    return out


def match_arms_at(toks, b, match):
    """toks[b] is the `{` of a match: -> arms as dicts pat (lo, hi), guard (lo, hi) | None, body (lo, hi), end, block (bool)"""
    c = match[b]
    out = []
    p = b + 1
    while p < c:
        a = top_find(toks, p, c, ('=>',), match)
        if a < 0:
            break
        g = top_find(toks, p, a, ('if',), match, kinds=('id',))
        pat = (p, g if g >= 0 else a)
        if a + 1 < c and toks[a + 1] == P_('{') and (a + 1) in match and toks[match[a + 1] + 1] not in (P_('.'), P_('?')):
            e = match[a + 1]
            body = (a + 2, e)
            end = e + 1
            block = True
        else:
            end = a + 1
            while end < c:
                k, v = toks[end]
                if k == 'punct' and v in ('(', '[', '{'):
                    end = match.get(end, c) + 1
                    continue
                if k == 'punct' and v == '|' and is_closure_open(toks, end):
                    j = closure_params_end(toks, end, c, match)
                    if j > 0:
                        end = j + 1
                        continue
                if k == 'punct' and v == ',':
                    break
                end += 1
            body = (a + 1, end)
            block = False
        out.append({'pat': pat, 'guard': (g + 1, a) if g >= 0 else None, 'body': body, 'end': end, 'block': block, 'arrow': a})
        p = end + 1 if end < c and toks[end] == P_(',') else end
    return out


def str_captures(tok, name):
    """does a string literal capture the identifier inline (`{name}` / `{name:..}`)?"""
    return tok[0] == 'str' and re.search(r'\{\s*%s\s*[:}]' % re.escape(name), tok[1]) is not None


def fields_fed(toks, k, parent):
    """the struct-literal fields in whose initialiser expression the token k stands (innermost first)"""
    out = []
    p = parent[k]
    at = k
    while p >= 0:
        if toks[p] == P_('{') and is_struct_brace(toks, p, parent):
            s = at
            while s > p + 1 and not (parent[s - 1] == p and toks[s - 1] == P_(',')):
                s -= 1
            if s + 1 < len(toks) and toks[s][0] == 'id' and toks[s + 1] == P_(':'):
                out.append(toks[s][1])
        at = p
        p = parent[p]
    return out


def rename_binder(toks, b, new, parent, known=(), bs=(), fn_hi=None):
    """alpha-rename the binder b = (index, old, scope lo, scope hi, check lo) to `new`; -> new token list, or None when the renaming
    cannot be shown to preserve meaning: `new` is not fresh in the scope, a format string captures one of the names, or `old` occurs
    after the binder but outside the computed scope where no other binder of that name (bs: all binders of the function) accounts
    for it.  It is also refused when it would contradict the role the source itself gives the local: a local that occurs in the
    initialiser of the struct-literal field F (`F: .. old ..`, or the shorthand `old`) is not renamed to another of the function's known
    names than F."""
    idx, old, slo, shi, clo = b
    if old == new or new in KEYWORDS or not BINDER_RE.match(new):
        return None
    for k in range(min(clo, idx), shi):
        t = toks[k]
        if t[0] == 'str' and (str_captures(t, old) or str_captures(t, new)):
            return None
        if t == ('id', new) and k != idx and is_var_pos(toks, k, parent):
            return None
    for k in range(idx + 1, fn_hi if fn_hi is not None else shi):
        if toks[k] != ('id', old) or slo <= k < shi or not is_var_pos(toks, k, parent):
            continue
        if not any(b2 is not b and b2[1] == old and (b2[0] == k or b2[2] <= k < b2[3]) for b2 in bs):
            return None
    sites = [idx] + [k for k in range(slo, shi) if toks[k] == ('id', old) and k != idx]
    edits = {}
    for k in sites:
        pos = is_var_pos(toks, k, parent) or ('var' if k == idx else False)
        if not pos:
            continue
        if pos == 'shorthand':
            if old in known and k != idx:
                return None          # the field `old` is initialised by this local: its role is `old`
            edits[k] = [('id', old), P_(':'), ('id', new)]
        else:
            if k != idx:
                for field in fields_fed(toks, k, parent):
                    if field != new and field in known:
                        return None          # `F: .. old ..` with F another known name
            edits[k] = [('id', new)]
    out = []
    k = 0
    n = len(toks)
    while k < n:
        if k in edits:
            # `field : old` that becomes `field : field` -> the shorthand `field`
            if edits[k] == [('id', new)] and len(out) >= 3 and out[-1] == P_(':') and out[-2] == ('id', new) and out[-3] in (P_('{'), P_(',')) \
                    and k + 1 < n and toks[k + 1] in (P_(','), P_('}')) and parent[k] >= 0 and is_struct_brace(toks, parent[k], parent):
                out.pop()
            else:
                out.extend(edits[k])
        else:
            out.append(toks[k])
        k += 1
    return out


def alpha_canon(toks, rel):
    """rename local binders back to the names recorded in EXPECTED_BINDERS (see the head of this section)"""
    exp_file = EXPECTED_BINDERS.get(rel)
    if not exp_file:
        return toks
    import difflib
    tried = set()
    for _round in range(200):
        match, parent = bracket_maps(toks)
        todo = None
        for f in fn_items(toks, match, parent):
            exp = exp_file.get(f['key'])
            if exp is None:
                continue
            exp = exp.split()
            bs = fn_binders(toks, f, match, parent)
            act = [b[1] for b in bs]
            if act == exp:
                continue
            for tag, i1, i2, j1, j2 in difflib.SequenceMatcher(None, exp, act, autojunk=False).get_opcodes():
                if tag != 'replace' or i2 - i1 != j2 - j1:
                    continue
                for d in range(i2 - i1):
                    want, b = exp[i1 + d], bs[j1 + d]
                    mark = (f['key'], j1 + d, b[1], want)
                    if b[1] == want or mark in tried:
                        continue
                    tried.add(mark)
                    new = rename_binder(toks, b, want, parent, known=exp, bs=bs, fn_hi=f['body'][1])
                    if new is not None:
                        todo = new
                        break
                if todo is not None:
                    break
            if todo is not None:
                break
        if todo is None:
            return toks
        toks = todo
    return toks


def dump_binders(rels):
    out = {}
    for rel in sorted(rels):
        toks = tokenize(read(rel), rel)
        match, parent = bracket_maps(toks)
        d = {}
        for f in fn_items(toks, match, parent):
            names = [b[1] for b in fn_binders(toks, f, match, parent)]
            if names:
                d[f['key']] = names
        if d:
            out[rel] = d
    return out


# ---- the structural passes (only applied when a front end failed on the source as it is)
#
# A pass is a function site(toks, i, rel) -> None | (new token list, index at which to resume): "the rewrite of this pass applies to
# the tokens starting at index i".  apply_pass runs it at every site of a file, or (pick = k) at the k-th site only, so that
# main() can first try the smallest departures from the source as it is.

_BM = [None, None]


def bmaps(toks):
    """bracket_maps with a one-entry cache (the passes probe the same token list at many indices)"""
    if _BM[0] is not toks:
        _BM[0], _BM[1] = toks, bracket_maps(toks)
    return _BM[1]


def apply_pass(site, toks, rel, pick=None):
    """-> (token list, number of sites seen); pick None: rewrite every site; pick k: only the k-th (0-based, in source order, counted
    on the unrewritten text); pick -1: only count"""
    i = 0
    seen = 0
    guard = 0
    while i < len(toks) and guard < 100000:
        guard += 1
        r = site(toks, i, rel)
        if r is not None:
            if pick is None:
                toks, i = r
                seen += 1
                continue
            if pick == seen:
                return r[0], seen + 1
            seen += 1
        i += 1
    return toks, seen


def int_lit(tok):
    """(value, suffix) of an integer literal token, or None (floats, anything else)"""
    if tok[0] != 'num':
        return None
    m = re.fullmatch(r'(0x[0-9a-fA-F_]+|[0-9][0-9_]*)((?:[iu](?:8|16|32|64|128|size))?)', tok[1])
    if not m:
        return None
    s = m.group(1).replace('_', '')
    if s in ('0x', ''):
        return None
    return (int(s, 16) if s.startswith('0x') else int(s)), m.group(2)


# what may stand in front of / behind an additive expression without binding tighter than its operator
LEFT_BOUNDARY = (P_('('), P_('['), P_('{'), P_(','), P_(';'), P_('='), P_('=='), P_('!='), P_('<='), P_('>='), P_('&&'), P_('||'),
                 P_('=>'), P_('..'), P_('..='), P_('+='), P_('-='), I_('return'), I_('in'))
RIGHT_BOUNDARY = (P_(')'), P_(']'), P_('}'), P_(','), P_(';'), P_('=='), P_('!='), P_('<='), P_('>='), P_('&&'), P_('||'), P_('..'), P_('..='),
                  P_('{'), P_('=>'))


def site_hex(toks, i, rel):
    """integer literal spelling: `0x36` / `5_4` -> `54` (the type suffix is kept): same value, same type"""
    t = toks[i]
    if t[0] == 'num' and (t[1].startswith('0x') or '_' in t[1]):
        v = int_lit(t)
        if v is not None:
            return toks[:i] + [('num', '%d%s' % v)] + toks[i + 1:], i + 1
    return None


def site_fold(toks, i, rel):
    """`L1 op L2` (op in + - *) of integer literals, standing where nothing around it binds tighter than op, -> its value
    (`512 + 4` -> `516`).  rustc evaluates such an expression at compile time to the same value (if it overflowed its type the
    program would not compile)."""
    if i < 1 or i + 2 >= len(toks):
        return None
    a, op, b = int_lit(toks[i]), toks[i + 1], int_lit(toks[i + 2])
    if a is None or b is None or op not in (P_('+'), P_('-'), P_('*')) or toks[i - 1] not in LEFT_BOUNDARY:
        return None
    if a[1] and b[1] and a[1] != b[1]:
        return None
    nxt = toks[i + 3] if i + 3 < len(toks) else P_(';')
    if not (nxt in RIGHT_BOUNDARY or (op[1] == '*' and nxt in (P_('+'), P_('-'), P_('*'))) or (op[1] in '+-' and nxt in (P_('+'), P_('-')))):
        return None
    v = {'+': a[0] + b[0], '-': a[0] - b[0], '*': a[0] * b[0]}[op[1]]
    if v < 0:
        return None
    return toks[:i] + [('num', '%d%s' % (v, a[1] or b[1]))] + toks[i + 3:], i


def chain_end(toks, i, match):
    """toks[i] starts a primary expression (an identifier / `self` / a parenthesised group); index just after its postfix chain
    (`.field`, `.0`, `.method(..)`, `::seg`, `::<..>`, `(..)`, `[..]`), or -1 if `?`, `as` or a macro bang follows"""
    n = len(toks)
    if toks[i] == P_('('):
        j = match.get(i, -2) + 1
    elif toks[i][0] == 'id':
        j = i + 1
    else:
        return -1
    while 0 < j < n:
        t = toks[j]
        if t == P_('.') and j + 1 < n and toks[j + 1][0] in ('id', 'num'):
            j += 2
        elif t == P_('::') and j + 1 < n and toks[j + 1] == P_('<'):
            j = skip_angle(toks, j + 1, match)
        elif t == P_('::') and j + 1 < n and toks[j + 1][0] == 'id':
            j += 2
        elif t in (P_('('), P_('[')) and j in match:
            j = match[j] + 1
        elif t in (P_('?'), I_('as'), P_('!')):
            return -1
        else:
            return j
    return j


def chain_start(toks, j, match):
    """toks[j] is the last token of a postfix chain as in chain_end: index of its first token, or -1"""
    while j >= 0:
        t = toks[j]
        if t in (P_(')'), P_(']')) and j in match:
            o = match[j]
            p = toks[o - 1] if o > 0 else ('', '')
            if p[0] == 'id' and p[1] not in KEYWORDS or p in (P_(')'), P_(']')):
                j = o - 1
                continue
            if p == P_('>'):
                return -1          # turbofish call: not handled
            return o if t == P_(')') else -1
        if t[0] == 'id' and (t[1] not in KEYWORDS or t[1] in ('self', 'Self', 'crate', 'super')) or (t[0] == 'num' and j > 0 and toks[j - 1] == P_('.')):
            if j > 0 and toks[j - 1] in (P_('.'), P_('::')):
                j -= 2
                continue
            return j if t[0] == 'id' else -1
        return -1
    return -1


def cast_chain_end(toks, i, match):
    """as chain_end, but the chain may be followed by casts `as <primitive integer type>`; -1 if it cannot be delimited"""
    n = len(toks)
    if toks[i] == P_('('):
        j = match.get(i, -2) + 1
    elif toks[i][0] == 'id':
        j = i + 1
    else:
        return -1
    while 0 < j < n:
        t = toks[j]
        if t == P_('.') and j + 1 < n and toks[j + 1][0] in ('id', 'num'):
            j += 2
        elif t == P_('::') and j + 1 < n and toks[j + 1] == P_('<'):
            j = skip_angle(toks, j + 1, match)
        elif t == P_('::') and j + 1 < n and toks[j + 1][0] == 'id':
            j += 2
        elif t in (P_('('), P_('[')) and j in match:
            j = match[j] + 1
        else:
            break
    while 0 < j + 1 < n and toks[j] == I_('as') and toks[j + 1][0] == 'id' and toks[j + 1][1] in INT_TYPES_ALL:
        j += 2
    if 0 < j < n and toks[j] in (P_('?'), I_('as'), P_('!'), P_('.'), P_('('), P_('[')):
        return -1
    return j


def sum_site(toks, i, match):
    """`L + x` (toks[i] is L) or `x + L` (toks[i] is the `+`) for an integer literal L and x a path / field / call chain (no `?`), possibly
    cast with `as <integer type>` (which binds tighter than `+`), the sum standing where nothing around it binds tighter;
    -> (start, end, 'L' | 'R', the tokens of [start, end) with the operands exchanged) or None"""
    if i < 1 or i + 2 >= len(toks):
        return None
    if int_lit(toks[i]) is not None and toks[i + 1] == P_('+') and toks[i - 1] in LEFT_BOUNDARY \
            and toks[i + 2][0] == 'id' and toks[i + 2][1] not in KEYWORDS:
        e = cast_chain_end(toks, i + 2, match)
        nxt = toks[e] if 0 < e < len(toks) else P_(';')
        if e > 0 and (nxt in RIGHT_BOUNDARY or nxt in (P_('+'), P_('-'))):
            return i, e, 'L', toks[i + 2:e] + [P_('+'), toks[i]]
    if toks[i] == P_('+') and int_lit(toks[i + 1]) is not None:
        nxt = toks[i + 2] if i + 2 < len(toks) else P_(';')
        j = i - 1
        while j >= 2 and toks[j][0] == 'id' and toks[j][1] in INT_TYPES_ALL and toks[j - 1] == I_('as'):
            j -= 2
        s = chain_start(toks, j, match)
        if s > 0 and toks[s - 1] in LEFT_BOUNDARY and (nxt in RIGHT_BOUNDARY or nxt in (P_('+'), P_('-'))) and cast_chain_end(toks, s, match) == i:
            return s, i + 2, 'R', [toks[i + 1], P_('+')] + toks[s:i]
    return None


def site_commute(toks, i, rel):
    """`L + x` <-> `x + L` (see sum_site): the literal has no effect and observes none, and `+` on the primitive integers is
    commutative (overflow behaviour included)."""
    match, _ = bmaps(toks)
    r = sum_site(toks, i, match)
    if r is None:
        return None
    return toks[:r[0]] + r[3] + toks[r[1]:], r[1]


def sum_sites(toks, lo, hi, match):
    out = []
    for i in range(lo, hi):
        if toks[i] == P_('+') or toks[i][0] == 'num':
            r = sum_site(toks, i, match)
            if r is not None and lo <= r[0] and r[1] <= hi:
                out.append(r)
    out.sort(key=lambda r: (r[0], -r[1]))
    return out


def sum_canon(toks, rel):
    """always on, like alpha_canon: EXPECTED_SUMS records, per function, which operand of every literal-plus-chain sum is the literal
    ('L' first / 'R' last) in the reference sources; when a function has the same number of such sums, those written the other
    way round are turned (the equivalence of site_commute), so that `1 + x` and `x + 1` give the same table"""
    exp_file = EXPECTED_SUMS.get(rel)
    if not exp_file:
        return toks
    for _round in range(100):
        match, parent = bracket_maps(toks)
        todo = None
        for f in fn_items(toks, match, parent):
            exp = exp_file.get(f['key'])
            if not exp:
                continue
            sites = sum_sites(toks, f['body'][0], f['body'][1], match)
            if len(sites) != len(exp):
                continue
            for r, want in zip(sites, exp):
                if r[2] != want:
                    todo = toks[:r[0]] + r[3] + toks[r[1]:]
                    break
            if todo is not None:
                break
        if todo is None:
            return toks
        toks = todo
    return toks


def dump_sums(rels):
    out = {}
    for rel in sorted(rels):
        toks = tokenize(read(rel), rel)
        match, parent = bracket_maps(toks)
        d = {}
        for f in fn_items(toks, match, parent):
            o = ''.join(r[2] for r in sum_sites(toks, f['body'][0], f['body'][1], match))
            if o:
                d[f['key']] = o
        if d:
            out[rel] = d
    return out


_CRATE_FNS = {}


def crate_fn_count(name):
    """how many functions / methods called `name` the crate's sources define"""
    if name not in _CRATE_FNS:
        n = 0
        for root, _, files in os.walk(os.path.join(REPO, 'src')):
            for f in files:
                if f.endswith('.rs'):
                    with open(os.path.join(root, f)) as fh:
                        n += len(re.findall(r'\bfn\s+%s\b' % re.escape(name), fh.read()))
        _CRATE_FNS[name] = n
    return _CRATE_FNS[name]


def find_fn_raw(rel, impl_name, fn_name):
    toks = tokenize(read(rel), rel)
    for kind, name, frm, body in impl_blocks(toks):
        if kind == 'impl' and name == impl_name:
            for n, params, ret, b in fns_in(body):
                if n == fn_name:
                    return params, ret, b
    raise TranslateError('%s: fn %s::%s not found' % (rel, impl_name, fn_name))


_LT = []


def version_lt_is_not_gte():
    """`Version::lt` of src/io/slippi/mod.rs is `!self.gte(major, minor)` (the definition Gen/Funs.v regenerates) and the crate defines
    no other lt / gte"""
    if not _LT:
        ok = False
        try:
            params, ret, body = find_fn_raw('src/io/slippi/mod.rs', 'Version', 'lt')
            ok = sj(body) == '! self . gte ( major , minor )' and sj(params) == '& self , major : u8 , minor : u8' \
                and crate_fn_count('lt') == 1 and crate_fn_count('gte') == 1
        except Exception:
            ok = False
        _LT.append(ok)
    return _LT[0]


def site_not_gte(toks, i, rel):
    """`!recv.gte(a, b)` -> `recv.lt(a, b)`: Version::lt IS `!self.gte(major, minor)` (checked on every run: if it ever stops being that,
    nothing is rewritten), so this is lt folded back.  Not inside the definitions of lt / gte themselves.  (The mirror image
    `!recv.lt(a, b)` -> `recv.gte(a, b)` is the pass not_lt of the second batch; the LOUD case ps_lt of mut2.py, which is that very
    harmless edit, is therefore absorbed and no longer rejected.)"""
    if toks[i] != P_('!') or i + 1 >= len(toks) or (i > 0 and is_operand_end(toks[i - 1])) or toks[i + 1][0] != 'id' \
            or (toks[i + 1][1] in KEYWORDS and toks[i + 1][1] != 'self') or not version_lt_is_not_gte():
        return None
    match, parent = bmaps(toks)
    e = chain_end(toks, i + 1, match)
    if e <= 0 or toks[e - 1] != P_(')') or (e < len(toks) and toks[e] in (P_('.'), P_('?'), P_('('), P_('['))):
        return None
    o = match[e - 1]
    if not (o - 2 > i and toks[o - 1] == I_('gte') and toks[o - 2] == P_('.') and len(top_split(toks, o + 1, e - 1, ',', match)) == 2):
        return None
    for f in fn_items(toks, match, parent):
        if f['name'] in ('lt', 'gte') and f['body'][0] <= i < f['body'][1]:
            return None
    return toks[:i] + toks[i + 1:o - 1] + [I_('lt')] + toks[o:], i


def literal_like(toks):
    """a default value whose evaluation has no effect and observes nothing: a literal, true / false / None, or a path to a constant"""
    if len(toks) == 1:
        k, v = toks[0]
        return k in ('num', 'str', 'char') or (k == 'id' and v in ('true', 'false', 'None'))
    if len(toks) == 2 and toks[0] == P_('-') and toks[1][0] == 'num':
        return True
    return len(toks) % 2 == 1 and all((t[0] == 'id' and t[1] not in KEYWORDS) if n % 2 == 0 else t == P_('::') for n, t in enumerate(toks)) \
        and (toks[-1][1].isupper() or toks[-1][1] == 'None')


def site_map_or(toks, i, rel):
    """`x.map(f).unwrap_or(d)` -> `x.map_or(d, f)` for a literal-like d: on Option and Result both give `f(v)` for Some(v) / Ok(v) and `d`
    otherwise; d is evaluated eagerly in both, and being a literal it cannot observe or be observed by f.  Only when the crate
    itself defines no map / map_or / unwrap_or (so that these are the methods of core)."""
    if toks[i] != P_('.') or i + 3 >= len(toks) or toks[i + 1] != I_('map') or toks[i + 2] != P_('('):
        return None
    if crate_fn_count('map') or crate_fn_count('map_or') or crate_fn_count('unwrap_or'):
        return None
    match, _ = bmaps(toks)
    c = match.get(i + 2, -1)
    if not (c > 0 and c + 3 < len(toks) and toks[c + 1] == P_('.') and toks[c + 2] == I_('unwrap_or') and toks[c + 3] == P_('(') and (c + 3) in match):
        return None
    c2 = match[c + 3]
    f = toks[i + 3:c]
    d = toks[c + 4:c2]
    if d and d[-1] == P_(','):
        d = d[:-1]
    if f and f[-1] == P_(','):
        f = f[:-1]
    if not (literal_like(d) and f and len(top_split(toks, i + 3, i + 3 + len(f), ',', match)) == 1):
        return None
    return toks[:i] + [P_('.'), I_('map_or'), P_('(')] + d + [P_(',')] + f + [P_(')')] + toks[c2 + 1:], i + 1


def site_match_some(toks, i, rel):
    """`match e { Some(p) => B, None => {} }` (the arms in either order; `_ => {}` / `()` as the second arm) -> `if let Some(p) = e { B }`:
    an `if let` without else is defined as exactly this match."""
    if toks[i] != I_('match'):
        return None
    match, parent = bmaps(toks)
    b = i + 1
    while b < len(toks) and toks[b] != P_('{'):
        if toks[b][0] == 'punct' and toks[b][1] in ('(', '['):
            b = match.get(b, b)
        elif toks[b] == P_(';'):
            return None
        b += 1
    if b >= len(toks) or b not in match:
        return None
    arms = match_arms_at(toks, b, match)
    c = match[b]
    if len(arms) != 2 or any(a['guard'] is not None for a in arms):
        return None
    last = arms[-1]['end']
    if last + (1 if last < c and toks[last] == P_(',') else 0) != c:
        return None

    def empty(a):
        body = toks[a['body'][0]:a['body'][1]]
        return (a['block'] and not body) or tv(body) == ['(', ')']
    some = none = None
    for n, a in enumerate(arms):
        p = tv(toks[a['pat'][0]:a['pat'][1]])
        if p[:2] == ['Some', '('] and p[-1] == ')' and match.get(a['pat'][0] + 1) == a['pat'][1] - 1:
            some = n
        elif p == ['None'] or (p == ['_'] and n == 1):
            none = n
    if some is None or none is None or not empty(arms[none]):
        return None
    a = arms[some]
    body = toks[a['body'][0]:a['body'][1]]
    if not a['block']:
        body = body + [P_(';')]
    new = [I_('if'), I_('let')] + toks[a['pat'][0]:a['pat'][1]] + [P_('=')] + toks[i + 1:b] + [P_('{')] + body + [P_('}')]
    return toks[:i] + new + toks[c + 1:], i + 1


PURE_CALLS = frozenset('min max len is_empty is_some is_none from as_ref as_slice as_bytes as_str clone to_le_bytes to_be_bytes size_of gte lt '
                       'get first last abs saturating_sub saturating_add wrapping_add wrapping_sub contains starts_with ends_with'.split())


def pure_expr(toks):
    """an expression whose evaluation changes nothing and whose value depends only on the current values of the places it mentions:
    identifiers, literals, field / index access, arithmetic / comparison / logic, `as`, and calls of a few known pure functions --
    no `?`, no macro, no assignment, no closure, no block, no `&mut`"""
    for n, (k, v) in enumerate(toks):
        nxt = toks[n + 1] if n + 1 < len(toks) else ('', '')
        if k == 'id':
            if v in KEYWORDS and v not in ('as', 'self', 'Self', 'true', 'false', 'crate', 'super'):
                return False
            if nxt == P_('(') and v not in PURE_CALLS:
                return False
        elif k == 'punct':
            if v in ('?', '=', ';', '{', '}', '|', '+=', '-=', '*=', '=>', '#', '@', '$', '~'):
                return False
            if v == '!' and nxt[0] == 'punct' and nxt[1] in ('(', '[', '{') and n > 0 and toks[n - 1][0] == 'id':
                return False
        elif k == 'lifetime':
            return False
    for n in range(1, len(toks)):          # a turbofish call such as size_of::<u8>(): the `(` follows `>`
        if toks[n] == P_('(') and toks[n - 1] == P_('>'):
            j = n - 1
            while j > 0 and toks[j] != P_('::'):
                j -= 1
            if j < 1 or toks[j - 1][0] != 'id' or toks[j - 1][1] not in PURE_CALLS:
                return False
    return bool(toks)


def has_top_operator(toks):
    match, _ = bracket_maps(toks)
    i = 0
    while i < len(toks):
        k, v = toks[i]
        if k == 'punct' and v in ('(', '[', '{') and i in match:
            i = match[i] + 1
            continue
        if (k == 'punct' and v in ('+', '-', '*', '/', '%', '<', '>', '<=', '>=', '==', '!=', '&&', '||', '&', '|', '^', '!', '..', '..=')) or (k == 'id' and v == 'as'):
            return True
        i += 1
    return False


def site_inline_let(toks, i, rel):
    """`let name = <pure expr>; S` -> S with the expression in place of the one occurrence of `name`, when name occurs exactly once in
    its scope, that occurrence is in the statement S immediately after the `let`, nothing with an effect is evaluated in S before it
    (no completed call, `?`, macro, index, block or closure in front of it; S is not a loop), and the `let` is neither `mut` nor
    annotated with a type.  The expression is then evaluated at the same point of the execution, on the same operand values."""
    if toks[i] != I_('let') or i + 4 >= len(toks) or toks[i + 1][0] != 'id' or toks[i + 1][1] in KEYWORDS or toks[i + 2] != P_('=') \
            or not (i == 0 or toks[i - 1] in (P_(';'), P_('{'), P_('}'))):
        return None
    match, parent = bmaps(toks)
    name = toks[i + 1][1]
    end = top_find(toks, i + 3, len(toks), (';',), match)
    enc = parent[i]
    if not (end > 0 and enc >= 0 and toks[enc] == P_('{') and enc in match and header_kw(toks, enc, parent) is not None):
        return None
    shi = match[enc]
    expr = toks[i + 3:end]
    uses = [k for k in range(end + 1, shi) if toks[k] == ('id', name)]
    if len(uses) != 1 or any(str_captures(toks[k], name) for k in range(end + 1, shi)) or not pure_expr(expr) \
            or is_var_pos(toks, uses[0], parent) != 'var':
        return None
    u = uses[0]
    s_lo = end + 1
    if toks[s_lo] in (I_('while'), I_('for'), I_('loop')) or any(
            t in (P_(')'), P_('?'), P_('{'), P_('}'), P_('|'), P_('||'), P_(';'), P_('!'), P_(']')) for t in toks[s_lo:u]):
        return None
    prv, nxt = toks[u - 1], toks[u + 1]
    delimited = prv in (P_('('), P_(','), P_('['), P_('='), P_('+='), P_('-='), P_('*='), I_('return'), P_('=>')) and nxt in (P_(')'), P_(','), P_(']'), P_(';'))
    if not delimited and has_top_operator(expr):
        expr = [P_('(')] + expr + [P_(')')]
    return toks[:i] + toks[end + 1:u] + expr + toks[u + 1:], i


def pure_receiver(toks):
    return bool(toks) and all((t[0] == 'id' and (t[1] not in KEYWORDS or t[1] == 'self')) if n % 2 == 0 else t == P_('.') for n, t in enumerate(toks))


def site_loop_collect(toks, i, rel):
    """`{ let mut v = Vec::with_capacity(<place>.len()) | Vec::new() | vec![]; for p in ITER { v.push(E); } v }` ->
    `ITER.map(|p| E).collect()` where ITER is <place>.iter() / .iter_mut() / .into_iter() and E contains no `?`, return, break, continue
    and no mention of v: the block yields the Vec of the values E in iteration order, which is what collecting the mapped iterator
    into the Vec expected at that position yields (the capacity hint changes no value)."""
    if not (toks[i] == P_('{') and i + 6 < len(toks) and toks[i + 1] == I_('let') and toks[i + 2] == I_('mut') and toks[i + 3][0] == 'id'
            and toks[i + 4] == P_('=')):
        return None
    match, parent = bmaps(toks)
    c = match.get(i, -1)
    v = toks[i + 3][1]
    e1 = top_find(toks, i + 5, c, (';',), match) if c > 0 else -1
    if e1 <= 0 or toks[e1 + 1] != I_('for'):
        return None
    init = sj(toks[i + 5:e1])
    if not (init in ('Vec :: new ( )', 'vec ! [ ]') or re.fullmatch(r'Vec :: with_capacity \( (?:self|\w+)(?: \. \w+)* \. len \( \) \)', init)):
        return None
    n = top_find(toks, e1 + 2, c, ('in',), match, kinds=('id',))
    b = n + 1 if n > 0 else -1
    while 0 < b < c and toks[b] != P_('{'):
        if toks[b][0] == 'punct' and toks[b][1] in ('(', '['):
            b = match.get(b, b)
        b += 1
    if not (n > 0 and 0 < b < c and b in match):
        return None
    be = match[b]
    pat = toks[e1 + 2:n]
    it = toks[n + 1:b]
    if not (tv(toks[be + 1:c]) == [v] and len(pat) == 1 and pat[0][0] == 'id' and re.search(r' \. (iter|iter_mut|into_iter) \( \)$', sj(it))
            and pure_receiver(it[:-4]) and tv(toks[b + 1:b + 5]) == [v, '.', 'push', '('] and (b + 4) in match):
        return None
    pe = match[b + 4]
    E = toks[b + 5:pe]
    mentions_v = any(toks[k] == ('id', v) and toks[k - 1] != P_('.') for k in list(range(n + 1, b)) + list(range(b + 5, pe)))
    if tv(toks[pe + 1:be]) not in ([';'], []) or any(t in (P_('?'), I_('return'), I_('break'), I_('continue')) for t in E) or mentions_v:
        return None
    new = it + [P_('.'), I_('map'), P_('('), P_('|')] + pat + [P_('|')] + E + [P_(')'), P_('.'), I_('collect'), P_('('), P_(')')]
    return toks[:i] + new + toks[c + 1:], i + 1


def site_const(toks, i, rel):
    """a private `const NAME: <integer type> = <integer literal>;` that is used exactly once in its file -> the literal, with the type of
    the constant as its suffix, at the use; the (now unused) declaration is dropped.  A constant is by definition its value inlined
    at every use."""
    if not (toks[i] == I_('const') and i + 6 < len(toks) and toks[i + 1][0] == 'id' and toks[i + 2] == P_(':') and toks[i + 3][0] == 'id'
            and toks[i + 3][1] in INT_TYPES_ALL and toks[i + 4] == P_('=') and (i == 0 or toks[i - 1] in (P_(';'), P_('}'), P_('{'), P_(']')))):
        return None
    end = i + 5
    while end < len(toks) and toks[end] != P_(';'):
        end += 1
    init, _ = apply_pass(site_fold, [P_('=')] + toks[i + 5:end] + [P_(';')], rel)
    init = init[1:-1]
    name, ty = toks[i + 1][1], toks[i + 3][1]
    lit = int_lit(init[0]) if len(init) == 1 else None
    uses = [k for k, t in enumerate(toks) if t == ('id', name) and k != i + 1]
    if lit is None or lit[1] not in ('', ty) or len(uses) != 1:
        return None
    u = uses[0]
    prv = toks[u - 1]
    nxt = toks[u + 1] if u + 1 < len(toks) else ('', '')
    if prv in (P_('.'), P_('::')) or nxt == P_('::') or any(str_captures(t, name) for t in toks):
        return None
    match, _ = bmaps(toks)
    start = i
    while start >= 2 and toks[start - 1] == P_(']') and match.get(start - 1, -1) > 0 and toks[match[start - 1] - 1] == P_('#'):
        start = match[start - 1] - 1          # attributes directly in front of the declaration go with it
    new_lit = ('num', '%d%s' % (lit[0], ty))
    if u > end:
        return toks[:start] + toks[end + 1:u] + [new_lit] + toks[u + 1:], start
    return toks[:u] + [new_lit] + toks[u + 1:start] + toks[end + 1:], u


def site_inline_fn(toks, i, rel):
    """a private, non-generic free function of the file that is called from exactly one place (and mentioned nowhere else) is inlined at
    that call for analysis:
      `helper(args)?` as a whole statement or match-arm value, helper returning Result<()> (the caller returns the file's Result<..>
      too), its body `stmts; Ok(())`, every `return` in it being `return Err(..)`: the statements replace the call -- an error raised
      inside by `?` / `return Err` is what the `?` at the call site would have re-raised, unchanged;
      `helper(args);` for a function without return type and without `return`: likewise.
    Parameters: an argument that is the parameter's own name, or `&name` / `&mut name` of it, needs no binding as long as the body uses
    the parameter only through `.`, `[..]`, `&*` / `&mut *` re-borrows or by passing it on as it was passed in (auto-(de)ref makes
    these the same places), never assigns to it and never calls an `into*` method on it; a parameter with another name is first
    alpha-renamed to the argument's name if that is fresh in the body; any other argument refuses the inlining.  As a statement the
    helper's own local names must not occur in the rest of the caller's block (no capture in either direction); as a match-arm value
    the statements get their own block."""
    if toks[i] != I_('fn') or i + 1 >= len(toks):
        return None
    match, parent = bmaps(toks)
    fns = fn_items(toks, match, parent)
    h = [f for f in fns if f['fn'] == i]
    if not h:
        return None
    h = h[0]
    if h['owner'] or h['pub'] or h['generic'] or h['name'] == 'main':
        return None
    # a plain `fn`: no async / unsafe / const / extern qualifier, no conditional compilation
    k = i - 1
    while k >= 1 and toks[k] == P_(']') and k in match and toks[match[k] - 1] == P_('#'):
        if any(t == I_('cfg') or t == I_('cfg_attr') for t in toks[match[k]:k]):
            return None
        k = match[k] - 2
    if k >= 0 and toks[k] not in (P_(';'), P_('}'), P_('{')):
        return None
    name = h['name']
    occ = [k for k, t in enumerate(toks) if t == ('id', name)]
    if len(occ) != 2 or any(str_captures(t, name) for t in toks):
        return None
    call = [k for k in occ if k != i + 1][0]
    if h['body'][0] <= call < h['body'][1] or toks[call + 1] != P_('(') or toks[call - 1] in (P_('.'), P_('::'), I_('fn')):
        return None
    caller = [f for f in fns if f['body'][0] <= call < f['body'][1]]
    if not caller:
        return None
    caller = min(caller, key=lambda f: f['body'][1] - f['body'][0])
    new = inline_call(toks, h, caller, call, match, parent)
    if new is None:
        return None
    return new, i + 1


def inline_call(toks, h, caller, call, match, parent):
    ce = match.get(call + 1, -1)
    if ce < 0:
        return None
    ret = sj(toks[h['ret'][0]:h['ret'][1]])
    body = toks[h['body'][0]:h['body'][1]]
    prv = toks[call - 1]
    if ret == '-> Result < ( ) >':
        if toks[ce + 1] != P_('?') or not sj(toks[caller['ret'][0]:caller['ret'][1]]).startswith('-> Result <'):
            return None
        if tv(body[-5:]) != ['Ok', '(', '(', ')', ')']:
            return None
        body = body[:-5]
        if body and body[-1] not in (P_(';'), P_('}')):
            return None
        for k, t in enumerate(body):
            if t == I_('return') and tv(body[k + 1:k + 3]) != ['Err', '(']:
                return None
        after = ce + 2
    elif ret == '':
        if any(t == I_('return') for t in body) or (body and body[-1] not in (P_(';'), P_('}'))):
            return None
        after = ce + 1
    else:
        return None
    # the call must be a whole statement `helper(..)?;` or a whole match-arm value `=> helper(..)?,`
    nxt = toks[after] if after < len(toks) else ('', '')
    if prv in (P_(';'), P_('{'), P_('}')) and nxt == P_(';'):
        mode = 'stmt'
    elif prv == P_('=>') and nxt in (P_(','), P_('}')):
        mode = 'arm'
    else:
        return None
    params = []
    for (a, b) in top_split_params(toks, h['params'][0], h['params'][1], match):
        c = top_find(toks, a, b, (':',), match)
        pt = [t for t in toks[a:c] if t != I_('mut')] if c > 0 else []
        if len(pt) != 1 or pt[0][0] != 'id':
            return None
        params.append(pt[0][1])
    args = top_split(toks, call + 2, ce, ',', match)
    if len(args) != len(params) or len(set(params)) != len(params):
        return None
    bm, bp = bracket_maps(body)
    if any(str_captures(s, p) for s in body for p in params):
        return None
    for p, (a, b) in zip(params, args):
        at = toks[a:b]
        base = [t for t in at if t not in (P_('&'), I_('mut'))]
        if len(base) != 1 or base[0][0] != 'id' or base[0][1] in KEYWORDS or tv(at) not in ([base[0][1]], ['&', base[0][1]], ['&', 'mut', base[0][1]]):
            return None
        an = base[0][1]
        if an != p:
            # alpha-rename the parameter to the argument's name: that name must not occur in the body at all
            if any(t == ('id', an) and is_var_pos(body, k, bp) for k, t in enumerate(body)) or any(str_captures(t, an) for t in body) \
                    or an in params:
                return None
            nb = []
            for k, t in enumerate(body):
                pos = is_var_pos(body, k, bp) if t == ('id', p) else False
                if pos == 'shorthand':
                    nb.extend([t, P_(':'), ('id', an)])
                elif pos:
                    nb.append(('id', an))
                else:
                    nb.append(t)
            body = nb
            bm, bp = bracket_maps(body)
        for k, t in enumerate(body):          # the uses of the parameter
            if t != ('id', an) or not is_var_pos(body, k, bp):
                continue
            pv = body[k - 1] if k > 0 else ('', '')
            nx = body[k + 1] if k + 1 < len(body) else ('', '')
            if nx == P_('.'):
                if k + 2 < len(body) and body[k + 2][0] == 'id' and body[k + 2][1].startswith('into'):
                    return None
                continue
            if nx == P_('['):
                continue
            if pv == P_('*') and k >= 2 and (body[k - 2] == P_('&') or (body[k - 2] == I_('mut') and k >= 3 and body[k - 3] == P_('&'))):
                continue
            if pv in (P_('('), P_(',')) and nx in (P_(')'), P_(',')) and tv(at) == [an]:
                continue          # passed on as it was passed in
            return None
    enc = parent[call]
    if enc < 0 or enc not in match:
        return None
    hb = set(b[1] for b in fn_binders(body, {'params': (0, 0), 'body': (0, len(body))}, bm, bp))
    # a name that is free in the helper (a function, a static ..) must not be captured by a local of the caller
    free = set(t[1] for k, t in enumerate(body) if t[0] == 'id' and BINDER_RE.match(t[1]) and t[1] not in KEYWORDS and t[1] not in hb
               and is_var_pos(body, k, bp)) - set(tv(toks[a:b])[-1] for (a, b) in args)
    if free & set(b[1] for b in fn_binders(toks, caller, match, parent)):
        return None
    if mode == 'stmt':
        around = toks[enc + 1:call] + toks[after + 1:match[enc]]
        if any(t[0] == 'id' and t[1] in hb for t in around):
            return None
        return toks[:call] + body + toks[after + 1:]
    return toks[:call] + [P_('{')] + body + [P_('}')] + toks[after + (1 if nxt == P_(',') else 0):]


LOG_MACROS = ('info', 'debug', 'warn', 'trace', 'error')
BLOCK_STARTS = ('if', 'match', 'while', 'for', 'loop', 'unsafe')


def stmt_end(toks, i, hi, match):
    """toks[i] starts a statement of a block that ends at hi: index just after it (after its `;`, or after the block of a block-like
    statement including its else chain), or -1"""
    if toks[i][0] == 'id' and toks[i][1] in BLOCK_STARTS:
        j = i + 1
        while j < hi and toks[j] != P_('{'):
            if toks[j][0] == 'punct' and toks[j][1] in ('(', '['):
                j = match.get(j, hi)
            elif toks[j] == P_(';'):
                return -1
            j += 1
        if j >= hi or j not in match:
            return -1
        c = match[j]
        while toks[i] == I_('if') and c + 1 < hi and toks[c + 1] == I_('else'):
            j = c + 2
            while j < hi and toks[j] != P_('{'):
                if toks[j][0] == 'punct' and toks[j][1] in ('(', '['):
                    j = match.get(j, hi)
                j += 1
            if j >= hi or j not in match:
                return -1
            c = match[j]
        if c + 1 < hi and toks[c + 1] in (P_('.'), P_('?')):
            return -1
        return c + 2 if c + 1 < hi and toks[c + 1] == P_(';') else c + 1
    e = top_find(toks, i, hi, (';',), match)
    return e + 1 if e >= 0 else -1


def field_path(toks):
    """`x . f . g` -> True"""
    return bool(toks) and len(toks) % 2 == 1 and all((t[0] == 'id' and t[1] not in KEYWORDS) if n % 2 == 0 else t == P_('.') for n, t in enumerate(toks))


_DROP = []


def crate_has_drop_impl():
    if not _DROP:
        found = False
        for root, _, files in os.walk(os.path.join(REPO, 'src')):
            for f in files:
                if f.endswith('.rs'):
                    with open(os.path.join(root, f)) as fh:
                        if re.search(r'\bDrop\s+for\b|\bunsafe\b', fh.read()):
                            found = True
        _DROP.append(found)
    return _DROP[0]


def site_swap_update(toks, i, rel):
    """two adjacent statements of a block exchanged, where one (U) is `x.f.. += v;` and the other (O) is any statement that is not a
    `let` -- under conditions that make the two orders indistinguishable:
      * no data dependence: O does not mention x at all, does not assign to or mutably borrow v, and contains no break / continue
        (an early exit of O by `?` / return leaves the function, see below);
      * U cannot fail: v is `let v = t0 - t1 - .. - tn;` a few statements earlier in the same block (only logging macros in between),
        one of t1..tn is the very place x.f.., and t0 is an immutable local bound by `let t0 = .. as usize;` -- so all of these are
        usize, the subtractions did not underflow (the `let` would have panicked, or wrapped consistently when overflow checks are
        off), hence x.f.. + v = t0 - (the other ti) <= t0 fits: no overflow panic that O's effects could be ordered against;
      * U is unobservable when O leaves the function early or panics: x is an owned local (`let mut x = ..;` of the same function,
        the only binder of that name), every enclosing construct up to that `let`'s block is a plain `if` / block, every other `let` in
        scope whose initialiser mentions x is arithmetic (no `&`, no closure: nothing can hold a borrow of x under another name),
        and the crate has no `impl Drop` and no `unsafe` (dropping x observes nothing of its integer field)."""
    if i == 0 or toks[i - 1] not in (P_(';'), P_('{'), P_('}')) or toks[i] in (P_('}'), P_(';')):
        return None
    match, parent = bmaps(toks)
    enc = parent[i]
    if enc < 0 or toks[enc] != P_('{') or enc not in match or header_kw(toks, enc, parent) is None:
        return None
    bend = match[enc]
    e1 = stmt_end(toks, i, bend, match)
    if e1 < 0 or e1 >= bend:
        return None
    e2 = stmt_end(toks, e1, bend, match)
    if e2 < 0 or e2 > bend:
        return None
    A, B = toks[i:e1], toks[e1:e2]
    for U, O in ((A, B), (B, A)):
        if len(U) < 6 or U[-1] != P_(';') or U[-3] != P_('+=') or U[-2][0] != 'id' or U[-2][1] in KEYWORDS or not field_path(U[:-3]) or len(U) < 6:
            continue
        x, place, v = U[0][1], U[:-3], U[-2][1]
        if len(place) < 3 or O[0] == I_('let') or any(t == ('id', x) for t in O) or any(t in (I_('break'), I_('continue')) for t in O):
            continue
        if any(t == ('id', v) and ((k + 1 < len(O) and O[k + 1] in (P_('='), P_('+='), P_('-='), P_('*='))) or (k > 0 and O[k - 1] == I_('mut'))) for k, t in enumerate(O)):
            continue
        if crate_has_drop_impl():
            continue
        fns = [f for f in fn_items(toks, match, parent) if f['body'][0] <= i < f['body'][1]]
        if not fns:
            continue
        f = min(fns, key=lambda g: g['body'][1] - g['body'][0])
        bs = fn_binders(toks, f, match, parent)
        xb = [b for b in bs if b[1] == x]
        if len(xb) != 1 or not (toks[xb[0][0] - 1] == I_('mut') and toks[xb[0][0] - 2] == I_('let') and toks[xb[0][0] + 1] == P_('=')):
            continue
        xdecl = xb[0][0]
        # the enclosing constructs between the declaration of x and the pair: plain `if` / bare blocks only
        ok = True
        b = enc
        while b != parent[xdecl]:
            if b < 0 or header_kw(toks, b, parent) not in ('if', 'block', 'else'):
                ok = False
                break
            if header_kw(toks, b, parent) == 'if':
                h = b - 1
                while h > 0 and not (toks[h] == I_('if') and parent[h] == parent[b]):
                    h -= 1
                if toks[h + 1] == I_('let'):
                    ok = False
                    break
            b = parent[b]
        if not ok:
            continue
        # every let between the declaration of x and the pair that mentions x is arithmetic
        for b2 in bs:
            if b2[0] > xdecl and b2[0] < i and b2[2] <= i < b2[3] and b2 is not xb[0]:
                if toks[b2[0] - 1] != I_('let') and not (toks[b2[0] - 1] == I_('mut') and toks[b2[0] - 2] == I_('let')):
                    ok = False          # a binder of another kind whose scope reaches the pair
                    break
                end = top_find(toks, b2[0], len(toks), (';',), match)
                rhs = toks[b2[0] + 1:end]
                if any(t == ('id', x) for t in rhs) and (any(t in (P_('&'), P_('&&'), P_('|'), P_('||'), P_('{')) for t in rhs) or not has_top_operator(rhs)):
                    ok = False
                    break
        if not ok:
            continue
        # v = t0 - t1 - .. - tn, in this block, only logging in between
        k = i
        vdef = None
        while True:
            # previous statement of the block
            p = k - 1
            if p <= enc:
                break
            if toks[p] != P_(';'):
                break
            q = p - 1
            while q > enc and not (parent[q] == enc and toks[q] in (P_(';'), P_('}'), P_('{'))):
                q -= 1
            st = toks[q + 1:p]
            if len(st) >= 4 and st[0] == I_('let') and st[1] == ('id', v) and st[2] == P_('='):
                vdef = st[3:]
                break
            if len(st) >= 3 and st[0][0] == 'id' and st[0][1] in LOG_MACROS and st[1] == P_('!') and not any(t == I_('mut') for t in st):
                k = q + 1
                continue
            break
        if vdef is None:
            continue
        terms = []
        cur = []
        for t in vdef:
            if t == P_('-'):
                terms.append(cur)
                cur = []
            else:
                cur.append(t)
        terms.append(cur)
        if len(terms) < 2 or not all(field_path(t) for t in terms) or not any(t == place for t in terms[1:]) or len(terms[0]) != 1:
            continue
        t0 = terms[0][0][1]
        tb = [b for b in bs if b[1] == t0]
        if len(tb) != 1 or toks[tb[0][0] - 1] != I_('let') or toks[tb[0][0] + 1] != P_('='):
            continue
        end = top_find(toks, tb[0][0], len(toks), (';',), match)
        if end < 2 or toks[end - 2] != I_('as') or toks[end - 1] != I_('usize') or not (tb[0][2] <= i < tb[0][3]):
            continue
        if any(toks[k2] == ('id', t0) and k2 != tb[0][0] and toks[k2 + 1] in (P_('='), P_('+='), P_('-='), P_('*=')) for k2 in range(f['body'][0], f['body'][1] - 1)):
            continue
        return toks[:i] + B + A + toks[e2:], e2
    return None


# ---- second batch of retry-only passes (benign2): each rewrites a NEW spelling back to the one the matchers know


def _cond_block(toks, i, match):
    """toks[i] is `if` / `while` / `match`: index of the `{` that opens its block (the first `{` at depth 0), or -1"""
    b = i + 1
    while b < len(toks) and toks[b] != P_('{'):
        if toks[b][0] == 'punct' and toks[b][1] in ('(', '['):
            b = match.get(b, b)
        elif toks[b][0] == 'punct' and toks[b][1] in (';', ')', ']', '}'):
            return -1
        b += 1
    return b if b < len(toks) and b in match else -1


def _version_call(toks, lo, e, name, match):
    """toks[lo:e] is one pure postfix chain that ENDS in `.name(a, b)` (two arguments): index of the method name, or -1"""
    if lo >= len(toks) or toks[lo][0] != 'id' or (toks[lo][1] in KEYWORDS and toks[lo][1] != 'self'):
        return -1
    if chain_end(toks, lo, match) != e or toks[e - 1] != P_(')'):
        return -1
    o = match[e - 1]
    if not (o - 2 > lo and toks[o - 1] == I_(name) and toks[o - 2] == P_('.') and len(top_split(toks, o + 1, e - 1, ',', match)) == 2):
        return -1
    return o - 1


def _in_lt_gte_body(toks, i, match, parent):
    return any(f['name'] in ('lt', 'gte') and f['body'][0] <= i < f['body'][1] for f in fn_items(toks, match, parent))


def site_not_lt(toks, i, rel):
    """`!recv.lt(a, b)` -> `recv.gte(a, b)`: the mirror image of not_gte.  Version::lt IS `!self.gte(major, minor)` (version_lt_is_not_gte,
    checked on every run on the very definition Gen/Funs.v regenerates; exactly one `lt` and one `gte` in the crate, and the call has two
    arguments, so it is not PartialOrd::lt), hence `!recv.lt(a, b)` = `!!recv.gte(a, b)` = `recv.gte(a, b)` with the receiver and the
    arguments evaluated once, in the same order, in both.  `!` must be a prefix operator on a pure postfix chain that ENDS in `.lt(a, b)`;
    never inside the bodies of lt / gte."""
    if toks[i] != P_('!') or i + 1 >= len(toks) or (i > 0 and is_operand_end(toks[i - 1])) or not version_lt_is_not_gte():
        return None
    match, parent = bmaps(toks)
    e = chain_end(toks, i + 1, match) if toks[i + 1][0] == 'id' else -1
    if e <= 0 or (e < len(toks) and toks[e] in (P_('.'), P_('?'), P_('('), P_('['))):
        return None
    m = _version_call(toks, i + 1, e, 'lt', match)
    if m < 0 or _in_lt_gte_body(toks, i, match, parent):
        return None
    return toks[:i] + toks[i + 1:m] + [I_('gte')] + toks[m + 1:], i


def site_if_lt_swap(toks, i, rel):
    """`if recv.lt(a, b) { B } else { A }` -> `if recv.gte(a, b) { A } else { B }`.  With lt = !gte (version_lt_is_not_gte, as above) the
    condition is the negation of the new one, and `if !c { B } else { A }` selects, for every value of c, the block that `if c { A } else { B }`
    selects; the blocks are moved verbatim (each keeps its own scope), the receiver and arguments are evaluated once before either, and
    the value of the whole `if` is that of the selected block.  The whole condition must be one pure postfix chain ending in `.lt(a, b)`
    (no `&&`, no `let`), both branches plain blocks (no `else if` on either side: the `if` is not itself preceded by `else`)."""
    if toks[i] != I_('if') or (i > 0 and toks[i - 1] == I_('else')) or i + 1 >= len(toks) or toks[i + 1] == I_('let') or not version_lt_is_not_gte():
        return None
    match, parent = bmaps(toks)
    b = _cond_block(toks, i, match)
    if b < 0:
        return None
    m = _version_call(toks, i + 1, b, 'lt', match)
    if m < 0:
        return None
    c = match[b]
    if not (c + 2 < len(toks) and toks[c + 1] == I_('else') and toks[c + 2] == P_('{') and (c + 2) in match):
        return None
    c2 = match[c + 2]
    if _in_lt_gte_body(toks, i, match, parent):
        return None
    new = toks[i:m] + [I_('gte')] + toks[m + 1:b] + toks[c + 2:c2 + 1] + [I_('else')] + toks[b:c + 1]
    return toks[:i] + new + toks[c2 + 1:], i + 1


def site_match_bool(toks, i, rel):
    """`match c { true => { A } false => { B } }` (the arms in either order) -> `if c { A } else { B }`: the patterns `true` / `false` only
    type-check against a bool, the two arms are exhaustive and disjoint, so the match runs A exactly when c is true and B otherwise --
    the definition of if/else; both are block-like expressions with the value of the selected block.  c must be a plain path / field
    path (no struct-literal ambiguity in the `if` condition, nothing evaluated), exactly two arms, no guards, both arm bodies blocks;
    not when the match is followed by `.` / `?`."""
    if toks[i] != I_('match'):
        return None
    match, parent = bmaps(toks)
    b = _cond_block(toks, i, match)
    if b < 0:
        return None
    cond = toks[i + 1:b]
    if not (field_path(cond) or (len(cond) >= 3 and cond[0] == I_('self') and cond[1] == P_('.') and field_path(cond[2:]))):
        return None
    arms = match_arms_at(toks, b, match)
    c = match[b]
    if len(arms) != 2 or any(a['guard'] is not None or not a['block'] for a in arms):
        return None
    last = arms[-1]['end']
    if last + (1 if last < c and toks[last] == P_(',') else 0) != c:
        return None
    if c + 1 < len(toks) and toks[c + 1] in (P_('.'), P_('?')):
        return None
    pats = [tv(toks[a['pat'][0]:a['pat'][1]]) for a in arms]
    if sorted(map(tuple, pats)) != [('false',), ('true',)]:
        return None
    t, f = (arms[0], arms[1]) if pats[0] == ['true'] else (arms[1], arms[0])
    blk = lambda a: [P_('{')] + toks[a['body'][0]:a['body'][1]] + [P_('}')]
    return toks[:i] + [I_('if')] + cond + blk(t) + [I_('else')] + blk(f) + toks[c + 1:], i + 1


def _nearest_let(toks, i, name, match, parent):
    """the `let [mut] name ..;` that binds the local `name` visible at index i: the nearest preceding `let` of that name whose block
    encloses i, provided no other binder of that name (parameter, closure parameter, pattern) lies in the enclosing fn  -> (index of
    `let`, index of its `;`) or None"""
    fn = None
    for f in fn_items(toks, match, parent):
        if f['body'][0] <= i < f['body'][1] and (fn is None or f['body'][0] > fn['body'][0]):
            fn = f
    if fn is None:
        return None
    bs = [b for b in fn_binders(toks, fn, match, parent) if b[1] == name]
    lets = [k for k in range(fn['body'][0], i) if toks[k] == I_('let') and
            (toks[k + 1] == I_(name) or (toks[k + 1] == I_('mut') and toks[k + 2] == I_(name)))]
    if not lets or len(bs) != len(lets):
        return None          # some binder of that name is not a plain `let`
    ends = [top_find(toks, k, len(toks), (';',), match) for k in lets]
    if any(e < 0 for e in ends):
        return None
    done = [(k, e) for k, e in zip(lets, ends) if e < i]          # a `let` whose own initialiser contains i does not bind there yet
    if not done:
        return None
    k, e = done[-1]
    anc = parent[i]
    while anc != parent[k] and anc >= 0:
        anc = parent[anc]
    if anc != parent[k]:
        return None
    return k, e


def site_as_slice(toks, i, rel):
    """`X.as_slice()` -> `&X[..]` for a local X that is a Vec: `Vec::as_slice(&self)` is documented as (and is) `&self[..]`, the whole vector
    as a shared slice.  Checked: X is a single identifier, not part of a longer path; its binding is the nearest `let [mut] X = vec![..];` /
    `Vec::new()` / `Vec::with_capacity(..)` / `let X: Vec<..>` of the enclosing fn and no other binder of that name exists there; the crate
    defines no `as_slice`; the call is a whole operand (nothing postfix follows, a boundary / `&` / `&mut` precedes), so that the prefix
    `&` of the new spelling binds exactly the indexing."""
    if not (toks[i][0] == 'id' and toks[i][1] not in KEYWORDS and i + 4 < len(toks) and toks[i + 1] == P_('.') and toks[i + 2] == I_('as_slice')
            and toks[i + 3] == P_('(') and toks[i + 4] == P_(')')):
        return None
    prv = toks[i - 1] if i > 0 else P_(';')
    nxt = toks[i + 5] if i + 5 < len(toks) else P_(';')
    if not (prv in LEFT_BOUNDARY or prv in (I_('mut'), P_('&'))) or nxt in (P_('.'), P_('['), P_('('), P_('?'), I_('as')):
        return None
    if crate_fn_count('as_slice'):
        return None
    match, parent = bmaps(toks)
    le = _nearest_let(toks, i, toks[i][1], match, parent)
    if le is None:
        return None
    k, e = le
    n = k + (3 if toks[k + 1] == I_('mut') else 2)
    init = tv(toks[n:e])
    is_vec = init[:3] == [':', 'Vec', '<'] or init[:4] == ['=', 'vec', '!', '['] and match.get(n + 3) == e - 1 \
        or init[:5] in (['=', 'Vec', '::', 'new', '('], ['=', 'Vec', '::', 'with_capacity', '(']) and match.get(n + 4) == e - 1
    if not is_vec:
        return None
    return toks[:i] + [P_('&'), toks[i], P_('['), P_('..'), P_(']')] + toks[i + 5:], i + 5


UINT_WIDTH = {'u8': 8, 'u16': 16, 'u32': 32, 'u64': 64}


def site_from_widen(toks, i, rel):
    """`uN::from(e)` -> `e as uN` (N in 16, 32, 64, size) for a local e of a narrower-or-equal primitive unsigned type uK: the only
    `From<uK> for uN` is core's lossless widening (or the identity), which is what `as` does between these types.  The TYPE of e is
    established syntactically: e is a single identifier whose only binder in the enclosing fn is `let e = <..>.read_uK::<..>()?;` /
    `.read_u8()?` (byteorder; the crate defines no read_uK of its own), `let e: uK = ..` or `let e = .. as uK;`, with K <= N (for usize:
    K in 8, 16, the impls that exist).  The call must be a whole operand between boundary tokens, so that the lower-binding `as` needs no
    parentheses."""
    if not (toks[i][0] == 'id' and toks[i][1] in ('u16', 'u32', 'u64', 'usize') and i + 5 < len(toks) and toks[i + 1] == P_('::') and toks[i + 2] == I_('from')
            and toks[i + 3] == P_('(') and toks[i + 4][0] == 'id' and toks[i + 4][1] not in KEYWORDS and toks[i + 5] == P_(')')):
        return None
    prv = toks[i - 1] if i > 0 else P_(';')
    nxt = toks[i + 6] if i + 6 < len(toks) else P_(';')
    if prv not in LEFT_BOUNDARY or nxt not in RIGHT_BOUNDARY:
        return None
    match, parent = bmaps(toks)
    le = _nearest_let(toks, i, toks[i + 4][1], match, parent)
    if le is None:
        return None
    k, e = le
    if toks[k + 1] == I_('mut'):
        return None
    init = toks[k + 2:e]
    ty = None
    if len(init) >= 3 and init[0] == P_(':') and init[1][0] == 'id' and init[2] == P_('='):
        ty = init[1][1]
    elif len(init) >= 3 and init[0] == P_('=') and init[-2] == I_('as') and init[-1][0] == 'id' and has_no_top_as_before(init[1:-2]):
        ty = init[-1][1]
    elif len(init) >= 5 and init[0] == P_('=') and init[-1] == P_('?') and init[-2] == P_(')') and init[-3] == P_('('):
        j = len(init) - 4
        if init[j] == P_('>') and j >= 4 and init[j - 2] == P_('<') and init[j - 3] == P_('::'):
            j -= 4
        m = re.fullmatch(r'read_(u8|u16|u32|u64)', init[j][1]) if init[j][0] == 'id' and j >= 1 and init[j - 1] == P_('.') else None
        if m and not crate_fn_count(init[j][1]):
            ty = m.group(1)
    if ty not in UINT_WIDTH:
        return None
    to = toks[i][1]
    if not (UINT_WIDTH[ty] <= 16 if to == 'usize' else UINT_WIDTH[ty] <= UINT_WIDTH[to]):
        return None
    return toks[:i] + [toks[i + 4], I_('as'), toks[i]] + toks[i + 6:], i + 3


def has_no_top_as_before(ts):
    """the operand of a trailing `as T`: anything without a binary operator of lower precedence than `as` at depth 0 (so that
    `<ts> as T` is the cast of the whole of ts)"""
    d = 0
    for n, t in enumerate(ts):
        if t[0] == 'punct' and t[1] in ('(', '[', '{'):
            d += 1
        elif t[0] == 'punct' and t[1] in (')', ']', '}'):
            d -= 1
        elif d == 0 and t[0] == 'punct' and t[1] in ('+', '-', '*', '/', '%', '&', '|', '^', '<', '>', '==', '!=', '<=', '>=', '&&', '||', '..', '..=', '=', '!'):
            return False
    return bool(ts)


_ERR_MACRO = []


def err_macro_is_pure():
    """the crate's only `err!` is `macro_rules! err { ($( $arg: expr ),*) => { crate::io::Error::InvalidData(format!($( $arg ),*)) } }`: building
    the value formats its arguments into a String and does nothing else"""
    if not _ERR_MACRO:
        ok = False
        try:
            n = 0
            for root, _, files in os.walk(os.path.join(REPO, 'src')):
                for f in files:
                    if f.endswith('.rs'):
                        with open(os.path.join(root, f)) as fh:
                            n += len(re.findall(r'macro_rules\s*!\s*err\b', fh.read()))
            t = tokenize(read('src/io/mod.rs'), 'src/io/mod.rs')
            k = find_seq(t, ['macro_rules', '!', 'err', '{'])
            m, _ = bracket_maps(t)
            ok = n == 1 and k >= 0 and sj(t[k + 4:m[k + 3]]) == \
                '( $ ( $ arg : expr ) , * ) => { crate :: io :: Error :: InvalidData ( format ! ( $ ( $ arg ) , * ) ) }'
        except Exception:
            ok = False
        _ERR_MACRO.append(ok)
    return _ERR_MACRO[0]


def site_ok_or_else(toks, i, rel):
    """`.ok_or_else(|| err!(<literals>))` -> `.ok_or(err!(<literals>))`: Option::ok_or_else(f) is `match self { Some(v) => Ok(v), None => Err(f()) }`
    and ok_or(e) the same with e built beforehand; they differ only in WHEN (and whether) the error value is built.  Here building it is
    `Error::InvalidData(format!(<literals>))` (err_macro_is_pure: checked on the crate's macro definition), which reads no variable (every
    argument is a literal token and the format string has no inline `{name}` capture), writes nothing, cannot panic on literals that
    compile, and an unused value is dropped without effect (a String) -- so neither the result nor anything observable differs.  The
    crate defines no ok_or / ok_or_else of its own."""
    if not (toks[i] == P_('.') and i + 6 < len(toks) and toks[i + 1] == I_('ok_or_else') and toks[i + 2] == P_('(') and toks[i + 3] == P_('||')
            and toks[i + 4] == I_('err') and toks[i + 5] == P_('!') and toks[i + 6] == P_('(')):
        return None
    match, _ = bmaps(toks)
    c = match.get(i + 6, -1)
    c0 = match.get(i + 2, -1)
    if c < 0 or not (c0 == c + 1 or (c0 == c + 2 and toks[c + 1] == P_(','))):
        return None
    if not (c0 + 1 < len(toks) and toks[c0 + 1] == P_('?')):
        return None          # only `.ok_or_else(..)?`: nothing may be chained onto the Result (not needed for the equivalence; keeps the pass narrow)
    args = toks[i + 7:c]
    if not args or args[0][0] != 'str' or re.search(r'\{\s*[A-Za-z_]', args[0][1].replace('{{', '')):
        return None
    for n, t in enumerate(args):
        if not (t[0] in ('str', 'num', 'char') or t in (I_('true'), I_('false')) if n % 2 == 0 else t == P_(',')):
            return None
    if crate_fn_count('ok_or') or crate_fn_count('ok_or_else') or not err_macro_is_pure():
        return None
    return toks[:i] + [P_('.'), I_('ok_or'), P_('(')] + toks[i + 4:c + 1] + [P_(')')] + toks[c0 + 1:], i + 1


ESCAPES = (I_('return'), I_('break'), I_('continue'), P_('?'), I_('await'), I_('yield'), I_('let'))


def site_iflet_map(toks, i, rel):
    """`if let Some(h) = O { S; }` (no else; a statement of a block, so its value `()` is discarded) -> `O.map(|h| S);` (value discarded
    likewise).  For O an Option BY VALUE both evaluate O once, run S with h bound to the payload exactly when it is Some, and drop what S
    yields before the statement ends.  Checked: O is one pure postfix chain that ends in `.as_mut()` / `.as_ref()` (Option::as_mut /
    as_ref yield an Option by value whose payload is a reference, so `Some(h)` binds h by value in both spellings -- no default binding
    mode through a reference to an Option is involved); h is a plain identifier; S is a single expression statement without `?`,
    return, break, continue, await, `let` (their meaning would change inside a closure) and without a closure or block of its own; the
    crate defines no `map`, and has no Drop impl (nothing observable happens when the value of S is dropped)."""
    if not (toks[i] == I_('if') and i + 7 < len(toks) and toks[i + 1] == I_('let') and toks[i + 2] == I_('Some') and toks[i + 3] == P_('(')
            and toks[i + 4][0] == 'id' and toks[i + 4][1] not in KEYWORDS and BINDER_RE.match(toks[i + 4][1]) and toks[i + 5] == P_(')') and toks[i + 6] == P_('=')):
        return None
    if i == 0 or toks[i - 1] not in (P_(';'), P_('{'), P_('}')):
        return None
    match, parent = bmaps(toks)
    if toks[i - 1] == P_('{') and header_kw(toks, i - 1, parent) is None:
        return None
    if toks[i - 1] == P_('}') and is_struct_brace(toks, match[i - 1], parent):
        return None
    b = _cond_block(toks, i, match)
    if b < 0 or b <= i + 7:
        return None
    c = match[b]
    if c + 1 < len(toks) and toks[c + 1] in (I_('else'), P_('.'), P_('?')):
        return None
    O = toks[i + 7:b]
    if O[0][0] != 'id' or (O[0][1] in KEYWORDS and O[0][1] != 'self') or chain_end(toks, i + 7, match) != b:
        return None
    if len(O) < 5 or tv(O[-4:]) not in (['.', 'as_mut', '(', ')'], ['.', 'as_ref', '(', ')']):
        return None
    S = toks[b + 1:c]
    if len(S) < 2 or S[-1] != P_(';') or any(t == P_(';') for t in S[:-1]) or any(t in ESCAPES for t in S) \
            or any(t in (P_('{'), P_('|'), P_('||')) for t in S) or S[0][0] == 'id' and S[0][1] in KEYWORDS and S[0][1] != 'self':
        return None
    if crate_fn_count('map') or crate_has_drop_impl():
        return None
    new = O + [P_('.'), I_('map'), P_('('), P_('|'), toks[i + 4], P_('|')] + S[:-1] + [P_(')'), P_(';')]
    return toks[:i] + new + toks[c + 1:], i + 1


def site_while_let(toks, i, rel):
    """`while let Some(k) = E { BODY }` -> `while match E { Some(k) => { BODY true } None => false } {}`.  `while let P = E { B }` is defined as
    `loop { match E { P => { B } _ => break } }`; `while c {}` as `loop { if c {} else { break } }`.  With c the match above, each round
    evaluates E once (its temporaries live to the end of the match, i.e. across BODY, in both), on Some(k) runs BODY with k bound and goes
    round again, on None leaves the loop; `?` / `return` inside E or BODY leave the enclosing function in both.  Checked: k a plain
    identifier (so Some(k) / None are exhaustive), BODY contains no `break` / `continue` (they would refer to a loop whose condition they are
    in) and no loop label, and ends in `;` (or is empty) so that `true` is the value of the arm's block."""
    if not (toks[i] == I_('while') and i + 7 < len(toks) and toks[i + 1] == I_('let') and toks[i + 2] == I_('Some') and toks[i + 3] == P_('(')
            and toks[i + 4][0] == 'id' and toks[i + 4][1] not in KEYWORDS and BINDER_RE.match(toks[i + 4][1]) and toks[i + 5] == P_(')') and toks[i + 6] == P_('=')):
        return None
    if i > 0 and toks[i - 1] == P_(':'):
        return None          # labelled loop
    match, parent = bmaps(toks)
    b = _cond_block(toks, i, match)
    if b < 0 or b <= i + 7:
        return None
    c = match[b]
    E = toks[i + 7:b]
    body = toks[b + 1:c]
    if any(t in (I_('break'), I_('continue')) or t[0] == 'lifetime' for t in body) or (body and body[-1] != P_(';')):
        return None
    if any(t in (I_('break'), I_('continue'), P_('||'), P_('&&')) for t in E):
        return None
    new = [I_('while'), I_('match')] + E + [P_('{'), I_('Some'), P_('('), toks[i + 4], P_(')'), P_('=>'), P_('{')] + body + \
        [I_('true'), P_('}'), I_('None'), P_('=>'), I_('false'), P_(','), P_('}'), P_('{'), P_('}')]
    return toks[:i] + new + toks[c + 1:], i + 1


_OTHER_FILES_IDS = {}


def ident_in_other_files(name, rel):
    """does the identifier occur in any .rs file of the crate other than rel?"""
    key = (name, rel)
    if key not in _OTHER_FILES_IDS:
        found = False
        for root, _, files in os.walk(os.path.join(REPO, 'src')):
            for f in files:
                p = os.path.join(root, f)
                if f.endswith('.rs') and os.path.relpath(p, REPO) != rel:
                    with open(p) as fh:
                        if re.search(r'\b%s\b' % re.escape(name), fh.read()):
                            found = True
        _OTHER_FILES_IDS[key] = found
    return _OTHER_FILES_IDS[key]


def private_fns(toks, match, parent):
    """the private (no `pub`, `pub(..)`) free fns at the top level of the file"""
    return [f for f in fn_items(toks, match, parent) if not f['pub'] and f['owner'] == '' and parent[f['fn']] == -1]


HARMLESS_ATTRS = ('inline', 'allow', 'doc', 'must_use', 'cold')


def site_fn_rename(toks, i, rel):
    """a private top-level free fn that was renamed together with all its uses in the file is renamed back to the recorded name
    (EXPECTED_PRIVATE_FNS, from `--dump-binders`).  Renaming a private item to a name that is FRESH is alpha-conversion: checked are
    * the set of private top-level fn names of the file differs from the recorded set in exactly one name on each side (one fn `new` that
      is not recorded, one recorded name `old` that is missing), and toks[i] is the `fn` of `new`; it is defined once, is not
      `pub` / `pub(..)`, is not in an impl or a nested mod, carries no attribute other than inline / allow / doc / must_use / cold
      (no_mangle, export_name, test .. would make the name observable);
    * `old` occurs NOWHERE in the file, as an identifier or inside a string literal (format captures, stringify), so nothing is captured
      or shadowed by it (a local item takes precedence over a glob import, and no other code mentions `old`);
    * `new` occurs in no other file of the crate (a private fn is visible to child modules only; there is no `super::new` elsewhere), in no
      string literal of the file, and every occurrence in the file denotes this fn or a local that shadows it consistently: not after
      `.` / `::`, not before `::`, not a macro name, not a field name, not a lifetime -- if any occurrence is in such a position the
      pass does nothing.  ALL these occurrences are renamed, so the binding structure is unchanged."""
    if toks[i] != I_('fn') or i + 1 >= len(toks) or toks[i + 1][0] != 'id':
        return None
    rec = EXPECTED_PRIVATE_FNS.get(rel)
    if rec is None:
        return None
    rec = rec.split()
    match, parent = bmaps(toks)
    pf = private_fns(toks, match, parent)
    cur = [f['name'] for f in pf]
    extra = [n for n in cur if n not in rec]
    missing = [n for n in rec if n not in cur]
    if len(extra) != 1 or len(missing) != 1 or len(set(cur)) != len(cur) or len(cur) != len(rec):
        return None
    new, old = extra[0], missing[0]
    f = [f for f in pf if f['name'] == new][0]
    if f['fn'] != i or sum(1 for g in fn_items(toks, match, parent) if g['name'] == new) != 1:
        return None
    p = toks[i - 1] if i > 0 else P_(';')
    if p == P_(']') and (i - 1) in match:
        o = match[i - 1]
        if not (o >= 1 and toks[o - 1] == P_('#') and toks[o + 1][0] == 'id' and toks[o + 1][1] in HARMLESS_ATTRS):
            return None
        q = toks[o - 2] if o >= 2 else P_(';')
        if q not in (P_(';'), P_('}')):
            return None
    elif p not in (P_(';'), P_('}')):
        return None          # pub, async, unsafe, const, extern ..
    for k, t in enumerate(toks):
        if t[0] == 'str' and (old in t[1] or new in t[1]):
            return None
        if t[1] == old or (t[0] == 'lifetime' and t[1][1:] in (old, new)):
            return None
        if t == I_(new) and k != i + 1 and is_var_pos(toks, k, parent) != 'var':
            return None
    if ident_in_other_files(new, rel):
        return None
    return [I_(old) if t == I_(new) else t for t in toks], len(toks)


NORM_PASSES = (('hex', site_hex), ('fold', site_fold), ('commute', site_commute), ('const', site_const), ('not_gte', site_not_gte),
               ('map_or', site_map_or), ('match_some', site_match_some), ('inline_fn', site_inline_fn), ('inline_let', site_inline_let),
               ('loop_collect', site_loop_collect), ('swap_update', site_swap_update))
NORM_ALL = tuple(n for n, _ in NORM_PASSES if n not in ('commute', 'swap_update'))     # these two flip a site back and forth: only useful site by site
# the second batch: tried only after EVERY variant of the first batch has been refused (run_front_end), so whatever the first batch
# made a front end accept is accepted in exactly the same variant as before
NORM_PASSES2 = (('not_lt', site_not_lt), ('if_lt_swap', site_if_lt_swap), ('match_bool', site_match_bool), ('as_slice', site_as_slice),
                ('from_widen', site_from_widen), ('ok_or_else', site_ok_or_else), ('iflet_map', site_iflet_map), ('while_let', site_while_let),
                ('fn_rename', site_fn_rename))
NORM_PASSES1 = NORM_PASSES
NORM_PASSES = NORM_PASSES1 + NORM_PASSES2
NORM_ALL2 = NORM_ALL + tuple(n for n, _ in NORM_PASSES2)


# ------------------------------------------------------------------------------------------------
# (b) expression front end: Rust expression -> AST -> Gallina

class P:
    """Pratt parser over a token list for the expression subset described in DESIGN.md section 4(b)"""

    def __init__(self, toks, where):
        self.t = toks
        self.i = 0
        self.where = where

    def peek(self, k=0):
        return self.t[self.i + k][1] if self.i + k < len(self.t) else None

    def kind(self):
        return self.t[self.i][0] if self.i < len(self.t) else None

    def eat(self, v=None):
        if self.i >= len(self.t):
            raise TranslateError('%s: unexpected end of tokens' % self.where)
        tok = self.t[self.i]
        if v is not None and tok[1] != v:
            raise TranslateError('%s: expected %r, got %r' % (self.where, v, tok[1]))
        self.i += 1
        return tok[1]

    def done(self):
        return self.i >= len(self.t)

    BIN = {'||': 1, '&&': 2, '==': 3, '!=': 3, '<': 3, '<=': 3, '>': 3, '>=': 3, '+': 5, '-': 5, '*': 6}

    def expr(self, minp=0):
        lhs = self.unary()
        while True:
            op = self.peek()
            if op in self.BIN and self.BIN[op] >= minp and self.kind() == 'punct':
                p = self.BIN[op]
                self.eat()
                rhs = self.expr(p + 1)
                lhs = ('bin', op, lhs, rhs)
            elif op == 'as' and self.kind() == 'id':
                self.eat()
                ty = self.eat()
                lhs = ('cast', lhs, ty)
            else:
                return lhs

    def unary(self):
        if self.peek() == '!' and self.kind() == 'punct':
            self.eat()
            return ('not', self.unary())
        if self.peek() == '*' and self.kind() == 'punct':
            self.eat()
            return self.unary()
        if self.peek() == '&' and self.kind() == 'punct':
            self.eat()
            return self.unary()
        return self.postfix()

    def postfix(self):
        e = self.atom()
        while True:
            if self.peek() == '.' and self.kind() == 'punct':
                self.eat()
                if self.kind() == 'num':
                    e = ('field', e, int(self.eat()))
                else:
                    name = self.eat()
                    if self.peek() == '(':
                        args = self.args()
                        e = ('method', e, name, args)
                    else:
                        e = ('fieldn', e, name)
            elif self.peek() == '?' and self.kind() == 'punct':
                self.eat()
            else:
                return e

    def args(self):
        self.eat('(')
        a = []
        while self.peek() != ')':
            a.append(self.expr())
            if self.peek() == ',':
                self.eat()
        self.eat(')')
        return a

    def block(self):
        self.eat('{')
        lets = []
        while self.peek() == 'let':
            self.eat()
            name = self.eat()
            if self.peek() == ':':
                self.eat()
                self.eat()
            self.eat('=')
            v = self.expr()
            self.eat(';')
            lets.append((name, v))
        e = self.expr()
        if self.peek() == ';':
            self.eat()
        self.eat('}')
        for name, v in reversed(lets):
            e = ('let', name, v, e)
        return e

    def pattern(self):
        # integer | a..=b | _ | x
        if self.kind() == 'num':
            a = num(self.eat())
            if self.peek() == '..=':
                self.eat()
                b = num(self.eat())
                return ('range', a, b)
            return ('lit', a)
        v = self.eat()
        if v == '_':
            return ('wild',)
        return ('bind', v)

    def atom(self):
        k = self.kind()
        v = self.peek()
        if k == 'num':
            self.eat()
            return ('num', num(v))
        if v == '(' and k == 'punct':
            self.eat()
            if self.peek() == ')':
                self.eat()
                return ('unit',)
            e = self.expr()
            self.eat(')')
            return e
        if v == '{' and k == 'punct':
            return self.block()
        if v == 'if':
            self.eat()
            c = self.expr()
            a = self.block()
            self.eat('else')
            if self.peek() == 'if':
                b = self.atom()
            else:
                b = self.block()
            return ('if', c, a, b)
        if v == 'match':
            self.eat()
            scrut = self.expr()
            self.eat('{')
            arms = []
            while self.peek() != '}':
                pat = self.pattern()
                self.eat('=>')
                e = self.expr()
                if self.peek() == ',':
                    self.eat()
                arms.append((pat, e))
            self.eat('}')
            return ('match', scrut, arms)
        if k == 'id':
            path = [self.eat()]
            while self.peek() == '::':
                self.eat()
                if self.peek() == '<':   # turbofish: skip
                    d = 0
                    while True:
                        x = self.eat()
                        if x == '<':
                            d += 1
                        elif x == '>':
                            d -= 1
                            if d == 0:
                                break
                    continue
                path.append(self.eat())
            name = '::'.join(path)
            if self.peek() == '!' and self.peek(1) == '(':
                # macro call: err!(...) -> opaque
                self.eat()
                j = match_close(self.t, self.i)
                self.i = j + 1
                return ('macro', name)
            if self.peek() == '(' and self.kind() == 'punct':
                a = self.args()
                return ('call', name, a)
            return ('var', name)
        raise TranslateError('%s: unexpected token %r' % (self.where, v))


def num(s):
    s = re.sub(r'(?<=[0-9a-fA-F_])[iu](8|16|32|64|size)$', '', s).replace('_', '')
    return int(s, 16) if s.startswith('0x') else int(s)


class G:
    """Gallina printer; every integer is an N; comparisons are boolean"""

    def __init__(self, env, where, result_bool=False):
        self.env = env    # name -> gallina text
        self.where = where
        self.result_bool = result_bool

    def e(self, a):
        k = a[0]
        if k == 'num':
            return '%d' % a[1]
        if k == 'var':
            n = a[1]
            if n in self.env:
                return self.env[n]
            raise TranslateError('%s: unknown name %s' % (self.where, n))
        if k == 'field':
            return '(v%d %s)' % (a[2], self.e(a[1]))
        if k == 'not':
            return '(negb %s)' % self.e(a[1])
        if k == 'cast':
            return self.e(a[1])
        if k == 'bin':
            op, l, r = a[1], self.e(a[2]), self.e(a[3])
            m = {'||': '(orb %s %s)', '&&': '(andb %s %s)', '==': '(N.eqb %s %s)', '!=': '(negb (N.eqb %s %s))',
                 '<': '(N.ltb %s %s)', '<=': '(N.leb %s %s)', '+': '(N.add %s %s)', '-': '(N.sub %s %s)',
                 '*': '(N.mul %s %s)'}
            if op == '>':
                return '(N.ltb %s %s)' % (r, l)
            if op == '>=':
                return '(N.leb %s %s)' % (r, l)
            return m[op] % (l, r)
        if k == 'if':
            return '(if %s then %s else %s)' % (self.e(a[1]), self.e(a[2]), self.e(a[3]))
        if k == 'let':
            inner = G(dict(self.env, **{a[1]: a[1]}), self.where, self.result_bool)
            return '(let %s := %s in %s)' % (a[1], self.e(a[2]), inner.e(a[3]))
        if k == 'method':
            recv, name, args = a[1], a[2], a[3]
            if name in ('gte', 'lt') and len(args) == 2:
                return '(slippi_Version_%s %s %s %s)' % (name, self.e(recv), self.e(args[0]), self.e(args[1]))
            if name == 'unwrap' and recv[0] == 'call' and recv[1] == 'char::try_from' and len(recv[2]) == 1:
                # the result must be a Unicode scalar value: a proof obligation (Model/ShiftJis.v), not an assumption
                return self.e(recv[2][0])
            raise TranslateError('%s: unsupported method %s' % (self.where, name))
        if k == 'call':
            name, args = a[1], a[2]
            if name == 'Ok' and self.result_bool:
                return 'true'
            if name == 'Err' and self.result_bool:
                return 'false'
            if name in ('u32::from', 'u64::from', 'usize::from', 'i64::from'):
                return self.e(args[0])
            raise TranslateError('%s: unsupported call %s' % (self.where, name))
        if k == 'match':
            scrut = self.e(a[1])
            out = None
            # build nested ifs from the last arm backwards
            arms = a[2]
            if arms[-1][0][0] not in ('wild', 'bind'):
                raise TranslateError('%s: match without a catch-all arm' % self.where)
            last = arms[-1]
            if last[0][0] == 'bind':
                out = G(dict(self.env, **{last[0][1]: 'scrut'}), self.where, self.result_bool).e(last[1])
            else:
                out = self.e(last[1])
            for pat, body in reversed(arms[:-1]):
                if pat[0] == 'lit':
                    c = '(N.eqb scrut %d)' % pat[1]
                elif pat[0] == 'range':
                    c = '(andb (N.leb %d scrut) (N.leb scrut %d))' % (pat[1], pat[2])
                else:
                    raise TranslateError('%s: catch-all arm not last' % self.where)
                out = '(if %s then %s else %s)' % (c, self.e(body), out)
            return '(let scrut := %s in %s)' % (scrut, out)
        raise TranslateError('%s: unsupported expression %r' % (self.where, k))


def parse_params(ptoks, where):
    """-> list of (name, type string)"""
    out = []
    cur = []
    d = 0
    for t in ptoks + [('punct', ',')]:
        if t[1] in '<([':
            d += 1
        if t[1] in '>)]':
            d -= 1
        if t[1] == ',' and d == 0:
            if cur:
                vals = [x[1] for x in cur]
                if vals[-1] == 'self':
                    out.append(('self', 'Self'))
                else:
                    i = vals.index(':')
                    nm = [x for x in vals[:i] if x != 'mut'][-1]
                    out.append((nm, ' '.join(vals[i + 1:])))
            cur = []
        else:
            cur.append(t)
    return out


def find_fn(rel, impl_name, fn_name):
    toks = file_toks(rel)
    if impl_name is None:
        for name, params, ret, body in fns_in(toks):
            if name == fn_name:
                return params, ret, body
    else:
        for kind, name, frm, body in impl_blocks(toks):
            if kind == 'impl' and name == impl_name:
                for n, params, ret, b in fns_in(body):
                    if n == fn_name:
                        return params, ret, b
    raise TranslateError('%s: fn %s%s not found' % (rel, (impl_name + '::') if impl_name else '', fn_name))


def find_const(rel, name):
    """`const NAME: T = <expr>;` -> (type string, expr tokens)"""
    toks = file_toks(rel)
    vals = tv(toks)
    for i in range(len(vals) - 2):
        if vals[i] == 'const' and vals[i + 1] == name:
            j = i + 2
            assert vals[j] == ':'
            k = vals.index('=', j)
            e = k + 1
            d = 0
            while not (vals[e] == ';' and d == 0):
                if vals[e] in '([{':
                    d += 1
                if vals[e] in ')]}':
                    d -= 1
                e += 1
            return ' '.join(vals[j + 1:k]), toks[k + 1:e]
    raise TranslateError('%s: const %s not found' % (rel, name))


def version_const(rel, name, ty='Version'):
    t, e = find_const(rel, name)
    v = tv(e)
    if t != ty or len(v) != 8 or v[0] != ty or v[1] != '(' or v[3] != ',' or v[5] != ',' or v[7] != ')':
        raise TranslateError('%s: const %s is not a %s(a, b, c) literal: %s' % (rel, name, ty, ' '.join(v)))
    return (num(v[2]), num(v[4]), num(v[6]))


def byte_array_const(rel, name):
    t, e = find_const(rel, name)
    v = tv(e)
    if v[0] != '[' or v[-1] != ']':
        raise TranslateError('%s: const %s is not an array literal' % (rel, name))
    return [num(x) for x in v[1:-1] if x != ',']


def int_const(rel, name):
    t, e = find_const(rel, name)
    v = tv(e)
    if len(v) == 1:
        return num(v[0])
    if len(v) == 2 and v[0] == '-':
        return -num(v[1])
    raise TranslateError('%s: const %s is not an integer literal: %s' % (rel, name, ' '.join(v)))


def check_version_struct(rel):
    """the struct must be `#[derive(.. PartialOrd, Ord ..)] pub struct Version(pub u8, pub u8, pub u8);`
    so that `<`/`<=` are the lexicographic order on (major, minor, patch)"""
    toks = file_toks(rel)
    vals = tv(toks)
    i = find_seq(toks, ['struct', 'Version'])
    if i < 0:
        raise TranslateError('%s: struct Version not found' % rel)
    body = vals[i + 2:i + 2 + 13]
    if body[:12] != ['(', 'pub', 'u8', ',', 'pub', 'u8', ',', 'pub', 'u8', ')', ';'][:12] and \
       body[:11] != ['(', 'pub', 'u8', ',', 'pub', 'u8', ',', 'pub', 'u8', ')', ';']:
        raise TranslateError('%s: struct Version is not (pub u8, pub u8, pub u8): %s' % (rel, ' '.join(body)))
    # nearest preceding derive
    j = i
    while j > 0 and not (vals[j] == 'derive' and vals[j - 1] == '['):
        j -= 1
    e = match_close(toks, j + 1)
    ders = [x for x in vals[j + 2:e] if x != ',']
    if 'PartialOrd' not in ders or 'Ord' not in ders or 'PartialEq' not in ders:
        raise TranslateError('%s: Version does not derive PartialEq/PartialOrd/Ord: %s' % (rel, ders))
    return ders


def fn_to_gallina(rel, impl_name, fn_name, coq_name, self_ty='version', result_bool=False, extra_env=None):
    params, ret, body = find_fn(rel, impl_name, fn_name)
    where = '%s %s::%s' % (rel, impl_name or '', fn_name)
    ps = parse_params(params, where)
    env = dict(extra_env or {})
    binders = []
    for nm, ty in ps:
        if nm == 'self':
            env['self'] = 'self'
            binders.append('(self : %s)' % self_ty)
        else:
            env[nm] = nm
            t = 'version' if ty in ('Version', 'slippi :: Version') else 'N'
            binders.append('(%s : %s)' % (nm, t))
    p = P([('punct', '{')] + body + [('punct', '}')], where)
    ast = p.block()
    if not p.done():
        raise TranslateError('%s: trailing tokens after body' % where)
    g = G(env, where, result_bool)
    return 'Definition %s %s := %s.' % (coq_name, ' '.join(binders), g.e(ast)), ast


def enum_codes(rel, name):
    toks = file_toks(rel)
    vals = tv(toks)
    i = find_seq(toks, ['enum', name, '{'])
    if i < 0:
        raise TranslateError('%s: enum %s not found' % (rel, name))
    e = match_close(toks, i + 2)
    body = vals[i + 3:e]
    out = []
    j = 0
    while j < len(body):
        if j + 2 < len(body) and body[j + 1] == '=':
            out.append((body[j], num(body[j + 2])))
            j += 3
        elif body[j] == ',':
            j += 1
        else:
            raise TranslateError('%s: enum %s has a variant without explicit code near %s' % (rel, name, body[j]))
    return out


def cargo_preserve_order():
    s = read('Cargo.toml')
    m = re.search(r'^serde_json\s*=\s*\{([^}]*)\}', s, re.M)
    if not m:
        return False
    f = re.search(r'features\s*=\s*\[([^\]]*)\]', m.group(1))
    return bool(f and '"preserve_order"' in f.group(1))


def gen_funs():
    L = []
    L.append('(* GENERATED by tools/rust2coq.py from the Rust sources under %s -- do not edit. *)' % REPO)
    L.append('From Coq Require Import NArith ZArith Bool List.')
    L.append('Import ListNotations.')
    L.append('Local Open Scope N_scope.')
    L.append('')
    L.append('Definition version := (N * N * N)%type.')
    L.append('Definition v0 (v : version) : N := fst (fst v).')
    L.append('Definition v1 (v : version) : N := snd (fst v).')
    L.append('Definition v2 (v : version) : N := snd v.')
    L.append('')
    L.append('(* src/io/slippi/mod.rs *)')
    ders = check_version_struct('src/io/slippi/mod.rs')
    L.append('Definition slippi_Version_derives_lex_order : bool := true. (* derive(%s) on (pub u8, pub u8, pub u8) *)' % ', '.join(ders))
    d, _ = fn_to_gallina('src/io/slippi/mod.rs', 'Version', 'gte', 'slippi_Version_gte')
    L.append(d)
    d, _ = fn_to_gallina('src/io/slippi/mod.rs', 'Version', 'lt', 'slippi_Version_lt')
    L.append(d)
    mv = version_const('src/io/slippi/mod.rs', 'MAX_SUPPORTED_VERSION')
    L.append('Definition MAX_SUPPORTED_VERSION : version := (%d, %d, %d).' % mv)
    L.append('Definition SLIPPI_FILE_SIGNATURE : list N := [%s].' % '; '.join(map(str, byte_array_const('src/io/slippi/mod.rs', 'FILE_SIGNATURE'))))
    # lexicographic order used for derived <= / < on Version
    L.append('Definition version_le (a b : version) : bool :=')
    L.append('  orb (N.ltb (v0 a) (v0 b)) (andb (N.eqb (v0 a) (v0 b)) (orb (N.ltb (v1 a) (v1 b)) (andb (N.eqb (v1 a) (v1 b)) (N.leb (v2 a) (v2 b))))).')
    L.append('Definition version_lt (a b : version) : bool := negb (version_le b a).')
    # assert_max_version: `if version <= MAX_SUPPORTED_VERSION { Ok(()) } else { Err(..) }`
    params, ret, body = find_fn('src/io/slippi/mod.rs', None, 'assert_max_version')
    L.append(translate_version_guard('src/io/slippi/mod.rs', 'assert_max_version', body, 'assert_max_version_ok'))
    L.append('')
    L.append('(* src/io/peppi/mod.rs *)')
    check_version_struct('src/io/peppi/mod.rs')
    L.append('Definition PEPPI_CURRENT_VERSION : version := (%d, %d, %d).' % version_const('src/io/peppi/mod.rs', 'CURRENT_VERSION'))
    L.append('Definition PEPPI_MIN_VERSION : version := (%d, %d, %d).' % version_const('src/io/peppi/mod.rs', 'MIN_VERSION'))
    L.append('Definition PEPPI_FILE_SIGNATURE : list N := [%s].' % '; '.join(map(str, byte_array_const('src/io/peppi/mod.rs', 'FILE_SIGNATURE'))))
    params, ret, body = find_fn('src/io/peppi/mod.rs', None, 'assert_current_version')
    L.append(translate_version_guard('src/io/peppi/mod.rs', 'assert_current_version', body, 'assert_current_version_ok'))
    L.append('')
    L.append('(* src/game/mod.rs, src/frame/mod.rs *)')
    for nm in ('NUM_PORTS', 'MAX_PLAYERS', 'ICE_CLIMBERS'):
        L.append('Definition %s : N := %d.' % (nm, int_const('src/game/mod.rs', nm)))
    L.append('Definition FIRST_INDEX : Z := (%d)%%Z.' % int_const('src/frame/mod.rs', 'FIRST_INDEX'))
    d, _ = fn_to_gallina('src/game/mod.rs', 'End', 'size', 'game_End_size')
    L.append(d)
    L.append('')
    L.append('(* src/io/slippi/de.rs *)')
    ev = enum_codes('src/io/slippi/de.rs', 'Event')
    for n, c in ev:
        L.append('Definition Event_%s : N := %d.' % (n, c))
    L.append('Definition Event_codes : list N := [%s].' % '; '.join(str(c) for _, c in ev))
    L.append('')
    L.append('(* src/io/ubjson/de.rs *)')
    L.append('Definition UBJSON_MAX_DEPTH : N := %d.' % int_const('src/io/ubjson/de.rs', 'MAX_DEPTH'))
    L.append('')
    L.append('(* src/game/shift_jis.rs *)')
    d, ast = fn_to_gallina('src/game/shift_jis.rs', None, 'fix_char', 'fix_char_u32', extra_env={})
    L.append(d)
    L.append('')
    L.append('(* src/game/mod.rs enums (TryFromPrimitive): the accepted codes *)')
    for en in ('PlayerType', 'DashBack', 'ShieldDrop', 'Language', 'EndMethod', 'Port'):
        codes = enum_codes('src/game/mod.rs', en)
        L.append('Definition %s_codes : list N := [%s].' % (en, '; '.join(str(c) for _, c in codes)))
        L.append('Definition %s_names : list (N * list N) := [%s].' % (en, '; '.join('(%d, [%s])' % (c, '; '.join(str(b) for b in n.encode())) for n, c in codes)))
    L.append('')
    L.append('(* Cargo.toml *)')
    L.append('Definition serde_json_preserve_order : bool := %s.' % ('true' if cargo_preserve_order() else 'false'))
    return '\n'.join(L) + '\n'


def translate_version_guard(rel, fn, body, coq_name):
    """`if version <= CONST { Ok(()) } else { Err(..) }`  or  `if version < CONST { Err(..) } else { Ok(()) }`"""
    where = '%s %s' % (rel, fn)
    p = P([('punct', '{')] + body + [('punct', '}')], where)
    ast = p.block()
    if ast[0] != 'if' or ast[1][0] != 'bin' or ast[1][2] != ('var', 'version') or ast[1][3][0] != 'var':
        raise TranslateError('%s: not of the form `if version <op> CONST {..} else {..}`' % where)
    op = ast[1][1]
    const = ast[1][3][1]
    cmap = {'MAX_SUPPORTED_VERSION': 'MAX_SUPPORTED_VERSION', 'MIN_VERSION': 'PEPPI_MIN_VERSION', 'CURRENT_VERSION': 'PEPPI_CURRENT_VERSION'}
    if const not in cmap:
        raise TranslateError('%s: unknown constant %s' % (where, const))
    c = cmap[const]
    cmp_ = {'<=': 'version_le version %s' % c, '<': 'version_lt version %s' % c,
            '>=': 'version_le %s version' % c, '>': 'version_lt %s version' % c}.get(op)
    if cmp_ is None:
        raise TranslateError('%s: unsupported comparison %s on Version' % (where, op))

    def res(a):
        if a[0] == 'call' and a[1] == 'Ok':
            return 'true'
        if a[0] == 'call' and a[1] == 'Err':
            return 'false'
        raise TranslateError('%s: branch is neither Ok(..) nor Err(..)' % where)
    return 'Definition %s (version : version) : bool := if %s then %s else %s.' % (coq_name, cmp_, res(ast[2]), res(ast[3]))


# ------------------------------------------------------------------------------------------------
# (a) generated-code front end

PRIMS = ('u8', 'i8', 'u16', 'i16', 'u32', 'i32', 'f32')
PRIM_COQ = {'u8': 'U8', 'i8': 'I8', 'u16': 'U16', 'i16': 'I16', 'u32': 'U32', 'i32': 'I32', 'f32': 'F32'}
ARROW_TY = {'UInt8': 'u8', 'Int8': 'i8', 'UInt16': 'u16', 'Int16': 'i16', 'UInt32': 'u32', 'Int32': 'i32', 'Float32': 'f32'}
GEN_STRUCTS = ['End', 'Item', 'ItemMisc', 'Position', 'Post', 'Pre', 'Start', 'StateFlags', 'TriggersPhysical',
               'Velocities', 'Velocity']


def split_stmts(toks):
    """split a token list into statements at top-level ';' ; an `if ... { }` block is a statement by itself"""
    out = []
    cur = []
    i = 0
    while i < len(toks):
        t = toks[i]
        if t[1] in ('{', '(', '[') and t[0] == 'punct':
            e = match_close(toks, i)
            cur.extend(toks[i:e + 1])
            i = e + 1
            if cur and cur[0][1] == 'if' and t[1] == '{':
                # if-block (possibly followed by ';')
                if i < len(toks) and toks[i][1] == ';':
                    i += 1
                out.append(cur)
                cur = []
            continue
        if t[1] == ';' and t[0] == 'punct':
            if cur:
                out.append(cur)
            cur = []
        else:
            cur.append(t)
        i += 1
    if cur:
        out.append(cur)
    return out


def fname(s):
    return s[2:] if s.startswith('r#') else s


def parse_gate(st, where):
    """`if version . gte ( M , m ) { body }` -> (M, m, body tokens) or None"""
    v = tv(st)
    if v[:5] == ['if', 'version', '.', 'gte', '('] and v[6] == ',' and v[8] == ')' and v[9] == '{':
        e = match_close(st, 9)
        if e != len(st) - 1:
            raise TranslateError('%s: tokens after gate block' % where)
        return num(v[5]), num(v[7]), st[10:e]
    return None


def parse_instrs(toks, kind, where):
    res = []
    for st in split_stmts(toks):
        g = parse_gate(st, where)
        if g:
            res.append(('Gate', g[0], g[1], parse_instrs(g[2], kind, where)))
            continue
        s = sj(st)
        it = None
        if kind == 'read_push':
            m = re.fullmatch(r'r \. read_(\w+)(?: :: < BE >)? \( \) \. map \( \| x \| (?:\{ )?self \. ([\w#]+)( \. as_mut \( \) \. unwrap \( \))? \. push \( Some \( x \) \)(?: \})? \) \?', s)
            if m and m.group(1) in PRIMS:
                it = ('Fld', fname(m.group(2)), m.group(1), bool(m.group(3)))
            m = re.fullmatch(r'self \. ([\w#]+)( \. as_mut \( \) \. unwrap \( \))? \. read_push \( r , version \) \?', s)
            if m:
                it = ('Sub', fname(m.group(1)), bool(m.group(2)))
            if s == 'self . validity . as_mut ( ) . map ( | v | v . push ( true ) )':
                it = ('ValidityTrue',)
            if s == 'Ok ( ( ) )':
                it = ('Ret',)
        elif kind == 'write':
            m = re.fullmatch(r'w \. write_(\w+)(?: :: < BE >)? \( self \. ([\w#]+)( \. as_ref \( \) \. unwrap \( \))? \. value \( i \)(?: ,)? \) \?', s)
            if m and m.group(1) in PRIMS:
                it = ('Fld', fname(m.group(2)), m.group(1), bool(m.group(3)))
            m = re.fullmatch(r'self \. ([\w#]+)( \. as_ref \( \) \. unwrap \( \))? \. write \( w , version , i \) \?', s)
            if m:
                it = ('Sub', fname(m.group(1)), bool(m.group(2)))
            if s == 'Ok ( ( ) )':
                it = ('Ret',)
        elif kind == 'size':
            m = re.fullmatch(r'size \+= size_of :: < (\w+) > \( \)', s)
            if m and m.group(1) in PRIMS:
                it = ('Prim', m.group(1))
            m = re.fullmatch(r'size \+= (\w+) :: size \( version \)', s)
            if m:
                it = ('SubT', m.group(1))
            if s in ('let mut size = 0usize', 'size'):
                it = ('Ret',)
        elif kind == 'push_null':
            m = re.fullmatch(r'self \. ([\w#]+)( \. as_mut \( \) \. unwrap \( \))? \. push_null \( \)', s)
            if m:
                it = ('Fld', fname(m.group(1)), None, bool(m.group(2)))
            m = re.fullmatch(r'self \. ([\w#]+)( \. as_mut \( \) \. unwrap \( \))? \. push_null \( version \)', s)
            if m:
                it = ('Sub', fname(m.group(1)), bool(m.group(2)))
            if s == 'let len = self . len ( )':
                it = ('Ret',)
            if s == 'self . validity . get_or_insert_with ( || MutableBitmap :: from_len_set ( len ) ) . push ( false )':
                it = ('ValidityFalse',)
        elif kind == 'data_type':
            m = re.fullmatch(r'fields \. push \( Field :: new \( "(\w+)" , DataType :: (\w+) , false \) \)', s)
            if m and m.group(2) in ARROW_TY:
                it = ('Fld', m.group(1), ARROW_TY[m.group(2)], False)
            m = re.fullmatch(r'fields \. push \( Field :: new \( "(\w+)" , (\w+) :: data_type \( version \) , false \) \)', s)
            if m:
                it = ('SubT', m.group(1), m.group(2))
        elif kind == 'into_struct_array':
            m = re.fullmatch(r'values \. push \( self \. ([\w#]+)( \. unwrap \( \))? \. boxed \( \) \)', s)
            if m:
                it = ('Fld', fname(m.group(1)), None, bool(m.group(2)))
            m = re.fullmatch(r'values \. push \( self \. ([\w#]+)( \. unwrap \( \))? \. into_struct_array \( version \) \. boxed \( \) \)', s)
            if m:
                it = ('Sub', fname(m.group(1)), bool(m.group(2)))
        if it is None:
            raise TranslateError('%s: unrecognised %s statement: %s' % (where, kind, s[:200]))
        if it[0] != 'Ret':
            res.append(it)
    return res


def parse_with_capacity(body, where):
    """`Self { f: <init>, ... }` or `Self ( <init>, ... )` -> list of (field, kind, ty, gate)"""
    v = tv(body)
    if v[0] != 'Self' or v[1] not in ('{', '('):
        raise TranslateError('%s: with_capacity is not a Self literal' % where)
    tup = v[1] == '('
    e = match_close(body, 1)
    inner = body[2:e]
    fields = []
    cur = []
    d = 0
    for t in inner + [('punct', ',')]:
        if t[0] == 'punct' and t[1] in '([{':
            d += 1
        if t[0] == 'punct' and t[1] in ')]}':
            d -= 1
        if t[1] == ',' and d == 0:
            if cur:
                fields.append(cur)
            cur = []
        else:
            cur.append(t)
    out = []
    for idx, f in enumerate(fields):
        s = sj(f)
        if tup:
            name, init = str(idx), s
        else:
            m = re.match(r'([\w#]+) : (.*)$', s)
            if not m:
                raise TranslateError('%s: bad field init %s' % (where, s))
            name, init = fname(m.group(1)), m.group(2)
        m = re.fullmatch(r'MutablePrimitiveArray :: < (\w+) > :: with_capacity \( capacity \)', init)
        if m:
            out.append((name, 'prim', m.group(1), None))
            continue
        m = re.fullmatch(r'(\w+) :: with_capacity \( capacity , version \)', init)
        if m:
            out.append((name, 'sub', m.group(1), None))
            continue
        m = re.fullmatch(r'version \. gte \( (\d+) , (\d+) \) \. then \( \|\| MutablePrimitiveArray :: < (\w+) > :: with_capacity \( capacity \) \)', init)
        if m:
            out.append((name, 'prim', m.group(3), (int(m.group(1)), int(m.group(2)))))
            continue
        m = re.fullmatch(r'version \. gte \( (\d+) , (\d+) \) \. then \( \|\| (\w+) :: with_capacity \( capacity , version \) \)', init)
        if m:
            out.append((name, 'sub', m.group(3), (int(m.group(1)), int(m.group(2)))))
            continue
        if name == 'validity' and init == 'None':
            out.append((name, 'validity_none', None, None))
            continue
        m = re.fullmatch(r'version \. lt \( (\d+) , (\d+) \) \. then \( \|\| MutableBitmap :: with_capacity \( capacity \) \)', init)
        if name == 'validity' and m:
            out.append((name, 'validity_lt', None, (int(m.group(1)), int(m.group(2)))))
            continue
        raise TranslateError('%s: unrecognised with_capacity initialiser for %s: %s' % (where, name, init))
    return out


def parse_self_literal(body, where, ctor_pat):
    """`Path { f: e, ...}` or `Path ( e, ... )` -> list of (name, expr string)"""
    v = tv(body)
    # find the literal start
    i = 0
    while i < len(v) and not (v[i] in ('{', '(') and body[i][0] == 'punct'):
        i += 1
    head = ' '.join(v[:i])
    if not re.fullmatch(ctor_pat, head):
        raise TranslateError('%s: unexpected literal head %s' % (where, head))
    tup = v[i] == '('
    e = match_close(body, i)
    inner = body[i + 1:e]
    fields = []
    cur = []
    d = 0
    for t in inner + [('punct', ',')]:
        if t[0] == 'punct' and t[1] in '([{':
            d += 1
        if t[0] == 'punct' and t[1] in ')]}':
            d -= 1
        if t[1] == ',' and d == 0:
            if cur:
                fields.append(cur)
            cur = []
        else:
            cur.append(t)
    out = []
    for idx, f in enumerate(fields):
        s = sj(f)
        if tup:
            out.append((str(idx), s))
        else:
            m = re.match(r'([\w#]+) : (.*)$', s)
            if not m:
                raise TranslateError('%s: bad field %s' % (where, s))
            out.append((fname(m.group(1)), m.group(2)))
    return out


def parse_transpose(body, where):
    out = []
    for name, e in parse_self_literal(body, where, r'transpose :: \w+'):
        m = re.fullmatch(r'self \. ([\w#]+) \. values \( \) \[ i \]', e)
        if m:
            out.append((name, fname(m.group(1)), 'val', False))
            continue
        m = re.fullmatch(r'self \. ([\w#]+) \. as_ref \( \) \. map \( \| x \| x \. values \( \) \[ i \] \)', e)
        if m:
            out.append((name, fname(m.group(1)), 'val', True))
            continue
        m = re.fullmatch(r'self \. ([\w#]+) \. transpose_one \( i , version \)', e)
        if m:
            out.append((name, fname(m.group(1)), 'sub', False))
            continue
        m = re.fullmatch(r'self \. ([\w#]+) \. as_ref \( \) \. map \( \| x \| x \. transpose_one \( i , version \) \)', e)
        if m:
            out.append((name, fname(m.group(1)), 'sub', True))
            continue
        raise TranslateError('%s: unrecognised transpose_one field %s: %s' % (where, name, e))
    return out


def parse_from_mutable(body, where):
    out = []
    for name, e in parse_self_literal(body, where, r'Self'):
        m = re.fullmatch(r'x \. ([\w#]+) \. into \( \)', e)
        if m:
            out.append((name, fname(m.group(1)), 'plain'))
            continue
        m = re.fullmatch(r'x \. ([\w#]+) \. map \( \| (\w) \| \2 \. into \( \) \)', e)
        if m:
            out.append((name, fname(m.group(1)), 'opt'))
            continue
        raise TranslateError('%s: unrecognised From<mutable> field %s: %s' % (where, name, e))
    return out


def parse_from_struct_array(body, where):
    sts = split_stmts(body)
    if ' '.join(tv(sts[0])) != 'let ( _ , values , validity ) = array . into_data ( )':
        raise TranslateError('%s: unexpected first statement of from_struct_array' % where)
    out = []
    for name, e in parse_self_literal(sts[1], where, r'Self'):
        m = re.fullmatch(r'values \[ (\d+) \] \. as_any \( \) \. downcast_ref :: < PrimitiveArray < (\w+) > > \( \) \. unwrap \( \) \. clone \( \)', e)
        if m:
            out.append((name, int(m.group(1)), 'prim', m.group(2), False))
            continue
        m = re.fullmatch(r'values \. get \( (\d+) \) \. map \( \| x \| \{ x \. as_any \( \) \. downcast_ref :: < PrimitiveArray < (\w+) > > \( \) \. unwrap \( \) \. clone \( \) \} \)', e)
        if m:
            out.append((name, int(m.group(1)), 'prim', m.group(2), True))
            continue
        m = re.fullmatch(r'(\w+) :: from_struct_array \( values \[ (\d+) \] \. as_any \( \) \. downcast_ref :: < StructArray > \( \) \. unwrap \( \) \. clone \( \) , version(?: ,)? \)', e)
        if m:
            out.append((name, int(m.group(2)), 'sub', m.group(1), False))
            continue
        m = re.fullmatch(r'values \. get \( (\d+) \) \. map \( \| x \| \{ (\w+) :: from_struct_array \( x \. as_any \( \) \. downcast_ref :: < StructArray > \( \) \. unwrap \( \) \. clone \( \) , version(?: ,)? \) \} \)', e)
        if m:
            out.append((name, int(m.group(1)), 'sub', m.group(2), True))
            continue
        if name == 'validity' and e == 'validity':
            out.append((name, -1, 'validity', None, False))
            continue
        raise TranslateError('%s: unrecognised from_struct_array field %s: %s' % (where, name, e))
    return out


def parse_struct_decl(toks, name, where):
    """pub struct Name { pub f: T, ... } or pub struct Name ( pub T, ... ) ; -> list of (field, type string)"""
    vals = tv(toks)
    i = find_seq(toks, ['struct', name])
    if i < 0:
        raise TranslateError('%s: struct %s not found' % (where, name))
    j = i + 2
    e = match_close(toks, j)
    tup = vals[j] == '('
    inner = toks[j + 1:e]
    fields = []
    cur = []
    d = 0
    for t in inner + [('punct', ',')]:
        if t[1] in '<([':
            d += 1
        if t[1] in '>)]':
            d -= 1
        if t[1] == ',' and d == 0:
            if cur:
                fields.append(cur)
            cur = []
        else:
            cur.append(t)
    out = []
    for idx, f in enumerate(fields):
        v = [x for x in tv(f) if x != 'pub']
        # drop attributes #[...]
        while v and v[0] == '#':
            k = v.index(']')
            v = v[k + 1:]
            v = [x for x in v if x != 'pub']
        if tup:
            out.append((str(idx), ' '.join(v)))
        else:
            k = v.index(':')
            out.append((fname(v[0]), ' '.join(v[k + 1:])))
    return out


def coq_str(s):
    return '"%s"' % s


def instr_coq(ins, ind='  '):
    """instr tree -> Coq term of type list instr"""
    parts = []
    for it in ins:
        if it[0] == 'Fld':
            parts.append('Fld %s %s %s' % (coq_str(it[1]), ('(Some %s)' % PRIM_COQ[it[2]]) if it[2] else 'None', 'true' if it[3] else 'false'))
        elif it[0] == 'Sub':
            parts.append('Sub %s %s' % (coq_str(it[1]), 'true' if it[2] else 'false'))
        elif it[0] == 'SubT':
            if len(it) == 2:
                parts.append('SubT "" %s' % coq_str(it[1]))
            else:
                parts.append('SubT %s %s' % (coq_str(it[1]), coq_str(it[2])))
        elif it[0] == 'Prim':
            parts.append('Prim %s' % PRIM_COQ[it[1]])
        elif it[0] == 'ValidityTrue':
            parts.append('ValidityTrue')
        elif it[0] == 'ValidityFalse':
            parts.append('ValidityFalse')
        elif it[0] == 'Gate':
            parts.append('Gate %d %d %s' % (it[1], it[2], instr_coq(it[3], ind + '  ')))
    return '[' + ('; ').join(parts) + ']'


def gen_tables():
    files = {
        'mutable': 'src/frame/mutable.rs',
        'imm': 'src/frame/immutable/mod.rs',
        'slippi': 'src/frame/immutable/slippi.rs',
        'peppi': 'src/frame/immutable/peppi.rs',
        'transpose': 'src/frame/transpose.rs',
    }
    toks = {k: file_toks(v) for k, v in files.items()}
    T = {s: {} for s in GEN_STRUCTS}
    seen = set()
    for key in ('mutable', 'imm', 'slippi', 'peppi'):
        for kind, name, frm, body in impl_blocks(toks[key]):
            if name not in GEN_STRUCTS:
                continue
            if kind == 'from':
                for n, params, ret, b in fns_in(body):
                    if n == 'from':
                        T[name]['from_mutable'] = parse_from_mutable(b, '%s From<mutable::%s>' % (files[key], name))
                continue
            if kind != 'impl':
                continue
            for n, params, ret, b in fns_in(body):
                where = '%s %s::%s' % (files[key], name, n)
                if key == 'mutable':
                    if n == 'with_capacity':
                        T[name]['with_capacity'] = parse_with_capacity(b, where)
                    elif n == 'push_null':
                        T[name]['push_null'] = parse_instrs(b, 'push_null', where)
                    elif n == 'read_push':
                        T[name]['read_push'] = parse_instrs(b, 'read_push', where)
                    elif n == 'transpose_one':
                        T[name]['mut_transpose'] = parse_transpose(b, where)
                    elif n == 'len':
                        T[name]['len'] = ' '.join(tv(b))
                    else:
                        raise TranslateError('%s: unexpected fn' % where)
                elif key == 'imm':
                    if n == 'transpose_one':
                        T[name]['imm_transpose'] = parse_transpose(b, where)
                    else:
                        raise TranslateError('%s: unexpected fn' % where)
                elif key == 'slippi':
                    if n == 'write':
                        T[name]['write'] = parse_instrs(b, 'write', where)
                    elif n == 'size':
                        T[name]['size'] = parse_instrs(b, 'size', where)
                    else:
                        raise TranslateError('%s: unexpected fn' % where)
                elif key == 'peppi':
                    if n == 'data_type':
                        sts = split_stmts(b)
                        # let mut fields = vec![]; { ... }; DataType::Struct(fields)
                        if ' '.join(tv(sts[0])) != 'let mut fields = vec ! [ ]' or ' '.join(tv(sts[-1])) != 'DataType :: Struct ( fields )':
                            raise TranslateError('%s: unexpected shape' % where)
                        inner = []
                        for st in sts[1:-1]:
                            if st[0][1] == '{':
                                inner.extend(st[1:match_close(st, 0)])
                            else:
                                inner.extend(st + [('punct', ';')])
                        T[name]['data_type'] = parse_instrs(inner, 'data_type', where)
                    elif n == 'into_struct_array':
                        sts = split_stmts(b)
                        if ' '.join(tv(sts[0])) != 'let mut values = vec ! [ ]':
                            raise TranslateError('%s: unexpected first statement' % where)
                        last = sj(sts[-1])
                        m = re.fullmatch(r'StructArray :: new \( Self :: data_type \( version \) , values , (self \. validity|None) \)', last)
                        if not m:
                            raise TranslateError('%s: unexpected last statement %s' % (where, last))
                        mid = []
                        for st in sts[1:-1]:
                            mid.extend(st + [('punct', ';')])
                        T[name]['into_struct_array'] = parse_instrs(mid, 'into_struct_array', where)
                        T[name]['into_validity'] = (m.group(1) != 'None')
                    elif n == 'from_struct_array':
                        T[name]['from_struct_array'] = parse_from_struct_array(b, where)
                    else:
                        raise TranslateError('%s: unexpected fn' % where)
    # struct declarations
    for name in GEN_STRUCTS:
        T[name]['mut_decl'] = parse_struct_decl(toks['mutable'], name, files['mutable'])
        T[name]['imm_decl'] = parse_struct_decl(toks['imm'], name, files['imm'])
        T[name]['tr_decl'] = parse_struct_decl(toks['transpose'], name, files['transpose'])
    need = ['with_capacity', 'push_null', 'read_push', 'mut_transpose', 'imm_transpose', 'from_mutable', 'write', 'size',
            'data_type', 'into_struct_array', 'from_struct_array']
    for name in GEN_STRUCTS:
        for k in need:
            if k not in T[name]:
                raise TranslateError('generated code: %s::%s not found' % (name, k))
    return T


def frames_json():
    return json.loads(read('gen/resources/frames.json'))


def emit_tables(T):
    L = []
    L.append('(* GENERATED by tools/rust2coq.py from src/frame/{mutable.rs,immutable/{mod,slippi,peppi}.rs,transpose.rs}')
    L.append('   and gen/resources/frames.json -- do not edit. *)')
    L.append('From Coq Require Import NArith Bool List String.')
    L.append('From Peppi Require Import Layout.Syntax.')
    L.append('Import ListNotations.')
    L.append('Local Open Scope string_scope.')
    L.append('Local Open Scope N_scope.')
    L.append('')

    def deftab(coqname, kind):
        L.append('Definition %s : table := [' % coqname)
        rows = []
        for s in GEN_STRUCTS:
            rows.append('  (%s, %s)' % (coq_str(s), instr_coq(T[s][kind])))
        L.append(';\n'.join(rows))
        L.append('].')
        L.append('')

    deftab('tbl_read_push', 'read_push')
    deftab('tbl_push_null', 'push_null')
    deftab('tbl_write', 'write')
    deftab('tbl_size', 'size')
    deftab('tbl_data_type', 'data_type')
    deftab('tbl_into_struct_array', 'into_struct_array')

    def gate(g):
        return 'None' if g is None else '(Some (%d, %d))' % g

    L.append('Definition tbl_with_capacity : list (string * list wc_field) := [')
    rows = []
    for s in GEN_STRUCTS:
        fs = []
        for (n, k, ty, g) in T[s]['with_capacity']:
            if k == 'prim':
                fs.append('WcPrim %s %s %s' % (coq_str(n), PRIM_COQ[ty], gate(g)))
            elif k == 'sub':
                fs.append('WcSub %s %s %s' % (coq_str(n), coq_str(ty), gate(g)))
            elif k == 'validity_none':
                fs.append('WcValidityNone')
            elif k == 'validity_lt':
                fs.append('WcValidityLt %d %d' % g)
        rows.append('  (%s, [%s])' % (coq_str(s), '; '.join(fs)))
    L.append(';\n'.join(rows))
    L.append('].')
    L.append('')

    def deftr(coqname, kind):
        L.append('Definition %s : list (string * list tr_field) := [' % coqname)
        rows = []
        for s in GEN_STRUCTS:
            fs = ['TrF %s %s %s %s' % (coq_str(t), coq_str(src), 'TrVal' if k == 'val' else 'TrSub', 'true' if o else 'false')
                  for (t, src, k, o) in T[s][kind]]
            rows.append('  (%s, [%s])' % (coq_str(s), '; '.join(fs)))
        L.append(';\n'.join(rows))
        L.append('].')
        L.append('')

    deftr('tbl_mut_transpose', 'mut_transpose')
    deftr('tbl_imm_transpose', 'imm_transpose')

    L.append('Definition tbl_from_mutable : list (string * list (string * string * bool)) := [')
    rows = []
    for s in GEN_STRUCTS:
        fs = ['(%s, %s, %s)' % (coq_str(t), coq_str(src), 'true' if k == 'opt' else 'false') for (t, src, k) in T[s]['from_mutable']]
        rows.append('  (%s, [%s])' % (coq_str(s), '; '.join(fs)))
    L.append(';\n'.join(rows))
    L.append('].')
    L.append('')

    L.append('Definition tbl_from_struct_array : list (string * list fsa_field) := [')
    rows = []
    for s in GEN_STRUCTS:
        fs = []
        for (n, idx, k, ty, o) in T[s]['from_struct_array']:
            if k == 'prim':
                fs.append('FsaPrim %s %d %s %s' % (coq_str(n), idx, PRIM_COQ[ty], 'true' if o else 'false'))
            elif k == 'sub':
                fs.append('FsaSub %s %d %s %s' % (coq_str(n), idx, coq_str(ty), 'true' if o else 'false'))
            else:
                fs.append('FsaValidity')
        rows.append('  (%s, [%s])' % (coq_str(s), '; '.join(fs)))
    L.append(';\n'.join(rows))
    L.append('].')
    L.append('')
    L.append('Definition tbl_into_validity : list (string * bool) := [%s].' % '; '.join(
        '(%s, %s)' % (coq_str(s), 'true' if T[s]['into_validity'] else 'false') for s in GEN_STRUCTS))
    L.append('')

    # struct declarations: (field, elem kind, optional)
    def decl(coqname, key, prim_re, sub_re):
        L.append('Definition %s : list (string * list decl_field) := [' % coqname)
        rows = []
        for s in GEN_STRUCTS:
            fs = []
            for (n, ty) in T[s][key]:
                opt = False
                t = ty
                m = re.fullmatch(r'Option < (.*) >', t)
                if m:
                    opt = True
                    t = m.group(1)
                m = re.fullmatch(prim_re, t)
                if m:
                    fs.append('DPrim %s %s %s' % (coq_str(n), PRIM_COQ[m.group(1)], 'true' if opt else 'false'))
                    continue
                if t in ('MutableBitmap', 'Bitmap'):
                    fs.append('DValidity %s' % ('true' if opt else 'false'))
                    continue
                m = re.fullmatch(sub_re, t)
                if m and m.group(1) in GEN_STRUCTS:
                    fs.append('DSub %s %s %s' % (coq_str(n), coq_str(m.group(1)), 'true' if opt else 'false'))
                    continue
                raise TranslateError('struct %s (%s): unrecognised field type %s: %s' % (s, key, n, ty))
            rows.append('  (%s, [%s])' % (coq_str(s), '; '.join(fs)))
        L.append(';\n'.join(rows))
        L.append('].')
        L.append('')

    decl('tbl_mut_decl', 'mut_decl', r'MutablePrimitiveArray < (\w+) >', r'(\w+)')
    decl('tbl_imm_decl', 'imm_decl', r'PrimitiveArray < (\w+) >', r'(\w+)')
    decl('tbl_tr_decl', 'tr_decl', r'(u8|i8|u16|i16|u32|i32|f32)', r'(\w+)')

    # frames.json: third, redundant view
    fj = frames_json()
    L.append('Definition tbl_frames_json : list (string * list fj_field) := [')
    rows = []
    for s in GEN_STRUCTS:
        if s not in fj:
            raise TranslateError('frames.json: struct %s missing' % s)
        fs = []
        for idx, f in enumerate(fj[s]['fields']):
            n = f.get('name', str(idx))
            ty = f['type']
            ver = f.get('version')
            if ver is not None:
                mm = re.fullmatch(r'(\d+)\.(\d+)', ver)
                if not mm:
                    raise TranslateError('frames.json: %s.%s has a malformed version %r' % (s, n, ver))
            g = 'None' if ver is None else '(Some (%d, %d))' % (int(mm.group(1)), int(mm.group(2)))
            if ty in PRIMS:
                fs.append('FjPrim %s %s %s' % (coq_str(n), PRIM_COQ[ty], g))
            else:
                fs.append('FjSub %s %s %s' % (coq_str(n), coq_str(ty), g))
        rows.append('  (%s, [%s])' % (coq_str(s), '; '.join(fs)))
    L.append(';\n'.join(rows))
    L.append('].')
    return '\n'.join(L) + '\n'


# ------------------------------------------------------------------------------------------------
# (c) read-layout front end: the sequential cursor reads of game_start / player / game_end (src/io/slippi/de.rs)
#
# The three functions decode a byte block by a straight-line sequence of reads from a cursor `r`.  This front end
# walks their bodies symbolically and regenerates, for every read, its offset and width (Gen/Layouts.v);
# Proofs/StartLayout.v then restates the hand model Model/Start.v through these tables.  Every token that could
# move a cursor (`r`, read*, player_bytes, if_more) has to be accounted for by a recognised form, otherwise the
# translation fails loudly.

DE_RS = 'src/io/slippi/de.rs'
READ_W = {'u8': 1, 'i8': 1, 'u16': 2, 'i16': 2, 'u32': 4, 'i32': 4, 'f32': 4, 'u64': 8, 'i64': 8, 'f64': 8}
CURSOR = 'r'
CURSOR_NOADV = ('to_vec', 'is_empty', 'len')      # cursor methods that do not move it
LAYOUT_BINOPS = ('==', '!=', '<', '>', '<=', '>=', '&&', '||', '+', '-', '*', '/', '%', '|', '^', '&')
BLOCK_KW = ('match', 'if', 'while', 'for', 'loop', 'unsafe')
NOT_OPERAND_END = BLOCK_KW + ('return', 'in', 'as', 'mut', 'move', 'else', 'let', 'break', 'continue')
IF_MORE_BODY = 'Ok ( match r . is_empty ( ) { true => None , _ => Some ( f ( r ) ? ) } )'
PLAYER_BYTES_BODY = ('let mut arrs : [ [ u8 ; N ] ; M ] = [ [ 0 ; N ] ; M ] ; '
                     'arrs . iter_mut ( ) . try_for_each ( | buf | r . read_exact ( buf ) ) ? ; Ok ( arrs )')


def is_trigger(tok):
    return tok[0] == 'id' and (tok[1] == CURSOR or tok[1] in ('player_bytes', 'if_more')
                               or re.fullmatch(r'read(_\w+)?', tok[1]) is not None)


class Cursor:
    def __init__(self, src, declared=None):
        self.src = src            # what the cursor runs over: a parameter name, or '<tail NAME>'
        self.declared = declared  # size of the block from its type, if known
        self.off = 0
        self.reads = []           # (name | None, offset, width)
        self.arrays = []          # (name, N, M) for player_bytes::<N, M>


class LayoutWalker:
    def __init__(self, fn_name, body, consts, block_params, main_cursor):
        self.fn = fn_name
        self.t = body
        self.where = '%s fn %s' % (DE_RS, fn_name)
        self.consts = consts              # callable: name -> int
        self.block_params = block_params  # name -> declared size, for `let mut r = &NAME[..]`
        self.used = set()
        self.bufs = {}                    # local byte buffers: name -> size
        self.cur = Cursor('r') if main_cursor else None
        self.main = self.cur
        self.tables = {}                  # source name -> Cursor (for rebinding cursors)
        self.tails = []                   # (name, size, inner named reads)
        self.tail_arrays = []
        self.in_tail = False
        self.depth = 0                    # block nesting depth below the fn body

    # ---- errors / small helpers
    def ctx(self, i):
        return ' '.join(tv(self.t[max(0, i - 8):i + 10]))

    def fail(self, msg, i=None):
        raise TranslateError('%s: %s%s' % (self.where, msg, (' -- near `%s`' % self.ctx(i)) if i is not None else ''))

    def close(self, i):
        return match_close(self.t, i)

    def is_p(self, i, v):
        return i < len(self.t) and self.t[i] == ('punct', v)

    def is_id(self, i, v=None):
        return i < len(self.t) and self.t[i][0] == 'id' and (v is None or self.t[i][1] == v)

    def has_trig(self, lo, hi):
        return any(is_trigger(self.t[i]) for i in range(lo, hi))

    def text(self, lo, hi):
        return sj(self.t[lo:hi])

    def angle_close(self, i):
        """self.t[i] is '<' opening a generic argument list; index of the matching '>'"""
        d = 0
        j = i
        while j < len(self.t):
            if self.t[j] == ('punct', '<'):
                d += 1
            elif self.t[j] == ('punct', '>'):
                d -= 1
                if d == 0:
                    return j
            elif self.t[j][0] == 'punct' and self.t[j][1] in ('(', '[', '{'):
                j = self.close(j)
            j += 1
        self.fail('unbalanced <', i)

    def skip_closure_params(self, i, hi):
        """self.t[i] is '|' opening closure parameters; index just after the closing '|'"""
        j = i + 1
        while j < hi:
            if self.t[j] == ('punct', '|'):
                return j + 1
            if self.t[j][0] == 'punct' and self.t[j][1] in ('(', '[', '{'):
                j = self.close(j)
            j += 1
        self.fail('unterminated closure parameters', i)

    def split_top(self, lo, hi, sep):
        """split [lo, hi) at depth-0 occurrences of the punctuation `sep`; -> (segments, ends_with_sep)"""
        segs = []
        i = s = lo
        while i < hi:
            k, v = self.t[i]
            if k == 'punct':
                if v in ('(', '[', '{'):
                    i = self.close(i) + 1
                    continue
                if v == '::' and self.is_p(i + 1, '<'):
                    i = self.angle_close(i + 1) + 1
                    continue
                if v == '|' and (i == s or self.is_id(i - 1, 'move')):
                    i = self.skip_closure_params(i, hi)
                    continue
                if v == sep:
                    segs.append((s, i))
                    s = i + 1
            i += 1
        trailing = s >= hi and len(segs) > 0
        if s < hi:
            segs.append((s, hi))
        return segs, trailing

    def first_top(self, lo, hi, v):
        """index of the first depth-0 punctuation v in [lo, hi), or -1"""
        i = lo
        while i < hi:
            k, x = self.t[i]
            if k == 'punct':
                if x == v:
                    return i
                if x in ('(', '[', '{'):
                    i = self.close(i) + 1
                    continue
                if x == '::' and self.is_p(i + 1, '<'):
                    i = self.angle_close(i + 1) + 1
                    continue
            i += 1
        return -1

    def kw_end(self, i, hi):
        """self.t[i] is match/if/while/for/loop/unsafe: index just after the whole block-like expression"""
        j = self.first_top(i + 1, hi, '{')
        if j < 0:
            self.fail('`%s` without a block' % self.t[i][1], i)
        c = self.close(j)
        if self.t[i][1] == 'if':
            while self.is_id(c + 1, 'else') and c + 1 < hi:
                if self.is_id(c + 2, 'if'):
                    j = self.first_top(c + 3, hi, '{')
                    if j < 0:
                        self.fail('`else if` without a block', c + 1)
                    c = self.close(j)
                elif self.is_p(c + 2, '{'):
                    c = self.close(c + 2)
                else:
                    self.fail('`else` without a block', c + 1)
        return c + 1

    def const(self, tok, i):
        k, v = tok
        if k == 'num':
            return num(v)
        if k == 'id':
            return self.consts(v)
        self.fail('expected an integer literal or a constant, got %r' % v, i)

    # ---- recording
    @staticmethod
    def namepath(path):
        """innermost named binder (let name / struct field), followed by the tuple/array indices below it"""
        if not path:
            return None
        k = -1
        for idx, c in enumerate(path):
            if not c.isdigit():
                k = idx
        return '.'.join(path[max(k, 0):])

    def emit_read(self, path, w, i, named=True, arr=None):
        if self.cur is None:
            self.fail('read before any cursor is bound', i)
        if w <= 0:
            self.fail('read of %d bytes' % w, i)
        if self.cur is self.main and self.tails and not self.in_tail:
            self.fail('unconditional read after an optional tail (if_more): the layout is no longer fixed part + tails', i)
        name = self.namepath(path) if named else None
        self.cur.reads.append((name, self.cur.off, w))
        if arr:
            self.cur.arrays.append((name, arr[0], arr[1]))
        self.cur.off += w
        if self.cur.declared is not None and self.cur.off > self.cur.declared:
            self.fail('reads %d bytes from the %d-byte block %s' % (self.cur.off, self.cur.declared, self.cur.src), i)

    # ---- statements
    def statements(self, lo, hi):
        """-> list of (lo, hi) statement ranges (without the ';')"""
        out = []
        i = lo
        while i < hi:
            s = i
            if self.is_p(i, ';'):
                i += 1
                continue
            e = None
            if self.is_id(i) and self.t[i][1] in BLOCK_KW:
                e = self.kw_end(i, hi)
            elif self.is_p(i, '{'):
                e = self.close(i) + 1
            if e is not None and not (self.is_p(e, '.') or self.is_p(e, '?')):
                out.append((s, e))
                i = e
                continue
            j = self.first_top(i, hi, ';')
            if j < 0:
                j = hi
            out.append((s, j))
            i = j + 1
        return out

    def walk_block(self, lo, hi, path):
        saved_bufs, saved_cur = dict(self.bufs), self.cur
        self.depth += 1
        for (s, e) in self.statements(lo, hi):
            self.statement(s, e, path)
        self.depth -= 1
        self.bufs, self.cur = saved_bufs, saved_cur

    def statement(self, s, e, path):
        txt = self.text(s, e)
        # local byte buffers
        m = re.fullmatch(r'let mut (\w+)(?: : \[ u8 ; (\w+) \])? = \[ (\w+) ; (\w+) \]', txt)
        if m and m.group(1) != CURSOR:
            n = self.const(self.t[e - 2], e - 2)
            if m.group(2) is not None and self.const(('id' if not m.group(2)[0].isdigit() else 'num', m.group(2)), s) != n:
                self.fail('buffer %s: type and initialiser disagree' % m.group(1), s)
            self.bufs[m.group(1)] = n
            return
        m = re.match(r'let (?:mut )?([\w#]+) ', txt)
        if m and fname(m.group(1)) in self.bufs:
            del self.bufs[fname(m.group(1))]          # shadowed by something that is not a byte buffer
        if not self.has_trig(s, e):
            return
        # a new cursor over a block: let mut r = &NAME[..];
        m = re.fullmatch(r'let mut %s = & (\w+) \[ \.\. \]' % CURSOR, txt)
        if m:
            src = m.group(1)
            if src not in self.block_params:
                self.fail('cursor over %s, which is not a byte-array parameter of the function' % src, s)
            if src in self.tables:
                self.fail('two cursors over the same block %s' % src, s)
            self.cur = Cursor(src, self.block_params[src])
            self.tables[src] = self.cur
            self.used.add(s + 2)
            return
        if self.is_id(s, 'let'):
            i = s + 1
            if self.is_id(i, 'mut'):
                i += 1
            if not self.is_id(i) or not (self.is_p(i + 1, '=') or self.is_p(i + 1, ':')):
                self.fail('unsupported `let` pattern in a statement that reads the cursor', s)
            name = fname(self.t[i][1])
            if name == CURSOR:
                self.fail('unrecognised rebinding of the cursor', s)
            i += 1
            if self.is_p(i, ':'):
                d = 0
                while i < e and not (d == 0 and self.is_p(i, '=')):
                    if self.is_p(i, '<'):
                        d += 1
                    elif self.is_p(i, '>'):
                        d -= 1
                    elif self.t[i][0] == 'punct' and self.t[i][1] in ('(', '[', '{'):
                        i = self.close(i)
                    i += 1
                if i >= e:
                    self.fail('`let` without initialiser', s)
            if self.is_id(i + 1, 'if_more'):
                self.tail(name, i + 1, e, path)
            else:
                self.walk_expr(i + 1, e, path + [name])
            return
        self.walk_expr(s, e, path)

    # ---- optional tails: let NAME = if_more(r, |r| BODY)?;
    def tail(self, name, lo, e, path):
        if self.depth != 1 or path or self.in_tail or self.cur is not self.main or self.main is None:
            self.fail('if_more is only recognised as `let <name> = if_more(r, |r| ...)?;` at the top level of the function', lo)
        if not self.is_p(lo + 1, '('):
            self.fail('if_more without arguments', lo)
        c = self.close(lo + 1)
        rest = tv(self.t[c + 1:e])
        if rest not in ([], ['?']):
            self.fail('unexpected tokens after if_more(..): %s' % ' '.join(rest), c)
        args, _ = self.split_top(lo + 2, c, ',')
        if len(args) != 2 or tv(self.t[args[0][0]:args[0][1]]) != [CURSOR]:
            self.fail('if_more: expected the arguments (r, |r| ...)', lo)
        a, b = args[1]
        if not (self.is_p(a, '|') and self.is_id(a + 1, CURSOR) and self.is_p(a + 2, '|')) or a + 3 >= b:
            self.fail('if_more: the second argument is not a closure |r| ...', a)
        self.used.update((lo, args[0][0], a + 1))
        tc = Cursor('<tail %s>' % name)
        self.cur, self.in_tail = tc, True
        self.walk_expr(a + 3, b, [])
        self.cur, self.in_tail = self.main, False
        if tc.off == 0:
            self.fail('optional tail %s reads nothing' % name, lo)
        self.tails.append((name, tc.off, [r for r in tc.reads if r[0] is not None]))
        for (n, N, M) in tc.arrays:
            self.tail_arrays.append((name if n is None else '%s.%s' % (name, n), N, M))

    # ---- expressions
    def walk_expr(self, lo, hi, path):
        """record the reads of the expression [lo, hi) in evaluation order; sub-expressions that do not mention a
        cursor are not looked into"""
        if not self.has_trig(lo, hi):
            return
        operands = []      # (lo, hi, operator before it)
        i = start = lo
        want = True        # expecting the start of an operand
        op = None
        while i < hi:
            k, v = self.t[i]
            if want:
                if k == 'punct' and v in ('!', '-', '*', '&', '&&'):
                    i += 1
                elif k == 'id' and v == 'mut' and i > lo and self.t[i - 1][1] in ('&', '&&'):
                    i += 1
                elif k == 'id' and v in BLOCK_KW:
                    i = self.kw_end(i, hi)
                    want = False
                elif (k == 'id' and v == 'move') or (k == 'punct' and v in ('|', '||')):
                    i = hi                       # a closure extends to the end of the expression
                    want = False
                elif k == 'id' and v in ('return', 'break', 'continue', 'let', 'else', 'in', 'as'):
                    self.fail('`%s` in an expression that reads the cursor' % v, i)
                elif k == 'punct' and v in ('(', '[', '{'):
                    i = self.close(i) + 1
                    want = False
                elif k in ('id', 'num', 'str', 'char'):
                    i += 1
                    want = False
                else:
                    self.fail('unexpected token %r in an expression that reads the cursor' % v, i)
            else:
                if k == 'punct' and v == '.':
                    if i + 1 >= hi or self.t[i + 1][0] not in ('id', 'num'):
                        self.fail('unexpected token after `.`', i)
                    i += 2
                elif k == 'punct' and v == '::':
                    if self.is_p(i + 1, '<'):
                        i = self.angle_close(i + 1) + 1
                    elif self.is_id(i + 1):
                        i += 2
                    else:
                        self.fail('unexpected token after `::`', i)
                elif k == 'punct' and v == '?':
                    i += 1
                elif k == 'punct' and v in ('(', '['):
                    i = self.close(i) + 1
                elif k == 'punct' and v == '{':
                    if self.t[i - 1][0] != 'id' and not self.is_p(i - 1, '>'):
                        self.fail('unexpected block in an expression that reads the cursor', i)
                    i = self.close(i) + 1        # struct literal
                elif k == 'punct' and v == '!' and i + 1 < hi and self.t[i + 1][0] == 'punct' and self.t[i + 1][1] in ('(', '[', '{') \
                        and self.t[i - 1][0] == 'id':
                    i = self.close(i + 1) + 1    # macro call
                elif k == 'id' and v == 'as':
                    i += 1                       # the type: & * mut const, a path with generics, or a bracketed type
                    while i < hi and (self.t[i][1] in ('&', '*', 'mut', 'const', '::') or self.t[i][0] == 'id'
                                      or (self.is_p(i, '<') and self.t[i - 1][0] == 'id')
                                      or (self.t[i][0] == 'punct' and self.t[i][1] in ('(', '['))):
                        if self.is_p(i, '<'):
                            i = self.angle_close(i) + 1
                        elif self.t[i][0] == 'punct' and self.t[i][1] in ('(', '['):
                            i = self.close(i) + 1
                            break
                        else:
                            i += 1
                elif k == 'punct' and v in LAYOUT_BINOPS:
                    operands.append((start, i, op))
                    op, start, want = v, i + 1, True
                    i += 1
                else:
                    self.fail('unsupported token %r in an expression that reads the cursor' % v, i)
        if want:
            self.fail('incomplete expression', hi - 1)
        operands.append((start, hi, op))
        for (a, b, o) in operands:
            if o in ('&&', '||') and self.has_trig(a, b):
                self.fail('read of the cursor on the right of `%s` (conditional read)' % o, a)
            self.walk_operand(a, b, path)

    def args(self, lo, hi, path, tuple_like):
        """comma-separated expressions in [lo, hi); components are named by position when there are several
        (or always, for tuples with a trailing comma and arrays)"""
        segs, trailing = self.split_top(lo, hi, ',')
        index = len(segs) > 1 or (tuple_like and (trailing or tuple_like == 'array'))
        for idx, (a, b) in enumerate(segs):
            self.walk_expr(a, b, path + [str(idx)] if index else path)

    def walk_operand(self, lo, hi, path):
        if not self.has_trig(lo, hi):
            return
        i = lo
        while i < hi and (self.t[i] in (('punct', '!'), ('punct', '-'), ('punct', '*'), ('punct', '&'), ('punct', '&&'))
                          or (self.is_id(i, 'mut') and i > lo)):
            i += 1
        if i >= hi:
            self.fail('incomplete expression', lo)
        k, v = self.t[i]
        if k == 'id' and v == 'match':
            j = self.first_top(i + 1, hi, '{')
            self.walk_expr(i + 1, j, path)
            c = self.close(j)
            self.arms(j + 1, c, path)
            i = c + 1
        elif k == 'id' and v == 'if':
            j = self.first_top(i + 1, hi, '{')
            if self.is_id(i + 1, 'let') and self.has_trig(i + 1, j):
                self.fail('`if let` on a read of the cursor', i)
            self.walk_expr(i + 1, j, path)
            e = self.kw_end(i, hi)
            if self.has_trig(j, e):
                self.fail('read of the cursor inside an `if` branch (conditional read)', j)
            i = e
        elif k == 'id' and v == 'unsafe':
            j = self.first_top(i + 1, hi, '{')
            c = self.close(j)
            self.walk_block(j + 1, c, path)
            i = c + 1
        elif k == 'id' and v in ('while', 'for', 'loop'):
            self.fail('read of the cursor inside a `%s` loop' % v, i)
        elif (k == 'id' and v == 'move') or (k == 'punct' and v in ('|', '||')):
            self.fail('the cursor is used inside a closure (only `if_more(r, |r| ...)` is recognised)', i)
        elif k == 'punct' and v == '(':
            c = self.close(i)
            self.args(i + 1, c, path, 'tuple')
            i = c + 1
        elif k == 'punct' and v == '[':
            c = self.close(i)
            if self.first_top(i + 1, c, ';') >= 0:
                self.fail('read of the cursor inside a repeat expression [e; n]', i)
            self.args(i + 1, c, path, 'array')
            i = c + 1
        elif k == 'punct' and v == '{':
            c = self.close(i)
            self.walk_block(i + 1, c, path)
            i = c + 1
        elif k in ('num', 'str', 'char'):
            i += 1
        elif k == 'id':
            segs = [v]
            fish = None
            j = i + 1
            while self.is_p(j, '::') and j < hi:
                if self.is_p(j + 1, '<'):
                    g = self.angle_close(j + 1)
                    fish = (j + 2, g)
                    j = g + 1
                elif self.is_id(j + 1):
                    segs.append(self.t[j + 1][1])
                    fish = None
                    j += 2
                else:
                    self.fail('unexpected token after `::`', j)
            if segs == [CURSOR]:
                i = self.cursor_method(i, hi, path)
            elif segs[-1] == 'if_more':
                self.fail('if_more is only recognised as `let <name> = if_more(r, |r| ...)?;` at the top level of the function', i)
            elif segs[-1] == 'player_bytes':
                if segs != ['player_bytes'] or fish is None or not self.is_p(j, '('):
                    self.fail('player_bytes: expected player_bytes::<N, M>(r)', i)
                c = self.close(j)
                g, _ = self.split_top(fish[0], fish[1], ',')
                if tv(self.t[j + 1:c]) not in ([CURSOR], [CURSOR, ',']) or len(g) != 2 or any(b - a != 1 for a, b in g):
                    self.fail('player_bytes: expected player_bytes::<N, M>(r)', i)
                N, M = self.const(self.t[g[0][0]], g[0][0]), self.const(self.t[g[1][0]], g[1][0])
                self.used.update((i, j + 1))
                self.emit_read(path, N * M, i, arr=(N, M))
                i = c + 1
            elif CURSOR in segs or any(is_trigger(('id', x)) for x in segs):
                self.fail('unrecognised use of %s' % '::'.join(segs), i)
            elif self.is_p(j, '(') and j < hi:
                c = self.close(j)
                self.args(j + 1, c, path, None)
                i = c + 1
            elif self.is_p(j, '{') and j < hi:
                c = self.close(j)
                fields, _ = self.split_top(j + 1, c, ',')
                for (a, b) in fields:
                    if self.is_id(a) and self.is_p(a + 1, ':'):
                        self.walk_expr(a + 2, b, path + [fname(self.t[a][1])])
                    elif self.has_trig(a, b):
                        self.fail('unrecognised struct-literal field that mentions the cursor', a)
                i = c + 1
            elif self.is_p(j, '!') and j + 1 < hi and self.t[j + 1][1] in ('(', '[', '{'):
                c = self.close(j + 1)
                if self.has_trig(j + 1, c):
                    self.fail('the cursor is used inside a macro call %s!' % '::'.join(segs), i)
                i = c + 1
            else:
                i = j
        else:
            self.fail('unexpected token %r' % v, i)
        # postfix chain
        while i < hi:
            k, v = self.t[i]
            if k == 'punct' and v == '?':
                i += 1
            elif k == 'punct' and v == '.':
                i += 2
                if self.is_p(i, '::') and self.is_p(i + 1, '<'):
                    i = self.angle_close(i + 1) + 1
                if self.is_p(i, '(') and i < hi:
                    c = self.close(i)
                    self.args(i + 1, c, path, None)
                    i = c + 1
            elif k == 'punct' and v == '[':
                c = self.close(i)
                self.walk_expr(i + 1, c, path)
                i = c + 1
            elif k == 'punct' and v == '(':
                c = self.close(i)
                self.args(i + 1, c, path, None)
                i = c + 1
            elif k == 'id' and v == 'as':
                if self.has_trig(i, hi):
                    self.fail('unexpected use of the cursor after `as`', i)
                i = hi
            else:
                self.fail('unsupported token %r after an expression that reads the cursor' % v, i)

    def arms(self, lo, hi, path):
        """match arms: a cursor may only be used in an arm that is a block starting with its own cursor
        `let mut r = &BLOCK[..];` (a separate table); anything else would be a conditional read"""
        if not self.has_trig(lo, hi):
            return
        i = lo
        while i < hi:
            a = self.first_top(i, hi, '=>')
            if a < 0:
                if self.has_trig(i, hi):
                    self.fail('unrecognised match arm that mentions the cursor', i)
                break
            if self.has_trig(i, a):
                self.fail('the cursor is used in a match pattern or guard', i)
            if self.is_p(a + 1, '{'):
                c = self.close(a + 1)
                if self.has_trig(a + 1, c):
                    sts = self.statements(a + 2, c)
                    if not sts or not re.fullmatch(r'let mut %s = & \w+ \[ \.\. \]' % CURSOR, self.text(*sts[0])):
                        self.fail('read of the cursor inside a match arm (conditional read)', a)
                    self.walk_block(a + 2, c, path)
                i = c + 1
                if self.is_p(i, ','):
                    i += 1
            else:
                e = self.first_top(a + 1, hi, ',')
                if e < 0:
                    e = hi
                if self.has_trig(a + 1, e):
                    self.fail('read of the cursor inside a match arm (conditional read)', a)
                i = e + 1

    def cursor_method(self, i, hi, path):
        """self.t[i] is the bare cursor; -> index after the method call"""
        if not (self.is_p(i + 1, '.') and self.is_id(i + 2)):
            self.fail('the cursor is passed on or used in an unrecognised way', i)
        m = self.t[i + 2][1]
        j = i + 3
        fish = None
        if self.is_p(j, '::') and self.is_p(j + 1, '<'):
            g = self.angle_close(j + 1)
            fish = ' '.join(tv(self.t[j + 2:g]))
            j = g + 1
        if not self.is_p(j, '(') or j >= hi:
            self.fail('the cursor is used in an unrecognised way', i)
        c = self.close(j)
        a = tv(self.t[j + 1:c])
        if a and a[-1] == ',':
            a = a[:-1]
        self.used.update((i, i + 2))
        mm = re.fullmatch(r'read_(\w+)', m)
        if mm and mm.group(1) in READ_W:
            w = READ_W[mm.group(1)]
            if a:
                self.fail('%s with arguments' % m, i)
            if w > 1 and fish not in ('BE', 'BigEndian', 'byteorder :: BigEndian'):
                self.fail('%s::<%s>: only big-endian reads are modelled (be_at)' % (m, fish), i)
            if w == 1 and fish is not None:
                self.fail('%s with a type argument' % m, i)
            self.emit_read(path, w, i)
        elif m == 'read_exact':
            if len(a) == 3 and a[:2] == ['&', 'mut'] and a[2] in self.bufs:
                self.emit_read(path, self.bufs[a[2]], i)                       # a whole local buffer: a named read
            elif len(a) >= 6 and a[:2] == ['&', 'mut'] and a[2] in self.bufs and a[3] == '[' and a[-1] == ']' and '..' in a[4:-1]:
                rng = self.t[j + 1 + 4:j + 1 + len(a) - 1]
                d = tv(rng).index('..')
                if len(rng) not in (d + 1, d + 2) or d > 1:
                    self.fail('read_exact: unrecognised range', i)
                lo_ = self.const(rng[0], i) if d == 1 else 0
                hi_ = self.const(rng[d + 1], i) if len(rng) == d + 2 else self.bufs[a[2]]
                if not (lo_ <= hi_ <= self.bufs[a[2]]):
                    self.fail('read_exact: range %d..%d outside the %d-byte buffer %s' % (lo_, hi_, self.bufs[a[2]], a[2]), i)
                self.emit_read(path, hi_ - lo_, i, named=False)                # a slice of a scratch buffer: skipped bytes
            else:
                self.fail('read_exact: the destination is not `&mut <local [0; N] buffer>` or a literal range of one', i)
        elif m in CURSOR_NOADV:
            if a or fish:
                self.fail('%s with arguments' % m, i)
        else:
            self.fail('unrecognised cursor method %s' % m, i)
        return c + 1

    # ---- driver
    def run(self):
        for i, tok in enumerate(self.t):
            if tok == ('id', 'return'):
                self.fail('`return`: the reads after it would be conditional', i)
        self.walk_block(0, len(self.t), [])
        for i, tok in enumerate(self.t):
            if is_trigger(tok) and i not in self.used:
                self.fail('`%s` is not part of any recognised read form' % tok[1], i)
        for cur in [self.main] + list(self.tables.values()):
            if cur is not None:
                self.check_unique(cur.src, [r[0] for r in cur.reads])
        self.check_unique('tails', [n for n, _, _ in self.tails])
        for n, _, inner in self.tails:
            self.check_unique('tail ' + n, [r[0] for r in inner])
        return self

    def check_unique(self, what, names):
        seen = set()
        for n in names:
            if n is None:
                continue
            if n in seen:
                self.fail('%s: two reads named %s' % (what, n))
            seen.add(n)


def layout_consts():
    """resolver for the integer constants used as sizes in de.rs: local consts, or those imported from crate::game"""
    toks = file_toks(DE_RS)
    vals = tv(toks)
    imported = set()
    i = 0
    while i < len(vals):
        if vals[i] == 'use' and toks[i][0] == 'id':
            e = vals.index(';', i)
            j = i
            while j < e:
                if vals[j] == 'game' and vals[j + 1] == '::' and vals[j + 2] == '{' and (vals[j - 1] in ('{', ',') or vals[j - 2] == 'crate'):
                    c = match_close(toks, j + 2)
                    d = 0
                    for x in range(j + 3, c):
                        if vals[x] == '{':
                            d += 1
                        elif vals[x] == '}':
                            d -= 1
                        elif d == 0 and toks[x][0] == 'id' and vals[x - 1] in ('{', ','):
                            imported.add(vals[x])
                    j = c
                j += 1
            i = e
        i += 1
    cache = {}

    def resolve(name):
        if name not in cache:
            try:
                cache[name] = int_const(DE_RS, name)
            except TranslateError:
                if name not in imported:
                    raise TranslateError('%s: cannot resolve the constant %s (neither local nor imported from crate::game)' % (DE_RS, name))
                cache[name] = int_const('src/game/mod.rs', name)
        return cache[name]
    return resolve


def check_layout_helpers():
    """the helpers whose meaning the walker builds in: if_more, player_bytes, BE"""
    toks = file_toks(DE_RS)
    params, ret, body = find_fn(DE_RS, None, 'if_more')
    if sj(body) != IF_MORE_BODY or not sj(params).startswith('r : & mut & [ u8 ] , f : F'):
        raise TranslateError('%s fn if_more: not the expected helper (run the closure iff bytes remain): %s' % (DE_RS, sj(body)[:200]))
    params, ret, body = find_fn(DE_RS, None, 'player_bytes')
    if sj(body) != PLAYER_BYTES_BODY or sj(params) != 'r : & mut & [ u8 ]' or sj(ret) != '-> Result < [ [ u8 ; N ] ; M ] >' \
            or find_seq(toks, ['fn', 'player_bytes', '<', 'const', 'N', ':', 'usize', ',', 'const', 'M', ':', 'usize']) < 0:
        raise TranslateError('%s fn player_bytes: not the expected helper (read M arrays of N bytes): %s' % (DE_RS, sj(body)[:200]))
    if find_seq(toks, ['type', 'BE', '=', 'byteorder', '::', 'BigEndian', ';']) < 0:
        raise TranslateError('%s: `type BE = byteorder::BigEndian;` not found' % DE_RS)


def walk_layout(fn_name, consts):
    params, ret, body = find_fn(DE_RS, None, fn_name)
    ps = parse_params(params, '%s fn %s' % (DE_RS, fn_name))
    blocks = {}
    for nm, ty in ps:
        m = re.fullmatch(r'& \[ u8 ; (\w+) \]', ty) or re.fullmatch(r'Option < \[ u8 ; (\w+) \] >', ty)
        if m:
            blocks[nm] = num(m.group(1)) if m.group(1)[0].isdigit() else consts(m.group(1))
    main = (CURSOR, '& mut & [ u8 ]') in ps
    if not main and any(nm == CURSOR for nm, _ in ps):
        raise TranslateError('%s fn %s: parameter r is not `&mut &[u8]`' % (DE_RS, fn_name))
    return LayoutWalker(fn_name, body, consts, blocks, main).run(), ps, blocks


def coq_reads(reads):
    return '[%s]' % '; '.join('(%s, %d, %d)' % (coq_str(n), o, w) for (n, o, w) in reads if n is not None)


def coq_tails(tails):
    return '[%s]' % ';\n   '.join('(%s, %d, %s)' % (coq_str(n), sz, coq_reads(inner)) for (n, sz, inner) in tails)


def gen_layouts():
    check_layout_helpers()
    consts = layout_consts()
    L = []
    L.append('(* GENERATED by tools/rust2coq.py from %s (fn game_start, player, game_end) -- do not edit.' % DE_RS)
    L.append('   Each function decodes a block by a straight-line sequence of reads from a cursor; these tables are the')
    L.append('   (name, offset, width) of every named read, recomputed from the Rust text on every run. *)')
    L.append('From Coq Require Import List String.')
    L.append('Import ListNotations.')
    L.append('Local Open Scope string_scope.')
    L.append('')

    def fixed_and_tails(fn, prefix):
        w, ps, blocks = walk_layout(fn, consts)
        if w.main is None or w.tables:
            raise TranslateError('%s fn %s: expected a single cursor, the parameter r' % (DE_RS, fn))
        L.append('(* %s fn %s: sequential reads; (name, offset, width) of every named read in the fixed part *)' % (DE_RS, fn))
        L.append('Definition %s_reads : list (string * nat * nat) :=\n  %s.' % (prefix, coq_reads(w.main.reads)))
        L.append('Definition %s_fixed_size : nat := %d.' % (prefix, w.main.off))
        L.append('(* the optional tails `let <name> = if_more(r, |r| ...)?;` in order:')
        L.append('   (name, size, named reads inside the tail relative to its start) *)')
        L.append('Definition %s_tails : list (string * nat * list (string * nat * nat)) :=\n  %s.' % (prefix, coq_tails(w.tails)))
        return w

    w = fixed_and_tails('game_start', 'start')
    arrays = [(n, N, M) for (n, N, M) in w.main.arrays] + w.tail_arrays
    L.append('(* player_bytes::<N, M>(r) reads: (name, N, M), i.e. M consecutive arrays of N bytes *)')
    L.append('Definition start_player_arrays : list (string * nat * nat) :=\n  %s.' % coq_reads(arrays))
    L.append('')

    w, ps, blocks = walk_layout('player', consts)
    if w.main is not None or sorted(w.tables) != ['v0', 'v1_0'] or w.tails:
        raise TranslateError('%s fn player: expected exactly the cursors `let mut r = &v0[..]` and `let mut r = &v1_0[..]`, found %s'
                             % (DE_RS, sorted(w.tables)))
    L.append('(* %s fn player: reads from the cursor `let mut r = &v0[..]` over the %d-byte block v0 *)' % (DE_RS, blocks['v0']))
    L.append('Definition player_reads : list (string * nat * nat) :=\n  %s.' % coq_reads(w.tables['v0'].reads))
    L.append('Definition player_read_total : nat := %d.' % w.tables['v0'].off)
    L.append('(* ... and from the cursor `let mut r = &v1_0[..]` inside `match v1_0 { Some(v1_0) => ..` *)')
    L.append('Definition player_ucf_reads : list (string * nat * nat) :=\n  %s.' % coq_reads(w.tables['v1_0'].reads))
    L.append('Definition player_ucf_read_total : nat := %d.' % w.tables['v1_0'].off)
    L.append('(* the byte-array parameters of player and their sizes, from their types *)')
    L.append('Definition player_block_sizes : list (string * nat) :=\n  [%s].' % '; '.join(
        '(%s, %d)' % (coq_str(nm), blocks[nm]) for nm, _ in ps if nm in blocks))
    L.append('')

    fixed_and_tails('game_end', 'end')
    return '\n'.join(L) + '\n'


# ------------------------------------------------------------------------------------------------
# (d) writer-table front end: payload_sizes (src/io/slippi/ser.rs) and the .slpp archive entries
#     (src/io/peppi/ser.rs fn write, src/io/peppi/de.rs fn read)

SLP_SER = 'src/io/slippi/ser.rs'
SLPP_SER = 'src/io/peppi/ser.rs'
SLPP_DE = 'src/io/peppi/de.rs'
SIZE_OF = {'u8': 1, 'i8': 1, 'u16': 2, 'i16': 2, 'u32': 4, 'i32': 4, 'f32': 4, 'u64': 8, 'i64': 8, 'f64': 8}
PUSH_BODY = 'self . sizes . push ( ( event as u8 , size . try_into ( ) . unwrap ( ) ) )'
TAR_APPEND_BODY = ('let mut header = tar :: Header :: new_gnu ( ) ; header . set_size ( buf . len ( ) . try_into ( ) ? ) ; '
                   'header . set_path ( path ) ? ; header . set_mode ( 0 o644 ) ; header . set_cksum ( ) ; '   # the tokenizer splits 0o644
                   
                   'builder . append ( & header , buf ) ? ; Ok ( ( ) )')


class StmtView(LayoutWalker):
    """the statement splitter and bracket helpers of LayoutWalker over an arbitrary token list"""

    def __init__(self, toks, where):
        self.t = toks
        self.where = where


def imported_from(rel, group):
    """names imported by `use crate::{ ... <group>::{A, B, ..} ... }` in rel; group is a token list such as
    ['frame', '::', 'immutable'] -- nested groups inside are not descended into"""
    toks = file_toks(rel)
    vals = tv(toks)
    out = set()
    n = len(group)
    i = 0
    while i < len(vals):
        if vals[i] == 'use' and toks[i][0] == 'id':
            e = vals.index(';', i)
            for j in range(i, e - n):
                if vals[j:j + n] == group and vals[j + n] == '::' and vals[j + n + 1] == '{' and vals[j - 1] in ('{', ',', '::'):
                    c = match_close(toks, j + n + 1)
                    d = 0
                    for x in range(j + n + 2, c):
                        if vals[x] == '{':
                            d += 1
                        elif vals[x] == '}':
                            d -= 1
                        elif d == 0 and toks[x][0] == 'id' and vals[x - 1] in ('{', ',') and vals[x + 1] in (',', '}'):
                            out.add(vals[x])
            i = e
        i += 1
    return out


def const_usize_expr(toks, where):
    """a `const X: usize = ...` initialiser: products and sums of integer literals and [std::mem::]size_of::<prim>()"""
    s = sj(toks)
    s = re.sub(r'(?:std :: mem :: )?size_of :: < (\w+) > \( \)', lambda m: str(SIZE_OF[m.group(1)]) if m.group(1) in SIZE_OF else m.group(0), s)
    if not re.fullmatch(r'\d+(?: [*+] \d+)*', s):
        raise TranslateError('%s: unrecognised constant initialiser: %s' % (where, sj(toks)))
    return sum(eval_prod(p) for p in s.split(' + '))


def eval_prod(p):
    r = 1
    for f in p.split(' * '):
        r *= int(f)
    return r


def gen_payload_sizes():
    where = '%s fn payload_sizes' % SLP_SER
    params, ret, body = find_fn(SLP_SER, None, 'payload_sizes')
    if sj(params) != 'game : & Game' or sj(ret) != '-> PayloadSizes':
        raise TranslateError('%s: unexpected signature (%s) %s' % (where, sj(params), sj(ret)))
    # PayloadSizes: Vec<(u8, u16)>, push = (event as u8, size.try_into().unwrap())  -- the u16 conversion is Panic 401
    all_toks = file_toks(SLP_SER)
    decl = parse_struct_decl(all_toks, 'PayloadSizes', SLP_SER)
    if decl != [('sizes', 'Vec < ( u8 , u16 ) >')]:
        raise TranslateError('%s: struct PayloadSizes is not { sizes: Vec<(u8, u16)> }: %s' % (SLP_SER, decl))
    pp, pr, pb = find_fn(SLP_SER, 'PayloadSizes', 'push')
    if sj(pb) != PUSH_BODY or sj(pp) != '& mut self , event : Event , size : usize':
        raise TranslateError('%s PayloadSizes::push: not the expected helper: %s' % (SLP_SER, sj(pb)[:200]))
    records = imported_from(SLP_SER, ['frame', '::', 'immutable'])
    if 'Event' not in imported_from(SLP_SER, ['slippi']) and find_seq(all_toks, ['de', '::', 'Event']) < 0:
        raise TranslateError('%s: Event is not imported from io::slippi::de' % SLP_SER)
    if find_seq(all_toks, ['slippi', '::', '{', 'self', ',', 'de', '::', 'Event', '}']) < 0:
        raise TranslateError('%s: `slippi::{self, de::Event}` import not found' % SLP_SER)
    if 'game' not in tv(all_toks) or find_seq(all_toks, ['game', '::', '{', 'self', ',']) < 0:
        raise TranslateError('%s: `game::{self, ..}` import not found' % SLP_SER)
    events = dict(enum_codes('src/io/slippi/de.rs', 'Event'))
    consts = {}
    rows = []          # (event, psize text, gates, needs_gecko)
    state = {'sizes': False, 'ver': False, 'done': False}

    def size_expr(toks, gecko_var):
        s = sj(toks)
        if s == 'game . start . bytes . 0 . len ( )':
            return 'PsStartBytes'
        if s == 'game . end . as_ref ( ) . map_or ( game :: End :: size ( ver ) , | e | e . bytes . 0 . len ( ) )':
            return 'PsEndBytesOrDefault'
        if gecko_var is not None and s == '%s . actual_size as u16 as usize' % gecko_var:
            return 'PsGeckoActualU16'
        if re.fullmatch(r'\d[\d_]*(?:usize)?', s):
            return 'PsConst %d' % num(s)
        terms = s.split(' + ')
        hdr = 0
        rec = None
        for t in terms:
            m = re.fullmatch(r'(\w+) :: size \( ver \)', t)
            if m and m.group(1) in records and m.group(1) in GEN_STRUCTS and rec is None:
                rec = m.group(1)
            elif t in consts:
                hdr += consts[t]
            elif re.fullmatch(r'\d[\d_]*(?:usize)?', t):
                hdr += num(t)
            else:
                raise TranslateError('%s: unrecognised size expression: %s' % (where, s))
        if rec is None:
            raise TranslateError('%s: unrecognised size expression (no <Record>::size(ver) term): %s' % (where, s))
        return 'PsRow %d %s' % (hdr, coq_str(rec))

    def block(toks, gates, gecko_var):
        sv = StmtView(toks, where)
        for (a, b) in sv.statements(0, len(toks)):
            st = toks[a:b]
            s = sj(st)
            if state['done']:
                raise TranslateError('%s: statement after the final `sizes`: %s' % (where, s[:200]))
            if s == 'let mut sizes = PayloadSizes :: new ( )' and not gates and gecko_var is None and not state['sizes']:
                state['sizes'] = True
                continue
            if s in ('let ver = game . start . slippi . version . clone ( )', 'let ver = game . start . slippi . version') \
                    and not gates and gecko_var is None and not state['ver']:
                state['ver'] = True
                continue
            m = re.fullmatch(r'const (\w+) : usize = (.*)', s)
            if m:
                eq = tv(st).index('=')
                consts[m.group(1)] = const_usize_expr(st[eq + 1:], '%s const %s' % (where, m.group(1)))
                continue
            if tv(st[:4]) == ['sizes', '.', 'push', '('] and match_close(st, 3) == len(st) - 1:
                if not (state['sizes'] and state['ver']):
                    raise TranslateError('%s: sizes.push before `let mut sizes` / `let ver`' % where)
                args, _ = StmtView(st, where).split_top(4, len(st) - 1, ',')
                if len(args) != 2:
                    raise TranslateError('%s: sizes.push with %d arguments: %s' % (where, len(args), s[:200]))
                ev = tv(st[args[0][0]:args[0][1]])
                if len(ev) != 3 or ev[:2] != ['Event', '::'] or ev[2] not in events:
                    raise TranslateError('%s: sizes.push: the event is not Event::<variant of de::Event>: %s' % (where, ' '.join(ev)))
                if ev[2] in [r[0] for r in rows]:
                    raise TranslateError('%s: Event::%s is pushed twice' % (where, ev[2]))
                rows.append((ev[2], size_expr(st[args[1][0]:args[1][1]], gecko_var), list(gates), gecko_var is not None))
                continue
            if tv(st[:1]) == ['if']:
                j = sv.first_top(a + 1, b, '{')
                c = match_close(toks, j) if j >= 0 else -1
                if j < 0 or c != b - 1:
                    raise TranslateError('%s: `if` with an `else` or trailing tokens: %s' % (where, s[:200]))
                cond = sj(toks[a + 1:j])
                m = re.fullmatch(r'ver \. gte \( (\d+) , (\d+) \)', cond)
                if m:
                    block(toks[j + 1:c], gates + [(int(m.group(1)), int(m.group(2)))], gecko_var)
                    continue
                m = re.fullmatch(r'let Some \( (\w+) \) = & game \. gecko_codes', cond)
                if m and gecko_var is None:
                    block(toks[j + 1:c], gates, m.group(1))
                    continue
                raise TranslateError('%s: unrecognised condition: if %s' % (where, cond[:200]))
            if s == 'sizes' and not gates and gecko_var is None:
                state['done'] = True
                continue
            raise TranslateError('%s: unrecognised statement: %s' % (where, s[:200]))

    block(body, [], None)
    if not state['done']:
        raise TranslateError('%s: the function does not end with `sizes`' % where)
    L = []
    L.append('(* GENERATED by tools/rust2coq.py from %s (fn payload_sizes, PayloadSizes::push) and the Event enum of' % SLP_SER)
    L.append('   src/io/slippi/de.rs -- do not edit. *)')
    L.append('From Coq Require Import NArith List String.')
    L.append('From Peppi Require Import Gen.Funs.')
    L.append('Import ListNotations.')
    L.append('Local Open Scope string_scope.')
    L.append('')
    L.append('(* the size expressions of `sizes.push(Event::X, <size>)`:')
    L.append('   PsStartBytes          game.start.bytes.0.len()')
    L.append('   PsEndBytesOrDefault   game.end.as_ref().map_or(game::End::size(ver), |e| e.bytes.0.len())')
    L.append('   PsRow hdr R           <constants summing to hdr> + R::size(ver), R a record of frame::immutable')
    L.append('   PsGeckoActualU16      codes.actual_size as u16 as usize, under `if let Some(codes) = &game.gecko_codes`')
    L.append('   PsConst n             the integer literal n *)')
    L.append('Inductive psize := PsStartBytes | PsEndBytesOrDefault | PsRow (hdr : nat) (record : string) | PsGeckoActualU16 | PsConst (n : nat).')
    L.append('')
    L.append('(* local constants of payload_sizes *)')
    L.append('Definition payload_sizes_consts : list (string * nat) := [%s].' % '; '.join('(%s, %d)' % (coq_str(k), v) for k, v in consts.items()))
    L.append('(* (event, size, enclosing `if ver.gte(M, m)` gates outermost first, under `if let Some(..) = &game.gecko_codes`)')
    L.append('   for every push, in source order; each push converts the size to u16 with try_into().unwrap() *)')
    L.append('Definition payload_sizes_src_tbl : list (string * psize * list (N * N) * bool) :=\n  [%s].' % ';\n   '.join(
        '(%s, %s, [%s], %s)' % (coq_str(e), p, '; '.join('(%d, %d)%%N' % g for g in gs), 'true' if gk else 'false') for (e, p, gs, gk) in rows))
    L.append('(* de::Event: variant name -> code (the Event_* constants of Gen/Funs.v) *)')
    L.append('Definition Event_by_name : list (string * N) :=\n  [%s].' % '; '.join('(%s, Event_%s)' % (coq_str(n), n) for n in events))
    return '\n'.join(L) + '\n'


def gen_slpp_entries():
    # ---- the writer
    where = '%s fn write' % SLPP_SER
    params, ret, body = find_fn(SLPP_SER, None, 'tar_append')
    if sj(body) != TAR_APPEND_BODY or not sj(params).startswith('builder : & mut tar :: Builder < W > , buf : & [ u8 ] , path : P'):
        raise TranslateError('%s fn tar_append: not the expected helper: %s' % (SLPP_SER, sj(body)[:300]))
    params, ret, body = find_fn(SLPP_SER, None, 'write')
    ps = parse_params(params, where)
    if ('game', 'Game') not in ps:
        raise TranslateError('%s: no parameter `game: Game`' % where)
    entries = []
    used = set()
    seen_tar = {'let': False, 'fin': False}

    def trig(tok):
        return tok[0] == 'id' and tok[1] in ('tar_append', 'tar')

    for i, tok in enumerate(body):
        if tok == ('id', 'return'):
            raise TranslateError('%s: `return`: the entries after it would be conditional' % where)

    def wblock(toks, guard, base):
        sv = StmtView(toks, where)
        for (a, b) in sv.statements(0, len(toks)):
            st = toks[a:b]
            s = sj(st)
            if not any(trig(t) for t in st):
                continue
            if seen_tar['fin']:
                raise TranslateError('%s: the archive is used after `tar.into_inner()`: %s' % (where, s[:200]))
            if s == 'let mut tar = tar :: Builder :: new ( w )' and guard is None and base == 'top':
                seen_tar['let'] = True
                continue
            if s == 'tar . into_inner ( ) ? . flush ( ) ?' and guard is None and base == 'top':
                seen_tar['fin'] = True
                continue
            if tv(st[:2]) == ['tar_append', '('] and tv(st[-1:]) == ['?'] and match_close(st, 1) == len(st) - 2:
                if not seen_tar['let']:
                    raise TranslateError('%s: tar_append before `let mut tar = tar::Builder::new(w)`' % where)
                args, _ = StmtView(st, where).split_top(2, len(st) - 2, ',')
                if len(args) != 3 or tv(st[args[0][0]:args[0][1]]) != ['&', 'mut', 'tar']:
                    raise TranslateError('%s: tar_append: expected (&mut tar, <content>, "<name>"): %s' % (where, s[:200]))
                if any(trig(t) for t in st[args[1][0]:args[1][1]]):
                    raise TranslateError('%s: tar_append: the content mentions the archive: %s' % (where, s[:200]))
                nm = st[args[2][0]:args[2][1]]
                if len(nm) != 1 or nm[0][0] != 'str' or not re.fullmatch(r'"[A-Za-z0-9_.\-]+"', nm[0][1]):
                    raise TranslateError('%s: tar_append: the name is not a plain string literal: %s' % (where, sj(nm)))
                name = nm[0][1][1:-1]
                if name in [e[0] for e in entries]:
                    raise TranslateError('%s: entry %s is appended twice' % (where, name))
                entries.append((name, guard))
                continue
            if tv(st[:1]) == ['{'] and match_close(st, 0) == len(st) - 1:
                wblock(st[1:-1], guard, 'block')
                continue
            if tv(st[:1]) == ['if']:
                j = sv.first_top(a + 1, b, '{')
                c = match_close(toks, j) if j >= 0 else -1
                cond = sj(toks[a + 1:j]) if j >= 0 else ''
                m = re.fullmatch(r'let Some \( (\w+) \) = & game \. (end|gecko_codes)', cond)
                if m and c == b - 1 and guard is None:
                    wblock(toks[j + 1:c], m.group(2), 'if')
                    continue
                raise TranslateError('%s: entries under an unrecognised condition (only `if let Some(x) = &game.end` / `&game.gecko_codes`, '
                                     'not nested, no else): %s' % (where, s[:200]))
            raise TranslateError('%s: unrecognised statement that mentions the archive: %s' % (where, s[:200]))

    wblock(body, None, 'top')
    if not seen_tar['fin']:
        raise TranslateError('%s: `tar.into_inner()?.flush()?` not found' % where)

    # ---- the reader
    where = '%s fn read' % SLPP_DE
    params, ret, body = find_fn(SLPP_DE, None, 'read')
    sv = StmtView(body, where)
    vars_ = []          # let mut X: Option<..> = None;
    loops = []
    for (a, b) in sv.statements(0, len(body)):
        s = sj(body[a:b])
        m = re.fullmatch(r'let mut (\w+) : Option < .* > = None', s)
        if m:
            vars_.append(m.group(1))
        if tv(body[a:a + 1]) == ['for'] or 'tar :: Archive' in s:
            loops.append((a, b))
    if len(loops) != 1:
        raise TranslateError('%s: expected exactly one loop over tar::Archive entries, found %d' % (where, len(loops)))
    a, b = loops[0]
    j = sv.first_top(a + 1, b, '{')
    if j < 0 or match_close(body, j) != b - 1 or sj(body[a:j]) != 'for entry in tar :: Archive :: new ( r ) . entries ( ) ?':
        raise TranslateError('%s: the loop is not `for entry in tar::Archive::new(r).entries()? { .. }`: %s' % (where, sj(body[a:j if j > 0 else b])[:200]))
    inner = body[j + 1:b - 1]
    iv = StmtView(inner, where)
    arms = None
    pre = []
    for (x, y) in iv.statements(0, len(inner)):
        st = inner[x:y]
        s = sj(st)
        if tv(st[:1]) == ['match']:
            if arms is not None:
                raise TranslateError('%s: two `match` statements in the loop' % where)
            k = iv.first_top(x + 1, y, '{')
            if k < 0 or match_close(inner, k) != y - 1:
                raise TranslateError('%s: unexpected tokens after the match' % where)
            if sj(inner[x + 1:k]) != 'path . file_name ( ) . and_then ( | n | n . to_str ( ) )':
                raise TranslateError('%s: the match is not on path.file_name().and_then(|n| n.to_str()): %s' % (where, sj(inner[x + 1:k])[:200]))
            if pre != ['let mut file = entry ?', 'let path = file . path ( ) ?']:
                raise TranslateError('%s: expected `let mut file = entry?; let path = file.path()?;` before the match, found: %s' % (where, pre))
            arms = inner[k + 1:y - 1]
        elif arms is None and re.fullmatch(r'(debug|trace|info) ! \( .* \)', s):
            continue
        elif arms is None and s.startswith('let '):
            pre.append(s)
        else:
            raise TranslateError('%s: unrecognised statement in the entry loop: %s' % (where, s[:200]))
    if arms is None:
        raise TranslateError('%s: no match on the file name in the entry loop' % where)
    av = StmtView(arms, where)
    names = []
    i = 0
    wild = False
    while i < len(arms):
        p = av.first_top(i, len(arms), '=>')
        if p < 0:
            raise TranslateError('%s: unrecognised match arm: %s' % (where, sj(arms[i:])[:200]))
        pat = arms[i:p]
        if av.is_p(p + 1, '{'):
            e = match_close(arms, p + 1) + 1
            bodyt = arms[p + 2:e - 1]
        else:
            e = av.first_top(p + 1, len(arms), ',')
            e = len(arms) if e < 0 else e
            bodyt = arms[p + 1:e]
        nxt = e + 1 if av.is_p(e, ',') else e
        brk = ('id', 'break') in bodyt
        if wild:
            raise TranslateError('%s: match arm after the catch-all arm' % where)
        if sj(pat) == '_':
            wild = True
            if brk or ('id', 'continue') in bodyt or ('id', 'return') in bodyt:
                raise TranslateError('%s: the catch-all arm does not just skip the entry' % where)
            for v in vars_:
                if re.search(r'(?:^| )%s = ' % re.escape(v), sj(bodyt)):
                    raise TranslateError('%s: the catch-all arm assigns %s' % (where, v))
        else:
            if len(pat) != 4 or tv(pat[:2]) != ['Some', '('] or pat[2][0] != 'str' or tv(pat[3:]) != [')'] \
                    or not re.fullmatch(r'"[A-Za-z0-9_.\-]+"', pat[2][1]):
                raise TranslateError('%s: match pattern is not Some("<name>"): %s' % (where, sj(pat)[:200]))
            name = pat[2][1][1:-1]
            if name in [n[0] for n in names]:
                raise TranslateError('%s: two arms for %s' % (where, name))
            if ('id', 'continue') in bodyt:
                raise TranslateError('%s: `continue` in the arm for %s' % (where, name))
            if brk:
                bv = StmtView(bodyt, where)
                top = [sj(bodyt[x:y]) for (x, y) in bv.statements(0, len(bodyt))]
                if top.count('break') != 1 or tv(bodyt).count('break') != 1 or top[-1] != 'break':
                    raise TranslateError('%s: `break` in the arm for %s is not its last top-level statement' % (where, name))
            # the Option variable the arm assigns
            bv = StmtView(bodyt, where)
            targets = []
            for (x, y) in bv.statements(0, len(bodyt)):
                m = re.match(r'(\w+) = ', sj(bodyt[x:y]))
                if m and m.group(1) in vars_:
                    targets.append(m.group(1))
            if len(targets) != 1:
                raise TranslateError('%s: the arm for %s does not assign exactly one of %s at its top level: %s' % (where, name, vars_, targets))
            names.append((name, brk, targets[0]))
        i = nxt
    if not wild:
        raise TranslateError('%s: no catch-all arm `_ => ..`' % where)
    L = []
    L.append('(* GENERATED by tools/rust2coq.py from %s (fn write) and %s (fn read) -- do not edit. *)' % (SLPP_SER, SLPP_DE))
    L.append('From Coq Require Import List String.')
    L.append('Import ListNotations.')
    L.append('Local Open Scope string_scope.')
    L.append('')
    L.append('(* %s fn write: the `tar_append(&mut tar, <content>, "<name>")?` calls in source order; guard None: unconditional' % SLPP_SER)
    L.append('   (top level or a bare block), Some "end" / Some "gecko_codes": inside `if let Some(..) = &game.end / &game.gecko_codes` *)')
    L.append('Definition slpp_write_entries : list (string * option string) :=\n  [%s].' % '; '.join(
        '(%s, %s)' % (coq_str(n), 'None' if g is None else 'Some %s' % coq_str(g)) for n, g in entries))
    L.append('(* %s fn read: the arms `Some("<name>") => ..` of the match on the entry\'s file name, in order;' % SLPP_DE)
    L.append('   true: the arm ends with `break` (the loop over the entries stops); the catch-all arm skips the entry *)')
    L.append('Definition slpp_read_names : list (string * bool) :=\n  [%s].' % '; '.join(
        '(%s, %s)' % (coq_str(n), 'true' if b else 'false') for n, b, _ in names))
    L.append('(* ... and the `let mut <var>: Option<..> = None` that the arm assigns *)')
    L.append('Definition slpp_read_targets : list (string * string) :=\n  [%s].' % '; '.join(
        '(%s, %s)' % (coq_str(n), coq_str(t)) for n, _, t in names))
    return '\n'.join(L) + '\n'


# ------------------------------------------------------------------------------------------------
# (e) frame-write front end: Frame::write, PortData::write_pre/post, Data::write_pre/post
#     (hand-written head of src/frame/immutable/slippi.rs)

FW_RS = 'src/frame/immutable/slippi.rs'
FW_DECL = 'src/frame/immutable/mod.rs'
VALID_COND = 'self . validity . as_ref ( ) . map_or ( true , | v | v . get_bit ( idx ) )'


def fw_header_write(s, where, events):
    """one `w.write_..(..)?` statement of an event header -> Coq hfield"""
    m = re.fullmatch(r'w \. write_u8 \( Event :: (\w+) as u8 \) \?', s)
    if m:
        if m.group(1) not in events:
            raise TranslateError('%s: Event::%s is not a variant of de::Event' % (where, m.group(1)))
        return 'HCode %s' % coq_str(m.group(1))
    if s == 'w . write_i32 :: < BE > ( frame_id ) ?':
        return 'HFrameIdI32'
    if s == 'w . write_u8 ( port . port as u8 ) ?':
        return 'HPortU8'
    if s == 'w . write_u8 ( match port . follower { true => 1 , _ => 0 } ) ?':
        return 'HFollowerU8'
    raise TranslateError('%s: unrecognised write in an event header: %s' % (where, s[:200]))


def sjp(toks):
    """sj of a parameter list: a trailing comma dropped"""
    s = sj(toks)
    return s[:-2] if s.endswith(' ,') else s


def fw_record_of(decl, field, where, optional):
    ty = dict(decl).get(field)
    if ty is None:
        raise TranslateError('%s: self.%s is not a field of the struct' % (where, field))
    m = re.fullmatch(r'Option < (\w+) >', ty)
    if optional != bool(m):
        raise TranslateError('%s: field %s has type %s' % (where, field, ty))
    rec = m.group(1) if m else ty
    if rec not in GEN_STRUCTS:
        raise TranslateError('%s: field %s: %s is not a generated record' % (where, field, rec))
    return rec


def fw_stmts(toks, where):
    sv = StmtView(toks, where)
    return [toks[a:b] for (a, b) in sv.statements(0, len(toks))]


def fw_if_block(st, where):
    """`if COND { BODY }` without else -> (cond text, body tokens) or None"""
    if tv(st[:1]) != ['if']:
        return None
    sv = StmtView(st, where)
    j = sv.first_top(1, len(st), '{')
    if j < 0 or match_close(st, j) != len(st) - 1:
        raise TranslateError('%s: `if` with an `else` or trailing tokens: %s' % (where, sj(st)[:200]))
    return sj(st[1:j]), st[j + 1:len(st) - 1]


def fw_for_block(st, where):
    """`for HEAD { BODY }` -> (head text, body tokens) or None"""
    if tv(st[:1]) != ['for']:
        return None
    sv = StmtView(st, where)
    j = sv.first_top(1, len(st), '{')
    if j < 0 or match_close(st, j) != len(st) - 1:
        raise TranslateError('%s: unrecognised `for`: %s' % (where, sj(st)[:200]))
    return sj(st[1:j]), st[j + 1:len(st) - 1]


def gen_frame_write():
    all_toks = file_toks(FW_RS)
    decl_toks = file_toks(FW_DECL)
    if find_seq(all_toks, ['type', 'BE', '=', 'byteorder', '::', 'BigEndian', ';']) < 0:
        raise TranslateError('%s: `type BE = byteorder::BigEndian;` not found' % FW_RS)
    if 'Event' not in imported_from(FW_RS, ['io', '::', 'slippi']) and find_seq(all_toks, ['de', '::', 'Event']) < 0:
        raise TranslateError('%s: Event is not imported from io::slippi::de' % FW_RS)
    if find_seq(all_toks, ['de', '::', 'Event']) < 0:
        raise TranslateError('%s: `de::Event` import not found' % FW_RS)
    events = dict(enum_codes('src/io/slippi/de.rs', 'Event'))
    data_decl = parse_struct_decl(decl_toks, 'Data', FW_DECL)
    port_decl = parse_struct_decl(decl_toks, 'PortData', FW_DECL)
    frame_decl = parse_struct_decl(decl_toks, 'Frame', FW_DECL)
    if dict(port_decl).get('leader') != 'Data' or dict(port_decl).get('follower') != 'Option < Data >':
        raise TranslateError('%s: PortData is not { leader: Data, follower: Option<Data>, .. }' % FW_DECL)
    if dict(frame_decl).get('ports') != 'Vec < PortData >' or dict(data_decl).get('validity') != 'Option < Bitmap >':
        raise TranslateError('%s: Frame.ports / Data.validity have unexpected types' % FW_DECL)

    fns = {}
    for kind, name, frm, body in impl_blocks(all_toks):
        if kind == 'impl' and name in ('Data', 'PortData', 'Frame'):
            for n, params, ret, b in fns_in(body):
                fns[(name, n)] = (params, ret, b)
    expected = {('Data', 'write_pre'), ('Data', 'write_post'), ('PortData', 'write_pre'), ('PortData', 'write_post'), ('Frame', 'write')}
    if set(fns) != expected:
        raise TranslateError('%s: impl Data/PortData/Frame: expected exactly the functions %s, found %s' % (FW_RS, sorted(expected), sorted(fns)))

    # ---- Data::write_pre / write_post
    data_rows = []
    for m_ in ('write_pre', 'write_post'):
        where = '%s Data::%s' % (FW_RS, m_)
        params, ret, body = fns[('Data', m_)]
        if sjp(params) != '& self , w : & mut W , version : Version , idx : usize , frame_id : i32 , port : PortOccupancy':
            raise TranslateError('%s: unexpected parameters: %s' % (where, sj(params)))
        sts = fw_stmts(body, where)
        blk = fw_if_block(sts[0], where) if sts else None
        if len(sts) != 2 or blk is None or blk[0] != VALID_COND or sj(sts[1]) != 'Ok ( ( ) )':
            raise TranslateError('%s: not `if self.validity.as_ref().map_or(true, |v| v.get_bit(idx)) { .. } Ok(())`: %s' % (where, sj(body)[:200]))
        inner = [sj(x) for x in fw_stmts(blk[1], where)]
        if not inner:
            raise TranslateError('%s: empty body' % where)
        m = re.fullmatch(r'self \. (\w+) \. write \( w , version , idx \) \?', inner[-1])
        if not m:
            raise TranslateError('%s: the last statement is not `self.<field>.write(w, version, idx)?`: %s' % (where, inner[-1][:200]))
        hdr = [fw_header_write(s, where, events) for s in inner[:-1]]
        data_rows.append((m_, hdr, m.group(1), fw_record_of(data_decl, m.group(1), where, False)))

    # ---- PortData::write_pre / write_post
    port_rows = []
    call = r'(\w+) \( w , version , idx , frame_id , PortOccupancy \{ port : self \. port , follower : (true|false) \} \)'
    for m_ in ('write_pre', 'write_post'):
        where = '%s PortData::%s' % (FW_RS, m_)
        params, ret, body = fns[('PortData', m_)]
        if sjp(params) != '& self , w : & mut W , version : Version , idx : usize , frame_id : i32':
            raise TranslateError('%s: unexpected parameters: %s' % (where, sj(params)))
        sts = [sj(x) for x in fw_stmts(body, where)]
        if len(sts) != 2:
            raise TranslateError('%s: expected two statements (leader, follower), found %d' % (where, len(sts)))
        m1 = re.fullmatch(r'self \. leader \. ' + call + r' \?', sts[0])
        m2 = re.fullmatch(r'self \. follower \. as_ref \( \) \. map_or \( Ok \( \( \) \) , \| f \| \{ if f \. validity \. as_ref \( \) \. map_or '
                          r'\( true , \| v \| v \. get_bit \( idx \) \) \{ f \. ' + call + r' \} else \{ Ok \( \( \) \) \} \} \)', sts[1])
        if not m1:
            raise TranslateError('%s: unrecognised leader statement: %s' % (where, sts[0][:300]))
        if not m2:
            raise TranslateError('%s: unrecognised follower statement: %s' % (where, sts[1][:300]))
        for mm in (m1, m2):
            if ('Data', mm.group(1)) not in fns:
                raise TranslateError('%s: calls %s, which is not a function of impl Data' % (where, mm.group(1)))
        port_rows.append((m_, [('leader', m1.group(1), m1.group(2), 'false'), ('follower', m2.group(1), m2.group(2), 'true')]))

    # ---- Frame::write
    where = '%s Frame::write' % FW_RS
    params, ret, body = fns[('Frame', 'write')]
    if sjp(params) != '& self , w : & mut W , version : Version':
        raise TranslateError('%s: unexpected parameters: %s' % (where, sj(params)))
    sts = fw_stmts(body, where)
    loop = fw_for_block(sts[0], where) if sts else None
    if len(sts) != 2 or loop is None or loop[0] != '( idx , & frame_id ) in self . id . values ( ) . iter ( ) . enumerate ( )' or sj(sts[1]) != 'Ok ( ( ) )':
        raise TranslateError('%s: not `for (idx, &frame_id) in self.id.values().iter().enumerate() { .. } Ok(())`' % where)

    def row_step(stmts, idx_var):
        """[header writes.., self.F.as_ref().unwrap().write(w, version, <idx_var>)?] -> (header, field, record)"""
        ss = [sj(x) for x in stmts]
        m = re.fullmatch(r'self \. (\w+) \. as_ref \( \) \. unwrap \( \) \. write \( w , version , %s \) \?' % idx_var, ss[-1]) if ss else None
        if not m:
            raise TranslateError('%s: expected `self.<field>.as_ref().unwrap().write(w, version, %s)?` after the header: %s'
                                 % (where, idx_var, (ss[-1] if ss else '')[:200]))
        hdr = [fw_header_write(s, where, events) for s in ss[:-1]]
        if any(h in ('HPortU8', 'HFollowerU8') for h in hdr):
            raise TranslateError('%s: port bytes in a per-frame event header' % where)
        return hdr, m.group(1), fw_record_of(frame_decl, m.group(1), where, True)

    def step(st):
        fb = fw_for_block(st, where)
        if fb is not None:
            if fb[0] != 'port in & self . ports':
                raise TranslateError('%s: unrecognised loop: for %s' % (where, fb[0][:200]))
            inner = [sj(x) for x in fw_stmts(fb[1], where)]
            m = re.fullmatch(r'port \. (\w+) \( w , version , idx , frame_id \) \?', inner[0]) if len(inner) == 1 else None
            if not m or ('PortData', m.group(1)) not in fns:
                raise TranslateError('%s: the body of `for port in &self.ports` is not `port.<write_pre|write_post>(w, version, idx, frame_id)?;`: %s'
                                     % (where, ' ; '.join(inner)[:200]))
            return 'FsPorts %s' % coq_str(m.group(1))
        return None

    def steps_of(stmts, gate):
        """statements of the loop body (gate None) or of an `if version.gte(..)` block -> [(fstep, gate)]"""
        out = []
        i = 0
        while i < len(stmts):
            st = stmts[i]
            s = sj(st)
            ib = fw_if_block(st, where)
            if ib is not None:
                m = re.fullmatch(r'version \. gte \( (\d+) , (\d+) \)', ib[0])
                if not m or gate is not None:
                    raise TranslateError('%s: unrecognised or nested condition: if %s' % (where, ib[0][:200]))
                out.extend(steps_of(fw_stmts(ib[1], where), (int(m.group(1)), int(m.group(2)))))
                i += 1
                continue
            ps = step(st)
            if ps is not None:
                out.append((ps, gate))
                i += 1
                continue
            m = re.fullmatch(r'let (\w+) = self \. (\w+) \. as_ref \( \) \. unwrap \( \)', s)
            if m and i + 1 < len(stmts):
                off, off_field = m.group(1), m.group(2)
                if dict(frame_decl).get(off_field) != 'Option < OffsetsBuffer < i32 > >':
                    raise TranslateError('%s: %s is not an Option<OffsetsBuffer<i32>> field' % (where, off_field))
                fb = fw_for_block(stmts[i + 1], where)
                if fb is None or fb[0] != 'item_idx in ( %s [ idx ] as usize ) .. ( %s [ idx + 1 ] as usize )' % (off, off):
                    raise TranslateError('%s: expected `for item_idx in (%s[idx] as usize)..(%s[idx + 1] as usize)`: %s'
                                         % (where, off, off, sj(stmts[i + 1])[:200]))
                hdr, field, rec = row_step(fw_stmts(fb[1], where), 'item_idx')
                out.append(('FsItems [%s] %s %s %s' % ('; '.join(hdr), coq_str(off_field), coq_str(field), coq_str(rec)), gate))
                i += 2
                continue
            # a run of header writes closed by the record write
            j = i
            while j < len(stmts) and not re.match(r'self \. ', sj(stmts[j])):
                if not sj(stmts[j]).startswith('w . write_'):
                    raise TranslateError('%s: unrecognised statement: %s' % (where, sj(stmts[j])[:200]))
                j += 1
            if j >= len(stmts):
                raise TranslateError('%s: header writes without a record write: %s' % (where, s[:200]))
            hdr, field, rec = row_step(stmts[i:j + 1], 'idx')
            out.append(('FsRow [%s] %s %s' % ('; '.join(hdr), coq_str(field), coq_str(rec)), gate))
            i = j + 1
        return out

    steps = steps_of(fw_stmts(loop[1], where), None)

    L = []
    L.append('(* GENERATED by tools/rust2coq.py from %s (impl Data, impl PortData, impl Frame: the hand-written head of the' % FW_RS)
    L.append('   file), the struct declarations of %s and the Event enum of src/io/slippi/de.rs -- do not edit. *)' % FW_DECL)
    L.append('From Coq Require Import NArith List String.')
    L.append('From Peppi Require Import Gen.Funs.')
    L.append('Import ListNotations.')
    L.append('Local Open Scope string_scope.')
    L.append('')
    L.append('(* the writes of an event header, before the record:')
    L.append('   HCode E       w.write_u8(Event::E as u8)?')
    L.append('   HFrameIdI32   w.write_i32::<BE>(frame_id)?')
    L.append('   HPortU8       w.write_u8(port.port as u8)?')
    L.append('   HFollowerU8   w.write_u8(match port.follower { true => 1, _ => 0 })? *)')
    L.append('Inductive hfield := HCode (event : string) | HFrameIdI32 | HPortU8 | HFollowerU8.')
    L.append('')
    L.append('(* Data::<method>: `if self.validity.as_ref().map_or(true, |v| v.get_bit(idx)) { <header>; self.<field>.write(w, version, idx)? }`')
    L.append('   (method, header, field, record type of the field) *)')
    L.append('Definition data_write_tbl : list (string * list hfield * string * string) :=\n  [%s].' % ';\n   '.join(
        '(%s, [%s], %s, %s)' % (coq_str(m_), '; '.join(h), coq_str(f), coq_str(r)) for (m_, h, f, r) in data_rows))
    L.append('(* PortData::<method>: the leader, then the follower if present; (who, Data method called, `follower:` flag passed,')
    L.append('   guarded by an extra `f.validity..get_bit(idx)` test around the call) *)')
    L.append('Definition portdata_write_tbl : list (string * list (string * string * bool * bool)) :=\n  [%s].' % ';\n   '.join(
        '(%s, [%s])' % (coq_str(m_), '; '.join('(%s, %s, %s, %s)' % (coq_str(w_), coq_str(c), f, g) for (w_, c, f, g) in rows)) for (m_, rows) in port_rows))
    L.append('(* Frame::write, per frame `for (idx, &frame_id) in self.id.values().iter().enumerate()`:')
    L.append('   FsRow header field record             <header>; self.<field>.as_ref().unwrap().write(w, version, idx)?')
    L.append('   FsPorts method                        for port in &self.ports { port.<method>(w, version, idx, frame_id)?; }')
    L.append('   FsItems header offsets field record   let offset = self.<offsets>.as_ref().unwrap();')
    L.append('                                         for item_idx in (offset[idx] as usize)..(offset[idx + 1] as usize)')
    L.append('                                           { <header>; self.<field>.as_ref().unwrap().write(w, version, item_idx)? }')
    L.append('   each with the enclosing `if version.gte(M, m)` (None: unconditional), in source order *)')
    L.append('Inductive fstep :=')
    L.append('| FsRow (header : list hfield) (field record : string)')
    L.append('| FsPorts (method : string)')
    L.append('| FsItems (header : list hfield) (offsets field record : string).')
    L.append('Definition frame_write_steps : list (fstep * option (N * N)) :=\n  [%s].' % ';\n   '.join(
        '(%s, %s)' % (s, 'None' if g is None else 'Some (%d, %d)%%N' % g) for (s, g) in steps))
    L.append('(* de::Event: variant name -> code (the Event_* constants of Gen/Funs.v) *)')
    L.append('Definition frame_event_codes : list (string * N) :=\n  [%s].' % '; '.join('(%s, Event_%s)' % (coq_str(n), n) for n in events))
    return '\n'.join(L) + '\n'


# ------------------------------------------------------------------------------------------------
# (f) message-splitter front end: handle_splitter_event (src/io/slippi/de.rs) and gecko_codes (src/io/slippi/ser.rs)

def strict_match(stmts, pats, where):
    """every statement must fullmatch the pattern at the same position; -> list of match objects"""
    if len(stmts) != len(pats):
        raise TranslateError('%s: expected %d statements, found %d: %s' % (where, len(pats), len(stmts), ' ; '.join(stmts)[:300]))
    out = []
    for i, (s, (what, p)) in enumerate(zip(stmts, pats)):
        m = re.fullmatch(p, s)
        if not m:
            raise TranslateError('%s: statement %d is not %s: %s' % (where, i + 1, what, s[:300]))
        out.append(m)
    return out


def gen_splitter():
    INT = r'(\d[\d_]*)'
    # ---- reader
    where = '%s fn handle_splitter_event' % DE_RS
    all_toks = file_toks(DE_RS)
    if find_seq(all_toks, ['type', 'BE', '=', 'byteorder', '::', 'BigEndian', ';']) < 0:
        raise TranslateError('%s: `type BE = byteorder::BigEndian;` not found' % DE_RS)
    if parse_struct_decl(all_toks, 'SplitAccumulator', DE_RS) != [('raw', 'Vec < u8 >'), ('actual_size', 'u32')]:
        raise TranslateError('%s: struct SplitAccumulator is not { raw: Vec<u8>, actual_size: u32 }' % DE_RS)
    params, ret, body = find_fn(DE_RS, None, 'handle_splitter_event')
    if sjp(params) != 'buf : & [ u8 ] , accumulator : & mut SplitAccumulator' or sj(ret) != '-> Result < Option < u8 > >':
        raise TranslateError('%s: unexpected signature' % where)
    sts = [sj(x) for x in fw_stmts(body, where)]
    err = r'\{ return Err \( err ! \( .* \) \)(?: ;)? \}'
    m = strict_match(sts, [
        ('`if buf.len() != N { return Err(..) }`', r'if buf \. len \( \) != %s %s' % (INT, err)),
        ('`let actual_size = (&buf[A..B]).read_u16::<BE>()?`', r'let actual_size = \( & buf \[ %s \.\. %s \] \) \. read_u16 :: < BE > \( \) \?' % (INT, INT)),
        ('`if actual_size > N { return Err(..) }`', r'if actual_size > %s %s' % (INT, err)),
        ('`let wrapped_event = buf[N]`', r'let wrapped_event = buf \[ %s \]' % INT),
        ('`let is_final = buf[N] != 0`', r'let is_final = buf \[ %s \] != 0' % INT),
        ('`accumulator.raw.extend_from_slice(&buf[A..B])`', r'accumulator \. raw \. extend_from_slice \( & buf \[ %s \.\. %s \] \)' % (INT, INT)),
        ('`accumulator.actual_size += actual_size as u32`', r'accumulator \. actual_size \+= actual_size as u32'),
        ('`Ok(match is_final { true => Some(wrapped_event), _ => None })`', r'Ok \( match is_final \{ true => Some \( wrapped_event \) , _ => None \} \)'),
    ], where)
    blen = num(m[0].group(1))
    sa, sb_ = num(m[1].group(1)), num(m[1].group(2))
    if sb_ - sa != 2:
        raise TranslateError('%s: read_u16 from a %d-byte slice buf[%d..%d]' % (where, sb_ - sa, sa, sb_))
    mx = num(m[2].group(1))
    wr, fi = num(m[3].group(1)), num(m[4].group(1))
    da, db = num(m[5].group(1)), num(m[5].group(2))
    if not (da <= db):
        raise TranslateError('%s: empty data slice' % where)
    # the caller: the splitter is taken iff code == Event::MessageSplitter, and on completion code/buf are replaced
    cparams, cret, cbody = find_fn(DE_RS, None, 'parse_event')
    want = ('if code == Event :: MessageSplitter as u8 { if let Some ( wrapped_event ) = handle_splitter_event ( & buf , & mut state . split_accumulator ) ? '
            '{ code = wrapped_event ; buf . clear ( ) ; buf . append ( & mut state . split_accumulator . raw ) ; } }')
    if want not in sj(cbody):
        raise TranslateError('%s fn parse_event: the call of handle_splitter_event is not the expected `if code == Event::MessageSplitter as u8 { if let '
                             'Some(wrapped_event) = handle_splitter_event(&buf, &mut state.split_accumulator)? { code = wrapped_event; buf.clear(); '
                             'buf.append(&mut state.split_accumulator.raw); } }`' % DE_RS)
    if tv(cbody).count('handle_splitter_event') != 1 or tv(all_toks).count('handle_splitter_event') != 2:
        raise TranslateError('%s: handle_splitter_event is used in more than one place' % DE_RS)

    # ---- writer
    where = '%s fn gecko_codes' % SLP_SER
    stoks = file_toks(SLP_SER)
    if find_seq(stoks, ['type', 'BE', '=', 'byteorder', '::', 'BigEndian', ';']) < 0:
        raise TranslateError('%s: `type BE = byteorder::BigEndian;` not found' % SLP_SER)
    events = dict(enum_codes(DE_RS, 'Event'))
    params, ret, body = find_fn(SLP_SER, None, 'gecko_codes')
    if sjp(params) != 'w : & mut W , codes : & GeckoCodes':
        raise TranslateError('%s: unexpected parameters: %s' % (where, sjp(params)))
    sts = fw_stmts(body, where)
    if len(sts) != 4 or sj(sts[0]) != 'let mut pos = 0' or sj(sts[1]) != 'let actual_size = codes . actual_size as usize' or sj(sts[3]) != 'Ok ( ( ) )' \
            or tv(sts[2][:1]) != ['while']:
        raise TranslateError('%s: not `let mut pos = 0; let actual_size = codes.actual_size as usize; while .. { .. } Ok(())`: %s' % (where, sj(body)[:300]))
    sv = StmtView(sts[2], where)
    j = sv.first_top(1, len(sts[2]), '{')
    if j < 0 or match_close(sts[2], j) != len(sts[2]) - 1 or sj(sts[2][1:j]) != 'pos < actual_size':
        raise TranslateError('%s: the loop is not `while pos < actual_size { .. }`' % where)
    steps = []
    for st in fw_stmts(sts[2][j + 1:-1], where):
        s = sj(st)
        mm = re.fullmatch(r'w \. write_u8 \( Event :: (\w+) as u8 \) \?', s)
        if mm:
            if mm.group(1) not in events:
                raise TranslateError('%s: Event::%s is not a variant of de::Event' % (where, mm.group(1)))
            steps.append('GwCode %s' % coq_str(mm.group(1)))
            continue
        mm = re.fullmatch(r'w \. write_all \( & codes \. bytes \[ pos \.\. pos \+ %s \] \) \?' % INT, s)
        if mm:
            steps.append('GwBlock %d' % num(mm.group(1)))
            continue
        mm = re.fullmatch(r'w \. write_u16 :: < BE > \( (?:std :: cmp :: )?min \( %s , actual_size - pos \) as u16 \) \?' % INT, s)
        if mm:
            steps.append('GwSizeU16Min %d' % num(mm.group(1)))
            continue
        mm = re.fullmatch(r'pos \+= %s' % INT, s)
        if mm:
            steps.append('GwAdvance %d' % num(mm.group(1)))
            continue
        if s == 'w . write_u8 ( u8 :: from ( pos >= actual_size ) ) ?':
            steps.append('GwFinalFlag')
            continue
        raise TranslateError('%s: unrecognised statement in the loop: %s' % (where, s[:300]))
    if sum(1 for x in steps if x.startswith('GwAdvance')) != 1:
        raise TranslateError('%s: expected exactly one `pos += N` in the loop' % where)

    L = []
    L.append('(* GENERATED by tools/rust2coq.py from %s (fn handle_splitter_event, its call in fn parse_event) and' % DE_RS)
    L.append('   %s (fn gecko_codes) -- do not edit. *)' % SLP_SER)
    L.append('From Coq Require Import NArith List String.')
    L.append('From Peppi Require Import Gen.Funs.')
    L.append('Import ListNotations.')
    L.append('Local Open Scope string_scope.')
    L.append('')
    L.append('(* handle_splitter_event(buf, accumulator), in statement order *)')
    L.append('Definition splitter_block_len : nat := %d.            (* if buf.len() != N { return Err } *)' % blen)
    L.append('Definition splitter_size_at : nat * nat := (%d, %d).    (* actual_size = (&buf[A..B]).read_u16::<BE>()?: (A, B - A) *)' % (sa, sb_ - sa))
    L.append('Definition splitter_max_size : N := %d%%N.            (* if actual_size > N { return Err } *)' % mx)
    L.append('Definition splitter_wrapped_at : nat := %d.           (* wrapped_event = buf[N] *)' % wr)
    L.append('Definition splitter_final_at : nat := %d.             (* is_final = buf[N] != 0 *)' % fi)
    L.append('Definition splitter_data : nat * nat := (%d, %d).       (* accumulator.raw.extend_from_slice(&buf[A..B]): (A, B - A) *)' % (da, db - da))
    L.append('')
    L.append('(* gecko_codes(w, codes): the body of `while pos < actual_size { .. }`, in statement order:')
    L.append('   GwCode E          w.write_u8(Event::E as u8)?')
    L.append('   GwBlock n         w.write_all(&codes.bytes[pos..pos + n])?')
    L.append('   GwSizeU16Min n    w.write_u16::<BE>(min(n, actual_size - pos) as u16)?')
    L.append('   GwAdvance n       pos += n')
    L.append('   GwFinalFlag       w.write_u8(u8::from(pos >= actual_size))? *)')
    L.append('Inductive gwrite := GwCode (event : string) | GwBlock (len : nat) | GwSizeU16Min (cap : nat) | GwAdvance (n : nat) | GwFinalFlag.')
    L.append('Definition gecko_write_steps : list gwrite :=\n  [%s].' % '; '.join(steps))
    L.append('(* de::Event: variant name -> code (the Event_* constants of Gen/Funs.v) *)')
    L.append('Definition splitter_event_codes : list (string * N) :=\n  [%s].' % '; '.join('(%s, Event_%s)' % (coq_str(n), n) for n in events))
    return '\n'.join(L) + '\n'


# ------------------------------------------------------------------------------------------------
# (g) read()-tail front end: the skip-frames arithmetic, the event-loop condition, the final frame_close gate, the
#     duplicate-Game-End test and the metadata dispatch of src/io/slippi/de.rs fn read / fn parse_metadata

LOG_MACRO = r'(?:info|debug|warn|trace) ! \( .* \)'


def expr_to_gallina(text, subst, env, where, coq_name, binders, ret_ty):
    """a Rust expression (token-joined text) -> `Definition coq_name binders : ret_ty := ...` through the expression
    front end (P/G); `subst`: (token-joined Rust sub-expression, identifier) replaced first, longest first"""
    for old, new in sorted(subst, key=lambda x: -len(x[0])):
        text = text.replace(old, new)
    p = P(tokenize(text, where), where)
    ast = p.expr()
    if not p.done():
        raise TranslateError('%s: trailing tokens in expression: %s' % (where, text[:200]))
    g = G(env, where)
    return 'Definition %s %s : %s := %s.' % (coq_name, ' '.join('(%s : N)' % b for b in binders), ret_ty, g.e(ast))


def not_logs(stmts):
    return [s for s in stmts if not re.fullmatch(LOG_MACRO, s)]


def gen_read_tail():
    where = '%s fn read' % DE_RS
    params, ret, body = find_fn(DE_RS, None, 'read')
    if sjp(params) != 'r : R , opts : Option < & Opts >':
        raise TranslateError('%s: unexpected parameters: %s' % (where, sjp(params)))
    raw = fw_stmts(body, where)
    idx = [i for i, x in enumerate(raw) if not re.fullmatch(LOG_MACRO, sj(x))]
    sts = [raw[i] for i in idx]
    txt = [sj(x) for x in sts]
    strict_match(txt, [
        ('`let hash = opts.map_or(false, |o| o.compute_hash)`', r'let hash = opts \. map_or \( false , \| o \| o \. compute_hash \)'),
        ('`let mut r = HashingReader::new(r, hash)`', r'let mut r = HashingReader :: new \( r , hash \)'),
        ('`let raw_len = parse_header(&mut r, opts)? as usize`', r'let raw_len = parse_header \( & mut r , opts \) \? as usize'),
        ('`let mut state = parse_start(&mut r, opts)?`', r'let mut state = parse_start \( & mut r , opts \) \?'),
        ('`if opts.map_or(false, |o| o.skip_frames) { .. }`', r'if opts \. map_or \( false , \| o \| o \. skip_frames \) \{ .* \}'),
        ('`while .. { .. }`', r'while .*'),
        ('`if state.game.start.slippi.version.lt(M, m) { state.frame_close(); }`',
         r'if state \. game \. start \. slippi \. version \. lt \( \d+ , \d+ \) \{ state \. frame_close \( \) ; \}'),
        ('`if state.bytes_read < raw_len { .. } else if .. { warn!(..) }`', r'if .*'),
        ('`match r.read_u8()? { .. }`', r'match r \. read_u8 \( \) \? \{ .* \}'),
        ('`state.game.hash = r.into_digest()`', r'state \. game \. hash = r \. into_digest \( \)'),
        ('`Ok(Game::from(state.game))`', r'Ok \( Game :: from \( state \. game \) \)'),
    ], where)
    S_BR = ('state . bytes_read', 'bytes_read')
    D = []

    # ---- the skip block
    w2 = where + ' (skip_frames block)'
    blk = fw_if_block(sts[4], w2)
    inner = not_logs([sj(x) for x in fw_stmts(blk[1], w2)])
    m = strict_match(inner, [
        ('`let end_offset = ..`', r'let end_offset = (.*)'),
        ('`if .. { return Err(err!(..)); }`', r'if (.*) \{ return Err \( err ! \( .* \) \)(?: ;)? \}'),
        ('`let skip = ..`', r'let skip = (.*)'),
        ('`if hash { io::copy(take(skip)) } else { r.seek(Current(skip)) }`',
         r'if hash \{ io :: copy \( & mut r \. by_ref \( \) \. take \( skip as u64 \) , & mut io :: sink \( \) \) \? ; \} '
         r'else \{ r \. seek \( SeekFrom :: Current \( skip \. try_into \( \) \. map_err \( invalid_data \) \? \) \) \? ; \}'),
        ('`state.bytes_read += skip`', r'state \. bytes_read \+= skip'),
    ], w2)
    mm = re.search(r'state \. payload_sizes \[ Event :: (\w+) as usize \] \. unwrap \( \) \. get \( \)', m[0].group(1))
    if not mm or mm.group(1) not in dict(enum_codes(DE_RS, 'Event')):
        raise TranslateError('%s: end_offset does not use state.payload_sizes[Event::X as usize].unwrap().get(): %s' % (w2, m[0].group(1)[:200]))
    D.append('(* skip_frames: let end_offset = %s *)' % m[0].group(1).replace('*)', '* )'))
    D.append('Definition skip_size_event : N := Event_%s.' % mm.group(1))
    D.append(expr_to_gallina(m[0].group(1), [(mm.group(0), 'payload_size')], {'payload_size': 'payload_size'}, w2, 'skip_end_offset', ['payload_size'], 'N'))
    D.append('(* if %s { return Err(..) } *)' % m[1].group(1))
    env3 = {'raw_len': 'raw_len', 'bytes_read': 'bytes_read', 'end_offset': 'end_offset'}
    D.append(expr_to_gallina(m[1].group(1), [S_BR], env3, w2, 'skip_refused', ['raw_len', 'bytes_read', 'end_offset'], 'bool'))
    D.append('(* let skip = %s *)' % m[2].group(1))
    D.append(expr_to_gallina(m[2].group(1), [S_BR], env3, w2, 'skip_amount', ['raw_len', 'bytes_read', 'end_offset'], 'N'))

    # ---- the event loop
    w2 = where + ' (event loop)'
    sv = StmtView(sts[5], w2)
    j = sv.first_top(1, len(sts[5]), '{')
    if j < 0 or match_close(sts[5], j) != len(sts[5]) - 1:
        raise TranslateError('%s: unrecognised `while`' % w2)
    cond = sj(sts[5][1:j])
    lb = [sj(x) for x in fw_stmts(sts[5][j + 1:-1], w2)]
    mm = re.fullmatch(r'if parse_event \( r \. by_ref \( \) , & mut state , opts \) \? == Event :: (\w+) as u8 \{ break ; \}', lb[0]) if len(lb) == 1 else None
    if not mm:
        raise TranslateError('%s: the body is not `if parse_event(r.by_ref(), &mut state, opts)? == Event::X as u8 { break; }`: %s' % (w2, ' ; '.join(lb)[:200]))
    D.append('(* while %s { if parse_event(..)? == Event::%s as u8 { break; } } *)' % (cond, mm.group(1)))
    D.append(expr_to_gallina(cond, [S_BR], {'raw_len': 'raw_len', 'bytes_read': 'bytes_read'}, w2, 'loop_continues', ['raw_len', 'bytes_read'], 'bool'))
    D.append('Definition loop_break_event : N := Event_%s.' % mm.group(1))

    # ---- the final frame_close
    mm = re.fullmatch(r'if state \. game \. start \. slippi \. version \. lt \( (\d+) , (\d+) \) \{ state \. frame_close \( \) ; \}', txt[6])
    D.append('(* if state.game.start.slippi.version.lt(M, m) { state.frame_close(); } *)')
    D.append('Definition final_close_lt : N * N := (%d, %d).' % (int(mm.group(1)), int(mm.group(2))))

    # ---- the duplicate Game End
    w2 = where + ' (duplicate Game End)'
    sv = StmtView(sts[7], w2)
    j = sv.first_top(1, len(sts[7]), '{')
    c = match_close(sts[7], j)
    cond = sj(sts[7][1:j])
    rest = sj(sts[7][c + 1:])
    if not re.fullmatch(r'else if raw_len > 0 && state \. bytes_read > raw_len \{ %s(?: ;)? \}' % LOG_MACRO, rest):
        raise TranslateError('%s: the else branch is not `else if raw_len > 0 && state.bytes_read > raw_len { warn!(..) }`: %s' % (w2, rest[:200]))
    inner = not_logs([sj(x) for x in fw_stmts(sts[7][j + 1:c], w2)])
    m = strict_match(inner, [
        ('`let len = ..`', r'let len = (.*)'),
        ('`let mut buf = vec![0; len]`', r'let mut buf = vec ! \[ 0 ; len \]'),
        ('`r.read_exact(&mut buf)?`', r'r \. read_exact \( & mut buf \) \?'),
        ('`if .. { state.game.quirks.get_or_insert(Quirks::default()).double_game_end = true; } else { warn!(..) }`',
         r'if (.*) \{ (?:%s ; )?state \. game \. quirks \. get_or_insert \( Quirks :: default \( \) \) \. double_game_end = true ; \} else \{ %s(?: ;)? \}'
         % (LOG_MACRO, LOG_MACRO)),
    ], w2)
    env2 = {'raw_len': 'raw_len', 'bytes_read': 'bytes_read'}
    D.append('(* if %s { let len = %s; .. read len bytes into buf .. *)' % (cond, m[0].group(1)))
    D.append(expr_to_gallina(cond, [S_BR], env2, w2, 'dup_present', ['raw_len', 'bytes_read'], 'bool'))
    D.append(expr_to_gallina(m[0].group(1), [S_BR], env2, w2, 'dup_len', ['raw_len', 'bytes_read'], 'N'))
    dc = m[3].group(1)
    D.append('(*   if %s { quirks.double_game_end = true } *)' % dc)
    mm = re.search(r'Event :: (\w+) as u8', dc)
    if not mm:
        raise TranslateError('%s: the test does not compare with an Event code: %s' % (w2, dc[:200]))
    D.append(expr_to_gallina(dc, [('game :: End :: size ( state . game . start . slippi . version )', 'end_size'), ('buf [ 0 ]', 'buf0'),
                                  (mm.group(0), 'event_code_')],
                             {'len': 'len', 'end_size': 'end_size', 'buf0': 'buf0', 'event_code_': 'Event_%s' % mm.group(1)}, w2,
                             'dup_is_game_end', ['len', 'end_size', 'buf0'], 'bool'))

    # ---- the metadata dispatch
    w2 = where + ' (metadata dispatch)'
    sv = StmtView(sts[8], w2)
    j = sv.first_top(1, len(sts[8]), '{')
    arms = sj(sts[8][j + 1:-1])
    BYTE = r'(0x[0-9a-fA-F]{1,2}|\d+)'
    mm = re.fullmatch(r'%s => \{ parse_metadata \( r \. by_ref \( \) , & mut state , opts \) \? ; expect_bytes \( & mut r , & \[ ([^\]]*) \] \) \? ; \} ,? ?'
                      r'%s => \{ \} ,? ?(\w+) => return Err \( err ! \( .* \) \) ,?' % (BYTE, BYTE), arms)
    if not mm:
        raise TranslateError('%s: the arms are not `B1 => { parse_metadata(r.by_ref(), &mut state, opts)?; expect_bytes(&mut r, &[..])?; } '
                             'B2 => {} x => return Err(..)`: %s' % (w2, arms[:300]))
    close = [num(x) for x in mm.group(2).replace(' ', '').split(',') if x]
    D.append('(* match r.read_u8()? { B1 => { parse_metadata(..)?; expect_bytes(&mut r, &[close..])?; } B2 => {} x => return Err(..) } *)')
    D.append('Definition meta_present_byte : N := %d.' % num(mm.group(1)))
    D.append('Definition meta_close_bytes : list N := [%s].' % '; '.join(map(str, close)))
    D.append('Definition meta_absent_byte : N := %d.' % num(mm.group(3)))

    # ---- parse_metadata
    w2 = '%s fn parse_metadata' % DE_RS
    params, ret, body = find_fn(DE_RS, None, 'parse_metadata')
    inner = not_logs([sj(x) for x in fw_stmts(body, w2)])
    m = strict_match(inner, [
        ('`expect_bytes(&mut r, &[..])?`', r'expect_bytes \( & mut r , & \[ ([^\]]*) \] \) \?'),
        ('`let metadata = ubjson::read_map(&mut r)?`', r'let metadata = ubjson :: read_map \( & mut r \) \?'),
        ('`state.game.metadata = Some(metadata)`', r'state \. game \. metadata = Some \( metadata \)'),
        ('`Ok(())`', r'Ok \( \( \) \)'),
    ], w2)
    key = [num(x) for x in m[0].group(1).replace(' ', '').split(',') if x]
    D.append('(* parse_metadata: expect_bytes(&mut r, &[..])?; ubjson::read_map(&mut r)? *)')
    D.append('Definition meta_key_bytes : list N := [%s].' % '; '.join(map(str, key)))

    L = []
    L.append('(* GENERATED by tools/rust2coq.py from %s (fn read, fn parse_metadata) -- do not edit.' % DE_RS)
    L.append('   The expressions are translated by the expression front end (every integer an N, comparisons boolean). *)')
    L.append('From Coq Require Import NArith Bool List.')
    L.append('From Peppi Require Import Gen.Funs.')
    L.append('Import ListNotations.')
    L.append('Local Open Scope N_scope.')
    L.append('')
    L.extend(D)
    return '\n'.join(L) + '\n'


# ------------------------------------------------------------------------------------------------
# (h) UBJSON marker front end: src/io/ubjson/de.rs (to_utf8, to_val, to_key, read_map, read_map_at) and
#     src/io/ubjson/ser.rs (write_utf8, write_map)

UBJ_DE = 'src/io/ubjson/de.rs'
UBJ_SER = 'src/io/ubjson/ser.rs'
UBJ_TO_UTF8 = ('let length = r . read_u8 ( ) ? ; let mut buf = vec ! [ 0 ; length as usize ] ; r . read_exact ( & mut buf ) ? ; '
               'Ok ( String :: from_utf8 ( buf ) ? )')
UBJ_READ_MAP_AT = ('if depth > MAX_DEPTH { return Err ( err ! ( "UBJSON maps nested too deeply (max {})" , MAX_DEPTH ) ) ; } '
                   'let mut m = Map :: new ( ) ; '
                   'while match to_key ( r ) ? { Some ( k ) => { m . insert ( k , to_val ( r , depth ) ? ) ; true } None => false } { } Ok ( m )')


def match_arms(toks, where):
    """arms of a match body -> list of (pattern text, body text); a block body loses its braces"""
    sv = StmtView(toks, where)
    out = []
    i = 0
    while i < len(toks):
        p = sv.first_top(i, len(toks), '=>')
        if p < 0:
            raise TranslateError('%s: unrecognised match arm: %s' % (where, sj(toks[i:])[:200]))
        if sv.is_p(p + 1, '{'):
            e = match_close(toks, p + 1) + 1
            body = toks[p + 2:e - 1]
        else:
            e = sv.first_top(p + 1, len(toks), ',')
            e = len(toks) if e < 0 else e
            body = toks[p + 1:e]
        out.append((sj(toks[i:p]), sj(body)))
        i = e + 1 if sv.is_p(e, ',') else e
    return out


def byte_lit(s, where):
    if not re.fullmatch(r'0x[0-9a-fA-F]{1,2}|\d{1,3}', s) or num(s) > 255:
        raise TranslateError('%s: match pattern is not a byte literal: %s' % (where, s[:100]))
    return num(s)


def match_on_read_u8(body, where):
    """`match r.read_u8()? { arms }` as the whole body -> arms"""
    v = tv(body)
    if v[:8] != ['match', 'r', '.', 'read_u8', '(', ')', '?', '{'] or match_close(body, 7) != len(body) - 1:
        raise TranslateError('%s: the body is not `match r.read_u8()? { .. }`: %s' % (where, sj(body)[:200]))
    return match_arms(body[8:-1], where)


def fmt_char(lit, where):
    """the single byte a `write!(w, "<lit>")` emits"""
    s = lit[1:-1]
    if s == '{{':
        return ord('{')
    if s == '}}':
        return ord('}')
    if len(s) == 1 and s not in '{}\\' and ord(s) < 128:
        return ord(s)
    raise TranslateError('%s: write!(w, %s) is not a one-byte marker' % (where, lit))


def gen_ubjson_markers():
    ERR = r'Err \( err ! \( .* \) \)'
    # ---- reader
    det = file_toks(UBJ_DE)
    if find_seq(det, ['use', 'byteorder', '::', '{', 'BigEndian', ',', 'ReadBytesExt', '}', ';']) < 0:
        raise TranslateError('%s: `use byteorder::{BigEndian, ReadBytesExt};` not found' % UBJ_DE)
    p_, r_, b_ = find_fn(UBJ_DE, None, 'to_utf8')
    if sj(b_) != UBJ_TO_UTF8:
        raise TranslateError('%s fn to_utf8: not `u8 length, bytes, String::from_utf8`: %s' % (UBJ_DE, sj(b_)[:300]))
    p_, r_, b_ = find_fn(UBJ_DE, None, 'read_map')
    if sj(b_) != 'read_map_at ( r , 1 )':
        raise TranslateError('%s fn read_map: not `read_map_at(r, 1)`: %s' % (UBJ_DE, sj(b_)[:200]))
    p_, r_, b_ = find_fn(UBJ_DE, None, 'read_map_at')
    if sj(b_) != UBJ_READ_MAP_AT:
        raise TranslateError('%s fn read_map_at: not the expected depth check and key/value loop: %s' % (UBJ_DE, sj(b_)[:400]))
    where = '%s fn to_val' % UBJ_DE
    p_, r_, b_ = find_fn(UBJ_DE, None, 'to_val')
    arms = match_on_read_u8(b_, where)
    if not arms or not re.fullmatch(r'\w+', arms[-1][0]) or not re.fullmatch(ERR, arms[-1][1]):
        raise TranslateError('%s: the last arm is not `c => Err(err!(..))`' % where)
    val_arms = []
    str_len = None
    int_width = None
    for pat, body in arms[:-1]:
        code = byte_lit(pat, where)
        m = re.fullmatch(r'match r \. read_u8 \( \) \? \{ (\S+) => Ok \( Value :: String \( to_utf8 \( r \) \? \) \) , \w+ => %s \}' % ERR, body)
        if m:
            str_len = byte_lit(m.group(1), where)
            val_arms.append((code, 'str'))
            continue
        m = re.fullmatch(r'Ok \( Value :: Number \( serde_json :: Number :: from \( r \. read_(i32) :: < BigEndian > \( \) \? \) \) \)', body)
        if m:
            int_width = 4
            val_arms.append((code, 'i32'))
            continue
        if body == 'Ok ( Value :: Object ( read_map_at ( r , depth + 1 ) ? ) )':
            val_arms.append((code, 'map'))
            continue
        raise TranslateError('%s: unrecognised arm %s => %s' % (where, pat, body[:200]))
    if sorted(k for _, k in val_arms) != ['i32', 'map', 'str'] or len(set(c for c, _ in val_arms)) != 3:
        raise TranslateError('%s: expected exactly one arm each for str, i32, map with distinct bytes, found %s' % (where, val_arms))
    where = '%s fn to_key' % UBJ_DE
    p_, r_, b_ = find_fn(UBJ_DE, None, 'to_key')
    arms = match_on_read_u8(b_, where)
    if not arms or not re.fullmatch(r'\w+', arms[-1][0]) or not re.fullmatch(ERR, arms[-1][1]):
        raise TranslateError('%s: the last arm is not `c => Err(err!(..))`' % where)
    key_arms = []
    for pat, body in arms[:-1]:
        code = byte_lit(pat, where)
        if body == 'Ok ( Some ( to_utf8 ( r ) ? ) )':
            key_arms.append((code, 'key'))
        elif body == 'Ok ( None )':
            key_arms.append((code, 'end'))
        else:
            raise TranslateError('%s: unrecognised arm %s => %s' % (where, pat, body[:200]))
    if sorted(k for _, k in key_arms) != ['end', 'key'] or len(set(c for c, _ in key_arms)) != 2:
        raise TranslateError('%s: expected exactly one arm each for key, end with distinct bytes, found %s' % (where, key_arms))

    # ---- writer
    sert = file_toks(UBJ_SER)
    if find_seq(sert, ['use', 'byteorder', '::', '{', 'BigEndian', ',', 'WriteBytesExt', '}', ';']) < 0:
        raise TranslateError('%s: `use byteorder::{BigEndian, WriteBytesExt};` not found' % UBJ_SER)
    where = '%s fn write_utf8' % UBJ_SER
    p_, r_, b_ = find_fn(UBJ_SER, None, 'write_utf8')
    m = strict_match([sj(x) for x in fw_stmts(b_, where)], [
        ('`write!(w, "<marker>")?`', r'write ! \( w , ("[^"]*") \) \?'),
        ('`w.write_u8(s.len().try_into().unwrap())?`', r'w \. write_u8 \( s \. len \( \) \. try_into \( \) \. unwrap \( \) \) \?'),
        ('`write!(w, "{}", s)?`', r'write ! \( w , "\{\}" , s \) \?'),
        ('`Ok(())`', r'Ok \( \( \) \)'),
    ], where)
    wr_utf8 = fmt_char(m[0].group(1), where)
    where = '%s fn write_map' % UBJ_SER
    p_, r_, b_ = find_fn(UBJ_SER, None, 'write_map')
    sts = fw_stmts(b_, where)
    loop = fw_for_block(sts[0], where) if sts else None
    if len(sts) != 2 or loop is None or loop[0] != '( k , v ) in map' or sj(sts[1]) != 'Ok ( ( ) )':
        raise TranslateError('%s: not `for (k, v) in map { .. } Ok(())`' % where)
    inner = fw_stmts(loop[1], where)
    if len(inner) != 2 or sj(inner[0]) != 'write_utf8 ( w , k ) ?' or tv(inner[1][:3]) != ['match', 'v', '{'] or match_close(inner[1], 2) != len(inner[1]) - 1:
        raise TranslateError('%s: the loop body is not `write_utf8(w, k)?; match v { .. }`' % where)
    arms = match_arms(inner[1][3:-1], where)
    if not arms or arms[-1] != ('_', 'unimplemented ! ( )'):
        raise TranslateError('%s: the last arm is not `_ => unimplemented!()`' % where)
    W = r'write ! \( w , ("[^"]*") \) \? ;'
    wr_arms = []
    for pat, body in arms[:-1]:
        if pat == 'Value :: String ( s )':
            m = re.fullmatch(W + r' write_utf8 \( w , s \) \? ;', body)
            if m:
                wr_arms.append(('String', [fmt_char(m.group(1), where)], []))
                continue
        if pat == 'Value :: Number ( n )':
            m = re.fullmatch(W + r' w \. write_i32 :: < BigEndian > \( n \. as_i64 \( \) \. unwrap \( \) \. try_into \( \) \. unwrap \( \) \) \? ;', body)
            if m:
                wr_arms.append(('Number', [fmt_char(m.group(1), where)], []))
                continue
        if pat == 'Value :: Object ( o )':
            m = re.fullmatch(W + r' write_map \( w , o \) \? ; ' + W, body)
            if m:
                wr_arms.append(('Object', [fmt_char(m.group(1), where)], [fmt_char(m.group(2), where)]))
                continue
        raise TranslateError('%s: unrecognised arm %s => { %s }' % (where, pat, body[:300]))
    if sorted(a[0] for a in wr_arms) != ['Number', 'Object', 'String']:
        raise TranslateError('%s: expected exactly the arms String, Number, Object, found %s' % (where, [a[0] for a in wr_arms]))

    L = []
    L.append('(* GENERATED by tools/rust2coq.py from %s (to_utf8, to_val, to_key, read_map, read_map_at) and' % UBJ_DE)
    L.append('   %s (write_utf8, write_map) -- do not edit. *)' % UBJ_SER)
    L.append('From Coq Require Import NArith List String.')
    L.append('Import ListNotations.')
    L.append('Local Open Scope string_scope.')
    L.append('')
    L.append('(* to_val: `match r.read_u8()? { B => .. }`: (byte, what follows): "str" = a second byte (below) then to_utf8;')
    L.append('   "i32" = r.read_i32::<BigEndian>(); "map" = read_map_at(r, depth + 1); any other byte is an error *)')
    L.append('Definition ubj_val_arms : list (N * string) := [%s].' % '; '.join('(%d%%N, %s)' % (c, coq_str(k)) for c, k in val_arms))
    L.append('Definition ubj_str_len_marker : N := %d%%N.   (* inside the str arm: `match r.read_u8()? { B => to_utf8 .. }` *)' % str_len)
    L.append('Definition ubj_int_width : nat := %d.          (* read_i32 / write_i32, big-endian *)' % int_width)
    L.append('(* to_key: "key" = to_utf8 follows; "end" = the map is closed; any other byte is an error *)')
    L.append('Definition ubj_key_arms : list (N * string) := [%s].' % '; '.join('(%d%%N, %s)' % (c, coq_str(k)) for c, k in key_arms))
    L.append('(* write_utf8: write!(w, "<marker>"), the length as u8 (try_into().unwrap()), the bytes *)')
    L.append('Definition ubj_wr_utf8_marker : N := %d%%N.' % wr_utf8)
    L.append('(* write_map, after write_utf8(w, k): per serde_json::Value variant the bytes written before and after the payload')
    L.append('   (String: write_utf8(w, s); Number: write_i32::<BigEndian>; Object: write_map(w, o)) *)')
    L.append('Definition ubj_wr_val_arms : list (string * list N * list N) := [%s].' % '; '.join(
        '(%s, [%s], [%s])' % (coq_str(v), '; '.join('%d%%N' % x for x in a), '; '.join('%d%%N' % x for x in b)) for v, a, b in wr_arms))
    return '\n'.join(L) + '\n'


# ------------------------------------------------------------------------------------------------
# (i) writer front end, second part (src/io/slippi/ser.rs): PayloadSizes::raw_size, frame_counts, gecko_codes_size
#     -> Gen/WriterRaw.v; the top-level sequence of write() -> Gen/WriterSteps.v

def gen_writer_raw():
    stoks = file_toks(SLP_SER)
    events = dict(enum_codes(DE_RS, 'Event'))
    # ---- raw_size
    where = '%s PayloadSizes::raw_size' % SLP_SER
    params, ret, body = find_fn(SLP_SER, 'PayloadSizes', 'raw_size')
    if sjp(params) != '& self , game : & Game' or sj(ret) != '-> u32':
        raise TranslateError('%s: unexpected signature' % where)
    counts_decl = parse_struct_decl(stoks, 'FrameCounts', SLP_SER)
    if counts_decl != [('frames', 'u32'), ('frame_data', 'u32'), ('items', 'u32')]:
        raise TranslateError('%s: struct FrameCounts is not { frames: u32, frame_data: u32, items: u32 }: %s' % (SLP_SER, counts_decl))
    sts = fw_stmts(body, where)
    txt = [sj(x) for x in sts]
    strict_match(txt[:3], [
        ('`use Event::*`', r'use Event :: \*'),
        ('`let counts = frame_counts(&game.frames)`', r'let counts = frame_counts \( & game \. frames \)'),
        ('`let sizes: HashMap<u8, u16> = self.sizes.iter().map(|(k, v)| (*k, *v)).collect()`',
         r'let sizes : std :: collections :: HashMap < u8 , u16 > = self \. sizes \. iter \( \) \. map \( \| \( k , v \) \| \( \* k , \* v \) \) \. collect \( \)'),
    ], where)
    if len(sts) != 4:
        raise TranslateError('%s: expected `use`, two `let`s and the sum, found %d statements' % (where, len(sts)))
    sv = StmtView(sts[3], where)
    segs, trailing = sv.split_top(0, len(sts[3]), '+')
    if trailing or not segs:
        raise TranslateError('%s: malformed sum' % where)
    E = r'(\w+)'
    K = r'(\d+)'
    IDX = r'sizes \[ & \( %s as u8 \) \] as u32' % E
    terms = []

    def ev_ok(e):
        if e not in events:
            raise TranslateError('%s: %s is not a variant of de::Event' % (where, e))
        return coq_str(e)

    def cnt_ok(c):
        if c not in dict(counts_decl):
            raise TranslateError('%s: counts.%s is not a field of FrameCounts' % (where, c))
        return coq_str(c)

    for (a, b) in segs:
        s = sj(sts[3][a:b])
        m = re.fullmatch(r'(\d+)(?:u32)?', s)
        if m:
            terms.append('RtConst %d' % int(m.group(1)))
            continue
        m = re.fullmatch(r'\( %s \* self \. sizes \. len \( \) as u32 \)' % K, s)
        if m:
            terms.append('RtTableLen %s' % m.group(1))
            continue
        m = re.fullmatch(IDX, s)
        if m:
            terms.append('RtSize %s' % ev_ok(m.group(1)))
            continue
        m = re.fullmatch(r'game \. end \. as_ref \( \) \. map_or \( 0 , \| _ \| %s \+ %s \)' % (K, IDX), s)
        if m:
            terms.append('RtIfEnd %s %s' % (m.group(1), ev_ok(m.group(2))))
            continue
        m = re.fullmatch(r'match game \. end \. is_some \( \) && game \. quirks \. map_or \( false , \| q \| q \. double_game_end \) '
                         r'\{ true => %s \+ %s , _ => 0u32 \}' % (K, IDX), s)
        if m:
            terms.append('RtIfEndDouble %s %s' % (m.group(1), ev_ok(m.group(2))))
            continue
        m = re.fullmatch(r'counts \. (\w+) \* \( %s \+ %s \)' % (K, IDX), s)
        if m:
            terms.append('RtCountReq %s %s %s' % (cnt_ok(m.group(1)), m.group(2), ev_ok(m.group(3))))
            continue
        m = re.fullmatch(r'sizes \. get \( & \( %s as u8 \) \) \. map_or \( 0 , \| s \| counts \. (\w+) \* \( %s \+ \* s as u32 \) \)' % (E, K), s)
        if m:
            terms.append('RtCountOpt %s %s %s' % (cnt_ok(m.group(2)), m.group(3), ev_ok(m.group(1))))
            continue
        if s == 'game . gecko_codes . as_ref ( ) . map_or ( 0 , gecko_codes_size )':
            terms.append('RtGecko')
            continue
        raise TranslateError('%s: unrecognised term of the sum: %s' % (where, s[:300]))

    # ---- frame_counts
    where = '%s fn frame_counts' % SLP_SER
    params, ret, body = find_fn(SLP_SER, None, 'frame_counts')
    if sjp(params) != 'frames : & Frame' or sj(ret) != '-> FrameCounts':
        raise TranslateError('%s: unexpected signature' % where)
    lp, lr, lb = find_fn(FW_DECL, 'Frame', 'len')
    if sj(lb) != 'self . id . len ( )':
        raise TranslateError('%s Frame::len: not `self.id.len()`' % FW_DECL)
    sts = fw_stmts(body, where)
    if len(sts) != 2 or sj(sts[0]) != 'let len = frames . len ( )':
        raise TranslateError('%s: not `let len = frames.len(); FrameCounts { .. }`' % where)
    UNSET = r'\. validity \. as_ref \( \) \. map_or \( 0 , \| v \| v \. unset_bits \( \) \)'
    LEN = lambda who: r'(len(?: - %s %s)?)' % (who, UNSET)
    fields = []
    for name, e in parse_self_literal(sts[1], where, r'FrameCounts'):
        if e == 'len . try_into ( ) . unwrap ( )':
            fields.append((name, 'FcFramesLen'))
            continue
        m = re.fullmatch(r'frames \. ports \. iter \( \) \. map \( \| p \| \{ %s \+ p \. follower \. as_ref \( \) \. map_or \( 0 , \| f \| \{ %s \} \) \} \) '
                         r'\. sum :: < usize > \( \) \. try_into \( \) \. unwrap \( \)' % (LEN(r'p \. leader'), LEN('f')), e)
        if m:
            k = lambda g: 'FcLen' if g == 'len' else 'FcLenMinusUnset'
            fields.append((name, 'FcPortsSum %s %s' % (k(m.group(1)), k(m.group(2)))))
            continue
        if e == 'frames . item . as_ref ( ) . map_or ( 0 , | i | i . id . len ( ) as u32 )':
            fields.append((name, 'FcItemIds'))
            continue
        raise TranslateError('%s: unrecognised initialiser of %s: %s' % (where, name, e[:300]))
    if [n for n, _ in fields] != [n for n, _ in counts_decl]:
        raise TranslateError('%s: the literal does not initialise frames, frame_data, items in this order: %s' % (where, [n for n, _ in fields]))

    # ---- gecko_codes_size
    where = '%s fn gecko_codes_size' % SLP_SER
    params, ret, body = find_fn(SLP_SER, None, 'gecko_codes_size')
    if sjp(params) != 'gecko_codes : & GeckoCodes' or sj(ret) != '-> u32':
        raise TranslateError('%s: unexpected signature' % where)
    m = strict_match([sj(x) for x in fw_stmts(body, where)], [
        ('`assert_eq!(gecko_codes.bytes.len() % N, 0)`', r'assert_eq ! \( gecko_codes \. bytes \. len \( \) % (\d+) , 0 \)'),
        ('`let num_blocks = u32::try_from(gecko_codes.bytes.len()).unwrap() / N`',
         r'let num_blocks = u32 :: try_from \( gecko_codes \. bytes \. len \( \) \) \. unwrap \( \) / (\d+)'),
        ('the result expression', r'(.*)'),
    ], where)

    L = []
    L.append('(* GENERATED by tools/rust2coq.py from %s (PayloadSizes::raw_size, fn frame_counts, fn gecko_codes_size) -- do not edit. *)' % SLP_SER)
    L.append('From Coq Require Import NArith List String.')
    L.append('From Peppi Require Import Gen.Funs.')
    L.append('Import ListNotations.')
    L.append('Local Open Scope string_scope.')
    L.append('')
    L.append('(* the summands of raw_size, in source order (the sum associates to the left):')
    L.append('   RtConst n            n')
    L.append('   RtTableLen k         (k * self.sizes.len() as u32)')
    L.append('   RtSize E             sizes[&(E as u8)] as u32                                   -- panics when E is not in the table')
    L.append('   RtIfEnd k E          game.end.as_ref().map_or(0, |_| k + sizes[&(E as u8)] as u32)')
    L.append('   RtIfEndDouble k E    match game.end.is_some() && game.quirks.map_or(false, |q| q.double_game_end)')
    L.append('                          { true => k + sizes[&(E as u8)] as u32, _ => 0u32 }')
    L.append('   RtCountReq C k E     counts.C * (k + sizes[&(E as u8)] as u32)')
    L.append('   RtCountOpt C k E     sizes.get(&(E as u8)).map_or(0, |s| counts.C * (k + *s as u32))')
    L.append('   RtGecko              game.gecko_codes.as_ref().map_or(0, gecko_codes_size) *)')
    L.append('Inductive rterm :=')
    L.append('| RtConst (n : N) | RtTableLen (k : N) | RtSize (event : string) | RtIfEnd (k : N) (event : string)')
    L.append('| RtIfEndDouble (k : N) (event : string) | RtCountReq (count : string) (k : N) (event : string)')
    L.append('| RtCountOpt (count : string) (k : N) (event : string) | RtGecko.')
    L.append('Definition raw_size_terms : list rterm :=\n  [%s]%%N.' % ';\n   '.join(terms))
    L.append('')
    L.append('(* frame_counts: `let len = frames.len();` (= self.id.len()) and the initialisers of FrameCounts { frames, frame_data, items }:')
    L.append('   FcFramesLen        len.try_into().unwrap()')
    L.append('   FcPortsSum l f     frames.ports.iter().map(|p| { <l for p.leader> + p.follower.as_ref().map_or(0, |f| { <f for f> }) }).sum()..')
    L.append('                      with FcLen = `len`, FcLenMinusUnset = `len - <x>.validity.as_ref().map_or(0, |v| v.unset_bits())`')
    L.append('   FcItemIds          frames.item.as_ref().map_or(0, |i| i.id.len() as u32) *)')
    L.append('Inductive fc_len := FcLen | FcLenMinusUnset.')
    L.append('Inductive fc_field := FcFramesLen | FcPortsSum (leader follower : fc_len) | FcItemIds.')
    L.append('Definition frame_counts_fields : list (string * fc_field) :=\n  [%s].' % '; '.join('(%s, %s)' % (coq_str(n), f) for n, f in fields))
    L.append('')
    L.append('(* gecko_codes_size: assert_eq!(bytes.len() %% N, 0); num_blocks = bytes.len() / N; the result *)')
    L.append('Definition gecko_size_mod : nat := %d.' % int(m[0].group(1)))
    L.append('Definition gecko_size_div : N := %d%%N.' % int(m[1].group(1)))
    L.append(expr_to_gallina(m[2].group(1), [], {'num_blocks': 'num_blocks'}, where, 'gecko_size_total', ['num_blocks'], 'N'))
    L.append('(* de::Event: variant name -> code (the Event_* constants of Gen/Funs.v) *)')
    L.append('Definition raw_event_codes : list (string * N) :=\n  [%s].' % '; '.join('(%s, Event_%s)' % (coq_str(n), n) for n in events))
    return '\n'.join(L) + '\n'


def byte_list(text, where):
    out = []
    for x in text.replace(' ', '').split(','):
        if x:
            if not re.fullmatch(r'0x[0-9a-fA-F]{1,2}|\d{1,3}', x) or num(x) > 255:
                raise TranslateError('%s: not a byte literal: %s' % (where, x))
            out.append(num(x))
    return out


def gen_writer_steps():
    events = dict(enum_codes(DE_RS, 'Event'))
    stoks = file_toks(SLP_SER)
    if find_seq(stoks, ['type', 'BE', '=', 'byteorder', '::', 'BigEndian', ';']) < 0:
        raise TranslateError('%s: `type BE = byteorder::BigEndian;` not found' % SLP_SER)
    # helpers game_start / game_end: event code, then the retained bytes
    helpers = {}
    for fn, pat in (('game_start', r'assert_eq ! \( ver , s \. slippi \. version \) ; w \. write_u8 \( Event :: (\w+) as u8 \) \? ; Ok \( w \. write_all \( & s \. bytes \. 0 \) \? \)'),
                    ('game_end', r'w \. write_u8 \( Event :: (\w+) as u8 \) \? ; Ok \( w \. write_all \( & e \. bytes \. 0 \) \? \)')):
        p_, r_, b_ = find_fn(SLP_SER, None, fn)
        m = re.fullmatch(pat, sj(b_))
        if not m or m.group(1) not in events:
            raise TranslateError('%s fn %s: not `w.write_u8(Event::X as u8)?; Ok(w.write_all(&<x>.bytes.0)?)`: %s' % (SLP_SER, fn, sj(b_)[:300]))
        helpers[fn] = m.group(1)
    where = '%s fn write' % SLP_SER
    params, ret, body = find_fn(SLP_SER, None, 'write')
    if sjp(params) != 'w : & mut W , game : & Game':
        raise TranslateError('%s: unexpected parameters: %s' % (where, sjp(params)))
    for tok in body:
        if tok == ('id', 'return'):
            raise TranslateError('%s: `return`: the steps after it would be conditional' % where)
    steps = []
    sts = fw_stmts(body, where)
    seen = {'sizes': False, 'ver': False}
    GE = r'game_end \( w , end , ver \) \? ;'
    for k, st in enumerate(sts):
        s = sj(st)
        if k == len(sts) - 1:
            if s != 'Ok ( ( ) )':
                raise TranslateError('%s: the last statement is not `Ok(())`: %s' % (where, s[:200]))
            break
        if s == 'slippi :: assert_max_version ( game . start . slippi . version ) ?':
            steps.append('WsAssertMaxVersion')
        elif s == 'let payload_sizes = payload_sizes ( game )' and not seen['sizes']:
            seen['sizes'] = True
            steps.append('WsPayloadSizes')
        elif s == 'w . write_all ( & slippi :: FILE_SIGNATURE ) ?':
            steps.append('WsSignature')
        elif s == 'w . write_u32 :: < BE > ( payload_sizes . raw_size ( game ) ) ?' and seen['sizes']:
            steps.append('WsRawSizeU32')
        elif re.fullmatch(r'w \. write_u8 \( Event :: (\w+) as u8 \) \?', s):
            e = re.fullmatch(r'w \. write_u8 \( Event :: (\w+) as u8 \) \?', s).group(1)
            if e not in events:
                raise TranslateError('%s: Event::%s is not a variant of de::Event' % (where, e))
            steps.append('WsCode %s' % coq_str(e))
        elif re.fullmatch(r'w \. write_u8 \( \( payload_sizes \. sizes \. len \( \) \* (\d+) \+ (\d+) \) \. try_into \( \) \. unwrap \( \) \) \?', s) and seen['sizes']:
            m = re.fullmatch(r'w \. write_u8 \( \( payload_sizes \. sizes \. len \( \) \* (\d+) \+ (\d+) \) \. try_into \( \) \. unwrap \( \) \) \?', s)
            steps.append('WsTableLenU8 %s %s' % (m.group(1), m.group(2)))
        elif s == 'for ( event , size ) in payload_sizes . sizes { w . write_u8 ( event ) ? ; w . write_u16 :: < BE > ( size ) ? ; }' and seen['sizes']:
            steps.append('WsTable true')
        elif s == 'for ( event , size ) in payload_sizes . sizes { w . write_u16 :: < BE > ( size ) ? ; w . write_u8 ( event ) ? ; }' and seen['sizes']:
            steps.append('WsTable false')
        elif s == 'let ver = game . start . slippi . version' and not seen['ver']:
            seen['ver'] = True
        elif s == 'game_start ( w , & game . start , ver ) ?' and seen['ver']:
            steps.append('WsGameStart')
        elif s == 'if let Some ( codes ) = & game . gecko_codes { gecko_codes ( w , codes ) ? ; }':
            steps.append('WsGecko')
        elif s == 'game . frames . write ( w , ver ) ?' and seen['ver']:
            steps.append('WsFrames')
        elif re.fullmatch(r'if let Some \( end \) = & game \. end \{ %s(?: if game \. quirks \. map_or \( false , \| q \| q \. double_game_end \) \{ %s \})? \}' % (GE, GE), s) and seen['ver']:
            steps.append('WsGameEnd')
            if 'double_game_end' in s:
                steps.append('WsGameEndIfDouble')
        elif re.fullmatch(r'if let Some \( metadata \) = & game \. metadata \{ w \. write_all \( & \[ ([^\]]*) \] \) \? ; ubjson :: write_map \( w , metadata \) \? ; '
                          r'w \. write_all \( & \[ ([^\]]*) \] \) \? ; \}', s):
            m = re.fullmatch(r'if let Some \( metadata \) = & game \. metadata \{ w \. write_all \( & \[ ([^\]]*) \] \) \? ; ubjson :: write_map \( w , metadata \) \? ; '
                             r'w \. write_all \( & \[ ([^\]]*) \] \) \? ; \}', s)
            steps.append('WsMetadata [%s] [%s]' % ('; '.join(map(str, byte_list(m.group(1), where))), '; '.join(map(str, byte_list(m.group(2), where)))))
        elif re.fullmatch(r'w \. write_all \( & \[ ([^\]]*) \] \) \?', s):
            m = re.fullmatch(r'w \. write_all \( & \[ ([^\]]*) \] \) \?', s)
            steps.append('WsBytes [%s]' % '; '.join(map(str, byte_list(m.group(1), where))))
        else:
            raise TranslateError('%s: unrecognised statement: %s' % (where, s[:300]))
    for need in ('WsAssertMaxVersion', 'WsPayloadSizes'):
        if steps.count(need) != 1:
            raise TranslateError('%s: expected exactly one %s step' % (where, need))
    L = []
    L.append('(* GENERATED by tools/rust2coq.py from %s (fn write, fn game_start, fn game_end) -- do not edit. *)' % SLP_SER)
    L.append('From Coq Require Import NArith List String.')
    L.append('From Peppi Require Import Gen.Funs.')
    L.append('Import ListNotations.')
    L.append('Local Open Scope string_scope.')
    L.append('')
    L.append('(* the statements of write(w, game), in source order:')
    L.append('   WsAssertMaxVersion      slippi::assert_max_version(game.start.slippi.version)?')
    L.append('   WsPayloadSizes          let payload_sizes = payload_sizes(game)')
    L.append('   WsSignature             w.write_all(&slippi::FILE_SIGNATURE)?')
    L.append('   WsRawSizeU32            w.write_u32::<BE>(payload_sizes.raw_size(game))?')
    L.append('   WsCode E                w.write_u8(Event::E as u8)?')
    L.append('   WsTableLenU8 k c        w.write_u8((payload_sizes.sizes.len() * k + c).try_into().unwrap())?')
    L.append('   WsTable ev_first        for (event, size) in payload_sizes.sizes { w.write_u8(event)?; w.write_u16::<BE>(size)?; }  (true: in this order)')
    L.append('   WsGameStart             game_start(w, &game.start, ver)?          (ver = game.start.slippi.version)')
    L.append('   WsGecko                 if let Some(codes) = &game.gecko_codes { gecko_codes(w, codes)?; }')
    L.append('   WsFrames                game.frames.write(w, ver)?')
    L.append('   WsGameEnd               if let Some(end) = &game.end { game_end(w, end, ver)?; ..')
    L.append('   WsGameEndIfDouble          .. if game.quirks.map_or(false, |q| q.double_game_end) { game_end(w, end, ver)?; } }')
    L.append('   WsMetadata pre post     if let Some(metadata) = &game.metadata { w.write_all(&[pre])?; ubjson::write_map(w, metadata)?; w.write_all(&[post])?; }')
    L.append('   WsBytes bs              w.write_all(&[bs])? *)')
    L.append('Inductive wstep :=')
    L.append('| WsAssertMaxVersion | WsPayloadSizes | WsSignature | WsRawSizeU32 | WsCode (event : string) | WsTableLenU8 (k c : N)')
    L.append('| WsTable (event_first : bool) | WsGameStart | WsGecko | WsFrames | WsGameEnd | WsGameEndIfDouble')
    L.append('| WsMetadata (pre post : list N) | WsBytes (bs : list N).')
    L.append('Definition write_steps : list wstep :=\n  [%s]%%N.' % ';\n   '.join(steps))
    L.append('(* game_start / game_end: w.write_u8(Event::X as u8)?; w.write_all(&<x>.bytes.0)? *)')
    L.append('Definition ws_game_start_event : string := %s.' % coq_str(helpers['game_start']))
    L.append('Definition ws_game_end_event : string := %s.' % coq_str(helpers['game_end']))
    L.append('(* de::Event: variant name -> code (the Event_* constants of Gen/Funs.v) *)')
    L.append('Definition ws_event_codes : list (string * N) :=\n  [%s].' % '; '.join('(%s, Event_%s)' % (coq_str(n), n) for n in events))
    return '\n'.join(L) + '\n'


# ------------------------------------------------------------------------------------------------
# (j) event-handler front end: parse_event and the impl ParseState helpers (src/io/slippi/de.rs) -> Gen/ParseEvent.v

PE_VERSION = 'state . game . start . slippi . version'
PE_HELPERS = {
    'last_id': ('& self', '-> Option < i32 >', 'self . game . frames . id . values ( ) . last ( ) . map ( | id | * id )', 'PhLastOfIds'),
    'frame_open': ('& mut self , id : i32', '', 'self . game . frames . id . push ( Some ( id ) ) ;', 'PhPushId'),
    'expect_id': ('& self , id : i32', '-> Result < ( ) >',
                  'match self . last_id ( ) { Some ( last_id ) if last_id == id => Ok ( ( ) ) , '
                  'last_id => Err ( err ! ( "unexpected frame id: {} (current: {:?})" , id , last_id ) ) }', 'PhOkIffLastIdEq'),
    'data_mut': ('& mut self , port : u8 , is_follower : bool', '-> Result < & mut frame :: mutable :: Data >',
                 'let port_data = self . port_indexes . get ( port as usize ) . and_then ( | i | self . game . frames . ports . get_mut ( * i ) ) '
                 '. filter ( | p | p . port as u8 == port ) . ok_or_else ( || err ! ( "invalid port: {}" , port ) ) ? ; '
                 'match is_follower { true => port_data . follower . as_mut ( ) . ok_or_else ( || err ! ( "unexpected follower on port: {}" , port ) ) , '
                 '_ => Ok ( & mut port_data . leader ) }', 'PhPortIndexPortMatchFollower'),
    'frame_close': ('& mut self', '',
                    'let len = self . game . frames . len ( ) ; for p in & mut self . game . frames . ports { '
                    'while p . leader . len ( ) < len { p . leader . push_null ( self . game . start . slippi . version ) ; } '
                    'if let Some ( f ) = & mut p . follower { while f . len ( ) < len { f . push_null ( self . game . start . slippi . version ) ; } } }',
                    'PhPadAllToLenWithPushNull'),
}
PE_COLUMNS = ('start', 'end', 'item')
PE_ITEM_OFFSET = [
    'let old_len = * state . game . frames . item_offset . as_ref ( ) . unwrap ( ) . last ( )',
    'let new_len : i32 = state . game . frames . item . as_ref ( ) . unwrap ( ) . r#type . len ( ) . try_into ( ) . unwrap ( )',
    'state . game . frames . item_offset . as_mut ( ) . unwrap ( ) . try_push ( new_len . checked_sub ( old_len ) . unwrap ( ) ) . unwrap ( )',
]


def pe_steps(toks, where, st):
    """statements of an arm (or of a branch inside it) -> list of Coq pe_step terms; st: what is bound so far"""
    out = []
    stmts = fw_stmts(toks, where)
    i = 0
    while i < len(stmts):
        s = sj(stmts[i])
        i += 1
        if re.fullmatch(LOG_MACRO, s):
            continue
        if re.fullmatch(r'return Err \( err ! \( .* \) \)', s):
            out.append('PsFail')
            continue
        m = re.fullmatch(r'if %s \. lt \( (\d+) , (\d+) \) \{ state \. frame_close \( \) ; \}' % re.escape(PE_VERSION).replace('\\ ', ' '), s)
        if m:
            out.append('PsCloseIfLt %s %s' % (m.group(1), m.group(2)))
            continue
        if s == 'state . game . gecko_codes = Some ( game :: GeckoCodes { bytes : buf . to_vec ( ) , actual_size : state . split_accumulator . actual_size } )':
            out.append('PsSetGecko')
            continue
        if s == 'state . game . end = Some ( game_end ( & mut & * buf ) ? )':
            out.append('PsSetEndFromBlock')
            continue
        if s == 'let r = & mut & * buf' and 'r' not in st:
            st.add('r')
            continue
        if s == 'let id = r . read_i32 :: < BE > ( ) ?' and 'r' in st and 'id' not in st:
            st.add('id')
            out.append('PsReadId')
            continue
        if s == 'let port = r . read_u8 ( ) ?' and 'r' in st and 'port' not in st:
            st.add('port')
            out.append('PsReadPort')
            continue
        if s == 'let is_follower = r . read_u8 ( ) ? != 0' and 'r' in st and 'is_follower' not in st:
            st.add('is_follower')
            out.append('PsReadFollowerNonZero')
            continue
        m = re.fullmatch(r'if state \. game \. frames \. (\w+) \. is_none \( \) \{ return Err \( err ! \( .* \) \) ; \}', s)
        if m and m.group(1) in PE_COLUMNS:
            out.append('PsRequireColumn %s' % coq_str(m.group(1)))
            continue
        if s == 'state . frame_open ( id )' and 'id' in st:
            out.append('PsOpenFrame')
            continue
        if s == 'state . expect_id ( id ) ?' and 'id' in st:
            out.append('PsExpectId')
            continue
        if s == 'state . frame_close ( )':
            out.append('PsClose')
            continue
        m = re.fullmatch(r'state \. game \. frames \. (\w+) \. as_mut \( \) \. unwrap \( \) \. read_push \( r , state \. game \. start \. slippi \. version \) \?', s)
        if m and m.group(1) in PE_COLUMNS and 'r' in st:
            out.append('PsReadPush %s' % coq_str(m.group(1)))
            continue
        if tv(stmts[i - 1][:1]) == ['if']:
            sv = StmtView(stmts[i - 1], where)
            t = stmts[i - 1]
            j = sv.first_top(1, len(t), '{')
            c = match_close(t, j) if j >= 0 else -1
            if j >= 0 and c + 2 < len(t) and tv(t[c + 1:c + 3]) == ['else', '{'] and match_close(t, c + 2) == len(t) - 1:
                cond = sj(t[1:j])
                m = re.fullmatch(r'state \. game \. start \. slippi \. version \. gte \( (\d+) , (\d+) \)', cond)
                if m:
                    y = pe_steps(t[j + 1:c], where, set(st))
                    n = pe_steps(t[c + 3:-1], where, set(st))
                    out.append('PsIfGte %s %s [%s] [%s]' % (m.group(1), m.group(2), '; '.join(y), '; '.join(n)))
                    continue
                m = re.fullmatch(r'last_id \+ (\d+) == id', cond)
                if m and st.__contains__('last_id') and 'id' in st:
                    y = pe_steps(t[j + 1:c], where, set(st))
                    n = pe_steps(t[c + 3:-1], where, set(st))
                    dflt = [x for x in st if isinstance(x, tuple)][0][1]
                    out.append('PsIfNextId (FIRST_INDEX - %d)%%Z %s [%s] [%s]' % (dflt, m.group(1), '; '.join(y), '; '.join(n)))
                    st.discard('last_id')
                    continue
            raise TranslateError('%s: unrecognised conditional: %s' % (where, s[:300]))
        m = re.fullmatch(r'let last_id = state \. last_id \( \) \. unwrap_or \( frame :: FIRST_INDEX - (\d+) \)', s)
        if m and 'last_id' not in st:
            st.add('last_id')
            st.add(('dflt', int(m.group(1))))
            if i >= len(stmts) or not sj(stmts[i]).startswith('if last_id + '):
                raise TranslateError('%s: `let last_id = ..` is not followed by `if last_id + N == id { .. } else { .. }`' % where)
            continue
        if s == 'let version = %s' % PE_VERSION and 'version' not in st:
            st.add('version')
            continue
        if s == 'let data = state . data_mut ( port , is_follower ) ?' and 'port' in st and 'is_follower' in st and 'data' not in st:
            st.add('data')
            out.append('PsDataMut')
            continue
        if s == 'data . validity . as_mut ( ) . map ( | v | v . push ( true ) )' and 'data' in st:
            out.append('PsPushValidityTrue')
            continue
        m = re.fullmatch(r'data \. (pre|post) \. read_push \( r , version \) \?', s)
        if m and 'data' in st and 'version' in st and 'r' in st:
            out.append('PsReadPush %s' % coq_str(m.group(1)))
            continue
        m = re.fullmatch(r'state \. data_mut \( port , is_follower \) \? \. (pre|post) \. read_push \( r , version \) \?', s)
        if m and 'port' in st and 'is_follower' in st and 'version' in st and 'r' in st:
            out.append('PsDataMut')
            out.append('PsReadPush %s' % coq_str(m.group(1)))
            continue
        if s == PE_ITEM_OFFSET[0] and [sj(x) for x in stmts[i:i + 2]] == PE_ITEM_OFFSET[1:]:
            i += 2
            out.append('PsPushItemOffset')
            continue
        raise TranslateError('%s: unrecognised statement: %s' % (where, s[:300]))
    return out


def gen_parse_event():
    all_toks = file_toks(DE_RS)
    if find_seq(all_toks, ['type', 'BE', '=', 'byteorder', '::', 'BigEndian', ';']) < 0:
        raise TranslateError('%s: `type BE = byteorder::BigEndian;` not found' % DE_RS)
    events = dict(enum_codes(DE_RS, 'Event'))
    first_index = int_const('src/frame/mod.rs', 'FIRST_INDEX')
    # ---- helpers of impl ParseState
    helpers = []
    for name, (params, ret, body, shape) in PE_HELPERS.items():
        p_, r_, b_ = find_fn(DE_RS, 'ParseState', name)
        if sjp(p_) != params or sj(r_) != ret or sj(b_) != body:
            raise TranslateError('%s ParseState::%s: not the expected helper (%s): %s' % (DE_RS, name, shape, sj(b_)[:400]))
        helpers.append((name, shape))
    # ---- parse_event
    where = '%s fn parse_event' % DE_RS
    params, ret, body = find_fn(DE_RS, None, 'parse_event')
    if sjp(params) != 'mut r : R , state : & mut ParseState , opts : Option < & Opts >' or sj(ret) != '-> Result < u8 >':
        raise TranslateError('%s: unexpected signature' % where)
    raw = fw_stmts(body, where)
    sts = [x for x in raw if not re.fullmatch(LOG_MACRO, sj(x))]
    m = strict_match([sj(x) for x in sts], [
        ('`let mut code = r.read_u8()?`', r'let mut code = r \. read_u8 \( \) \?'),
        ('`let size = state.payload_sizes[code as usize].ok_or_else(|| err!(..))?.get() as usize`',
         r'let size = state \. payload_sizes \[ code as usize \] \. ok_or_else \( \|\| err ! \( .* \) \) \? \. get \( \) as usize'),
        ('`let mut buf = vec![0; size]`', r'let mut buf = vec ! \[ 0 ; size \]'),
        ('`r.read_exact(&mut buf)?`', r'r \. read_exact \( & mut buf \) \?'),
        ('the message-splitter substitution', r'if code == Event :: MessageSplitter as u8 \{ if let Some \( wrapped_event \) = handle_splitter_event '
         r'\( & buf , & mut state \. split_accumulator \) \? \{ code = wrapped_event ; buf \. clear \( \) ; buf \. append \( & mut state \. split_accumulator \. raw \) ; \} \}'),
        ('the debug dump', r'if let Some \( ref d \) = opts \. as_ref \( \) \. and_then \( \| o \| o \. debug \. as_ref \( \) \) '
         r'\{ debug_write_event \( & buf , code , Some \( state \) , d \) \? ; \}'),
        ('`*state.event_counts.entry(code).or_default() += 1`', r'\* state \. event_counts \. entry \( code \) \. or_default \( \) \+= 1'),
        ('`let event = Event::try_from(code).ok()`', r'let event = Event :: try_from \( code \) \. ok \( \)'),
        ('`if let Some(event) = event { use Event::*; match event { .. }; }`', r'if let Some \( event \) = event \{ use Event :: \* ; match event \{ .* \} ;? ?\}'),
        ('`state.bytes_read += <expr>`', r'state \. bytes_read \+= (.*)'),
        ('`Ok(code)`', r'Ok \( code \)'),
    ], where)
    incr = m[9].group(1)
    blk = sts[8]
    sv = StmtView(blk, where)
    j = sv.first_top(1, len(blk), '{')
    inner = fw_stmts(blk[j + 1:-1], where)
    mt = [x for x in inner if tv(x[:1]) == ['match']]
    if len(mt) != 1 or tv(mt[0][:3]) != ['match', 'event', '{'] or match_close(mt[0], 2) != len(mt[0]) - 1:
        raise TranslateError('%s: `match event { .. }` not found' % where)
    arms_t = mt[0][3:-1]
    av = StmtView(arms_t, where)
    arms = []
    i = 0
    while i < len(arms_t):
        p = av.first_top(i, len(arms_t), '=>')
        if p < 0:
            raise TranslateError('%s: unrecognised match arm: %s' % (where, sj(arms_t[i:])[:200]))
        pat = sj(arms_t[i:p])
        if pat not in events:
            raise TranslateError('%s: match pattern is not a variant of de::Event: %s' % (where, pat[:100]))
        if pat in [a for a, _ in arms]:
            raise TranslateError('%s: two arms for %s' % (where, pat))
        if av.is_p(p + 1, '{'):
            e = match_close(arms_t, p + 1) + 1
            bt = arms_t[p + 2:e - 1]
        else:
            e = av.first_top(p + 1, len(arms_t), ',')
            e = len(arms_t) if e < 0 else e
            bt = arms_t[p + 1:e]
        for tok in bt:
            if tok[0] == 'id' and tok[1] in ('break', 'continue', 'loop', 'while', 'for'):
                raise TranslateError('%s arm %s: `%s` in an arm' % (where, pat, tok[1]))
        arms.append((pat, pe_steps(bt, '%s arm %s' % (where, pat), set())))
        i = e + 1 if av.is_p(e, ',') else e
    missing = [e for e in events if e not in [a for a, _ in arms]]
    if missing:
        raise TranslateError('%s: no arm for %s' % (where, missing))
    L = []
    L.append('(* GENERATED by tools/rust2coq.py from %s (fn parse_event, impl ParseState: last_id, frame_open, expect_id, data_mut, frame_close)' % DE_RS)
    L.append('   and src/frame/mod.rs (FIRST_INDEX = %d) -- do not edit. *)' % first_index)
    L.append('From Coq Require Import NArith ZArith List String.')
    L.append('From Peppi Require Import Gen.Funs.')
    L.append('Import ListNotations.')
    L.append('Local Open Scope string_scope.')
    L.append('')
    L.append('(* the statements of an arm of `match event { .. }` (r = &mut &*buf is the cursor over the payload; trace!/debug! are not listed):')
    L.append('   PsFail                    return Err(err!(..))')
    L.append('   PsCloseIfLt M m           if state.game.start.slippi.version.lt(M, m) { state.frame_close(); }')
    L.append('   PsReadId                  let id = r.read_i32::<BE>()?')
    L.append('   PsReadPort                let port = r.read_u8()?')
    L.append('   PsReadFollowerNonZero     let is_follower = r.read_u8()? != 0')
    L.append('   PsRequireColumn c         if state.game.frames.<c>.is_none() { return Err(err!(..)); }')
    L.append('   PsOpenFrame               state.frame_open(id)')
    L.append('   PsExpectId                state.expect_id(id)?')
    L.append('   PsClose                   state.frame_close()')
    L.append('   PsIfGte M m yes no        if state.game.start.slippi.version.gte(M, m) { yes } else { no }')
    L.append('   PsIfNextId d k yes no     let last_id = state.last_id().unwrap_or(d); if last_id + k == id { yes } else { no }')
    L.append('   PsDataMut                 state.data_mut(port, is_follower)?       (bound to `data`, or used in place)')
    L.append('   PsPushValidityTrue        data.validity.as_mut().map(|v| v.push(true))')
    L.append('   PsReadPush c              <column c>.read_push(r, version)?        (c = pre / post of the character; start / end / item of the frame)')
    L.append('   PsPushItemOffset          item_offset.try_push(item.type.len() - *item_offset.last())   (the three statements of the FrameEnd arm)')
    L.append('   PsSetGecko                state.game.gecko_codes = Some(GeckoCodes { bytes: buf.to_vec(), actual_size: state.split_accumulator.actual_size })')
    L.append('   PsSetEndFromBlock         state.game.end = Some(game_end(&mut &*buf)?) *)')
    L.append('Inductive pe_step :=')
    L.append('| PsFail | PsCloseIfLt (M m : N) | PsReadId | PsReadPort | PsReadFollowerNonZero | PsRequireColumn (col : string)')
    L.append('| PsOpenFrame | PsExpectId | PsClose')
    L.append('| PsIfGte (M m : N) (yes no : list pe_step) | PsIfNextId (dflt : Z) (k : Z) (yes no : list pe_step)')
    L.append('| PsDataMut | PsPushValidityTrue | PsReadPush (col : string) | PsPushItemOffset | PsSetGecko | PsSetEndFromBlock.')
    L.append('')
    L.append('(* the arms of `match event`, in source order *)')
    L.append('Definition parse_event_arms : list (string * list pe_step) :=\n  [%s]%%N.' % ';\n   '.join(
        '(%s, [%s])' % (coq_str(a), '; '.join(s)) for a, s in arms))
    L.append('')
    L.append('(* prologue / epilogue of parse_event (fixed by template): code = r.read_u8()?; size = state.payload_sizes[code].ok_or_else(..)?;')
    L.append('   buf = exactly size bytes; the message-splitter substitution (Gen/Splitter.v); the match above for a known code, nothing for an')
    L.append('   unknown one; then state.bytes_read += %s *)' % incr)
    L.append(expr_to_gallina(incr, [], {'size': 'size'}, where, 'pe_bytes_read_increment', ['size'], 'N'))
    L.append('')
    L.append('(* impl ParseState helpers, each compared token-for-token with the one recognised body:')
    L.append('   PhLastOfIds                     self.game.frames.id.values().last().map(|id| *id)')
    L.append('   PhPushId                        self.game.frames.id.push(Some(id))')
    L.append('   PhOkIffLastIdEq                 match self.last_id() { Some(last_id) if last_id == id => Ok(()), last_id => Err(..) }')
    L.append('   PhPortIndexPortMatchFollower    port_indexes.get(port).and_then(ports.get_mut).filter(p.port == port).ok_or_else(..)?; follower.as_mut().ok_or_else(..) / leader')
    L.append('   PhPadAllToLenWithPushNull       for every port: while leader.len() < frames.len() { push_null }; the same for the follower if present *)')
    L.append('Inductive ph_shape := PhLastOfIds | PhPushId | PhOkIffLastIdEq | PhPortIndexPortMatchFollower | PhPadAllToLenWithPushNull.')
    L.append('Definition parse_state_helpers : list (string * ph_shape) :=\n  [%s].' % '; '.join('(%s, %s)' % (coq_str(n), s) for n, s in helpers))
    L.append('(* de::Event: variant name -> code (the Event_* constants of Gen/Funs.v) *)')
    L.append('Definition parse_event_codes : list (string * N) :=\n  [%s].' % '; '.join('(%s, Event_%s)' % (coq_str(n), n) for n in events))
    return '\n'.join(L) + '\n'


# ------------------------------------------------------------------------------------------------
# (k) Arrow-glue front end: Data / PortData / Frame :: {data_type, into_struct_array, from_struct_array} -- the hand-written
#     head of src/frame/immutable/peppi.rs -- and the Display / parse names of game::Port -> Gen/ArrowFrame.v

AF_RS = 'src/frame/immutable/peppi.rs'
AF_DOWN = r' \. as_any \( \) \. downcast_ref :: < StructArray > \( \) \. unwrap \( \) \. clone \( \)'
AF_GATE = r'version \. gte \( (\d+) , (\d+) \)'
AF_PORT_DATA_TYPE = ('DataType :: Struct ( ports . iter ( ) . map ( | p | { Field :: new ( format ! ( "{}" , p . port ) , '
                     'PortData :: data_type ( version , * p ) . clone ( ) , false ) } ) . collect ( ) )')
AF_PORTS_VALUES = ('let values : Vec < _ > = std :: iter :: zip ( ports , self . ports ) . map ( | ( occupancy , data ) | '
                   'data . into_struct_array ( version , * occupancy ) . boxed ( ) ) . collect ( )')
AF_PORT_DATA_FROM = ('let ( fields , values , _ ) = array . into_data ( ) ; let mut ports = vec ! [ ] ; for i in 0 .. NUM_PORTS { '
                     'if let Some ( a ) = values . get ( i as usize ) { ports . push ( PortData :: from_struct_array ( '
                     'a . as_any ( ) . downcast_ref :: < StructArray > ( ) . unwrap ( ) . clone ( ) , version , '
                     'Port :: parse ( & fields [ i as usize ] . name ) . unwrap ( ) ) ) ; } } ports')
AF_ITEM_FROM = (r'let \( item , item_offset \) = values \. get \( item_idx \) \. map_or \( \( None , None \) , \| v \| \{ '
                r'let arrays = v \. as_any \( \) \. downcast_ref :: < ListArray < i32 > > \( \) \. unwrap \( \) \. clone \( \) ; '
                r'let item_offset = arrays \. offsets \( \) \. clone \( \) ; '
                r'let item = (\w+) :: from_struct_array \( arrays \. values \( \)' + AF_DOWN + r' , version \) ; '
                r'\( Some \( item \) , Some \( item_offset \) \) \} \)')


def af_split(toks, where, sep=','):
    sv = StmtView(toks, where)
    segs, _ = sv.split_top(0, len(toks), sep)
    return [toks[a:b] for (a, b) in segs]


def af_vec(toks, where):
    """`vec![a, b, ..]` -> the token lists of its elements"""
    if tv(toks[:3]) != ['vec', '!', '['] or match_close(toks, 2) != len(toks) - 1:
        raise TranslateError('%s: expected `vec![..]`: %s' % (where, sj(toks)[:200]))
    return af_split(toks[3:-1], where)


def af_field(s, where):
    """`Field::new("<name>", <type>, false)` -> (name, type text)"""
    m = re.fullmatch(r'Field :: new \( "(\w+)" , (.*) , false \)', s)
    if not m:
        raise TranslateError('%s: expected `Field::new("<name>", <type>, false)`: %s' % (where, s[:200]))
    return m.group(1), m.group(2)


def af_kind(ty, where, level, item_kind=None):
    """the data type expression of a Field -> Coq akind"""
    if level == 'frame':
        m = re.fullmatch(r'DataType :: (\w+)', ty)
        if m and m.group(1) in ARROW_TY:
            return 'AkPrim %s' % PRIM_COQ[ARROW_TY[m.group(1)]]
        if ty == 'Self :: port_data_type ( version , ports ) . clone ( )':
            return 'AkPorts'
        if ty == 'Self :: item_data_type ( version ) . clone ( )':
            return item_kind
    m = re.fullmatch(r'(\w+) :: data_type \( version \)(?: \. clone \( \))?', ty)
    if m and m.group(1) in GEN_STRUCTS and level in ('frame', 'data'):
        return 'AkStruct %s' % coq_str(m.group(1))
    if m and m.group(1) == 'Data' and level == 'port':
        return 'AkData'
    raise TranslateError('%s: unrecognised field type: %s' % (where, ty[:200]))


def af_gate_walk(toks, where, leaf, gates=()):
    """the statements of a block, each `if version.gte(M, m) { .. }` (no else; may nest) or something `leaf(stmts, i)` recognises
    (-> (number of statements consumed, result)) -> [(result, enclosing gates outermost first)]"""
    out = []
    stmts = fw_stmts(toks, where)
    i = 0
    while i < len(stmts):
        ib = fw_if_block(stmts[i], where)
        if ib is not None:
            m = re.fullmatch(AF_GATE, ib[0])
            if not m:
                raise TranslateError('%s: unrecognised condition: if %s' % (where, ib[0][:200]))
            out.extend(af_gate_walk(ib[1], where, leaf, gates + ((int(m.group(1)), int(m.group(2))),)))
            i += 1
            continue
        n, res = leaf(stmts, i)
        out.append((res, gates))
        i += n
    return out


def af_assert_walk(toks, where, conds=()):
    """`assert_eq!("<name>", fields[<k>].name);` statements under `if version.gte(..) { } [else if version.gte(..) { }]*`
    -> [(name, k, conditions)]; a condition is (holds, M, m): the else-if branches carry the negations of the tests before them"""
    out = []
    for st in fw_stmts(toks, where):
        s = sj(st)
        m = re.fullmatch(r'assert_eq ! \( "(\w+)" , fields \[ (\d+) \] \. name \)', s)
        if m:
            out.append((m.group(1), int(m.group(2)), conds))
            continue
        if tv(st[:1]) != ['if']:
            raise TranslateError('%s: unrecognised statement among the field-name assertions: %s' % (where, s[:200]))
        sv = StmtView(st, where)
        pos, neg = 0, ()
        while True:
            j = sv.first_top(pos + 1, len(st), '{')
            m = re.fullmatch(AF_GATE, sj(st[pos + 1:j])) if j >= 0 else None
            if not m:
                raise TranslateError('%s: unrecognised condition among the field-name assertions: %s' % (where, s[:200]))
            c = match_close(st, j)
            g = (int(m.group(1)), int(m.group(2)))
            out.extend(af_assert_walk(st[j + 1:c], where, conds + neg + ((True,) + g,)))
            neg = neg + ((False,) + g,)
            if c == len(st) - 1:
                break
            if tv(st[c + 1:c + 3]) == ['else', 'if']:
                pos = c + 2
                continue
            raise TranslateError('%s: `else` without a version test among the field-name assertions: %s' % (where, s[:200]))
    return out


def af_closure(body_re):
    """`| v | { BODY }` or `| v | BODY`"""
    return r'\| (\w+) \| (?:\{ )?' + body_re + r'(?: \})?'


def gen_arrow_frame():
    all_toks = file_toks(AF_RS)
    decl_toks = file_toks(FW_DECL)
    data_decl = parse_struct_decl(decl_toks, 'Data', FW_DECL)
    port_decl = parse_struct_decl(decl_toks, 'PortData', FW_DECL)
    frame_decl = parse_struct_decl(decl_toks, 'Frame', FW_DECL)
    if port_decl != [('port', 'Port'), ('leader', 'Data'), ('follower', 'Option < Data >')]:
        raise TranslateError('%s: PortData is not { port: Port, leader: Data, follower: Option<Data> }: %s' % (FW_DECL, port_decl))
    fns = {}
    for kind, name, frm, body in impl_blocks(all_toks):
        if kind == 'impl' and name in ('Data', 'PortData', 'Frame'):
            for n, params, ret, b in fns_in(body):
                if (name, n) in fns:
                    raise TranslateError('%s: %s::%s is defined twice' % (AF_RS, name, n))
                fns[(name, n)] = (params, ret, b)
    three = ('data_type', 'into_struct_array', 'from_struct_array')
    expected = {(s, f) for s in ('Data', 'PortData', 'Frame') for f in three} | \
        {('Frame', 'port_data_type'), ('Frame', 'item_data_type'), ('Frame', 'port_data_from_struct_array')}
    if set(fns) != expected:
        raise TranslateError('%s: impl Data/PortData/Frame: expected exactly the functions %s, found %s' % (AF_RS, sorted(expected), sorted(fns)))

    def sig(key, want):
        if sjp(fns[key][0]) != want:
            raise TranslateError('%s %s::%s: unexpected parameters: %s' % (AF_RS, key[0], key[1], sjp(fns[key][0])))

    def field_record(decl, field, where, optional):
        ty = dict(decl).get(field)
        m = re.fullmatch(r'Option < (\w+) >', ty or '')
        if ty is None or optional != bool(m):
            raise TranslateError('%s: self.%s has type %s' % (where, field, ty))
        return m.group(1) if m else ty

    # ---------------- Data
    where = '%s Data::data_type' % AF_RS
    sig(('Data', 'data_type'), 'version : Version')
    b = fns[('Data', 'data_type')][2]
    if tv(b[:4]) != ['DataType', '::', 'Struct', '('] or match_close(b, 3) != len(b) - 1:
        raise TranslateError('%s: not `DataType::Struct(vec![..])`: %s' % (where, sj(b)[:200]))
    data_dt = []
    for it in af_vec(b[4:-1], where):
        nm, ty = af_field(sj(it), where)
        data_dt.append((nm, af_kind(ty, where, 'data')))
    where = '%s Data::into_struct_array' % AF_RS
    sig(('Data', 'into_struct_array'), 'self , version : Version')
    sts = fw_stmts(fns[('Data', 'into_struct_array')][2], where)
    if len(sts) != 2 or tv(sts[0][:3]) != ['let', 'values', '=']:
        raise TranslateError('%s: not `let values = vec![..]; StructArray::new(..)`: %s' % (where, ' ; '.join(sj(x) for x in sts)[:300]))
    m = re.fullmatch(r'StructArray :: new \( Self :: data_type \( version \) , values , (self \. validity|None) \)', sj(sts[1]))
    if not m:
        raise TranslateError('%s: unexpected last statement: %s' % (where, sj(sts[1])[:200]))
    data_into_validity = m.group(1) != 'None'
    data_into = []
    for it in af_vec(sts[0][3:], where):
        m = re.fullmatch(r'self \. (\w+) \. into_struct_array \( version \) \. boxed \( \)', sj(it))
        if not m:
            raise TranslateError('%s: unrecognised element: %s' % (where, sj(it)[:200]))
        data_into.append((m.group(1), field_record(data_decl, m.group(1), where, False)))
    where = '%s Data::from_struct_array' % AF_RS
    sig(('Data', 'from_struct_array'), 'array : StructArray , version : Version')
    b = fns[('Data', 'from_struct_array')][2]
    if len(split_stmts(b)) != 2:
        raise TranslateError('%s: expected `let (_, values, validity) = array.into_data(); Self { .. }`' % where)
    data_from = []
    data_from_validity = False
    for (nm, idx, k, ty, opt) in parse_from_struct_array(b, where):
        if k == 'sub' and not opt:
            if field_record(data_decl, nm, where, False) != ty:
                raise TranslateError('%s: field %s is read with %s::from_struct_array' % (where, nm, ty))
            data_from.append((nm, idx, ty))
        elif k == 'validity':
            data_from_validity = True
        else:
            raise TranslateError('%s: unrecognised field %s' % (where, nm))

    # ---------------- PortData
    where = '%s PortData::data_type' % AF_RS
    sig(('PortData', 'data_type'), 'version : Version , port : PortOccupancy')
    sts = fw_stmts(fns[('PortData', 'data_type')][2], where)
    if len(sts) < 2 or tv(sts[0][:4]) != ['let', 'mut', 'fields', '='] or sj(sts[-1]) != 'DataType :: Struct ( fields )':
        raise TranslateError('%s: not `let mut fields = vec![..]; .. DataType::Struct(fields)`' % where)
    port_dt = []
    for it in af_vec(sts[0][4:], where):
        nm, ty = af_field(sj(it), where)
        port_dt.append((nm, af_kind(ty, where, 'port'), False))
    for st in sts[1:-1]:
        ib = fw_if_block(st, where)
        inner = [sj(x) for x in fw_stmts(ib[1], where)] if ib is not None else [sj(st)]
        if ib is not None and ib[0] != 'port . follower':
            raise TranslateError('%s: unrecognised condition: if %s' % (where, ib[0][:200]))
        for s in inner:
            m = re.fullmatch(r'fields \. push \( (Field :: new \( .* \)) \)', s)
            if not m:
                raise TranslateError('%s: unrecognised statement: %s' % (where, s[:200]))
            nm, ty = af_field(m.group(1), where)
            port_dt.append((nm, af_kind(ty, where, 'port'), ib is not None))
    where = '%s PortData::into_struct_array' % AF_RS
    sig(('PortData', 'into_struct_array'), 'self , version : Version , port : PortOccupancy')
    sts = fw_stmts(fns[('PortData', 'into_struct_array')][2], where)
    if len(sts) < 2 or tv(sts[0][:4]) != ['let', 'mut', 'values', '='] or \
            sj(sts[-1]) != 'StructArray :: new ( Self :: data_type ( version , port ) , values , None )':
        raise TranslateError('%s: not `let mut values = vec![..]; .. StructArray::new(Self::data_type(version, port), values, None)`' % where)
    port_into = []
    for it in af_vec(sts[0][4:], where):
        m = re.fullmatch(r'self \. (\w+) \. into_struct_array \( version \) \. boxed \( \)', sj(it))
        if not m or field_record(port_decl, m.group(1), where, False) != 'Data':
            raise TranslateError('%s: unrecognised element: %s' % (where, sj(it)[:200]))
        port_into.append((m.group(1), False))
    for st in sts[1:-1]:
        ib = fw_if_block(st, where)
        m = re.fullmatch(r'let Some \( (\w+) \) = self \. (\w+)', ib[0]) if ib is not None else None
        inner = [sj(x) for x in fw_stmts(ib[1], where)] if m else []
        if not m or inner != ['values . push ( %s . into_struct_array ( version ) . boxed ( ) )' % m.group(1)] \
                or field_record(port_decl, m.group(2), where, True) != 'Data':
            raise TranslateError('%s: expected `if let Some(x) = self.<field> { values.push(x.into_struct_array(version).boxed()); }`: %s'
                                 % (where, sj(st)[:300]))
        port_into.append((m.group(2), True))
    where = '%s PortData::from_struct_array' % AF_RS
    sig(('PortData', 'from_struct_array'), 'array : StructArray , version : Version , port : Port')
    sts = fw_stmts(fns[('PortData', 'from_struct_array')][2], where)
    if len(sts) < 2 or sj(sts[0]) != 'let ( fields , values , _ ) = array . into_data ( )':
        raise TranslateError('%s: the first statement is not `let (fields, values, _) = array.into_data()`' % where)
    port_asserts = []
    for st in sts[1:-1]:
        s = sj(st)
        m = re.fullmatch(r'assert_eq ! \( "(\w+)" , fields \[ (\d+) \] \. name \)', s)
        if m:
            port_asserts.append((m.group(1), int(m.group(2)), False))
            continue
        m = re.fullmatch(r'fields \. get \( (\d+) \) \. map \( \| (\w+) \| (?:\{ )?assert_eq ! \( "(\w+)" , \2 \. name \)(?: ;)?(?: \})? \)', s)
        if m:
            port_asserts.append((m.group(3), int(m.group(1)), True))
            continue
        raise TranslateError('%s: unrecognised statement: %s' % (where, s[:200]))
    port_from = []
    for nm, e in parse_self_literal(sts[-1], where, r'Self'):
        if nm == 'port' and e == 'port':
            continue
        m = re.fullmatch(r'Data :: from_struct_array \( values \[ (\d+) \]' + AF_DOWN + r' , version \)', e)
        if m and field_record(port_decl, nm, where, False) == 'Data':
            port_from.append((nm, int(m.group(1)), False))
            continue
        m = re.fullmatch(r'values \. get \( (\d+) \) \. map \( ' + af_closure(r'Data :: from_struct_array \( \2' + AF_DOWN + r' , version \)') + r' \)', e)
        if m and field_record(port_decl, nm, where, True) == 'Data':
            port_from.append((nm, int(m.group(1)), True))
            continue
        raise TranslateError('%s: unrecognised field %s: %s' % (where, nm, e[:200]))
    if [n for n, _ in parse_self_literal(sts[-1], where, r'Self')] != [n for n, _ in port_decl]:
        raise TranslateError('%s: the literal does not list the fields of PortData in order' % where)

    # ---------------- Frame: the helpers
    sig(('Frame', 'port_data_type'), 'version : Version , ports : & [ PortOccupancy ]')
    if sj(fns[('Frame', 'port_data_type')][2]) != AF_PORT_DATA_TYPE:
        raise TranslateError('%s Frame::port_data_type: not the expected helper: %s' % (AF_RS, sj(fns[('Frame', 'port_data_type')][2])[:300]))
    sig(('Frame', 'item_data_type'), 'version : Version')
    m = re.fullmatch(r'DataType :: List \( Box :: new \( Field :: new \( "(\w+)" , (\w+) :: data_type \( version \)(?: \. clone \( \))? , false \) \) \)',
                     sj(fns[('Frame', 'item_data_type')][2]))
    if not m or m.group(2) not in GEN_STRUCTS:
        raise TranslateError('%s Frame::item_data_type: not `DataType::List(Box::new(Field::new("<name>", <Record>::data_type(version), false)))`: %s'
                             % (AF_RS, sj(fns[('Frame', 'item_data_type')][2])[:300]))
    item_inner, item_record = m.group(1), m.group(2)
    item_kind = 'AkList %s %s' % (coq_str(item_inner), coq_str(item_record))
    sig(('Frame', 'port_data_from_struct_array'), 'array : StructArray , version : Version')
    if sj(fns[('Frame', 'port_data_from_struct_array')][2]) != AF_PORT_DATA_FROM:
        raise TranslateError('%s Frame::port_data_from_struct_array: not the expected helper: %s'
                             % (AF_RS, sj(fns[('Frame', 'port_data_from_struct_array')][2])[:300]))

    # ---------------- Frame::data_type
    where = '%s Frame::data_type' % AF_RS
    sig(('Frame', 'data_type'), 'version : Version , ports : & [ PortOccupancy ]')
    b = fns[('Frame', 'data_type')][2]
    sts = fw_stmts(b, where)
    if len(sts) < 2 or tv(sts[0][:4]) != ['let', 'mut', 'fields', '='] or sj(sts[-1]) != 'DataType :: Struct ( fields )':
        raise TranslateError('%s: not `let mut fields = vec![..]; .. DataType::Struct(fields)`' % where)
    frame_dt = []
    for it in af_vec(sts[0][4:], where):
        nm, ty = af_field(sj(it), where)
        frame_dt.append((nm, (), af_kind(ty, where, 'frame', item_kind)))

    def dt_leaf(stmts, i):
        s = sj(stmts[i])
        m = re.fullmatch(r'fields \. push \( (Field :: new \( .* \)) \)', s)
        if not m:
            raise TranslateError('%s: unrecognised statement: %s' % (where, s[:200]))
        nm, ty = af_field(m.group(1), where)
        return 1, (nm, af_kind(ty, where, 'frame', item_kind))
    mid = [t for st in sts[1:-1] for t in st + [('punct', ';')]]
    for (nm, k), gs in af_gate_walk(mid, where, dt_leaf):
        frame_dt.append((nm, gs, k))
    if len({n for n, _, _ in frame_dt}) != len(frame_dt):
        raise TranslateError('%s: a field name is pushed twice' % where)

    # ---------------- Frame::into_struct_array
    where = '%s Frame::into_struct_array' % AF_RS
    sig(('Frame', 'into_struct_array'), 'self , version : Version , ports : & [ PortOccupancy ]')
    sts = fw_stmts(fns[('Frame', 'into_struct_array')][2], where)
    if len(sts) < 3 or sj(sts[0]) != AF_PORTS_VALUES or tv(sts[1][:4]) != ['let', 'mut', 'arrays', '='] \
            or sj(sts[-1]) != 'StructArray :: new ( Self :: data_type ( version , ports ) , arrays , None )':
        raise TranslateError('%s: not `let values: Vec<_> = std::iter::zip(ports, self.ports).map(..).collect(); let mut arrays = vec![..]; .. '
                             'StructArray::new(Self::data_type(version, ports), arrays, None)`' % where)
    frame_into = []
    for it in af_vec(sts[1][4:], where):
        s = sj(it)
        m = re.fullmatch(r'self \. (\w+) \. boxed \( \)', s)
        if m and dict(frame_decl).get(m.group(1)) == 'PrimitiveArray < i32 >':
            frame_into.append(('AsPrimBoxed %s I32' % coq_str(m.group(1)), ()))
        elif s == 'StructArray :: new ( Self :: port_data_type ( version , ports ) , values , None ) . boxed ( )':
            frame_into.append(('AsPorts', ()))
        else:
            raise TranslateError('%s: unrecognised element of arrays: %s' % (where, s[:200]))

    def into_leaf(stmts, i):
        s = sj(stmts[i])
        m = re.fullmatch(r'arrays \. push \( self \. (\w+) \. unwrap \( \) \. into_struct_array \( version \) \. boxed \( \) \)', s)
        if m:
            return 1, 'AsStructUnwrap %s %s' % (coq_str(m.group(1)), coq_str(field_record(frame_decl, m.group(1), where, True)))
        m = re.fullmatch(r'let (\w+) = self \. (\w+) \. unwrap \( \) \. into_struct_array \( version \) \. boxed \( \)', s)
        if m and i + 1 < len(stmts):
            m2 = re.fullmatch(r'arrays \. push \( ListArray :: new \( Self :: item_data_type \( version \) , self \. (\w+) \. unwrap \( \) , %s , None \) '
                              r'\. boxed \( \) \)' % m.group(1), sj(stmts[i + 1]))
            if m2 and dict(frame_decl).get(m2.group(1)) == 'Option < OffsetsBuffer < i32 > >':
                return 2, 'AsListUnwrap %s %s %s' % (coq_str(m2.group(1)), coq_str(m.group(2)), coq_str(field_record(frame_decl, m.group(2), where, True)))
        raise TranslateError('%s: unrecognised statement: %s' % (where, s[:200]))
    mid = [t for st in sts[2:-1] for t in st + [('punct', ';')]]
    frame_into.extend(af_gate_walk(mid, where, into_leaf))

    # ---------------- Frame::from_struct_array
    where = '%s Frame::from_struct_array' % AF_RS
    sig(('Frame', 'from_struct_array'), 'array : StructArray , version : Version')
    sts = fw_stmts(fns[('Frame', 'from_struct_array')][2], where)
    if len(sts) < 4 or sj(sts[0]) != 'let ( fields , values , _ ) = array . into_data ( )':
        raise TranslateError('%s: the first statement is not `let (fields, values, _) = array.into_data()`' % where)
    mid = [t for st in sts[1:-3] for t in st + [('punct', ';')]]
    frame_asserts = af_assert_walk(mid, where)
    m = re.fullmatch(r'let \( end_idx , item_idx \) = match ' + AF_GATE + r' \{ true => \( Some \( (\d+) \) , (\d+) \) , _ => \( None , (\d+) \) \}', sj(sts[-3]))
    if not m:
        raise TranslateError('%s: expected `let (end_idx, item_idx) = match version.gte(M, m) { true => (Some(a), b), _ => (None, c) }`: %s'
                             % (where, sj(sts[-3])[:300]))
    idx_gate = (int(m.group(1)), int(m.group(2)))
    idx_true = (int(m.group(3)), int(m.group(4)))
    idx_else = int(m.group(5))
    m = re.fullmatch(AF_ITEM_FROM, sj(sts[-2]))
    if not m or m.group(1) != item_record:
        raise TranslateError('%s: the `let (item, item_offset) = values.get(item_idx).map_or((None, None), |v| { .. })` statement is not the expected one: %s'
                             % (where, sj(sts[-2])[:300]))
    frame_from = []
    lit = parse_self_literal(sts[-1], where, r'Self')
    if [n for n, _ in lit] != [n for n, _ in frame_decl]:
        raise TranslateError('%s: the literal does not list the fields of Frame in order' % where)
    for nm, e in lit:
        m = re.fullmatch(r'values \[ (\d+) \] \. as_any \( \) \. downcast_ref :: < PrimitiveArray < (\w+) > > \( \) \. unwrap \( \) \. clone \( \)', e)
        if m and dict(frame_decl).get(nm) == 'PrimitiveArray < %s >' % m.group(2) and m.group(2) in PRIM_COQ:
            frame_from.append((nm, 'FfPrimAt %d %s' % (int(m.group(1)), PRIM_COQ[m.group(2)])))
            continue
        m = re.fullmatch(r'Self :: port_data_from_struct_array \( values \[ (\d+) \]' + AF_DOWN + r' , version \)', e)
        if m and dict(frame_decl).get(nm) == 'Vec < PortData >':
            frame_from.append((nm, 'FfPortsAt %d' % int(m.group(1))))
            continue
        m = re.fullmatch(r'values \. get \( (\d+) \) \. map \( ' + af_closure(r'(\w+) :: from_struct_array \( \2' + AF_DOWN + r' , version \)') + r' \)', e)
        if m and field_record(frame_decl, nm, where, True) == m.group(3):
            frame_from.append((nm, 'FfStructGet %d %s' % (int(m.group(1)), coq_str(m.group(3)))))
            continue
        m = re.fullmatch(r'match end_idx \{ Some \( (\w+) \) => values \. get \( \1 \) \. map \( '
                         + af_closure(r'(\w+) :: from_struct_array \( \2' + AF_DOWN + r' , version \)')
                         + r' \) , None => ' + AF_GATE + r' \. then \( \|\| (\w+) \{ ((?:\w+ : None(?: , )?)*) \} \) \}', e)
        if m and field_record(frame_decl, nm, where, True) == m.group(3) == m.group(6):
            cols = [x.split(' : ')[0] for x in m.group(7).split(' , ') if x]
            want = [n for n, _ in parse_struct_decl(decl_toks, m.group(3), FW_DECL)]
            if cols != want:
                raise TranslateError('%s: the empty %s literal does not set every column to None: %s' % (where, m.group(3), cols))
            frame_from.append((nm, 'FfStructAtEndIdx %s (%d, %d)%%N' % (coq_str(m.group(3)), int(m.group(4)), int(m.group(5)))))
            continue
        if e == nm and nm == 'item_offset':
            frame_from.append((nm, 'FfListOffsetsAtItemIdx'))
            continue
        if e == nm and nm == 'item' and field_record(frame_decl, nm, where, True) == item_record:
            frame_from.append((nm, 'FfListValuesAtItemIdx %s' % coq_str(item_record)))
            continue
        raise TranslateError('%s: unrecognised field %s: %s' % (where, nm, e[:300]))

    # ---------------- game::Port: Display and parse
    gm = 'src/game/mod.rs'
    gtoks = file_toks(gm)
    codes = dict(enum_codes(gm, 'Port'))
    disp = None
    for kind, name, frm, body in impl_blocks(gtoks):
        if kind == 'other' and name == 'Display for Port':
            for n, params, ret, bb in fns_in(body):
                if n == 'fmt':
                    disp = bb
    if disp is None:
        raise TranslateError('%s: impl Display for Port not found' % gm)
    sts = fw_stmts(disp, gm + ' Display for Port')
    if len(sts) != 2 or sj(sts[0]) != 'use Port :: *' or tv(sts[1][:4]) != ['match', '*', 'self', '{'] or match_close(sts[1], 3) != len(sts[1]) - 1:
        raise TranslateError('%s Display for Port: not `use Port::*; match *self { .. }`' % gm)
    port_display = []
    for pat, bd in match_arms(sts[1][4:-1], gm + ' Display for Port'):
        m = re.fullmatch(r'write ! \( f , "(\w+)" \)', bd)
        if pat not in codes or not m:
            raise TranslateError('%s Display for Port: unrecognised arm %s => %s' % (gm, pat, bd[:100]))
        port_display.append((codes[pat], m.group(1)))
    if sorted(c for c, _ in port_display) != sorted(codes.values()):
        raise TranslateError('%s Display for Port: not one arm per variant' % gm)
    params, ret, pb = find_fn(gm, 'Port', 'parse')
    if tv(pb[:3]) != ['match', 's', '{'] or match_close(pb, 2) != len(pb) - 1:
        raise TranslateError('%s Port::parse: not `match s { .. }`' % gm)
    port_parse = []
    arms = match_arms(pb[3:-1], gm + ' Port::parse')
    for pat, bd in arms[:-1]:
        m = re.fullmatch(r'Ok \( Port :: (\w+) \)', bd)
        if not re.fullmatch(r'"\w+"', pat) or not m or m.group(1) not in codes:
            raise TranslateError('%s Port::parse: unrecognised arm %s => %s' % (gm, pat, bd[:100]))
        port_parse.append((pat[1:-1], codes[m.group(1)]))
    if not arms or arms[-1][0] != '_' or not arms[-1][1].startswith('Err ('):
        raise TranslateError('%s Port::parse: the last arm is not `_ => Err(..)`' % gm)

    def gates(gs):
        return '[%s]' % '; '.join('(%d, %d)%%N' % g for g in gs)

    def b(x):
        return 'true' if x else 'false'
    L = []
    L.append('(* GENERATED by tools/rust2coq.py from %s (impl Data, impl PortData, impl Frame: the hand-written head of the file),' % AF_RS)
    L.append('   the struct declarations of %s and enum Port / Display for Port / Port::parse of src/game/mod.rs -- do not edit. *)' % FW_DECL)
    L.append('From Coq Require Import NArith List String.')
    L.append('From Peppi Require Import Layout.Syntax.')
    L.append('Import ListNotations.')
    L.append('Local Open Scope string_scope.')
    L.append('')
    L.append('(* the data type of a child Field:')
    L.append('   AkPrim p           DataType::<p>')
    L.append('   AkStruct R         R::data_type(version)                 (R a generated record: Gen/Tables.v tbl_data_type)')
    L.append('   AkData             Data::data_type(version)')
    L.append('   AkPorts            Self::port_data_type(version, ports)  (one child per port, named format!("{}", p.port))')
    L.append('   AkList inner R     Self::item_data_type(version) = DataType::List(Field::new(inner, R::data_type(version), false)) *)')
    L.append('Inductive akind := AkPrim (p : prim) | AkStruct (record : string) | AkData | AkPorts | AkList (inner record : string).')
    L.append('')
    L.append('(* ---- impl Data ---- *)')
    L.append('(* data_type: DataType::Struct(vec![Field::new(<name>, <type>, false), ..]) *)')
    L.append('Definition arrow_data_data_type : list (string * akind) :=\n  [%s].' % '; '.join('(%s, %s)' % (coq_str(n), k) for n, k in data_dt))
    L.append('(* into_struct_array: values = vec![self.<field>.into_struct_array(version).boxed(), ..] (field, its record type);')
    L.append('   StructArray::new(Self::data_type(version), values, <self.validity: true | None: false>) *)')
    L.append('Definition arrow_data_into : list (string * string) :=\n  [%s].' % '; '.join('(%s, %s)' % (coq_str(n), coq_str(r)) for n, r in data_into))
    L.append('Definition arrow_data_into_validity : bool := %s.' % b(data_into_validity))
    L.append('(* from_struct_array: <field>: <Record>::from_struct_array(values[<k>].., version); validity: validity *)')
    L.append('Definition arrow_data_from : list (string * nat * string) :=\n  [%s].' % '; '.join('(%s, %d, %s)' % (coq_str(n), i, coq_str(r)) for n, i, r in data_from))
    L.append('Definition arrow_data_from_validity : bool := %s.' % b(data_from_validity))
    L.append('')
    L.append('(* ---- impl PortData ---- *)')
    L.append('(* data_type: (name, type, true: pushed only `if port.follower`) *)')
    L.append('Definition arrow_port_data_type : list (string * akind * bool) :=\n  [%s].' % '; '.join('(%s, %s, %s)' % (coq_str(n), k, b(c)) for n, k, c in port_dt))
    L.append('(* into_struct_array: (field, true: pushed only `if let Some(x) = self.<field>`); validity None *)')
    L.append('Definition arrow_port_into : list (string * bool) :=\n  [%s].' % '; '.join('(%s, %s)' % (coq_str(n), b(c)) for n, c in port_into))
    L.append('(* from_struct_array: assert_eq!(<name>, fields[<k>].name) (true: only when fields.get(<k>) is there) *)')
    L.append('Definition arrow_port_from_asserts : list (string * nat * bool) :=\n  [%s].' % '; '.join('(%s, %d, %s)' % (coq_str(n), i, b(c)) for n, i, c in port_asserts))
    L.append('(* ... and <field>: Data::from_struct_array(values[<k>]..) (false) / values.get(<k>).map(..) (true) *)')
    L.append('Definition arrow_port_from : list (string * nat * bool) :=\n  [%s].' % '; '.join('(%s, %d, %s)' % (coq_str(n), i, b(c)) for n, i, c in port_from))
    L.append('')
    L.append('(* ---- impl Frame ---- *)')
    L.append('(* data_type: the children in push order (the initial vec![..] first), each with the enclosing `if version.gte(M, m)`')
    L.append('   gates, outermost first *)')
    L.append('Definition arrow_frame_data_type : list (string * list (N * N) * akind) :=\n  [%s].' % ';\n   '.join(
        '(%s, %s, %s)' % (coq_str(n), gates(gs), k) for n, gs, k in frame_dt))
    L.append('(* into_struct_array: the arrays in push order, with their gates:')
    L.append('   AsPrimBoxed f p             self.<f>.boxed()                                   (f : PrimitiveArray<p>)')
    L.append('   AsPorts                     StructArray::new(Self::port_data_type(version, ports), values, None).boxed(), values = the')
    L.append('                               ports zipped with their occupancy, each data.into_struct_array(version, *occupancy).boxed()')
    L.append('   AsStructUnwrap f R          self.<f>.unwrap().into_struct_array(version).boxed()  (f : Option<R>)')
    L.append('   AsListUnwrap offs f R       let item_values = self.<f>.unwrap().into_struct_array(version).boxed();')
    L.append('                               ListArray::new(Self::item_data_type(version), self.<offs>.unwrap(), item_values, None).boxed() *)')
    L.append('Inductive asrc := AsPrimBoxed (field : string) (p : prim) | AsPorts | AsStructUnwrap (field record : string)')
    L.append('  | AsListUnwrap (offsets field record : string).')
    L.append('Definition arrow_frame_into : list (asrc * list (N * N)) :=\n  [%s].' % ';\n   '.join('(%s, %s)' % (s, gates(gs)) for s, gs in frame_into))
    L.append('(* from_struct_array: assert_eq!(<name>, fields[<k>].name) with the version tests around it, outermost first;')
    L.append('   (true, M, m): inside `if version.gte(M, m)`; (false, M, m): in an `else if` branch after that test *)')
    L.append('Definition arrow_frame_from_asserts : list (string * nat * list (bool * N * N)) :=\n  [%s].' % ';\n   '.join(
        '(%s, %d, [%s])' % (coq_str(n), i, '; '.join('(%s, %d, %d)%%N' % (b(h), M, mm) for h, M, mm in cs)) for n, i, cs in frame_asserts))
    L.append('(* let (end_idx, item_idx) = match version.gte(M, m) { true => (Some(a), b), _ => (None, c) }: ((M, m), (a, b), c) *)')
    L.append('Definition arrow_frame_from_idx : (N * N) * (nat * nat) * nat := ((%d, %d)%%N, (%d, %d), %d).' % (idx_gate + idx_true + (idx_else,)))
    L.append('(* the fields of the result:')
    L.append('   FfPrimAt k p               values[k] as PrimitiveArray<p>')
    L.append('   FfPortsAt k                Self::port_data_from_struct_array(values[k].., version)')
    L.append('   FfStructGet k R            values.get(k).map(|v| R::from_struct_array(v.., version))')
    L.append('   FfStructAtEndIdx R (M, m)  match end_idx { Some(i) => values.get(i).map(|v| R::from_struct_array(..)),')
    L.append('                                              None => version.gte(M, m).then(|| R { every column: None }) }')
    L.append('   FfListOffsetsAtItemIdx     values.get(item_idx): the offsets of the ListArray<i32>')
    L.append('   FfListValuesAtItemIdx R    values.get(item_idx): R::from_struct_array(the values of the ListArray<i32>, version) *)')
    L.append('Inductive fsrc := FfPrimAt (idx : nat) (p : prim) | FfPortsAt (idx : nat) | FfStructGet (idx : nat) (record : string)')
    L.append('  | FfStructAtEndIdx (record : string) (else_gate : N * N) | FfListOffsetsAtItemIdx | FfListValuesAtItemIdx (record : string).')
    L.append('Definition arrow_frame_from : list (string * fsrc) :=\n  [%s].' % ';\n   '.join('(%s, %s)' % (coq_str(n), s) for n, s in frame_from))
    L.append('')
    L.append('(* src/game/mod.rs: `impl Display for Port` (variant code -> text: the name of a port\'s child) and Port::parse (text -> code) *)')
    L.append('Definition port_display : list (N * string) :=\n  [%s].' % '; '.join('(%d%%N, %s)' % (c, coq_str(s)) for c, s in port_display))
    L.append('Definition port_parse : list (string * N) :=\n  [%s].' % '; '.join('(%s, %d%%N)' % (coq_str(s), c) for s, c in port_parse))
    return '\n'.join(L) + '\n'


# ------------------------------------------------------------------------------------------------
# (l) frame-level transpose front end: the hand-written Frame / PortData / Data :: transpose_one of
#     src/frame/immutable/mod.rs and src/frame/mutable.rs (the per-record ones are generated code: Gen/Tables.v)
#     -> Gen/FrameTranspose.v

FT_FILES = (('imm', 'src/frame/immutable/mod.rs'), ('mut', 'src/frame/mutable.rs'))
FT_TR = 'src/frame/transpose.rs'


def ft_one(rel, tr_toks):
    """-> (data rows, portdata rows, frame rows) of one file"""
    toks = file_toks(rel)
    decls = {s: parse_struct_decl(toks, s, rel) for s in ('Data', 'PortData', 'Frame')}
    fns = {}
    for kind, name, frm, body in impl_blocks(toks):
        if kind == 'impl' and name in ('Data', 'PortData', 'Frame'):
            for n, params, ret, b in fns_in(body):
                if n == 'transpose_one':
                    if name in fns:
                        raise TranslateError('%s: %s::transpose_one is defined twice' % (rel, name))
                    fns[name] = (params, ret, b)
    for s in ('Data', 'PortData', 'Frame'):
        if s not in fns:
            raise TranslateError('%s: %s::transpose_one not found' % (rel, s))
        if sjp(fns[s][0]) != '& self , i : usize , version : Version' or sj(fns[s][1]) != '-> transpose :: %s' % s:
            raise TranslateError('%s %s::transpose_one: unexpected signature (%s) %s' % (rel, s, sjp(fns[s][0]), sj(fns[s][1])))

    def record(decl, field, where, optional):
        ty = dict(decl).get(field)
        m = re.fullmatch(r'Option < (\w+) >', ty or '')
        if ty is None or optional != bool(m):
            raise TranslateError('%s: self.%s has type %s' % (where, field, ty))
        return m.group(1) if m else ty

    def literal(s):
        where = '%s %s::transpose_one' % (rel, s)
        lit = parse_self_literal(fns[s][2], where, r'transpose :: %s' % s)
        v = tv(fns[s][2])
        if match_close(fns[s][2], v.index('{')) != len(v) - 1:
            raise TranslateError('%s: tokens after the transpose::%s literal' % (where, s))
        want = [n for n, _ in parse_struct_decl(tr_toks, s, FT_TR)]
        if [n for n, _ in lit] != want:
            raise TranslateError('%s: the literal does not list the fields of transpose::%s in order: %s' % (where, s, [n for n, _ in lit]))
        return where, lit

    # ---- Data
    where, lit = literal('Data')
    data_rows = []
    for nm, e in lit:
        m = re.fullmatch(r'self \. (\w+) \. transpose_one \( i , version \)', e)
        if not m:
            raise TranslateError('%s: unrecognised field %s: %s' % (where, nm, e[:200]))
        rec = record(decls['Data'], m.group(1), where, False)
        if rec not in GEN_STRUCTS:
            raise TranslateError('%s: field %s: %s is not a generated record' % (where, m.group(1), rec))
        data_rows.append((nm, m.group(1), rec))
    # ---- PortData
    where, lit = literal('PortData')
    port_rows = []
    for nm, e in lit:
        m = re.fullmatch(r'self \. (\w+)', e)
        if m and dict(decls['PortData']).get(m.group(1)) == 'Port':
            port_rows.append((nm, 'TpCopy %s' % coq_str(m.group(1))))
            continue
        m = re.fullmatch(r'self \. (\w+) \. transpose_one \( i , version \)', e)
        if m and record(decls['PortData'], m.group(1), where, False) == 'Data':
            port_rows.append((nm, 'TpData %s false' % coq_str(m.group(1))))
            continue
        m = re.fullmatch(r'self \. (\w+) \. as_ref \( \) \. map \( \| (\w+) \| (?:\{ )?\2 \. transpose_one \( i , version \)(?: \})? \)', e)
        if m and record(decls['PortData'], m.group(1), where, True) == 'Data':
            port_rows.append((nm, 'TpData %s true' % coq_str(m.group(1))))
            continue
        raise TranslateError('%s: unrecognised field %s: %s' % (where, nm, e[:200]))
    # ---- Frame
    where, lit = literal('Frame')
    frame_rows = []
    THEN = r'version \. gte \( (\d+) , (\d+) \) \. then \( \|\| '
    for nm, e in lit:
        m = re.fullmatch(r'self \. (\w+) \. values \( \) \[ i \]', e)
        if m and re.fullmatch(r'(?:Mutable)?PrimitiveArray < i32 >', dict(decls['Frame']).get(m.group(1), '')):
            frame_rows.append((nm, 'TsIdValue %s' % coq_str(m.group(1)), None))
            continue
        m = re.fullmatch(r'self \. (\w+) \. iter \( \) \. map \( \| (\w+) \| (?:\{ )?\2 \. transpose_one \( i , version \)(?: \})? \) \. collect \( \)', e)
        if m and dict(decls['Frame']).get(m.group(1)) == 'Vec < PortData >':
            frame_rows.append((nm, 'TsPortsMap %s' % coq_str(m.group(1)), None))
            continue
        m = re.fullmatch(THEN + r'(?:\{ )?self \. (\w+) \. as_ref \( \) \. unwrap \( \) \. transpose_one \( i , version \)(?: \})? \)', e)
        if m:
            rec = record(decls['Frame'], m.group(3), where, True)
            if rec not in GEN_STRUCTS:
                raise TranslateError('%s: field %s: %s is not a generated record' % (where, m.group(3), rec))
            frame_rows.append((nm, 'TsRow %s %s' % (coq_str(m.group(3)), coq_str(rec)), (int(m.group(1)), int(m.group(2)))))
            continue
        m = re.fullmatch(THEN + r'\{ let \( (\w+) , (\w+) \) = self \. (\w+) \. as_ref \( \) \. unwrap \( \) \. start_end \( i \) ; '
                         r'\( \3 \.\. \4 \) \. map \( \| (\w+) \| (?:\{ )?self \. (\w+) \. as_ref \( \) \. unwrap \( \) \. transpose_one \( \6 , version \)(?: \})? \) '
                         r'\. collect \( \) \} \)', e)
        if m and re.fullmatch(r'Option < Offsets(?:Buffer)? < i32 > >', dict(decls['Frame']).get(m.group(5), '')):
            rec = record(decls['Frame'], m.group(7), where, True)
            if rec not in GEN_STRUCTS:
                raise TranslateError('%s: field %s: %s is not a generated record' % (where, m.group(7), rec))
            frame_rows.append((nm, 'TsItems %s %s %s' % (coq_str(m.group(5)), coq_str(m.group(7)), coq_str(rec)), (int(m.group(1)), int(m.group(2)))))
            continue
        raise TranslateError('%s: unrecognised field %s: %s' % (where, nm, e[:300]))
    return data_rows, port_rows, frame_rows


def gen_frame_transpose():
    tr_toks = file_toks(FT_TR)
    L = []
    L.append('(* GENERATED by tools/rust2coq.py from the hand-written Data / PortData / Frame :: transpose_one of %s and' % FT_FILES[0][1])
    L.append('   %s (field lists of the targets from %s) -- do not edit. *)' % (FT_FILES[1][1], FT_TR))
    L.append('From Coq Require Import NArith List String.')
    L.append('Import ListNotations.')
    L.append('Local Open Scope string_scope.')
    L.append('')
    L.append('(* PortData::transpose_one, the fields of the transpose::PortData literal:')
    L.append('   TpCopy f          self.<f>')
    L.append('   TpData f false    self.<f>.transpose_one(i, version)                      (f : Data)')
    L.append('   TpData f true     self.<f>.as_ref().map(|x| x.transpose_one(i, version))  (f : Option<Data>) *)')
    L.append('Inductive psrc := TpCopy (field : string) | TpData (field : string) (optional : bool).')
    L.append('(* Frame::transpose_one, the fields of the transpose::Frame literal (evaluated in this order), each with the version')
    L.append('   of its `version.gte(M, m).then(|| ..)` (None: unconditional):')
    L.append('   TsIdValue f         self.<f>.values()[i]')
    L.append('   TsPortsMap f        self.<f>.iter().map(|p| p.transpose_one(i, version)).collect()')
    L.append('   TsRow f R           self.<f>.as_ref().unwrap().transpose_one(i, version)     (f : Option<R>)')
    L.append('   TsItems offs f R    let (start, end) = self.<offs>.as_ref().unwrap().start_end(i);')
    L.append('                       (start..end).map(|i| self.<f>.as_ref().unwrap().transpose_one(i, version)).collect() *)')
    L.append('Inductive tsrc := TsIdValue (field : string) | TsPortsMap (field : string) | TsRow (field record : string)')
    L.append('  | TsItems (offsets field record : string).')
    for key, rel in FT_FILES:
        d, p, f = ft_one(rel, tr_toks)
        L.append('')
        L.append('(* ---- %s ---- *)' % rel)
        L.append('(* Data::transpose_one: (field of transpose::Data, source field, its record type): self.<source>.transpose_one(i, version) *)')
        L.append('Definition %s_data_transpose : list (string * string * string) :=\n  [%s].' % (key, '; '.join(
            '(%s, %s, %s)' % (coq_str(a), coq_str(b_), coq_str(c)) for a, b_, c in d)))
        L.append('Definition %s_portdata_transpose : list (string * psrc) :=\n  [%s].' % (key, '; '.join('(%s, %s)' % (coq_str(a), b_) for a, b_ in p)))
        L.append('Definition %s_frame_transpose : list (string * tsrc * option (N * N)) :=\n  [%s].' % (key, ';\n   '.join(
            '(%s, %s, %s)' % (coq_str(a), b_, 'None' if g is None else 'Some (%d, %d)%%N' % g) for a, b_, g in f)))
    return '\n'.join(L) + '\n'


# ------------------------------------------------------------------------------------------------
# (m) reader-prologue front end: parse_header, parse_payloads, parse_game_start (and the two calls at the head of
#     parse_start) of src/io/slippi/de.rs, io::expect_bytes -> Gen/ReadPrologue.v

RP_IO = 'src/io/mod.rs'
RP_EXPECT_BYTES = ('let mut actual = vec ! [ 0 ; expected . len ( ) ] ; r . read_exact ( & mut actual ) ? ; '
                   'if expected == actual . as_slice ( ) { Ok ( ( ) ) } else { Err ( err ! ( "expected: {:?}, got: {:?}" , expected , actual ) ) }')
RP_DEBUG_DUMP = (r'if let Some \( ref d \) = opts \. as_ref \( \) \. and_then \( \| o \| o \. debug \. as_ref \( \) \) '
                 r'\{ debug_write_event \( & buf , code , None , d \) \? ; \}')
RP_ERR = r'\{ return Err \( err ! \( .* \) \)(?: ;)? \}'


class P2(P):
    """the expression parser with the remainder operator"""
    BIN = dict(P.BIN, **{'%': 6})


class G2(G):
    def e(self, a):
        if a[0] == 'bin' and a[1] == '%':
            return '(N.modulo %s %s)' % (self.e(a[2]), self.e(a[3]))
        return G.e(self, a)


def expr_to_gallina2(text, env, where, coq_name, binders, ret_ty):
    p = P2(tokenize(text, where), where)
    ast = p.expr()
    if not p.done():
        raise TranslateError('%s: trailing tokens in expression: %s' % (where, text[:200]))
    return 'Definition %s %s : %s := %s.' % (coq_name, ' '.join('(%s : N)' % x for x in binders), ret_ty, G2(env, where).e(ast))


def gen_read_prologue():
    all_toks = file_toks(DE_RS)
    if find_seq(all_toks, ['type', 'BE', '=', 'byteorder', '::', 'BigEndian', ';']) < 0:
        raise TranslateError('%s: `type BE = byteorder::BigEndian;` not found' % DE_RS)
    if find_seq(all_toks, ['type', 'PayloadSizes', '=', '[', 'Option', '<', 'NonZeroU16', '>', ';', '256', ']', ';']) < 0:
        raise TranslateError('%s: `type PayloadSizes = [Option<NonZeroU16>; 256];` not found' % DE_RS)
    events = dict(enum_codes(DE_RS, 'Event'))
    D = []

    # ---- io::expect_bytes
    params, ret, body = find_fn(RP_IO, None, 'expect_bytes')
    if sj(body) != RP_EXPECT_BYTES or sjp(params) != 'r : & mut R , expected : & [ u8 ]':
        raise TranslateError('%s fn expect_bytes: not the expected helper: %s' % (RP_IO, sj(body)[:300]))
    if 'expect_bytes' not in imported_from(DE_RS, ['io']) and find_seq(all_toks, ['expect_bytes', ',']) < 0:
        raise TranslateError('%s: expect_bytes is not imported from crate::io' % DE_RS)

    # ---- parse_header
    where = '%s fn parse_header' % DE_RS
    params, ret, body = find_fn(DE_RS, None, 'parse_header')
    if sjp(params) != 'mut r : R , _opts : Option < & Opts >' or not re.fullmatch(r'-> Result < u(16|32|64) >', sj(ret)):
        raise TranslateError('%s: unexpected signature (%s) %s' % (where, sjp(params), sj(ret)))
    m = strict_match(not_logs([sj(x) for x in fw_stmts(body, where)]), [
        ('`expect_bytes(&mut r, &super::FILE_SIGNATURE)?`', r'expect_bytes \( & mut r , & super :: (\w+) \) \?'),
        ('`Ok(r.read_uN::<BE>()?)`', r'Ok \( r \. read_(u16|u32|u64) :: < BE > \( \) \? \)'),
    ], where)
    if m[0].group(1) != 'FILE_SIGNATURE':
        raise TranslateError('%s: the signature is not super::FILE_SIGNATURE: %s' % (where, m[0].group(1)))
    if sj(ret) != '-> Result < %s >' % m[1].group(1):
        raise TranslateError('%s: reads a %s but returns %s' % (where, m[1].group(1), sj(ret)))
    D.append('(* parse_header: expect_bytes(&mut r, &super::FILE_SIGNATURE)?; Ok(r.read_%s::<BE>()?) *)' % m[1].group(1))
    D.append('Definition header_signature : list N := SLIPPI_FILE_SIGNATURE.')
    D.append('Definition header_len_width : nat := %d%%nat.' % READ_W[m[1].group(1)])

    # ---- parse_payloads
    where = '%s fn parse_payloads' % DE_RS
    params, ret, body = find_fn(DE_RS, None, 'parse_payloads')
    if sjp(params) != 'mut r : R , opts : Option < & Opts >' or sj(ret) != '-> Result < ( usize , PayloadSizes ) >':
        raise TranslateError('%s: unexpected signature (%s) %s' % (where, sjp(params), sj(ret)))
    pl_stmts = [x for x in fw_stmts(body, where) if not re.fullmatch(LOG_MACRO, sj(x))]
    m = strict_match([sj(x) for x in pl_stmts], [
        ('`let code = r.read_u8()?`', r'let code = r \. read_u8 \( \) \?'),
        ('`if code != Event::X as u8 { return Err(..) }`', r'if code != Event :: (\w+) as u8 ' + RP_ERR),
        ('`let size = r.read_u8()?`', r'let size = r \. read_u8 \( \) \?'),
        ('`if <test on size> { return Err(..) }`', r'if (.*) ' + RP_ERR),
        ('`let mut buf = vec![0; <len> as usize]`', r'let mut buf = vec ! \[ 0 ; (.*) \]'),
        ('`r.read_exact(&mut buf)?`', r'r \. read_exact \( & mut buf \) \?'),
        ('`let buf = &mut &buf[..]`', r'let buf = & mut & buf \[ \.\. \]'),
        ('the debug dump', RP_DEBUG_DUMP),
        ('`let mut sizes: PayloadSizes = [None; 256]`', r'let mut sizes : PayloadSizes = \[ None ; 256 \]'),
        ('`for _ in (0..<upper>).step_by(<n>) { .. }`', r'for _ in \( 0 \.\. (.*) \) \. step_by \( (\d+) \) \{ (.*) \}'),
        ('`sizes[Event::X as usize].ok_or_else(..)?`', r'sizes \[ Event :: (\w+) as usize \] \. ok_or_else \( \|\| err ! \( .* \) \) \?'),
        ('`sizes[Event::X as usize].ok_or_else(..)?`', r'sizes \[ Event :: (\w+) as usize \] \. ok_or_else \( \|\| err ! \( .* \) \) \?'),
        ('`Ok((<bytes read>, sizes))`', r'Ok \( \( (.*) , sizes \) \)'),
    ], where)
    for k in (1, 10, 11):
        if m[k].group(1) not in events:
            raise TranslateError('%s: Event::%s is not a variant of de::Event' % (where, m[k].group(1)))
    env = {'size': 'size'}
    D.append('')
    D.append('(* parse_payloads: let code = r.read_u8()?; if code != Event::%s as u8 { return Err(..) } *)' % m[1].group(1))
    D.append('Definition payloads_event : N := Event_%s.' % m[1].group(1))
    D.append('(* let size = r.read_u8()?; if %s { return Err(..) } *)' % m[3].group(1))
    D.append(expr_to_gallina2(m[3].group(1), env, where, 'payloads_size_refused', ['size'], 'bool'))
    D.append('(* let mut buf = vec![0; %s]; r.read_exact(&mut buf)? *)' % m[4].group(1))
    D.append(expr_to_gallina2(m[4].group(1), env, where, 'payloads_buf_len', ['size'], 'N'))
    D.append('(* for _ in (0..%s).step_by(%s) { <one entry> } *)' % (m[9].group(1), m[9].group(2)))
    D.append(expr_to_gallina2(m[9].group(1), env, where, 'payloads_loop_upper', ['size'], 'N'))
    if int(m[9].group(2)) == 0:
        raise TranslateError('%s: step_by(0)' % where)
    D.append('Definition payloads_loop_step : N := %d.' % int(m[9].group(2)))
    w2 = where + ' (entry loop)'
    lb = strict_match([sj(x) for x in fw_stmts(fw_for_block(pl_stmts[9], w2)[1], w2)], [
        ('`let code = buf.read_u8()?`', r'let code = buf \. read_(u8) \( \) \?'),
        ('`let size = buf.read_uN::<BE>()?`', r'let size = buf \. read_(u16|u32) :: < BE > \( \) \?'),
        ('`sizes[code as usize] = Some(NonZeroU16::new(size).ok_or_else(..)?)`',
         r'sizes \[ code as usize \] = Some \( NonZeroU16 :: new \( size \) \. ok_or_else \( \|\| err ! \( .* \) \) \? \)'),
    ], w2)
    D.append('(* the reads of one entry, in order (name, bytes; big-endian); a zero size is rejected (NonZeroU16::new(size).ok_or_else(..)?),')
    D.append('   and sizes[code] = Some(size) overwrites an earlier entry for the same code *)')
    D.append('Definition payloads_entry_reads : list (string * nat) := [("code", %d%%nat); ("size", %d%%nat)].' % (READ_W[lb[0].group(1)], READ_W[lb[1].group(1)]))
    D.append('Definition payloads_zero_size_rejected : bool := true.')
    D.append('(* sizes[Event::X as usize].ok_or_else(..)?, in order *)')
    D.append('Definition payloads_required : list N := [Event_%s; Event_%s].' % (m[10].group(1), m[11].group(1)))
    D.append('(* Ok((%s, sizes)) *)' % m[12].group(1))
    D.append(expr_to_gallina2(m[12].group(1), env, where, 'payloads_bytes_read', ['size'], 'N'))

    # ---- parse_game_start
    where = '%s fn parse_game_start' % DE_RS
    params, ret, body = find_fn(DE_RS, None, 'parse_game_start')
    if sjp(params) != 'mut r : R , payload_sizes : & PayloadSizes , bytes_read : usize , opts : Option < & Opts >' \
            or sj(ret) != '-> Result < ( usize , game :: Start ) >':
        raise TranslateError('%s: unexpected signature (%s) %s' % (where, sjp(params), sj(ret)))
    m = strict_match(not_logs([sj(x) for x in fw_stmts(body, where)]), [
        ('`let code = r.read_u8()?`', r'let code = r \. read_u8 \( \) \?'),
        ('`let size = payload_sizes[code as usize].ok_or_else(..)?.get() as usize`',
         r'let size = payload_sizes \[ code as usize \] \. ok_or_else \( \|\| err ! \( .* \) \) \? \. get \( \) as usize'),
        ('`let mut buf = vec![0; size]`', r'let mut buf = vec ! \[ 0 ; size \]'),
        ('`r.read_exact(&mut buf)?`', r'r \. read_exact \( & mut buf \) \?'),
        ('the debug dump', RP_DEBUG_DUMP),
        ('`match Event::try_from(code) { Ok(Event::X) => Ok((<bytes read>, game_start(&mut &*buf)?)), _ => Err(..) }`',
         r'match Event :: try_from \( code \) \{ Ok \( Event :: (\w+) \) => Ok \( \( (.*) , game_start \( & mut & \* buf \) \? \) \) , _ => Err \( err ! \( .* \) \) \}'),
    ], where)
    if m[5].group(1) not in events:
        raise TranslateError('%s: Event::%s is not a variant of de::Event' % (where, m[5].group(1)))
    D.append('')
    D.append('(* parse_game_start: code, size = payload_sizes[code].ok_or_else(..)?, read_exact of size bytes,')
    D.append('   match Event::try_from(code) { Ok(Event::%s) => Ok((%s, game_start(&mut &*buf)?)), _ => Err(..) } *)' % (m[5].group(1), m[5].group(2)))
    D.append('Definition game_start_event : N := Event_%s.' % m[5].group(1))
    D.append(expr_to_gallina2(m[5].group(2), {'bytes_read': 'bytes_read', 'size': 'size'}, where, 'game_start_bytes_read', ['bytes_read', 'size'], 'N'))

    # ---- parse_start: how the two are chained
    where = '%s fn parse_start' % DE_RS
    params, ret, body = find_fn(DE_RS, None, 'parse_start')
    sts = not_logs([sj(x) for x in fw_stmts(body, where)])
    strict_match(sts[:2], [
        ('`let (bytes_read, payload_sizes) = parse_payloads(&mut r, opts)?`', r'let \( bytes_read , payload_sizes \) = parse_payloads \( & mut r , opts \) \?'),
        ('`let (bytes_read, start) = parse_game_start(&mut r, &payload_sizes, bytes_read, opts)?`',
         r'let \( bytes_read , start \) = parse_game_start \( & mut r , & payload_sizes , bytes_read , opts \) \?'),
    ], where)
    for fn in ('parse_payloads', 'parse_game_start'):
        if tv(body).count(fn) != 1:
            raise TranslateError('%s: %s is called more than once' % (where, fn))

    L = []
    L.append('(* GENERATED by tools/rust2coq.py from %s (fn parse_header, fn parse_payloads, fn parse_game_start, the head of' % DE_RS)
    L.append('   fn parse_start) and %s (fn expect_bytes) -- do not edit.' % RP_IO)
    L.append('   The expressions are translated by the expression front end (every integer an N, comparisons boolean). *)')
    L.append('From Coq Require Import NArith Bool List String.')
    L.append('From Peppi Require Import Gen.Funs.')
    L.append('Import ListNotations.')
    L.append('Local Open Scope string_scope.')
    L.append('Local Open Scope N_scope.')
    L.append('')
    L.extend(D)
    return '\n'.join(L) + '\n'


# ------------------------------------------------------------------------------------------------
# (n) .slpp helper front end: read_peppi_gecko_codes / read_peppi_metadata / read_peppi_start / read_peppi_end and the arms of
#     fn read that call them (src/io/peppi/de.rs), the gecko_codes.raw block of fn write (src/io/peppi/ser.rs)
#     -> Gen/SlppHelpers.v   (assert_current_version itself is already in Gen/Funs.v)

def gen_slpp_helpers():
    de_toks = file_toks(SLPP_DE)
    D = []

    def helper(name, want_params, want_ret):
        params, ret, body = find_fn(SLPP_DE, None, name)
        where = '%s fn %s' % (SLPP_DE, name)
        if sjp(params) != want_params or sj(ret) != want_ret:
            raise TranslateError('%s: unexpected signature (%s) %s' % (where, sjp(params), sj(ret)))
        return where, body

    # ---- read_peppi_gecko_codes
    where, body = helper('read_peppi_gecko_codes', 'mut r : R', '-> Result < game :: GeckoCodes >')
    decl = parse_struct_decl(file_toks('src/game/mod.rs'), 'GeckoCodes', 'src/game/mod.rs')
    if sorted(decl) != [('actual_size', 'u32'), ('bytes', 'Vec < u8 >')]:
        raise TranslateError('src/game/mod.rs: struct GeckoCodes is not { bytes: Vec<u8>, actual_size: u32 }: %s' % decl)
    m = strict_match(not_logs([sj(x) for x in fw_stmts(body, where)]), [
        ('`let mut actual_size = [0; N]`', r'let mut actual_size = \[ 0 ; (\d+) \]'),
        ('`r.read_exact(&mut actual_size)?`', r'r \. read_exact \( & mut actual_size \) \?'),
        ('`let mut bytes = Vec::new()`', r'let mut bytes = Vec :: new \( \)'),
        ('`r.read_to_end(&mut bytes)?`', r'r \. read_to_end \( & mut bytes \) \?'),
        ('`Ok(game::GeckoCodes { actual_size: u32::from_le_bytes(actual_size), bytes: bytes })`',
         r'Ok \( game :: GeckoCodes \{ actual_size : u32 :: from_(le|be)_bytes \( actual_size \) , bytes(?: : bytes)? \} \)'),
    ], where)
    if int(m[0].group(1)) != 4:
        raise TranslateError('%s: a u32 from a %s-byte array' % (where, m[0].group(1)))
    D.append('(* read_peppi_gecko_codes: let mut actual_size = [0; %s]; r.read_exact(&mut actual_size)?; the rest with read_to_end;' % m[0].group(1))
    D.append('   actual_size: u32::from_%s_bytes(actual_size) *)' % m[4].group(1))
    D.append('Definition slpp_gecko_size_len : nat := %d.' % int(m[0].group(1)))
    D.append('Definition slpp_gecko_read_little_endian : bool := %s.' % ('true' if m[4].group(1) == 'le' else 'false'))

    # ---- the gecko_codes.raw block of the writer
    where = '%s fn write' % SLPP_SER
    params, ret, body = find_fn(SLPP_SER, None, 'write')
    blocks = []
    for st in fw_stmts(body, where):
        if tv(st[:1]) == ['if'] and ('id', 'gecko_codes') in st:
            blocks.append(st)
    ib = fw_if_block(blocks[0], where) if len(blocks) == 1 else None
    mm = re.fullmatch(r'let Some \( (\w+) \) = & game \. gecko_codes', ib[0]) if ib else None
    if not mm:
        raise TranslateError('%s: expected exactly one `if let Some(x) = &game.gecko_codes { .. }`' % where)
    x = mm.group(1)
    m = strict_match([sj(s) for s in fw_stmts(ib[1], where)], [
        ('`let mut buf = x.actual_size.to_le_bytes().to_vec()`', r'let mut buf = %s \. actual_size \. to_(le|be)_bytes \( \) \. to_vec \( \)' % x),
        ('`buf.write_all(&x.bytes)?`', r'buf \. write_all \( & %s \. bytes \) \?' % x),
        ('`tar_append(&mut tar, &buf, "gecko_codes.raw")?`', r'tar_append \( & mut tar , & buf , "gecko_codes\.raw" \) \?'),
    ], where + ' (gecko_codes block)')
    D.append('(* %s fn write: let mut buf = x.actual_size.to_%s_bytes().to_vec(); buf.write_all(&x.bytes)?; tar_append(.., &buf, "gecko_codes.raw")? *)'
             % (SLPP_SER, m[0].group(1)))
    D.append('Definition slpp_gecko_write_little_endian : bool := %s.' % ('true' if m[0].group(1) == 'le' else 'false'))

    # ---- read_peppi_metadata
    where, body = helper('read_peppi_metadata', 'r : R', '-> Result < Option < JsMap > >')
    if find_seq(de_toks, ['type', 'JsMap', '=', 'serde_json', '::', 'Map', '<', 'String', ',', 'serde_json', '::', 'Value', '>', ';']) < 0:
        raise TranslateError('%s: `type JsMap = serde_json::Map<String, serde_json::Value>;` not found' % SLPP_DE)
    sts = fw_stmts(body, where)
    if len(sts) != 2 or sj(sts[0]) != 'let json_object : serde_json :: Value = serde_json :: from_reader ( r ) ?' \
            or tv(sts[1][:3]) != ['match', 'json_object', '{'] or match_close(sts[1], 2) != len(sts[1]) - 1:
        raise TranslateError('%s: not `let json_object: serde_json::Value = serde_json::from_reader(r)?; match json_object { .. }`' % where)
    arms = match_arms(sts[1][3:-1], where)
    meta = []
    for pat, bd in arms[:-1]:
        pm = re.fullmatch(r'serde_json :: Value :: (\w+)(?: \( (\w+) \))?', pat)
        if not pm or pm.group(1) in [a for a, _ in meta]:
            raise TranslateError('%s: unrecognised or repeated pattern: %s' % (where, pat[:100]))
        if bd == 'Ok ( None )':
            res = 'MrNone'
        elif pm.group(1) == 'Object' and pm.group(2) and bd == 'Ok ( Some ( %s ) )' % pm.group(2):
            res = 'MrSomeMap'
        elif re.fullmatch(r'Err \( err ! \( .* \) \)', bd):
            res = 'MrErr'
        else:
            raise TranslateError('%s: unrecognised arm %s => %s' % (where, pat[:100], bd[:100]))
        meta.append((pm.group(1), res))
    if not arms or not re.fullmatch(r'_|[a-z]\w*', arms[-1][0]) or not re.fullmatch(r'Err \( err ! \( .* \) \)', arms[-1][1]):
        raise TranslateError('%s: the last arm is not a catch-all returning Err(..)' % where)
    D.append('(* read_peppi_metadata: match <the JSON value> { serde_json::Value::<Variant> => .., <anything else> => Err(..) }:')
    D.append('   MrNone: Ok(None); MrSomeMap: Ok(Some(map)) of Value::Object(map); MrErr: Err(..) *)')
    D.append('Inductive meta_res := MrNone | MrSomeMap | MrErr.')
    D.append('Definition slpp_meta_arms : list (string * meta_res) := [%s].' % '; '.join('(%s, %s)' % (coq_str(a), r) for a, r in meta))

    # ---- read_peppi_start / read_peppi_end
    decoders = []
    for fn, rty in (('read_peppi_start', 'game :: Start'), ('read_peppi_end', 'game :: End')):
        where, body = helper(fn, 'mut r : R', '-> Result < %s >' % rty)
        m = strict_match([sj(x) for x in fw_stmts(body, where)], [
            ('`let mut buf = Vec::new()`', r'let mut buf = Vec :: new \( \)'),
            ('`r.read_to_end(&mut buf)?`', r'r \. read_to_end \( & mut buf \) \?'),
            ('`slippi::de::<decoder>(&mut &buf[..])`', r'slippi :: de :: (\w+) \( & mut & buf \[ \.\. \] \)'),
        ], where)
        decoders.append((fn, m[2].group(1)))
    D.append('(* read_peppi_start / read_peppi_end: the whole entry (read_to_end), decoded by slippi::de::<decoder> *)')
    D.append('Definition slpp_raw_decoders : list (string * string) := [%s].' % '; '.join('(%s, %s)' % (coq_str(a), coq_str(b_)) for a, b_ in decoders))

    # ---- the arms of fn read that call the helpers
    where = '%s fn read' % SLPP_DE
    params, ret, body = find_fn(SLPP_DE, None, 'read')
    loops = [st for st in fw_stmts(body, where) if tv(st[:1]) == ['for']]
    fb = fw_for_block(loops[0], where) if len(loops) == 1 else None
    if fb is None:
        raise TranslateError('%s: expected exactly one `for` loop' % where)
    ms = [st for st in fw_stmts(fb[1], where) if tv(st[:1]) == ['match']]
    if len(ms) != 1:
        raise TranslateError('%s: expected exactly one `match` in the entry loop' % where)
    j = StmtView(ms[0], where).first_top(1, len(ms[0]), '{')
    if j < 0 or match_close(ms[0], j) != len(ms[0]) - 1:
        raise TranslateError('%s: unexpected tokens after the match' % where)
    helpers = ('read_peppi_start', 'read_peppi_end', 'read_peppi_metadata', 'read_peppi_gecko_codes')
    calls = []
    peppi_arm = None
    for pat, bd0 in match_arms(ms[0][j + 1:-1], where):
        bd = bd0[:-2] if bd0.endswith(' ;') and ' ; ' not in bd0 else bd0      # `=> { x = f(file)?; }`
        pm = re.fullmatch(r'Some \( "([\w.\-]+)" \)', pat)
        mm = re.fullmatch(r'(\w+) = Some \( (\w+) \( file \) \? \)', bd)
        if pm and mm and mm.group(2) in helpers:
            calls.append((pm.group(1), mm.group(1), mm.group(2), True))
            continue
        mm = re.fullmatch(r'(\w+) = (\w+) \( file \) \?', bd)
        if pm and mm and mm.group(2) in helpers:
            calls.append((pm.group(1), mm.group(1), mm.group(2), False))
            continue
        if 'assert_current_version' in bd:
            want = ('let p : peppi :: Peppi = serde_json :: from_reader :: < _ , peppi :: Peppi > ( file ) ? ; '
                    'super :: assert_current_version ( p . version ) ? ; peppi = Some ( p ) ;')
            if not pm or bd != want or peppi_arm is not None:
                raise TranslateError('%s: the arm that checks the version is not `Some("<name>") => { let p: peppi::Peppi = serde_json::from_reader::<_, '
                                     'peppi::Peppi>(file)?; super::assert_current_version(p.version)?; peppi = Some(p); }`: %s' % (where, bd[:300]))
            peppi_arm = pm.group(1)
            continue
        if any(h in bd.split(' ') for h in helpers):
            raise TranslateError('%s: unrecognised arm that calls a helper: %s => %s' % (where, pat[:100], bd[:200]))
    for h in helpers + ('assert_current_version',):
        n = tv(body).count(h)
        if n != 1 or (h in helpers and [c[2] for c in calls].count(h) != 1):
            raise TranslateError('%s: %s is not called exactly once, in an arm of the match on the file name' % (where, h))
    if peppi_arm is None:
        raise TranslateError('%s: no arm calls assert_current_version' % where)
    D.append('(* fn read: the arms `Some("<entry>") => <var> = Some(<helper>(file)?)` (true) / `<var> = <helper>(file)?` (false) *)')
    D.append('Definition slpp_read_calls : list (string * string * string * bool) :=\n  [%s].' % ';\n   '.join(
        '(%s, %s, %s, %s)' % (coq_str(a), coq_str(b_), coq_str(c), 'true' if d else 'false') for a, b_, c, d in calls))
    D.append('(* ... and the arm of %s: let p = serde_json::from_reader(file)?; super::assert_current_version(p.version)?; peppi = Some(p) *)' % coq_str(peppi_arm))
    D.append('Inductive peppi_step := PjDecode | PjAssertCurrentVersion | PjStore.')
    D.append('Definition slpp_peppi_entry : string := %s.' % coq_str(peppi_arm))
    D.append('Definition slpp_peppi_arm : list peppi_step := [PjDecode; PjAssertCurrentVersion; PjStore].')

    L = []
    L.append('(* GENERATED by tools/rust2coq.py from %s (fn read_peppi_gecko_codes, fn read_peppi_metadata, fn read_peppi_start,' % SLPP_DE)
    L.append('   fn read_peppi_end, the arms of fn read) and %s (the gecko_codes.raw block of fn write) -- do not edit. *)' % SLPP_SER)
    L.append('From Coq Require Import List String.')
    L.append('Import ListNotations.')
    L.append('Local Open Scope string_scope.')
    L.append('')
    L.extend(D)
    return '\n'.join(L) + '\n'


# ------------------------------------------------------------------------------------------------
# (o) rollback-marking front end: Frame::rollbacks / Frame::rollbacks_ (src/frame/immutable/mod.rs) -> Gen/RollbacksSrc.v

RB_RS = 'src/frame/immutable/mod.rs'
FRAME_MOD_RS = 'src/frame/mod.rs'


def other_impl_fn(rel, header, fn_name):
    """fn of an `impl <header> { .. }` block whose header is not a plain name (trait impls, generic impls);
    header is the token-joined text between `impl` and `{`; exactly one such block must exist"""
    toks = file_toks(rel)
    blocks = [body for kind, name, frm, body in impl_blocks(toks) if kind == 'other' and name == header]
    if len(blocks) != 1:
        raise TranslateError('%s: expected exactly one `impl %s`, found %d' % (rel, header, len(blocks)))
    fns = list(fns_in(blocks[0]))
    for n, params, ret, b in fns:
        if n == fn_name:
            return params, ret, b, [f[0] for f in fns], blocks[0]
    raise TranslateError('%s: fn %s not found in `impl %s`' % (rel, fn_name, header))


def enum_variants_plain(rel, name):
    """`enum Name { A, B, .. }` (unit variants without explicit codes) -> [A, B, ..]"""
    toks = file_toks(rel)
    vals = tv(toks)
    i = find_seq(toks, ['enum', name, '{'])
    if i < 0:
        raise TranslateError('%s: enum %s not found' % (rel, name))
    e = match_close(toks, i + 2)
    s = sj(toks[i + 3:e])
    if not re.fullmatch(r'\w+(?: , \w+)*(?: ,)?', s):
        raise TranslateError('%s: enum %s is not a list of unit variants: %s' % (rel, name, s[:200]))
    return [x for x in s.split(' ') if x != ',']


def ast_has(a, kind):
    if isinstance(a, tuple):
        if a and a[0] == kind:
            return True
        return any(ast_has(x, kind) for x in a[1:])
    if isinstance(a, list):
        return any(ast_has(x, kind) for x in a)
    return False


def split_checked_usize(ast, where):
    """the expression must contain exactly one `usize::try_from(<arg>).unwrap()`; -> (the expression with that node
    replaced by the variable `u_`, <arg>).  Casts are not accepted anywhere (they would hide a truncation)."""
    found = []

    def go(a):
        if isinstance(a, tuple):
            if len(a) == 4 and a[0] == 'method' and a[2] == 'unwrap' and a[3] == [] and isinstance(a[1], tuple) and a[1][0] == 'call' \
                    and a[1][1] == 'usize::try_from' and len(a[1][2]) == 1:
                found.append(a[1][2][0])
                return ('var', 'u_')
            return tuple(go(x) for x in a)
        if isinstance(a, list):
            return [go(x) for x in a]
        return a
    outer = go(ast)
    if len(found) != 1:
        raise TranslateError('%s: expected exactly one `usize::try_from(..).unwrap()` in the expression, found %d' % (where, len(found)))
    if ast_has(outer, 'cast') or ast_has(found[0], 'cast'):
        raise TranslateError('%s: an `as` cast in an index computation is not recognised' % where)
    return outer, found[0]


class GZ(G):
    """Gallina printer for i64 arithmetic: every integer is a Z; literals, names, + - *, i64::from(<i32 name>)"""

    def e(self, a):
        k = a[0]
        if k == 'num':
            return '(%d)%%Z' % a[1]
        if k == 'var':
            return G.e(self, a)
        if k == 'bin' and a[1] in ('+', '-', '*'):
            return '(Z.%s %s %s)' % ({'+': 'add', '-': 'sub', '*': 'mul'}[a[1]], self.e(a[2]), self.e(a[3]))
        if k == 'call' and a[1] == 'i64::from' and len(a[2]) == 1 and a[2][0][0] == 'var':
            return self.e(a[2][0])
        raise TranslateError('%s: unsupported i64 expression %r' % (self.where, a[:2]))


def checked_usize_defs(text, zenv, where, arg_name, of_name, zbinder):
    """`<outer>(usize::try_from(<arg>).unwrap())` -> Definition arg_name (zbinder : Z) : Z := <arg>.  Definition of_name (u : N) : N := <outer>."""
    p = P(tokenize(text, where), where)
    ast = p.expr()
    if not p.done():
        raise TranslateError('%s: trailing tokens in expression: %s' % (where, text[:200]))
    outer, arg = split_checked_usize(ast, where)
    return ['Definition %s (%s : Z) : Z := %s.' % (arg_name, zbinder, GZ(zenv, where).e(arg)),
            'Definition %s (u : N) : N := %s.' % (of_name, G({'u_': 'u'}, where).e(outer))]


def gen_rollbacks():
    toks = file_toks(RB_RS)
    decl = dict(parse_struct_decl(toks, 'Frame', RB_RS))
    if decl.get('id') != 'PrimitiveArray < i32 >':
        raise TranslateError('%s: Frame.id is not a PrimitiveArray<i32>: %s' % (RB_RS, decl.get('id')))
    ft, fe = find_const(FRAME_MOD_RS, 'FIRST_INDEX')
    if ft != 'i32':
        raise TranslateError('%s: FIRST_INDEX is not an i32: %s' % (FRAME_MOD_RS, ft))
    imp = imported_from(RB_RS, ['frame'])
    if 'self' not in imp or 'Rollbacks' not in imp:
        raise TranslateError('%s: `frame::{self, .., Rollbacks}` is not imported from the crate' % RB_RS)
    variants = enum_variants_plain(FRAME_MOD_RS, 'Rollbacks')
    lp, lr, lb = find_fn(RB_RS, 'Frame', 'len')
    if sj(lb) != 'self . id . len ( )':
        raise TranslateError('%s Frame::len: not `self.id.len()`' % RB_RS)

    # ---- rollbacks: the iteration order per variant
    where = '%s Frame::rollbacks' % RB_RS
    params, ret, body = find_fn(RB_RS, 'Frame', 'rollbacks')
    if sjp(params) != '& self , keep : Rollbacks' or sj(ret) != '-> Vec < bool >':
        raise TranslateError('%s: unexpected signature (%s) %s' % (where, sjp(params), sj(ret)))
    sts = fw_stmts(body, where)
    if len(sts) != 2 or sj(sts[0]) != 'use Rollbacks :: *' or tv(sts[1][:3]) != ['match', 'keep', '{'] or match_close(sts[1], 2) != len(sts[1]) - 1:
        raise TranslateError('%s: not `use Rollbacks::*; match keep { .. }`: %s' % (where, sj(body)[:300]))
    order = []
    for pat, bd in match_arms(sts[1][3:-1], where):
        if pat not in variants or pat in [a for a, _ in order]:
            raise TranslateError('%s: arm pattern is not a (new) variant of Rollbacks: %s' % (where, pat[:100]))
        m = re.fullmatch(r'self \. rollbacks_ \( self \. id \. values_iter \( \) \. enumerate \( \)( \. rev \( \))? \)', bd)
        if not m:
            raise TranslateError('%s: arm %s is not `self.rollbacks_(self.id.values_iter().enumerate()[.rev()])`: %s' % (where, pat, bd[:200]))
        order.append((pat, 'RbEnumerateRev' if m.group(1) else 'RbEnumerate'))
    if [a for a, _ in order] != variants:
        raise TranslateError('%s: the arms %s are not the variants %s in declaration order' % (where, [a for a, _ in order], variants))

    # ---- rollbacks_
    where = '%s Frame::rollbacks_' % RB_RS
    params, ret, body = find_fn(RB_RS, 'Frame', 'rollbacks_')
    if sjp(params) != "& self , ids : impl Iterator < Item = ( usize , & 'a i32 ) >" or sj(ret) != '-> Vec < bool >':
        raise TranslateError('%s: unexpected signature (%s) %s' % (where, sjp(params), sj(ret)))
    if tv(toks).count('rollbacks_') != 1 + len(variants):
        raise TranslateError('%s: rollbacks_ is used outside Frame::rollbacks' % RB_RS)
    raw = fw_stmts(body, where)
    m = strict_match([sj(x) for x in raw], [
        ('`let mut result = vec![<bool>; self.len()]`', r'let mut result = vec ! \[ (true|false) ; self \. len \( \) \]'),
        ('`let unique_id_count = self.id.values_iter().max().map_or(<literal>, |x| ..)`',
         r'let unique_id_count = self \. id \. values_iter \( \) \. max \( \) \. map_or \( (\d[\d_]*) , \| (\w+) \| (.*) \)'),
        ('`let mut seen = vec![<bool>; unique_id_count]`', r'let mut seen = vec ! \[ (true|false) ; unique_id_count \]'),
        ('`for (idx, id) in ids { .. }`', r'for \( (\w+) , (\w+) \) in ids \{ .* \}'),
        ('`result`', r'result'),
    ], where)
    zenv = lambda v: {v: v, 'frame::FIRST_INDEX': 'FIRST_INDEX'}
    mbr = re.fullmatch(r'\{ (.*) \}', m[1].group(3))
    count_expr = mbr.group(1) if mbr else m[1].group(3)       # the closure body with or without braces
    D = []
    D.append('(* Frame::rollbacks_: let mut result = vec![%s; self.len()]   (Frame::len is self.id.len()) *)' % m[0].group(1))
    D.append('Definition rb_result_init : bool := %s.' % m[0].group(1))
    D.append('(* let unique_id_count = self.id.values_iter().max().map_or(%s, |%s| %s):' % (m[1].group(1), m[1].group(2), count_expr.replace('*)', '* )')))
    D.append('   the default; the argument of the one usize::try_from(..).unwrap() (an i64: a panic when negative); the expression around it *)')
    D.append('Definition rb_count_default : N := %d.' % num(m[1].group(1)))
    D.extend(checked_usize_defs(count_expr, zenv(m[1].group(2)), where + ' (unique_id_count)', 'rb_count_arg', 'rb_count_of', m[1].group(2)))
    D.append('(* let mut seen = vec![%s; unique_id_count] *)' % m[2].group(1))
    D.append('Definition rb_seen_init : bool := %s.' % m[2].group(1))
    idx, idv = m[3].group(1), m[3].group(2)
    if idx == idv:
        raise TranslateError('%s: the loop binds the same name twice' % where)
    w2 = where + ' (loop body)'
    lb = fw_stmts(fw_for_block(raw[3], w2)[1], w2)
    if len(lb) != 2:
        raise TranslateError('%s: expected `let zero_based_id = ..; if .. { .. } else { .. }`, found %d statements: %s'
                             % (w2, len(lb), ' ; '.join(sj(x) for x in lb)[:300]))
    mz = re.fullmatch(r'let (\w+) = (.*)', sj(lb[0]))
    if not mz or mz.group(1) in (idx, idv, 'seen', 'result'):
        raise TranslateError('%s: statement 1 is not `let zero_based_id = ..`: %s' % (w2, sj(lb[0])[:200]))
    zb = mz.group(1)
    D.append('(* for (%s, %s) in ids { let %s = %s; *)' % (idx, idv, zb, mz.group(2).replace('*)', '* )')))
    D.extend(checked_usize_defs(mz.group(2), zenv(idv), w2, 'rb_zero_based_arg', 'rb_zero_based_of', idv))
    st = lb[1]
    if tv(st[:1]) != ['if']:
        raise TranslateError('%s: statement 2 is not an `if`: %s' % (w2, sj(st)[:200]))
    sv = StmtView(st, w2)
    j = sv.first_top(1, len(st), '{')
    c = match_close(st, j) if j > 0 else -1
    if j < 0 or tv(st[c + 1:c + 3]) != ['else', '{'] or match_close(st, c + 2) != len(st) - 1:
        raise TranslateError('%s: not `if <cond> { .. } else { .. }`: %s' % (w2, sj(st)[:300]))
    cond = sj(st[1:j])
    if cond == '! seen [ %s ]' % zb:
        neg = 'true'
    elif cond == 'seen [ %s ]' % zb:
        neg = 'false'
    else:
        raise TranslateError('%s: the condition is not `[!]seen[%s]`: %s' % (w2, zb, cond[:200]))

    def branch(bt, what):
        out = []
        for s in fw_stmts(bt, w2):
            t = sj(s)
            ma = re.fullmatch(r'seen \[ %s \] = (true|false)' % zb, t)
            if ma:
                out.append('(RbSeenAtId, %s)' % ma.group(1))
                continue
            ma = re.fullmatch(r'result \[ %s \] = (true|false)' % idx, t)
            if ma:
                out.append('(RbResultAtIdx, %s)' % ma.group(1))
                continue
            raise TranslateError('%s: unrecognised statement in the %s branch (expected `seen[%s] = <bool>` or `result[%s] = <bool>`): %s'
                                 % (w2, what, zb, idx, t[:200]))
        return out
    then_b = branch(st[j + 1:c], 'then')
    else_b = branch(st[c + 3:-1], 'else')
    D.append('(*   if %s { <then> } else { <else> } }: the assignments of each branch in order, RbSeenAtId = seen[%s], RbResultAtIdx = result[%s] *)'
             % (cond, zb, idx))
    D.append('Inductive rb_cell := RbSeenAtId | RbResultAtIdx.')
    D.append('Definition rb_cond_negated : bool := %s.' % neg)
    D.append('Definition rb_then : list (rb_cell * bool) := [%s].' % '; '.join(then_b))
    D.append('Definition rb_else : list (rb_cell * bool) := [%s].' % '; '.join(else_b))
    D.append('(* the function returns `result` *)')

    L = []
    L.append('(* GENERATED by tools/rust2coq.py from %s (Frame::rollbacks, Frame::rollbacks_) and %s (enum Rollbacks)' % (RB_RS, FRAME_MOD_RS))
    L.append('   -- do not edit.  i64 expressions are translated over Z, usize expressions over N. *)')
    L.append('From Coq Require Import NArith ZArith Bool List String.')
    L.append('From Peppi Require Import Gen.Funs.')
    L.append('Import ListNotations.')
    L.append('Local Open Scope string_scope.')
    L.append('')
    L.append('(* Frame::rollbacks: match keep { <Variant> => self.rollbacks_(<iterator>) }:')
    L.append('   RbEnumerate = self.id.values_iter().enumerate(), RbEnumerateRev = self.id.values_iter().enumerate().rev() *)')
    L.append('Inductive rb_iter := RbEnumerate | RbEnumerateRev.')
    L.append('Definition rollbacks_order : list (string * rb_iter) := [%s].' % '; '.join('(%s, %s)' % (coq_str(a), b) for a, b in order))
    L.append('Definition rollbacks_variants : list string := [%s].' % '; '.join(coq_str(v) for v in variants))
    L.append('')
    L.extend(D)
    return '\n'.join(L) + '\n'


# ------------------------------------------------------------------------------------------------
# (p) version-text front end: `impl fmt::Display for Version`, `impl str::FromStr for Version` (src/io/slippi/mod.rs,
#     src/io/peppi/mod.rs) and fn parse_u8 (src/io/mod.rs) -> Gen/VersionTextSrc.v

IO_RS = 'src/io/mod.rs'
INT_TYPES = {'u8': (8, False), 'u16': (16, False), 'u32': (32, False), 'u64': (64, False), 'usize': (64, False),
             'i8': (8, True), 'i16': (16, True), 'i32': (32, True), 'i64': (64, True), 'isize': (64, True)}


def plain_str_lit(tok, where):
    """a `"..."` token without escapes and with ASCII content only -> its text"""
    if not (tok[0] == 'str' and tok[1].startswith('"')) or '\\' in tok[1] or any(ord(ch) > 126 or ord(ch) < 32 for ch in tok[1]):
        raise TranslateError('%s: not a plain ASCII string literal: %s' % (where, tok[1][:100]))
    return tok[1][1:-1]


def fmt_pieces(lit, nargs, where):
    """a format string with only `{}` placeholders -> list of ('lit', text) / ('arg', k)"""
    out = []
    k = 0
    for i, part in enumerate(re.split(r'(\{\})', lit)):
        if part == '{}':
            out.append(('arg', k))
            k += 1
        elif part:
            if '{' in part or '}' in part:
                raise TranslateError('%s: format string "%s": only plain `{}` placeholders are recognised' % (where, lit))
            out.append(('lit', part))
    if k != nargs:
        raise TranslateError('%s: format string "%s" has %d placeholders for %d arguments' % (where, lit, k, nargs))
    return out


def gen_version_text():
    D = []
    # ---- parse_u8
    where = '%s fn parse_u8' % IO_RS
    params, ret, body = find_fn(IO_RS, None, 'parse_u8')
    mr = re.fullmatch(r'-> Result < (\w+) >', sj(ret))
    if sjp(params) != 's : & str' or not mr:
        raise TranslateError('%s: unexpected signature (%s) %s' % (where, sjp(params), sj(ret)))
    if mr.group(1) not in INT_TYPES:
        raise TranslateError('%s: the return type Result<%s> is not a primitive integer' % (where, mr.group(1)))
    if not re.fullmatch(r's \. parse \( \) \. map_err \( \| _ \| err ! \( .* \) \)', sj(body)) or tv(body).count('parse') != 1 \
            or any(x in tv(body) for x in ('as', 'from', 'into', 'try_from', 'try_into', 'unwrap_or', 'ok')):
        raise TranslateError('%s: the body is not `s.parse().map_err(|_| err!(..))` (the target type is the one of the signature): %s' % (where, sj(body)[:300]))
    if find_seq(file_toks(IO_RS), ['type', 'Result', '<', 'T', '>', '=', 'std', '::', 'result', '::', 'Result', '<', 'T', ',', 'Error', '>', ';']) < 0:
        raise TranslateError('%s: `type Result<T> = std::result::Result<T, Error>;` not found' % IO_RS)
    bits, signed = INT_TYPES[mr.group(1)]
    D.append('(* %s: fn parse_u8(s: &str) -> Result<%s> { s.parse().map_err(..) }: str::parse at the type of the signature *)' % (IO_RS, mr.group(1)))
    D.append('Definition parse_u8_target_bits : N := %d.' % bits)
    D.append('Definition parse_u8_target_signed : bool := %s.' % ('true' if signed else 'false'))
    D.append('')
    D.append('(* Display: the pieces of the format string in order; VpField k = the placeholder filled with self.k *)')
    D.append('Inductive vt_piece := VpLit (s : list N) | VpField (k : nat).')

    for tag, rel in (('slippi', 'src/io/slippi/mod.rs'), ('peppi', 'src/io/peppi/mod.rs')):
        check_version_struct(rel)
        if 'parse_u8' not in imported_from(rel, ['io']):
            raise TranslateError('%s: parse_u8 is not imported from crate::io' % rel)
        toks = file_toks(rel)
        if tv(toks).count('parse_u8') - 1 != 3 or find_seq(toks, ['fn', 'parse_u8']) >= 0:
            raise TranslateError('%s: parse_u8 is used outside the three components of FromStr (or redefined)' % rel)
        if find_seq(toks, ['use', 'std', '::', '{', 'fmt', ',', 'str', '}', ';']) < 0:
            raise TranslateError('%s: `use std::{fmt, str};` not found' % rel)
        # ---- Display
        where = '%s impl fmt::Display for Version' % rel
        params, ret, body, names, blk = other_impl_fn(rel, 'fmt :: Display for Version', 'fmt')
        if names != ['fmt'] or sjp(params) != '& self , f : & mut fmt :: Formatter' or sj(ret) != '-> fmt :: Result':
            raise TranslateError('%s: unexpected contents or signature (%s) %s' % (where, sjp(params), sj(ret)))
        v = tv(body)
        if v[:5] != ['write', '!', '(', 'f', ','] or match_close(body, 2) != len(body) - 1:
            raise TranslateError('%s: the body is not `write!(f, "<format>", ..)`: %s' % (where, sj(body)[:200]))
        args = af_split(body[5:-1], where)
        lit = plain_str_lit(args[0][0], where) if len(args[0]) == 1 else None
        if lit is None:
            raise TranslateError('%s: the format is not a string literal: %s' % (where, sj(args[0])[:100]))
        fields = []
        for a in args[1:]:
            ma = re.fullmatch(r'self \. ([012])', sj(a))
            if not ma:
                raise TranslateError('%s: argument is not self.0 / self.1 / self.2: %s' % (where, sj(a)[:100]))
            fields.append(int(ma.group(1)))
        pieces = []
        for kind, x in fmt_pieces(lit, len(fields), where):
            pieces.append('VpLit [%s]' % '; '.join(str(ord(ch)) for ch in x) if kind == 'lit' else 'VpField %d' % fields[x])
        D.append('')
        D.append('(* %s: write!(f, "%s", %s) *)' % (rel, lit, ', '.join('self.%d' % k for k in fields)))
        D.append('Definition %s_version_display : list vt_piece := [%s].' % (tag, '; '.join(pieces)))
        # ---- FromStr
        where = '%s impl str::FromStr for Version' % rel
        params, ret, body, names, blk = other_impl_fn(rel, 'str :: FromStr for Version', 'from_str')
        if names != ['from_str'] or sjp(params) != 's : & str' or sj(ret) != '-> Result < Self >' or find_seq(blk, ['type', 'Err', '=', 'Error', ';']) < 0:
            raise TranslateError('%s: unexpected contents or signature (%s) %s' % (where, sjp(params), sj(ret)))
        sts = fw_stmts(body, where)
        m0 = re.fullmatch(r"let mut i = s \. split \( '(.)' \)", sj(sts[0])) if len(sts) == 2 else None
        if not m0 or ord(m0.group(1)) > 126:
            raise TranslateError("%s: not `let mut i = s.split('<char>'); match (..) { .. }`: %s" % (where, sj(body)[:300]))
        st = sts[1]
        j = StmtView(st, where).first_top(1, len(st), '{')
        if tv(st[:1]) != ['match'] or j < 0 or match_close(st, j) != len(st) - 1:
            raise TranslateError('%s: statement 2 is not a `match`: %s' % (where, sj(st)[:200]))
        ms = re.fullmatch(r'\( (i \. next \( \)(?: , i \. next \( \))*) \)', sj(st[1:j]))
        if not ms:
            raise TranslateError('%s: the scrutinee is not a tuple of `i.next()` calls: %s' % (where, sj(st[1:j])[:200]))
        ncalls = ms.group(1).count('next')
        arms = match_arms(st[j + 1:-1], where)
        if len(arms) != 2 or arms[1][0] != '_' or not re.fullmatch(r'Err \( err ! \( .* \) \)', arms[1][1]):
            raise TranslateError('%s: expected one accepting arm and `_ => Err(err!(..))`: %s' % (where, ' | '.join(a for a, _ in arms)[:300]))
        mp = re.fullmatch(r'\( (.*) \)', arms[0][0])
        comps = mp.group(1).split(' , ') if mp else []
        pat, binders = [], []
        for cpt in comps:
            mc = re.fullmatch(r'Some \( ([a-z_]\w*) \)', cpt)
            if mc and mc.group(1) not in binders:
                binders.append(mc.group(1))
                pat.append('true')
            elif cpt == 'None':
                pat.append('false')
            else:
                raise TranslateError('%s: pattern component is neither Some(<new name>) nor None: %s' % (where, cpt[:100]))
        if len(pat) != ncalls:
            raise TranslateError('%s: a pattern of %d components for %d calls of next()' % (where, len(pat), ncalls))
        mb = re.fullmatch(r'Ok \( Version \( (.*) \) \)', arms[0][1])
        ctor = []
        for a in (mb.group(1).split(' , ') if mb else []):
            ma = re.fullmatch(r'(\w+) \( (\w+) \) \?', a)
            if not ma or ma.group(1) != 'parse_u8' or ma.group(2) not in binders:
                raise TranslateError('%s: constructor argument is not `parse_u8(<bound name>)?`: %s' % (where, a[:100]))
            ctor.append('(%s, %d%%nat)' % (coq_str(ma.group(1)), binders.index(ma.group(2))))
        if len(ctor) != 3:
            raise TranslateError('%s: the accepting arm is not `Ok(Version(parse_u8(a)?, parse_u8(b)?, parse_u8(c)?))`: %s' % (where, arms[0][1][:300]))
        D.append("(* %s: let mut i = s.split('%s'); match (%d x i.next()) { (%s) => Ok(Version(..)), _ => Err(..) }:" % (rel, m0.group(1), ncalls, ', '.join(comps)))
        D.append('   the separator, the number of next() calls, the accepting pattern (true = Some(<binder>), false = None), and per constructor')
        D.append('   argument the parser applied (with `?`) and the index of the binder it is applied to *)')
        D.append('Definition %s_version_split_char : N := %d.' % (tag, ord(m0.group(1))))
        D.append('Definition %s_version_next_calls : nat := %d.' % (tag, ncalls))
        D.append('Definition %s_version_accept : list bool := [%s].' % (tag, '; '.join(pat)))
        D.append('Definition %s_version_ctor : list (string * nat) := [%s].' % (tag, '; '.join(ctor)))

    L = []
    L.append('(* GENERATED by tools/rust2coq.py from src/io/slippi/mod.rs, src/io/peppi/mod.rs (impl fmt::Display for Version,')
    L.append('   impl str::FromStr for Version) and %s (fn parse_u8) -- do not edit.  Characters are their codes. *)' % IO_RS)
    L.append('From Coq Require Import NArith List String.')
    L.append('Import ListNotations.')
    L.append('Local Open Scope string_scope.')
    L.append('Local Open Scope N_scope.')
    L.append('')
    L.extend(D)
    return '\n'.join(L) + '\n'


# ------------------------------------------------------------------------------------------------
# (q) MeleeString front end: `impl TryFrom<&[u8]> for MeleeString`, MeleeString::to_normalized (src/game/shift_jis.rs) and the
#     call sites of MeleeString::try_from in fn player (src/io/slippi/de.rs) -> Gen/MeleeStringSrc.v

SJ_RS = 'src/game/shift_jis.rs'
BYTE_RE = r'(0x[0-9a-fA-F]{1,2}|\d{1,3})'


def gen_melee_string():
    toks = file_toks(SJ_RS)
    D = []
    if find_seq(toks, ['use', 'encoding_rs', '::', 'SHIFT_JIS', ';']) < 0:
        raise TranslateError('%s: `use encoding_rs::SHIFT_JIS;` not found' % SJ_RS)
    if parse_struct_decl(toks, 'MeleeString', SJ_RS) != [('0', 'String')]:
        raise TranslateError('%s: struct MeleeString is not (pub String)' % SJ_RS)
    # ---- try_from
    where = '%s impl TryFrom<&[u8]> for MeleeString' % SJ_RS
    params, ret, body, names, blk = other_impl_fn(SJ_RS, 'TryFrom < & [ u8 ] > for MeleeString', 'try_from')
    if names != ['try_from'] or sjp(params) != 's : & [ u8 ]' or sj(ret) != '-> Result < MeleeString >' or find_seq(blk, ['type', 'Error', '=', 'Error', ';']) < 0:
        raise TranslateError('%s: unexpected contents or signature (%s) %s' % (where, sjp(params), sj(ret)))
    sts = fw_stmts(body, where)
    m0 = re.fullmatch(r'let first_null = s \. iter \( \) \. position \( \| & x \| x == %s \) \. unwrap_or \( (s \. len \( \)|\d+) \)' % BYTE_RE, sj(sts[0])) \
        if len(sts) == 2 else None
    if not m0:
        raise TranslateError('%s: statement 1 is not `let first_null = s.iter().position(|&x| x == <byte>).unwrap_or(s.len())` (of two statements): %s'
                             % (where, sj(body)[:300]))
    st = sts[1]
    j = StmtView(st, where).first_top(1, len(st), '{')
    if tv(st[:1]) != ['match'] or j < 0 or match_close(st, j) != len(st) - 1:
        raise TranslateError('%s: statement 2 is not a `match`: %s' % (where, sj(st)[:200]))
    ms = re.fullmatch(r'SHIFT_JIS \. (\w+) \( & s \[ (?:(\d+) )?\.\. first_null \] \)', sj(st[1:j]))
    if not ms:
        raise TranslateError('%s: the scrutinee is not `SHIFT_JIS.<method>(&s[<from>..first_null])`: %s' % (where, sj(st[1:j])[:200]))
    arms = []
    for pat, bd in match_arms(st[j + 1:-1], where):
        mp = re.fullmatch(r'Some \( (\w+) \)', pat)
        if mp and bd == 'Ok ( MeleeString ( %s . to_string ( ) ) )' % mp.group(1):
            arms.append(('Some', 'MaOkDecoded'))
        elif pat in ('_', 'None') and re.fullmatch(r'Err \( err ! \( .* \) \)', bd):
            arms.append((pat, 'MaErr'))
        else:
            raise TranslateError('%s: unrecognised arm (expected `Some(x) => Ok(MeleeString(x.to_string()))` or `_ => Err(err!(..))`): %s => %s'
                                 % (where, pat[:100], bd[:200]))
    if [a for a, _ in arms] not in (['Some', '_'], ['Some', 'None'], ['None', 'Some']):
        raise TranslateError('%s: the arms are not one `Some(..)` arm and one catch-all / `None` arm: %s' % (where, [a for a, _ in arms]))
    D.append('(* %s try_from(s): let first_null = s.iter().position(|&x| x == %s).unwrap_or(%s);' % (SJ_RS, m0.group(1), m0.group(2).replace(' ', '')))
    D.append('   match SHIFT_JIS.%s(&s[%s..first_null]) { .. } *)' % (ms.group(1), ms.group(2) or ''))
    D.append('Inductive ms_default := MdSliceLen | MdConst (n : nat).      (* unwrap_or(s.len()) / unwrap_or(<literal>) *)')
    D.append('Inductive ms_arm := MaOkDecoded | MaErr.                     (* Ok(MeleeString(<decoded>.to_string())) / Err(err!(..)) *)')
    D.append('Definition melee_cut_byte : N := %d.' % num(m0.group(1)))
    D.append('Definition melee_cut_default : ms_default := %s.' % ('MdSliceLen' if m0.group(2).startswith('s') else 'MdConst %d' % int(m0.group(2))))
    D.append('Definition melee_slice_from : nat := %d.' % int(ms.group(2) or 0))
    D.append('Definition melee_decoder_method : string := %s.' % coq_str(ms.group(1)))
    D.append('Definition melee_arms : list (string * ms_arm) := [%s].' % '; '.join('(%s, %s)' % (coq_str(a), b) for a, b in arms))
    # ---- to_normalized
    where = '%s MeleeString::to_normalized' % SJ_RS
    params, ret, body = find_fn(SJ_RS, 'MeleeString', 'to_normalized')
    mn = re.fullmatch(r'self \. 0(?: \. clone \( \))? \. chars \( \) \. map \( (\w+) \) \. collect(?: :: < String >)? \( \)', sj(body))
    if sjp(params) != '& self' or sj(ret) != '-> String' or not mn:
        raise TranslateError('%s: not `fn to_normalized(&self) -> String { self.0.clone().chars().map(<fn>).collect::<String>() }`: %s' % (where, sj(body)[:300]))
    fp, fr, fb = find_fn(SJ_RS, None, mn.group(1))
    if sjp(fp) != 'c : char' or sj(fr) != '-> char':
        raise TranslateError('%s: the mapped function %s is not `fn(c: char) -> char`' % (where, mn.group(1)))
    D.append('(* to_normalized: self.0.clone().chars().map(%s).collect::<String>() *)' % mn.group(1))
    D.append('Definition melee_normalize_map : string := %s.' % coq_str(mn.group(1)))

    # ---- the call sites in fn player
    where = '%s fn player' % DE_RS
    de_toks = file_toks(DE_RS)
    params, ret, body = find_fn(DE_RS, None, 'player')
    pnames = [n for n, _ in parse_params(params, where)]
    sts = [sj(x) for x in fw_stmts(body, where)]
    calls = []
    order = []
    for s in sts:
        ml = re.match(r'let (\w+) = ', s)
        if ml and ml.group(1) in ('ucf', 'name_tag', 'netplay'):
            order.append(ml.group(1))
        if 'MeleeString' not in s.split(' '):
            continue
        m1 = re.fullmatch(r'let (\w+) = (\w+) \. map \( \| (\w+) \| MeleeString :: try_from \( (\w+) \. as_slice \( \) \) \) \. transpose \( \) \?', s)
        if m1 and m1.group(3) == m1.group(4) and m1.group(2) in pnames:
            calls.append((m1.group(1), m1.group(2), 'McMapTranspose'))
            continue
        m2 = re.fullmatch(r'let (\w+) = (\w+) \. zip \( (\w+) \) \. map \( \| \( (\w+) , (\w+) \) \| \{ let suid = (.*) ; Result :: Ok \( Netplay \{ '
                          r'name : MeleeString :: try_from \( (\w+) \. as_slice \( \) \) \? , code : MeleeString :: try_from \( (\w+) \. as_slice \( \) \) \? , '
                          r'suid \} \) \} \) \. transpose \( \) \?', s)
        if m2 and 'MeleeString' not in m2.group(6).split(' ') and m2.group(2) in pnames and m2.group(3) in pnames and m2.group(4) != m2.group(5) \
                and {m2.group(7), m2.group(8)} <= {m2.group(4), m2.group(5)}:
            src = {m2.group(4): m2.group(2), m2.group(5): m2.group(3)}
            calls.append((m2.group(1) + '.name', src[m2.group(7)], 'McQuestionInZipMapTranspose'))
            calls.append((m2.group(1) + '.code', src[m2.group(8)], 'McQuestionInZipMapTranspose'))
            continue
        raise TranslateError('%s: a statement builds a MeleeString in an unrecognised way (expected `let f = <param>.map(|x| MeleeString::try_from(x.as_slice()))'
                             '.transpose()?` or the netplay closure with `MeleeString::try_from(<x>.as_slice())?` for name and code): %s' % (where, s[:400]))
    if tv(de_toks).count('MeleeString') != 1 + len(calls) or tv(body).count('MeleeString') != len(calls):
        raise TranslateError('%s: MeleeString is mentioned outside the recognised call sites of fn player' % DE_RS)
    if 'MeleeString' not in imported_from(DE_RS, ['shift_jis']) and find_seq(de_toks, ['shift_jis', '::', 'MeleeString']) < 0:
        raise TranslateError('%s: MeleeString is not imported from game::shift_jis' % DE_RS)
    # the fields reach the Player literal by shorthand
    last = sts[-1]
    ml = re.fullmatch(r'Ok \( r#type \. map \( \| r#type \| Player \{ (.*) \} \) \)', last)
    lit_fields = ml.group(1).split(' , ') if ml else []
    for f in sorted(set(c[0].split('.')[0] for c in calls)):
        if f not in lit_fields:
            raise TranslateError('%s: `%s` is not passed on (by shorthand) in the final `Ok(r#type.map(|r#type| Player { .. }))`: %s' % (where, f, last[:300]))
    D.append('')
    D.append('(* %s fn player: every MeleeString::try_from(<x>.as_slice()), as (field, the byte-array parameter it decodes, how its error propagates):' % DE_RS)
    D.append('   McMapTranspose: `let f = <param>.map(|x| MeleeString::try_from(x.as_slice())).transpose()?`;')
    D.append('   McQuestionInZipMapTranspose: `MeleeString::try_from(<x>.as_slice())?` inside `<p1>.zip(<p2>).map(|(a, b)| { .. Result::Ok(Netplay { .. }) }).transpose()?` *)')
    D.append('Inductive mc_prop := McMapTranspose | McQuestionInZipMapTranspose.')
    D.append('Definition melee_string_calls : list (string * string * mc_prop) :=\n  [%s].' % '; '.join('(%s, %s, %s)' % (coq_str(a), coq_str(b), c) for a, b, c in calls))
    D.append('(* the order of the `let ucf` / `let name_tag` / `let netplay` statements (which error wins) *)')
    D.append('Definition player_optional_order : list string := [%s].' % '; '.join(coq_str(x) for x in order))

    L = []
    L.append('(* GENERATED by tools/rust2coq.py from %s (impl TryFrom<&[u8]> for MeleeString, MeleeString::to_normalized) and' % SJ_RS)
    L.append('   %s (the MeleeString::try_from call sites of fn player) -- do not edit. *)' % DE_RS)
    L.append('From Coq Require Import NArith List String.')
    L.append('Import ListNotations.')
    L.append('Local Open Scope string_scope.')
    L.append('')
    L.extend(D)
    return '\n'.join(L) + '\n'


# ------------------------------------------------------------------------------------------------
# (r) hashing front end: HashingReader::{new, into_digest}, impl Read / impl Seek for HashingReader, format_hash (src/io/mod.rs)
#     and the lines of fn read (src/io/slippi/de.rs) that derive compute_hash / skip_frames from `opts`, wrap the reader,
#     choose between copy and seek, and take the digest -> Gen/HashingSrc.v

def gen_hashing():
    toks = file_toks(IO_RS)
    D = []
    if find_seq(toks, ['use', 'xxhash_rust', '::', 'xxh3', '::', 'Xxh3', ';']) < 0:
        raise TranslateError('%s: `use xxhash_rust::xxh3::Xxh3;` not found' % IO_RS)
    i = find_seq(toks, ['struct', 'HashingReader'])
    j = i
    while i >= 0 and tv(toks[j:j + 1]) != ['{']:
        j += 1
    if i < 0 or sj(toks[i:match_close(toks, j) + 1]) != 'struct HashingReader < R : Read > { reader : R , hasher : Option < Box < Xxh3 > > }':
        raise TranslateError('%s: not `struct HashingReader<R: Read> { reader: R, hasher: Option<Box<Xxh3>> }`' % IO_RS)

    def hfn(header, fn, want_names, want_params, want_ret):
        params, ret, body, names, blk = other_impl_fn(IO_RS, header, fn)
        where = '%s impl %s fn %s' % (IO_RS, header.replace(' ', ''), fn)
        if names != want_names:
            raise TranslateError('%s: the impl contains %s, expected %s' % (where, names, want_names))
        if sjp(params) != want_params or sj(ret) != want_ret:
            raise TranslateError('%s: unexpected signature (%s) %s' % (where, sjp(params), sj(ret)))
        return where, body

    H_INH = '< R : Read > HashingReader < R >'
    # ---- new
    where, body = hfn(H_INH, 'new', ['new', 'into_digest'], 'reader : R , hash : bool', '-> Self')
    if sj(body) != 'Self { reader , hasher : hash . then ( || Box :: new ( Xxh3 :: new ( ) ) ) }':
        raise TranslateError('%s: the body is not `Self { reader, hasher: hash.then(|| Box::new(Xxh3::new())) }`: %s' % (where, sj(body)[:300]))
    D.append('(* HashingReader::new(reader, hash): Self { reader, hasher: hash.then(|| Box::new(Xxh3::new())) }:')
    D.append('   HnThenFresh = a fresh (unseeded, empty) hasher iff `hash`, otherwise none *)')
    D.append('Inductive hr_new := HnThenFresh.')
    D.append('Definition hr_new_hasher : hr_new := HnThenFresh.')
    # ---- into_digest
    where, body = hfn(H_INH, 'into_digest', ['new', 'into_digest'], 'self', '-> Option < String >')
    md = re.fullmatch(r'self \. hasher \. as_deref \( \) \. map \( (\w+) \)', sj(body))
    if not md:
        raise TranslateError('%s: the body is not `self.hasher.as_deref().map(<fn>)`: %s' % (where, sj(body)[:300]))
    D.append('(* HashingReader::into_digest(self): self.hasher.as_deref().map(%s): a digest iff a hasher is (still) there *)' % md.group(1))
    D.append('Definition hr_digest_format_fn : string := %s.' % coq_str(md.group(1)))
    # ---- read
    where, body = hfn('< R : Read > Read for HashingReader < R >', 'read', ['read'], '& mut self , buf : & mut [ u8 ]', '-> std :: io :: Result < usize >')
    m = strict_match([sj(x) for x in fw_stmts(body, where)], [
        ('`let n = self.reader.read(buf)?`', r'let n = self \. reader \. read \( buf \) \?'),
        ('`self.hasher.as_mut().map(|h| h.update(&buf[..n]))`', r'self \. hasher \. as_mut \( \) \. map \( \| h \| h \. update \( & buf \[ (?:(\d+) )?\.\. n \] \) \)'),
        ('`Ok(n)`', r'Ok \( n \)'),
    ], where)
    D.append('(* impl Read: let n = self.reader.read(buf)?; self.hasher.as_mut().map(|h| h.update(&buf[%s..n])); Ok(n):' % (m[1].group(1) or ''))
    D.append('   the statements in order; the lower bound of the slice fed to the hasher (its upper bound is n, the count the inner read returned) *)')
    D.append('Inductive hr_read_step := HrInnerReadQuestion | HrUpdateUptoN (from : nat) | HrReturnN.')
    D.append('Definition hr_read_steps : list hr_read_step := [HrInnerReadQuestion; HrUpdateUptoN %d; HrReturnN].' % int(m[1].group(1) or 0))
    # ---- seek
    where, body = hfn('< R : Read + Seek > Seek for HashingReader < R >', 'seek', ['seek'], '& mut self , pos : SeekFrom', '-> std :: io :: Result < u64 >')
    strict_match([sj(x) for x in fw_stmts(body, where)], [
        ('`let n = self.reader.seek(pos)?`', r'let n = self \. reader \. seek \( pos \) \?'),
        ('`self.hasher = None`', r'self \. hasher = None'),
        ('`Ok(n)`', r'Ok \( n \)'),
    ], where)
    D.append('(* impl Seek: let n = self.reader.seek(pos)?; self.hasher = None; Ok(n) *)')
    D.append('Definition hr_seek_clears_hasher : bool := true.')
    # ---- format_hash
    where = '%s fn format_hash' % IO_RS
    params, ret, body = find_fn(IO_RS, None, 'format_hash')
    if md.group(1) != 'format_hash' or sjp(params) != 'hasher : & Xxh3' or sj(ret) != '-> String':
        raise TranslateError('%s: unexpected signature (%s) %s, or into_digest maps %s' % (where, sjp(params), sj(ret), md.group(1)))
    v = tv(body)
    args = [a for a in af_split(body[3:-1], where) if a] if v[:3] == ['format', '!', '('] and match_close(body, 2) == len(body) - 1 else []
    mf = re.fullmatch(r'&? ?hasher \. (\w+) \( \)', sj(args[1])) if len(args) == 2 else None
    if not mf or len(args[0]) != 1:
        raise TranslateError('%s: the body is not `format!("<format>", &hasher.<digest method>())`: %s' % (where, sj(body)[:300]))
    lit = plain_str_lit(args[0][0], where)
    ml = re.fullmatch(r'([^{}]*)\{:(0?)(\d*)([xX])\}', lit)
    if not ml:
        raise TranslateError('%s: the format string "%s" is not `<prefix>{:0<width>x}`' % (where, lit))
    D.append('(* format_hash(hasher): format!("%s", &hasher.%s()) *)' % (lit, mf.group(1)))
    D.append('Definition hash_prefix : list N := [%s]%%N.' % '; '.join(str(ord(ch)) for ch in ml.group(1)))
    D.append('Definition hash_hex_width : nat := %d.' % int(ml.group(3) or 0))
    D.append('Definition hash_hex_zero_padded : bool := %s.' % ('true' if ml.group(2) else 'false'))
    D.append('Definition hash_hex_uppercase : bool := %s.' % ('true' if ml.group(4) == 'X' else 'false'))
    D.append('Definition hash_digest_method : string := %s.' % coq_str(mf.group(1)))

    # ---- fn read of de.rs
    where = '%s fn read' % DE_RS
    de_toks = file_toks(DE_RS)
    decl = dict(parse_struct_decl(de_toks, 'Opts', DE_RS))
    params, ret, body = find_fn(DE_RS, None, 'read')
    if sjp(params) != 'r : R , opts : Option < & Opts >':
        raise TranslateError('%s: unexpected parameters: %s' % (where, sjp(params)))
    raw = fw_stmts(body, where)
    txt = [sj(x) for x in raw]
    MAP_OR = r'opts \. map_or \( (true|false) , \| o \| o \. (\w+) \)'
    lines = {}
    for k, s in enumerate(txt):
        if re.fullmatch(LOG_MACRO, s):
            continue
        toks_s = s.split(' ')
        mm = re.fullmatch(r'let (\w+) = %s' % MAP_OR, s)
        if mm:
            if 'hash' in lines or mm.group(1) != 'hash':
                raise TranslateError('%s: unexpected `let %s = opts.map_or(..)`' % (where, mm.group(1)))
            lines['hash'] = (k, mm.group(2), mm.group(3))
            continue
        if s == 'let mut r = HashingReader :: new ( r , hash )':
            if 'wrap' in lines or 'hash' not in lines:
                raise TranslateError('%s: the reader is wrapped twice, or before `hash` is computed' % where)
            lines['wrap'] = k
            continue
        mm = re.match(r'if %s \{' % MAP_OR, s)
        if mm:
            if 'skip' in lines:
                raise TranslateError('%s: two blocks conditional on an option' % where)
            lines['skip'] = (k, mm.group(1), mm.group(2))
            continue
        if s == 'state . game . hash = r . into_digest ( )':
            if 'digest' in lines:
                raise TranslateError('%s: the digest is taken twice' % where)
            lines['digest'] = k
            continue
        if any(x in toks_s for x in ('HashingReader', 'into_digest', 'map_or', 'compute_hash', 'skip_frames')) or 'hash =' in s or 'opts . ' in s:
            raise TranslateError('%s: unrecognised statement that concerns the options or the hashing reader: %s' % (where, s[:300]))
    for need in ('hash', 'wrap', 'skip', 'digest'):
        if need not in lines:
            raise TranslateError('%s: the `%s` line (let hash = opts.map_or(..) / HashingReader::new(r, hash) / if opts.map_or(..) {..} / '
                                 'state.game.hash = r.into_digest()) was not found at the top level' % (where, need))
    first = min(k for k, s in enumerate(txt) if not re.fullmatch(LOG_MACRO, s))
    if lines['hash'][0] != first:
        raise TranslateError('%s: `let hash = ..` is not the first statement: %s' % (where, txt[first][:200]))
    if not (lines['hash'][0] < lines['wrap'] < lines['skip'][0] < lines['digest']) or lines['wrap'] != lines['hash'][0] + 1:
        raise TranslateError('%s: the hashing lines are not in the order hash, wrap, skip block, digest' % where)
    if not re.fullmatch(r'Ok \( Game :: from \( state \. game \) \)', txt[-1]) or lines['digest'] != len(txt) - 2:
        raise TranslateError('%s: the digest is not taken immediately before the final `Ok(Game::from(state.game))`' % where)
    for k in range(lines['wrap'] + 1, lines['digest']):
        # between wrapping and taking the digest, every use of the reader goes through `r` (the HashingReader): nothing may re-bind it
        if re.match(r'let (?:mut )?r\b', txt[k]):
            raise TranslateError('%s: `r` is re-bound after it was wrapped: %s' % (where, txt[k][:200]))
    for fld in (lines['hash'][2], lines['skip'][2]):
        if decl.get(fld) != 'bool':
            raise TranslateError('%s: Opts.%s is not a bool field' % (DE_RS, fld))
    # the skip block: copy when hashing, seek otherwise
    blk = fw_if_block(raw[lines['skip'][0]], where + ' (skip_frames block)')
    inner = [sj(x) for x in fw_stmts(blk[1], where)]
    COPY = r'io :: copy \( & mut r \. by_ref \( \) \. take \( skip as u64 \) , & mut io :: sink \( \) \) \? ;'
    SEEK = r'r \. seek \( SeekFrom :: Current \( skip \. try_into \( \) \. map_err \( invalid_data \) \? \) \) \? ;'
    alts = [s for s in inner if s.startswith('if hash') or 'seek' in s.split(' ') or 'copy' in s.split(' ')]
    ms = re.fullmatch(r'if hash \{ (.*) \} else \{ (.*) \}', alts[0]) if len(alts) == 1 else None
    kind = lambda t: 'HsCopyTake' if re.fullmatch(COPY, t) else 'HsSeekCurrent' if re.fullmatch(SEEK, t) else None
    if not ms or kind(ms.group(1)) is None or kind(ms.group(2)) is None:
        raise TranslateError('%s (skip_frames block): expected exactly one `if hash { <copy or seek> } else { <copy or seek> }`: %s' % (where, ' ; '.join(alts)[:400]))
    D.append('')
    D.append('(* %s fn read(r, opts: Option<&Opts>):' % DE_RS)
    D.append('   let hash = opts.map_or(%s, |o| o.%s); let mut r = HashingReader::new(r, hash); ..' % (lines['hash'][1], lines['hash'][2]))
    D.append('   if opts.map_or(%s, |o| o.%s) { .. if hash { %s } else { %s } .. } ..' % (lines['skip'][1], lines['skip'][2], kind(ms.group(1)), kind(ms.group(2))))
    D.append('   state.game.hash = r.into_digest(); Ok(Game::from(state.game)) *)')
    D.append('Definition opts_hash_field : string := %s.' % coq_str(lines['hash'][2]))
    D.append('Definition opts_hash_default : bool := %s.       (* the value when opts is None *)' % lines['hash'][1])
    D.append('Definition opts_skip_field : string := %s.' % coq_str(lines['skip'][2]))
    D.append('Definition opts_skip_default : bool := %s.       (* the value when opts is None *)' % lines['skip'][1])
    D.append('(* HsCopyTake: io::copy(&mut r.by_ref().take(skip as u64), &mut io::sink())?  (reads through the hashing reader);')
    D.append('   HsSeekCurrent: r.seek(SeekFrom::Current(skip..))?  -- keyed by the value of `hash` *)')
    D.append('Inductive hs_skip := HsCopyTake | HsSeekCurrent.')
    D.append('Definition hashing_skip_steps : list (bool * hs_skip) := [(true, %s); (false, %s)].' % (kind(ms.group(1)), kind(ms.group(2))))
    D.append('Definition read_wraps_reader_first : bool := true.     (* HashingReader::new(r, hash) precedes every read of the input *)')
    D.append('Definition read_digest_taken_last : bool := true.      (* into_digest() is the last statement before the result *)')

    L = []
    L.append('(* GENERATED by tools/rust2coq.py from %s (struct HashingReader, its impls, fn format_hash) and' % IO_RS)
    L.append('   %s (the option / hashing lines of fn read) -- do not edit. *)' % DE_RS)
    L.append('From Coq Require Import NArith List String.')
    L.append('Import ListNotations.')
    L.append('Local Open Scope string_scope.')
    L.append('')
    L.extend(D)
    return '\n'.join(L) + '\n'


# ------------------------------------------------------------------------------------------------
# (s) port-occupancy front end: fn port_occupancy (src/game/mod.rs) -> Gen/PortOccupancySrc.v

GAME_RS = 'src/game/mod.rs'


def gen_port_occupancy():
    where = '%s fn port_occupancy' % GAME_RS
    toks = file_toks(GAME_RS)
    if parse_struct_decl(file_toks(FRAME_MOD_RS), 'PortOccupancy', FRAME_MOD_RS) != [('port', 'Port'), ('follower', 'bool')]:
        raise TranslateError('%s: struct PortOccupancy is not { port: Port, follower: bool }' % FRAME_MOD_RS)
    pdecl = dict(parse_struct_decl(toks, 'Player', GAME_RS))
    sdecl = dict(parse_struct_decl(toks, 'Start', GAME_RS))
    ct, ce = find_const(GAME_RS, 'ICE_CLIMBERS')
    if ct != 'u8':
        raise TranslateError('%s: ICE_CLIMBERS is not a u8: %s' % (GAME_RS, ct))
    params, ret, body = find_fn(GAME_RS, None, 'port_occupancy')
    if sjp(params) != 'start : & Start' or sj(ret) != '-> Vec < PortOccupancy >':
        raise TranslateError('%s: unexpected signature (%s) %s' % (where, sjp(params), sj(ret)))
    m = re.fullmatch(r'start \. (\w+) \. iter \( \) \. map \( \| (\w+) \| PortOccupancy \{ (.*) \} \) \. collect \( \)', sj(body))
    if not m:
        raise TranslateError('%s: the body is not `start.<field>.iter().map(|p| PortOccupancy { .. }).collect()`: %s' % (where, sj(body)[:300]))
    src, p = m.group(1), m.group(2)
    if sdecl.get(src) != 'Vec < Player >':
        raise TranslateError('%s: Start.%s is not a Vec<Player>: %s' % (where, src, sdecl.get(src)))
    inits = {}
    for f in m.group(3).split(' , '):
        mf = re.fullmatch(r'(\w+) : (.*)', f)
        if not mf or mf.group(1) in inits:
            raise TranslateError('%s: unrecognised field initialiser: %s' % (where, f[:200]))
        inits[mf.group(1)] = mf.group(2)
    if sorted(inits) != ['follower', 'port']:
        raise TranslateError('%s: the literal does not initialise exactly port and follower: %s' % (where, sorted(inits)))
    mp = re.fullmatch(r'%s \. (\w+)' % p, inits['port'])
    if not mp or pdecl.get(mp.group(1)) != 'Port':
        raise TranslateError('%s: `port` is not initialised from a Port field of the player: %s' % (where, inits['port'][:200]))
    used = sorted(set(re.findall(r'\b%s \. (\w+)' % p, inits['follower'])))
    if len(used) != 1 or pdecl.get(used[0]) != 'u8' or re.search(r'\b%s\b(?! \. %s\b)' % (p, used[0]), inits['follower']):
        raise TranslateError('%s: `follower` is not an expression over exactly one u8 field of the player: %s' % (where, inits['follower'][:200]))
    expr = inits['follower'].replace('%s . %s' % (p, used[0]), 'x_')
    D = []
    D.append('(* %s: start.%s.iter().map(|%s| PortOccupancy { port: %s, follower: %s }).collect() *)' % (where, src, p, inits['port'], inits['follower']))
    D.append('Definition port_occupancy_source : string := %s.            (* the list iterated, in order *)' % coq_str(src))
    D.append('Definition port_occupancy_port_field : string := %s.           (* port: p.<field> *)' % coq_str(mp.group(1)))
    D.append('Definition port_occupancy_follower_field : string := %s.  (* the one player field the follower flag is computed from *)' % coq_str(used[0]))
    D.append(expr_to_gallina(expr, [], {'x_': 'x', 'ICE_CLIMBERS': 'ICE_CLIMBERS'}, where, 'port_occupancy_follower', ['x'], 'bool'))
    L = []
    L.append('(* GENERATED by tools/rust2coq.py from %s (fn port_occupancy) -- do not edit.' % GAME_RS)
    L.append('   The follower expression is translated by the expression front end (every integer an N, comparisons boolean). *)')
    L.append('From Coq Require Import NArith Bool List String.')
    L.append('From Peppi Require Import Gen.Funs.')
    L.append('Import ListNotations.')
    L.append('Local Open Scope string_scope.')
    L.append('')
    L.extend(D)
    return '\n'.join(L) + '\n'


# ------------------------------------------------------------------------------------------------
# (t) Game Start -> player wiring front end: the one statement of fn game_start (src/io/slippi/de.rs) that calls `player(..)`:
#     the port range, what is passed for every parameter of `player` (which block, which component, which index), and the
#     adaptor chain that collects the results -> Gen/StartWiring.v

# adaptors through which an `Err` (or a whole Result) can disappear silently
SW_SWALLOW = ('flat_map', 'flatten', 'ok', 'unwrap_or', 'unwrap_or_default', 'unwrap_or_else', 'filter', 'find_map', 'map_while',
              'take_while', 'skip_while', 'find', 'and_then', 'or_else', 'or', 'unwrap', 'expect', 'is_ok', 'is_err', 'ok_or', 'next',
              'last', 'nth', 'partition', 'sum', 'product', 'fold', 'try_fold', 'rev', 'skip', 'take', 'step_by', 'chain', 'zip', 'map', 'flat')


SW_STRICT = ('flat_map', 'flatten', 'ok', 'unwrap_or', 'unwrap_or_default', 'unwrap_or_else', 'filter', 'find_map', 'map_while', 'take_while',
             'skip_while', 'or_else', 'or', 'and_then', 'is_ok', 'is_err', 'partition', 'try_fold', 'fold')


def method_chain(toks, where):
    """`<receiver> . m1 [::<T>] ( args ) [?] . m2 ( args ) [?] ..` -> (receiver tokens, [(name, turbofish text | None, arg tokens, followed by `?`)]);
    the receiver is a parenthesised expression, or a path optionally followed by one call"""
    sv = StmtView(toks, where)
    i = 0
    if sv.is_p(0, '('):
        i = match_close(toks, 0) + 1
    else:
        while i < len(toks) and (toks[i][0] == 'id' or toks[i] == ('punct', '::')):
            i += 1
        if i == 0:
            raise TranslateError('%s: unrecognised head of a method chain: %s' % (where, sj(toks)[:200]))
        if sv.is_p(i, '('):
            i = match_close(toks, i) + 1
    recv = toks[:i]
    calls = []
    while i < len(toks):
        if not sv.is_p(i, '.') or i + 1 >= len(toks) or toks[i + 1][0] != 'id':
            raise TranslateError('%s: unrecognised continuation of a method chain at `%s`: %s' % (where, sj(toks[i:i + 6]), sj(toks)[:300]))
        name = toks[i + 1][1]
        j = i + 2
        fish = None
        if sv.is_p(j, '::') and sv.is_p(j + 1, '<'):
            e = sv.angle_close(j + 1)
            fish = sj(toks[j + 2:e])
            j = e + 1
        if not sv.is_p(j, '('):
            raise TranslateError('%s: `.%s` is not a method call: %s' % (where, name, sj(toks)[:300]))
        e = match_close(toks, j)
        q = sv.is_p(e + 1, '?')
        calls.append((name, fish, toks[j + 1:e], q))
        i = e + (2 if q else 1)
    return recv, calls


def cparen(s):
    return '(%s)' % s if ' ' in s else s


def sw_index(text, var, where):
    """an index expression over the loop variable -> Coq wire_ix"""
    text = re.sub(r'^\( (.*) \)$', r'\1', text)
    if text == var or text == '%s as usize' % var:
        return 'IxVar'
    if re.fullmatch(r'\d+', text):
        return 'IxConst %d' % int(text)
    m = re.fullmatch(r'%s \+ (\d+)' % re.escape(var), text) or re.fullmatch(r'(\d+) \+ %s' % re.escape(var), text)
    if m:
        return 'IxVarPlus %d' % int(m.group(1))
    raise TranslateError('%s: unrecognised index expression (expected `%s`, a literal, or `%s + <literal>`): %s' % (where, var, var, text[:100]))


def gen_start_wiring():
    where = '%s fn game_start' % DE_RS
    check_layout_helpers()
    consts = layout_consts()
    pparams, pret, pbody = find_fn(DE_RS, None, 'player')
    pps = parse_params(pparams, '%s fn player' % DE_RS)
    if sj(pret) != '-> Result < Option < Player > >':
        raise TranslateError('%s fn player: the return type is not Result<Option<Player>>: %s' % (DE_RS, sj(pret)))
    params, ret, body = find_fn(DE_RS, None, 'game_start')
    if sjp(params) != 'r : & mut & [ u8 ]' or sj(ret) != '-> Result < game :: Start >':
        raise TranslateError('%s: unexpected signature (%s) %s' % (where, sjp(params), sj(ret)))
    raw = fw_stmts(body, where)
    txt = [sj(x) for x in raw]
    # every top-level `let`: name -> (position, initialiser text); a name bound twice is not recognised
    lets = {}
    for k, s in enumerate(txt):
        m = re.match(r'let (?:mut )?([\w#]+)(?: : [^=]*)? = (.*)$', s)
        if m:
            if m.group(1) in lets:
                raise TranslateError('%s: `%s` is bound twice at the top level' % (where, m.group(1)))
            lets[m.group(1)] = (k, m.group(2))
    # the one statement that calls player
    callers = [k for k, st in enumerate(raw) if any(st[i] == ('id', 'player') and i + 1 < len(st) and st[i + 1] == ('punct', '(') for i in range(len(st)))]
    mentions = [k for k, st in enumerate(raw) if ('id', 'player') in st]
    if len(callers) != 1 or mentions != callers:
        raise TranslateError('%s: expected exactly one statement that mentions `player`, found %d calling / %d mentioning it' % (where, len(callers), len(mentions)))
    kp = callers[0]
    st = raw[kp]
    m = re.match(r'let (mut )?(\w+) = ', txt[kp])
    if not m:
        raise TranslateError('%s: the statement calling `player` is not `let <name> = ..`: %s' % (where, txt[kp][:200]))
    target = m.group(2)
    w2 = where + ' (let %s)' % target
    init = st[4:] if m.group(1) else st[3:]
    # any adaptor, anywhere in the statement, through which an Err / a player can disappear: named explicitly
    for i in range(len(init) - 2):
        if init[i] == ('punct', '.') and init[i + 1][0] == 'id' and init[i + 2] == ('punct', '(') and init[i + 1][1] in SW_STRICT:
            raise TranslateError('%s: `.%s(..)`: an `Err` of `player(..)` (or a player) can be dropped or replaced silently there; only '
                                 '`(lo..hi).filter_map(|n| player(..).transpose()).collect::<Result<Vec<_>>>()?` is recognised' % (w2, init[i + 1][1]))
    if sum(1 for t in init if t == ('id', 'filter_map')) != 1 or ('id', 'Result') in [t for i, t in enumerate(init) if i + 2 < len(init) and init[i + 1] == ('punct', '::') and init[i + 2][1] in ('ok', 'unwrap_or_default')]:
        raise TranslateError('%s: a second `filter_map` / `Result::ok` in the chain: an `Err` of `player(..)` can be dropped silently' % w2)
    recv, calls = method_chain(init, w2)
    names = [c[0] for c in calls]
    q = [c[3] for c in calls]
    for nm in names:
        if nm in SW_SWALLOW and nm != 'map':
            raise TranslateError('%s: `.%s(..)` in the chain that collects the players: an `Err` of `player(..)` (or a player) could be dropped, '
                                 'replaced or reordered silently; only `(lo..hi).filter_map(|n| player(..).transpose()).collect::<Result<Vec<_>>>()?` is recognised' % (w2, nm))
    if names != ['filter_map', 'collect'] or q != [False, True]:
        raise TranslateError('%s: the chain is not `(lo..hi).filter_map(|n| ..).collect::<Result<Vec<_>>>()?` (methods %s, `?` after them %s)' % (w2, names, q))
    if calls[1][1] not in ('Result < Vec < _ > >', 'Result < Vec < Player > >', 'Result < Vec < game :: Player > >') or calls[1][2]:
        raise TranslateError('%s: `collect` is not `collect::<Result<Vec<_>>>()` (an Err must abort the whole collection): %s' % (w2, calls[1][1]))
    mr = re.fullmatch(r'\( (\w+) \.\. (\w+) \)', sj(recv))
    if not mr:
        raise TranslateError('%s: the iterated range is not `(<lo>..<hi>)` with literal / constant bounds: %s' % (w2, sj(recv)[:100]))

    def bound(x):
        return num(x) if x[0].isdigit() else consts(x)
    lo, hi = bound(mr.group(1)), bound(mr.group(2))
    # the closure: | n | player ( .. ) . transpose ( )   (braces optional)
    cl = calls[0][2]
    if len(cl) < 4 or cl[0] != ('punct', '|') or cl[1][0] != 'id' or cl[2] != ('punct', '|'):
        raise TranslateError('%s: the argument of filter_map is not a closure `|n| ..`: %s' % (w2, sj(cl)[:200]))
    var = cl[1][1]
    cb = cl[3:]
    if cb[0] == ('punct', '{') and match_close(cb, 0) == len(cb) - 1:
        inner = fw_stmts(cb[1:-1], w2)
        if len(inner) != 1:
            raise TranslateError('%s: the closure body has %d statements, expected the single expression `player(..).transpose()`' % (w2, len(inner)))
        cb = inner[0]
    crecv, ccalls = method_chain(cb, w2 + ' closure')
    cnames = [c[0] for c in ccalls]
    for nm in cnames:
        if nm in SW_SWALLOW:
            raise TranslateError('%s: `.%s(..)` after `player(..)`: the Err / None of a player could be dropped or replaced silently; only '
                                 '`player(..).transpose()` is recognised' % (w2, nm))
    if tv(crecv[:2]) != ['player', '('] or cnames != ['transpose'] or ccalls[0][2] or ccalls[0][1] or ccalls[0][3]:
        raise TranslateError('%s: the closure body is not `player(..).transpose()`: %s' % (w2, sj(cb)[:300]))
    args = [a for a in af_split(crecv[2:-1], w2) if a]
    if len(args) != len(pps):
        raise TranslateError('%s: player is called with %d arguments, it has %d parameters' % (w2, len(args), len(pps)))
    wiring = []
    for (pname, pty), a in zip(pps, args):
        s = sj(a)
        wa = '%s argument `%s`' % (w2, pname)
        mm = re.fullmatch(r'Port :: try_from \( (.*) as u8 \) \. unwrap \( \)', s)
        if mm and pty == 'Port':
            wiring.append((pname, 'WsPortOfIndex %s' % cparen(sw_index(mm.group(1), var, wa))))
            continue
        mm = re.fullmatch(r'& (\w+) \[ (.*) \]', s)
        if mm and re.fullmatch(r'& \[ u8 ; \w+ \]', pty):
            arr = mm.group(1)
            if arr not in lets or not re.fullmatch(r'player_bytes :: < \w+ , \w+ > \( r \) \?', lets[arr][1]) or lets[arr][0] > kp:
                raise TranslateError('%s: `%s` is not bound by `let %s = player_bytes::<N, M>(r)?` before the call' % (wa, arr, arr))
            wiring.append((pname, 'WsArrayRef %s %s' % (coq_str(arr), cparen(sw_index(mm.group(2), var, wa)))))
            continue
        mm = re.fullmatch(r'(\w+) \. map \( \| (\w+) \| \2(?: \. (\d+))? \[ (.*) \] \)', s)
        if mm and re.fullmatch(r'Option < \[ u8 ; \w+ \] >', pty):
            arr = mm.group(1)
            if arr not in lets or not lets[arr][1].startswith('if_more ( r , | r | ') or not lets[arr][1].endswith(') ?') or lets[arr][0] > kp:
                raise TranslateError('%s: `%s` is not bound by `let %s = if_more(r, |r| ..)?` before the call' % (wa, arr, arr))
            if mm.group(2) == var:
                raise TranslateError('%s: the closure parameter shadows the loop variable `%s`' % (wa, var))
            wiring.append((pname, 'WsOptIndex %s %s %s' % (coq_str(arr), coq_str(mm.group(3) or ''), cparen(sw_index(mm.group(4), var, wa)))))
            continue
        if re.fullmatch(r'\w+', s) and pty == 'bool':
            if s not in lets or lets[s][1] != 'r . read_u8 ( ) ? != 0' or lets[s][0] > kp:
                raise TranslateError('%s: `%s` is not bound by `let %s = r.read_u8()? != 0` before the call' % (wa, s, s))
            wiring.append((pname, 'WsLocalNonZero %s' % coq_str(s)))
            continue
        raise TranslateError('%s (: %s): unrecognised argument (expected `Port::try_from(<ix> as u8).unwrap()`, `&<array>[<ix>]`, `<tail>.map(|p| p[<ix>])`, '
                             '`<tail>.map(|p| p.<k>[<ix>])`, or a local `let x = r.read_u8()? != 0`): %s' % (wa, pty, s[:200]))
    # the collected vector reaches the result by shorthand, and nothing re-binds or touches it in between
    last = txt[-1]
    ml = re.fullmatch(r'Ok \( game :: Start \{ (.*) \} \)', last)
    fields = ml.group(1).split(' , ') if ml else []
    if target not in fields:
        raise TranslateError('%s: `%s` is not passed on (by shorthand) in the final `Ok(game::Start { .. })`: %s' % (where, target, last[:300]))
    for k in range(kp + 1, len(raw) - 1):
        if ('id', target) in raw[k]:
            raise TranslateError('%s: `%s` is used between its definition and the final struct literal: %s' % (where, target, txt[k][:200]))
    sdecl = dict(parse_struct_decl(file_toks(GAME_RS), 'Start', GAME_RS))
    if sdecl.get(target) != 'Vec < Player >':
        raise TranslateError('%s: Start.%s is not a Vec<Player>: %s' % (GAME_RS, target, sdecl.get(target)))

    L = []
    L.append('(* GENERATED by tools/rust2coq.py from %s (fn game_start: the statement that calls `player`; the signature of fn player) -- do not edit. *)' % DE_RS)
    L.append('From Coq Require Import List String.')
    L.append('Import ListNotations.')
    L.append('Local Open Scope string_scope.')
    L.append('')
    L.append('(* an index expression over the loop variable `%s`: the variable, a literal, the variable plus a literal *)' % var)
    L.append('Inductive wire_ix := IxVar | IxConst (k : nat) | IxVarPlus (k : nat).')
    L.append('(* what is passed for one parameter of `player`:')
    L.append('   WsPortOfIndex ix        Port::try_from(<ix> as u8).unwrap()')
    L.append('   WsArrayRef a ix         &a[<ix>]            where `let a = player_bytes::<N, M>(r)?` (fixed part of the block)')
    L.append('   WsLocalNonZero x        x                   where `let x = r.read_u8()? != 0`')
    L.append('   WsOptIndex t k ix       t.map(|p| p[<ix>])  (k = "") or t.map(|p| p.<k>[<ix>]), where `let t = if_more(r, |r| ..)?` (an optional tail) *)')
    L.append('Inductive wire_src :=')
    L.append('| WsPortOfIndex (ix : wire_ix) | WsArrayRef (arr : string) (ix : wire_ix) | WsLocalNonZero (name : string)')
    L.append('| WsOptIndex (tail : string) (comp : string) (ix : wire_ix).')
    L.append('(* the arguments of `player(..)` in call order, each with the name of the parameter of fn player at that position *)')
    L.append('Definition start_player_wiring : list (string * wire_src) :=\n  [%s].' % ';\n   '.join('(%s, %s)' % (coq_str(p), w) for p, w in wiring))
    L.append('(* the ports iterated: (%s..%s) *)' % (mr.group(1), mr.group(2)))
    L.append('Definition start_player_range : nat * nat := (%d, %d).' % (lo, hi))
    L.append('(* let %s = (..).filter_map(|%s| player(..).transpose()).collect::<Result<Vec<_>>>()?:' % (target, var))
    L.append('   PpFilterMapTranspose: Ok(None) -> dropped, Ok(Some(p)) -> Ok(p), Err(e) -> Err(e) kept in the stream;')
    L.append('   PpCollectResultVec: the first Err aborts the collection; PpQuestion: that Err is the result of game_start *)')
    L.append('Inductive pipe_step := PpFilterMapTranspose | PpCollectResultVec | PpQuestion.')
    L.append('Definition start_players_pipeline : list pipe_step := [PpFilterMapTranspose; PpCollectResultVec; PpQuestion].')
    L.append('Definition start_players_errors_propagate : bool := true.')
    L.append('Definition start_players_none_dropped : bool := true.')
    L.append('(* the field of game::Start (a Vec<Player>) that receives the collected vector, by shorthand in the final literal *)')
    L.append('Definition start_players_field : string := %s.' % coq_str(target))
    return '\n'.join(L) + '\n'


# ------------------------------------------------------------------------------------------------
# (u) JSON-shape front end: the `#[derive(Serialize)]` declarations reachable from game::Start and game::End (src/game/mod.rs,
#     src/io/slippi/mod.rs, src/game/shift_jis.rs): field names in order, serde attributes, the kind of every field -> Gen/JsonShape.v

SLIPPI_MOD_RS = 'src/io/slippi/mod.rs'
JS_FILES = (GAME_RS, SLIPPI_MOD_RS, SJ_RS)
JS_ROOTS = (('Start', GAME_RS), ('End', GAME_RS))
JS_PLAIN_ATTRS = ('doc', 'allow', 'repr', 'derive', 'deprecated')


def attrs_before(toks, i):
    """the contents (token lists) of the `#[..]` attributes immediately before position i, `pub` / `pub(..)` skipped"""
    j = i - 1
    if j >= 0 and toks[j] == ('punct', ')'):
        k = j
        while k > 0 and toks[k] != ('punct', '('):
            k -= 1
        if k > 0 and toks[k - 1] == ('id', 'pub'):
            j = k - 2
    elif j >= 0 and toks[j] == ('id', 'pub'):
        j -= 1
    out = []
    while j >= 1 and toks[j] == ('punct', ']'):
        d = 0
        k = j
        while k >= 0:
            if toks[k] == ('punct', ']'):
                d += 1
            elif toks[k] == ('punct', '['):
                d -= 1
                if d == 0:
                    break
            k -= 1
        if k < 1 or toks[k - 1] != ('punct', '#'):
            break
        out.insert(0, toks[k + 1:j])
        j = k - 2
    return out


def js_serde_items(attrs, where, allowed):
    """the items of every `serde(..)` attribute, as token-joined texts; every other attribute must be a plain one"""
    items = []
    for a in attrs:
        if not a or a[0][0] != 'id':
            raise TranslateError('%s: unrecognised attribute: %s' % (where, sj(a)[:100]))
        if a[0][1] == 'serde':
            if len(a) < 3 or a[1] != ('punct', '(') or match_close(a, 1) != len(a) - 1:
                raise TranslateError('%s: unrecognised serde attribute: %s' % (where, sj(a)[:100]))
            for it in af_split(a[2:-1], where):
                if it:
                    items.append(sj(it))
        elif a[0][1] not in JS_PLAIN_ATTRS:
            raise TranslateError('%s: unrecognised attribute `%s` (it could change what is serialised): %s' % (where, a[0][1], sj(a)[:100]))
    for it in items:
        if not any(re.fullmatch(p, it) for p in allowed):
            raise TranslateError('%s: unrecognised serde attribute `%s` (only %s are modelled)' % (where, it, ', '.join(allowed) or 'none'))
    return items


def js_derives(attrs):
    out = []
    for a in attrs:
        if a and a[0] == ('id', 'derive'):
            out.extend(x for x in tv(a[2:-1]) if x != ',')
    return out


def js_find_decl(name, cur_rel, where):
    """the file that declares `struct name` / `enum name`: the current file, or (if the current file imports the name) one of the others"""
    found = []
    for rel in (cur_rel,) + tuple(f for f in JS_FILES if f != cur_rel):
        toks = file_toks(rel)
        for kw in ('struct', 'enum'):
            i = find_seq(toks, [kw, name])
            if i >= 0 and toks[i + 2][1] in ('{', '(', ';', '<'):
                found.append((rel, kw, toks, i))
        if found and rel == cur_rel:
            break
    if len(found) != 1:
        raise TranslateError('%s: the type %s is declared in %d of %s' % (where, name, len(found), ', '.join(JS_FILES)))
    rel, kw, toks, i = found[0]
    if rel != cur_rel:
        cur = file_toks(cur_rel)
        vals = tv(cur)
        ok = False
        k = 0
        while k < len(vals):
            if vals[k] == 'use' and cur[k][0] == 'id':
                e = vals.index(';', k)
                ok = ok or name in vals[k:e] or (rel == SLIPPI_MOD_RS and 'slippi' in vals[k:e])
                k = e
            k += 1
        if not ok:
            raise TranslateError('%s: the type %s (declared in %s) is not imported by %s' % (where, name, rel, cur_rel))
    return rel, kw, toks, i


def gen_json_shape():
    structs = []      # (name, rel, [(json key, omit, kind)])
    tuples = []       # (name, rel, [kind])
    enums = []        # (name, rel, [(code, variant)])
    skipped = []      # (struct, field)
    done = {}

    def kind_of(ty, rel, where):
        if ty in ('u8', 'u16', 'u32', 'u64'):
            return 'JkUInt %s' % ty[1:]
        if ty in ('i8', 'i16', 'i32', 'i64'):
            return 'JkSInt %s' % ty[1:]
        if ty == 'f32':
            return 'JkF32'
        if ty == 'bool':
            return 'JkBool'
        if ty == 'String':
            return 'JkString'
        m = re.fullmatch(r'\[ (.*) ; (\d+) \]', ty)
        if m:
            return 'JkArray %d %s' % (int(m.group(2)), cparen(kind_of(m.group(1), rel, where)))
        m = re.fullmatch(r'Vec < (.*) >', ty)
        if m:
            return 'JkVec %s' % cparen(kind_of(m.group(1), rel, where))
        m = re.fullmatch(r'Option < (.*) >', ty)
        if m:
            return 'JkOption %s' % cparen(kind_of(m.group(1), rel, where))
        if ty in ('f64', 'u128', 'i128', 'usize', 'isize', 'char', 'str', '& str'):
            raise TranslateError('%s: the primitive type %s has no modelled JSON rendering' % (where, ty))
        m = re.fullmatch(r'(?:(\w+) :: )?(\w+)', ty)
        if m and m.group(1) in (None, 'slippi', 'game', 'shift_jis'):
            return visit(m.group(2), SLIPPI_MOD_RS if m.group(1) == 'slippi' else rel, where)
        raise TranslateError('%s: unrecognised field type: %s' % (where, ty[:100]))

    def visit(name, from_rel, where):
        rel, kw, toks, i = js_find_decl(name, from_rel, where)
        key = (name, rel)
        w = '%s %s %s' % (rel, kw, name)
        if key in done:
            if done[key] is None:
                raise TranslateError('%s: recursive type' % w)
            return done[key]
        done[key] = None
        attrs = attrs_before(toks, i)
        js_serde_items(attrs, w, ())          # no container-level serde attribute is modelled (rename_all, transparent, tag, ..)
        if 'Serialize' not in js_derives(attrs):
            raise TranslateError('%s: does not derive Serialize (a hand-written impl is not modelled)' % w)
        for t in JS_FILES:
            tt = file_toks(t)
            if find_seq(tt, ['Serialize', 'for', name]) >= 0:
                raise TranslateError('%s: a hand-written `impl Serialize for %s` exists in %s' % (w, name, t))
        if toks[i + 2][1] == '<':
            raise TranslateError('%s: generic declarations are not recognised' % w)
        if kw == 'enum':
            e = match_close(toks, i + 2)
            body = toks[i + 3:e]
            if any(t[1] in ('#', '(', '{') for t in body):
                raise TranslateError('%s: a variant carries an attribute or data; only unit variants `Name = <code>` are modelled' % w)
            vs = enum_codes(rel, name)
            done[key] = 'JkEnum %s' % coq_str(name)
            enums.append((name, rel, [(c, n) for n, c in vs]))
            return done[key]
        e = match_close(toks, i + 2)
        tup = toks[i + 2][1] == '('
        flds = [f for f in af_split(toks[i + 3:e], w) if f]
        if tup:
            done[key] = 'JkTuple %s' % coq_str(name)
            slot = len(tuples)
            tuples.append(None)
            ks = []
            for idx, f in enumerate(flds):
                fa = []
                while f and f[0] == ('punct', '#'):
                    c = match_close(f, 1)
                    fa.append(f[2:c])
                    f = f[c + 1:]
                js_serde_items(fa, '%s field %d' % (w, idx), ())
                f = [t for t in f if t != ('id', 'pub')]
                ks.append(kind_of(sj(f), rel, '%s field %d' % (w, idx)))
            tuples[slot] = (name, rel, ks)
            return done[key]
        done[key] = 'JkStruct %s' % coq_str(name)
        slot = len(structs)
        structs.append(None)
        out = []
        seen = set()
        for f in flds:
            fa = []
            while f and f[0] == ('punct', '#'):
                c = match_close(f, 1)
                fa.append(f[2:c])
                f = f[c + 1:]
            if f and f[0] == ('id', 'pub'):
                f = f[1:]
                if f and f[0] == ('punct', '('):
                    f = f[match_close(f, 0) + 1:]
            if len(f) < 3 or f[0][0] != 'id' or f[1] != ('punct', ':'):
                raise TranslateError('%s: unrecognised field: %s' % (w, sj(f)[:100]))
            fn_ = fname(f[0][1])
            wf = '%s field %s' % (w, fn_)
            items = js_serde_items(fa, wf, (r'skip', r'skip_serializing', r'skip_serializing_if = "Option::is_none"', r'rename = "\w+"'))
            ty = sj(f[2:])
            if 'skip' in items or 'skip_serializing' in items:
                if len(items) != 1:
                    raise TranslateError('%s: `skip` combined with other serde attributes: %s' % (wf, items))
                skipped.append((name, fn_))
                continue
            key_ = fn_
            omit = 'JoAlways'
            for it in items:
                mr = re.fullmatch(r'rename = "(\w+)"', it)
                if mr:
                    key_ = mr.group(1)
                else:
                    if not re.fullmatch(r'Option < .* >', ty):
                        raise TranslateError('%s: skip_serializing_if = "Option::is_none" on a field of type %s' % (wf, ty))
                    omit = 'JoSkipIfNone'
            if key_ in seen:
                raise TranslateError('%s: two fields are serialised under the key "%s"' % (w, key_))
            seen.add(key_)
            out.append((key_, fn_, omit, kind_of(ty, rel, wf)))
        structs[slot] = (name, rel, out)
        return done[key]

    for nm, rel in JS_ROOTS:
        visit(nm, rel, '%s (root)' % rel)
    if not cargo_preserve_order():
        pass    # the order of struct fields does not depend on serde_json's map type (derive(Serialize) emits them in declaration order)
    L = []
    L.append('(* GENERATED by tools/rust2coq.py from the `#[derive(Serialize)]` declarations reachable from game::Start and game::End')
    L.append('   (%s) -- do not edit. *)' % ', '.join(JS_FILES))
    L.append('From Coq Require Import NArith List String.')
    L.append('Import ListNotations.')
    L.append('Local Open Scope string_scope.')
    L.append('')
    L.append('(* how serde_json renders a field of a given Rust type:')
    L.append('   JkUInt / JkSInt bits: an unsigned / signed integer; JkF32; JkBool; JkString;')
    L.append('   JkStruct n: an object, fields below (json_structs); JkTuple n: a tuple struct (json_tuples): ONE field = a serde newtype, rendered as')
    L.append('   that field, otherwise an array; JkEnum n: a unit-variant enum, rendered as the variant name (json_enums);')
    L.append('   JkArray n k = [T; n] and JkVec k = Vec<T>: arrays; JkOption k = Option<T>: null or the value *)')
    L.append('Inductive jkind :=')
    L.append('| JkUInt (bits : nat) | JkSInt (bits : nat) | JkF32 | JkBool | JkString')
    L.append('| JkStruct (name : string) | JkTuple (name : string) | JkEnum (name : string)')
    L.append('| JkArray (n : nat) (k : jkind) | JkVec (k : jkind) | JkOption (k : jkind).')
    L.append('(* JoAlways: the key is always written; JoSkipIfNone: #[serde(skip_serializing_if = "Option::is_none")] *)')
    L.append('Inductive jomit := JoAlways | JoSkipIfNone.')
    L.append('(* per struct, in declaration order: (JSON key, Rust field name, omission rule, kind); #[serde(skip)] fields are in json_skipped *)')
    L.append('Definition json_structs : list (string * list (string * string * jomit * jkind)) :=\n  [%s].' % ';\n   '.join(
        '(%s,\n    [%s])' % (coq_str(n), ';\n     '.join('(%s, %s, %s, %s)' % (coq_str(k), coq_str(f), o, kd) for k, f, o, kd in fl)) for n, _, fl in structs))
    L.append('Definition json_skipped : list (string * string) := [%s].' % '; '.join('(%s, %s)' % (coq_str(a), coq_str(b)) for a, b in skipped))
    L.append('Definition json_tuples : list (string * list jkind) :=\n  [%s].' % ';\n   '.join(
        '(%s, [%s])' % (coq_str(n), '; '.join(ks)) for n, _, ks in tuples))
    L.append('(* unit-variant enums without serde attributes: (code, variant name) in declaration order *)')
    L.append('Definition json_enums : list (string * list (N * string)) :=\n  [%s].' % ';\n   '.join(
        '(%s, [%s])' % (coq_str(n), '; '.join('(%d%%N, %s)' % (c, coq_str(v)) for c, v in vs)) for n, _, vs in enums))
    L.append('(* where each declaration was found *)')
    L.append('Definition json_decl_files : list (string * string) :=\n  [%s].' % '; '.join(
        '(%s, %s)' % (coq_str(n), coq_str(r)) for n, r, _ in structs + tuples + enums))
    return '\n'.join(L) + '\n'


# ------------------------------------------------------------------------------------------------
# (v) UBJSON body front end: what Gen/UbjsonMarkers.v (front end (h), which compares these bodies with fixed texts) does not say:
#     the width / signedness / byte order of every read and write, the steps of to_utf8, the depth guard and the depths passed
#     around, the length prefix and the integer conversion of the writer -> Gen/UbjsonBodies.v

UB_LOSSY = ('from_utf8_lossy', 'from_utf8_unchecked', 'trim', 'trim_end', 'trim_start', 'trim_matches', 'trim_end_matches', 'trim_start_matches',
            'replace', 'to_lowercase', 'to_uppercase', 'to_ascii_lowercase', 'to_ascii_uppercase', 'strip_prefix', 'strip_suffix', 'chars', 'unwrap_or',
            'unwrap_or_default', 'unwrap_or_else', 'ok', 'truncate', 'retain', 'pop', 'filter')


def ub_rw(text, where, prefix):
    """`read_u8` / `read_i32 :: < BigEndian >` / `write_u16 :: < LittleEndian >` -> (bytes, signed, big endian)"""
    m = re.fullmatch(r'%s_([iu])(8|16|32|64)(?: :: < (\w+) >)?' % prefix, text)
    if not m:
        raise TranslateError('%s: unrecognised integer access `%s`' % (where, text))
    w = int(m.group(2)) // 8
    if (w == 1) != (m.group(3) is None) or m.group(3) not in (None, 'BigEndian', 'LittleEndian'):
        raise TranslateError('%s: `%s`: a multi-byte access needs ::<BigEndian> / ::<LittleEndian>, a one-byte access takes none' % (where, text))
    return w, m.group(1) == 'i', m.group(3) != 'LittleEndian'


def ub_coq_rw(t):
    return '(%d, %s, %s)' % (t[0], 'true' if t[1] else 'false', 'true' if t[2] else 'false')


def gen_ubjson_bodies():
    det = file_toks(UBJ_DE)
    if find_seq(det, ['use', 'byteorder', '::', '{', 'BigEndian', ',', 'ReadBytesExt', '}', ';']) < 0:
        raise TranslateError('%s: `use byteorder::{BigEndian, ReadBytesExt};` not found' % UBJ_DE)
    D = []
    # ---- to_utf8
    where = '%s fn to_utf8' % UBJ_DE
    p_, r_, b_ = find_fn(UBJ_DE, None, 'to_utf8')
    if sj(r_) != '-> Result < String >' or not sjp(p_).startswith('r : & mut R'):
        raise TranslateError('%s: unexpected signature (%s) %s' % (where, sjp(p_), sj(r_)))
    for t in b_:
        if t[0] == 'id' and t[1] in UB_LOSSY:
            raise TranslateError('%s: `%s`: a lossy / trimming / replacing conversion of the string is not recognised (only the strict String::from_utf8)' % (where, t[1]))
    m = strict_match([sj(x) for x in fw_stmts(b_, where)], [
        ('`let length = r.read_<int>()?`', r'let (\w+) = r \. (read_\w+(?: :: < \w+ >)?) \( \) \?'),
        ('`let mut buf = vec![0; length as usize]`', r'let mut (\w+) = vec ! \[ 0(?:u8)? ; (\w+) as usize \]'),
        ('`r.read_exact(&mut buf)?`', r'r \. read_exact \( & mut (\w+) \) \?'),
        ('`Ok(String::from_utf8(buf)?)`', r'Ok \( String :: (\w+) \( (\w+) \) \? \)'),
    ], where)
    if m[1].group(2) != m[0].group(1) or m[2].group(1) != m[1].group(1) or m[3].group(2) != m[1].group(1):
        raise TranslateError('%s: the length / the buffer are not threaded through the four statements' % where)
    if m[3].group(1) != 'from_utf8':
        raise TranslateError('%s: the conversion is `String::%s`, not the strict `String::from_utf8`' % (where, m[3].group(1)))
    len_rd = ub_rw(m[0].group(2), where, 'read')
    D.append('(* integer accesses are (width in bytes, signed, big-endian) *)')
    D.append('(* %s: let length = r.%s()?; let mut buf = vec![0; length as usize]; r.read_exact(&mut buf)?; Ok(String::from_utf8(buf)?) *)' % (where, m[0].group(2).replace(' ', '')))
    D.append('Inductive ub_utf8_step := UsReadLen (rd : nat * bool * bool) | UsAllocLen | UsReadExact | UsFromUtf8Strict.')
    D.append('Definition ubj_to_utf8_steps : list ub_utf8_step := [UsReadLen %s; UsAllocLen; UsReadExact; UsFromUtf8Strict].' % ub_coq_rw(len_rd))
    # ---- to_val / to_key: the reads of the marker bytes and of the integer
    where = '%s fn to_val' % UBJ_DE
    p_, r_, b_ = find_fn(UBJ_DE, None, 'to_val')
    if sjp(p_) != 'r : & mut R , depth : usize':
        raise TranslateError('%s: unexpected parameters: %s' % (where, sjp(p_)))
    v = tv(b_)
    j = StmtView(b_, where).first_top(1, len(b_), '{')
    ms = re.fullmatch(r'r \. (read_\w+(?: :: < \w+ >)?) \( \) \?', sj(b_[1:j])) if v[:1] == ['match'] and j > 0 and match_close(b_, j) == len(b_) - 1 else None
    if not ms:
        raise TranslateError('%s: the body is not `match r.read_<int>()? { .. }`: %s' % (where, sj(b_)[:200]))
    val_marker_rd = ub_rw(ms.group(1), where, 'read')
    str_marker_rd = None
    int_rd = None
    int_conv = None
    nested = None
    for pat, body in match_arms(b_[j + 1:-1], where):
        mm = re.fullmatch(r'match r \. (read_\w+(?: :: < \w+ >)?) \( \) \? \{ (\S+) => Ok \( Value :: String \( to_utf8 \( r \) \? \) \) , \w+ => Err \( err ! \( .* \) \) \}', body)
        if mm:
            if str_marker_rd is not None:
                raise TranslateError('%s: two string arms' % where)
            str_marker_rd = ub_rw(mm.group(1), where, 'read')
            continue
        mm = re.fullmatch(r'Ok \( Value :: Number \( (.*) \( r \. (read_\w+(?: :: < \w+ >)?) \( \) \? \) \) \)', body)
        if mm:
            if int_rd is not None:
                raise TranslateError('%s: two number arms' % where)
            if mm.group(1) not in ('serde_json :: Number :: from', 'Number :: from'):
                raise TranslateError('%s: the number is not built by `serde_json::Number::from(<read>)`: %s' % (where, mm.group(1)[:100]))
            int_rd = ub_rw(mm.group(2), where, 'read')
            int_conv = 'UnNumberFrom'
            continue
        mm = re.fullmatch(r'Ok \( Value :: Object \( read_map_at \( r , (.*) \) \? \) \)', body)
        if mm:
            if nested is not None:
                raise TranslateError('%s: two object arms' % where)
            nested = mm.group(1)
            continue
        if re.fullmatch(r'Err \( err ! \( .* \) \)', body):
            continue
        raise TranslateError('%s: unrecognised arm %s => %s' % (where, pat[:50], body[:200]))
    if str_marker_rd is None or int_rd is None or nested is None:
        raise TranslateError('%s: expected one string, one number and one object arm' % where)
    where = '%s fn to_key' % UBJ_DE
    p_, r_, b_ = find_fn(UBJ_DE, None, 'to_key')
    v = tv(b_)
    j = StmtView(b_, where).first_top(1, len(b_), '{')
    ms = re.fullmatch(r'r \. (read_\w+(?: :: < \w+ >)?) \( \) \?', sj(b_[1:j])) if v[:1] == ['match'] and j > 0 and match_close(b_, j) == len(b_) - 1 else None
    if not ms:
        raise TranslateError('%s: the body is not `match r.read_<int>()? { .. }`: %s' % (where, sj(b_)[:200]))
    key_marker_rd = ub_rw(ms.group(1), where, 'read')
    D.append('(* to_val / to_key: the reads of the marker bytes (`match r.read_u8()? {`), of the byte after the string marker, and of the integer;')
    D.append('   UnNumberFrom: the JSON number is serde_json::Number::from(<the integer read>), i.e. its value as read with that signedness *)')
    D.append('Definition ubj_val_marker_read : nat * bool * bool := %s.' % ub_coq_rw(val_marker_rd))
    D.append('Definition ubj_key_marker_read : nat * bool * bool := %s.' % ub_coq_rw(key_marker_rd))
    D.append('Definition ubj_str_len_marker_read : nat * bool * bool := %s.' % ub_coq_rw(str_marker_rd))
    D.append('Definition ubj_int_read : nat * bool * bool := %s.' % ub_coq_rw(int_rd))
    D.append('Inductive ub_num_conv := UnNumberFrom.')
    D.append('Definition ubj_int_conv : ub_num_conv := %s.' % int_conv)
    # ---- the depth guard
    where = '%s fn read_map_at' % UBJ_DE
    p_, r_, b_ = find_fn(UBJ_DE, None, 'read_map_at')
    if sjp(p_) != 'r : & mut R , depth : usize':
        raise TranslateError('%s: unexpected parameters: %s' % (where, sjp(p_)))
    sts = fw_stmts(b_, where)
    txt = [sj(x) for x in sts]
    blk = fw_if_block(sts[0], where) if sts else None
    if blk is None or not re.fullmatch(r'return Err \( err ! \( .* \) \) ;', sj(blk[1])):
        raise TranslateError('%s: the first statement is not `if <depth test> { return Err(err!(..)); }`: %s' % (where, txt[0][:200] if txt else ''))
    rest = sj(b_[len(sts[0]):])
    mt = re.fullmatch(r'let mut m = Map :: new \( \) ; while match to_key \( r \) \? \{ Some \( k \) => \{ m \. insert \( k , to_val \( r , (.*?) \) \? \) ; true \} '
                      r'None => false \} \{ \} Ok \( m \)', rest)
    if not mt:
        raise TranslateError('%s: after the depth test, not `let mut m = Map::new(); while match to_key(r)? { Some(k) => { m.insert(k, to_val(r, <depth>)?); true } '
                             'None => false } {} Ok(m)`: %s' % (where, rest[:400]))
    ct, ce = find_const(UBJ_DE, 'MAX_DEPTH')
    if ct != 'usize':
        raise TranslateError('%s: MAX_DEPTH is not a usize: %s' % (UBJ_DE, ct))
    env = {'depth': 'depth', 'MAX_DEPTH': 'UBJSON_MAX_DEPTH'}
    p_, r_, b2 = find_fn(UBJ_DE, None, 'read_map')
    mi = re.fullmatch(r'read_map_at \( r , (.*) \)', sj(b2))
    if not mi:
        raise TranslateError('%s fn read_map: not `read_map_at(r, <depth>)`: %s' % (UBJ_DE, sj(b2)[:200]))
    D.append('(* read_map_at(r, depth): if %s { return Err(..) } ..; read_map = read_map_at(r, %s); to_val(r, depth) passes %s to a nested' % (blk[0].replace(' ', ''), mi.group(1), nested.replace(' ', '')))
    D.append('   read_map_at and the loop of read_map_at passes %s to to_val (through the expression front end; MAX_DEPTH is UBJSON_MAX_DEPTH of Gen/Funs.v) *)' % mt.group(1))
    D.append(expr_to_gallina(blk[0], [], env, where, 'ubj_depth_refused', ['depth'], 'bool'))
    D.append(expr_to_gallina(mi.group(1), [], {}, '%s fn read_map' % UBJ_DE, 'ubj_depth_initial', [], 'N'))
    D.append(expr_to_gallina(nested, [], env, '%s fn to_val' % UBJ_DE, 'ubj_depth_nested', ['depth'], 'N'))
    D.append(expr_to_gallina(mt.group(1), [], env, where, 'ubj_depth_to_val', ['depth'], 'N'))

    # ---- writer
    sert = file_toks(UBJ_SER)
    if find_seq(sert, ['use', 'byteorder', '::', '{', 'BigEndian', ',', 'WriteBytesExt', '}', ';']) < 0:
        raise TranslateError('%s: `use byteorder::{BigEndian, WriteBytesExt};` not found' % UBJ_SER)
    where = '%s fn write_utf8' % UBJ_SER
    p_, r_, b_ = find_fn(UBJ_SER, None, 'write_utf8')
    if sjp(p_) != 'w : & mut W , s : & str':
        raise TranslateError('%s: unexpected parameters: %s' % (where, sjp(p_)))
    m = strict_match([sj(x) for x in fw_stmts(b_, where)], [
        ('`write!(w, "<marker>")?`', r'write ! \( w , "[^"]*" \) \?'),
        ('`w.write_<int>(<length>)?`', r'w \. (write_\w+(?: :: < \w+ >)?) \( (.*) \) \?'),
        ('`write!(w, "{}", s)?`', r'write ! \( w , "\{\}" , s \) \?'),
        ('`Ok(())`', r'Ok \( \( \) \)'),
    ], where)
    len_wr = ub_rw(m[1].group(1), where, 'write')
    ml = re.fullmatch(r's \. len \( \)( \. try_into \( \) \. unwrap \( \)| as \w+)', m[1].group(2))
    if not ml:
        raise TranslateError('%s: the length written is not `s.len().try_into().unwrap()` / `s.len() as <int>` (the BYTE length of the string; '
                             '`s.chars().count()` and anything else is not recognised): %s' % (where, m[1].group(2)[:200]))
    D.append('')
    D.append('(* %s: write!(w, "<marker>")?; w.%s(%s)?; write!(w, "{}", s)?: the length prefix is the BYTE length s.len();' % (where, m[1].group(1).replace(' ', ''), m[1].group(2).replace(' ', '')))
    D.append('   UcCheckedUnwrap: `.try_into().unwrap()` (a value that does not fit panics); UcTruncatingCast: `as <int>` (silently reduced) *)')
    D.append('Inductive ub_len_src := UlByteLen.')
    D.append('Inductive ub_conv := UcCheckedUnwrap | UcTruncatingCast.')
    D.append('Definition ubj_wr_len_source : ub_len_src := UlByteLen.')
    D.append('Definition ubj_wr_len_write : nat * bool * bool := %s.' % ub_coq_rw(len_wr))
    D.append('Definition ubj_wr_len_conv : ub_conv := %s.' % ('UcCheckedUnwrap' if ml.group(1).startswith(' . try_into') else 'UcTruncatingCast'))
    where = '%s fn write_map' % UBJ_SER
    p_, r_, b_ = find_fn(UBJ_SER, None, 'write_map')
    sts = fw_stmts(b_, where)
    loop = fw_for_block(sts[0], where) if sts else None
    inner = fw_stmts(loop[1], where) if loop else []
    if len(sts) != 2 or loop is None or len(inner) != 2 or tv(inner[1][:3]) != ['match', 'v', '{'] or match_close(inner[1], 2) != len(inner[1]) - 1:
        raise TranslateError('%s: not `for (k, v) in map { write_utf8(w, k)?; match v { .. } } Ok(())`' % where)
    num_arms = [(p, b) for p, b in match_arms(inner[1][3:-1], where) if p.startswith('Value :: Number')]
    mn = re.fullmatch(r'write ! \( w , "[^"]*" \) \? ; w \. (write_\w+(?: :: < \w+ >)?) \( (.*) \) \? ;', num_arms[0][1]) if len(num_arms) == 1 else None
    mp = re.fullmatch(r'Value :: Number \( (\w+) \)', num_arms[0][0]) if mn else None
    if not mn or not mp:
        raise TranslateError('%s: expected exactly one arm `Value::Number(n) => { write!(w, "<marker>")?; w.write_<int>(<conversion of n>)?; }`' % where)
    int_wr = ub_rw(mn.group(1), where, 'write')
    mc = re.fullmatch(r'%s \. as_i64 \( \) \. unwrap \( \)( \. try_into \( \) \. unwrap \( \)| as \w+)' % mp.group(1), mn.group(2))
    if not mc:
        raise TranslateError('%s: the integer written is not `n.as_i64().unwrap().try_into().unwrap()` / `n.as_i64().unwrap() as <int>`: %s' % (where, mn.group(2)[:200]))
    D.append('(* %s, Value::Number(n): w.%s(%s)? *)' % (where, mn.group(1).replace(' ', ''), mn.group(2).replace(' ', '')))
    D.append('Definition ubj_wr_int_write : nat * bool * bool := %s.' % ub_coq_rw(int_wr))
    D.append('Definition ubj_wr_int_conv : ub_conv := %s.' % ('UcCheckedUnwrap' if mc.group(1).startswith(' . try_into') else 'UcTruncatingCast'))

    L = []
    L.append('(* GENERATED by tools/rust2coq.py from %s (to_utf8, to_val, to_key, read_map, read_map_at) and' % UBJ_DE)
    L.append('   %s (write_utf8, write_map): what Gen/UbjsonMarkers.v does not contain -- do not edit. *)' % UBJ_SER)
    L.append('From Coq Require Import NArith Bool List String.')
    L.append('From Peppi Require Import Gen.Funs.')
    L.append('Import ListNotations.')
    L.append('Local Open Scope string_scope.')
    L.append('')
    L.extend(D)
    return '\n'.join(L) + '\n'


# ------------------------------------------------------------------------------------------------
# (w) tar-entry front end: fn tar_append and the closing statement of fn write (src/io/peppi/ser.rs) -> Gen/TarSrc.v

def gen_tar_src():
    where = '%s fn tar_append' % SLPP_SER
    params, ret, body = find_fn(SLPP_SER, None, 'tar_append')
    if sjp(params) != 'builder : & mut tar :: Builder < W > , buf : & [ u8 ] , path : P':
        raise TranslateError('%s: unexpected parameters: %s' % (where, sjp(params)))
    sts = [sj(x) for x in fw_stmts(body, where)]
    if not sts or sts[-1] != 'Ok ( ( ) )':
        raise TranslateError('%s: the body does not end with `Ok(())`' % where)
    steps = []
    hdr = None
    for k, s in enumerate(sts[:-1]):
        m = re.fullmatch(r'let mut (\w+) = tar :: Header :: (\w+) \( \)', s)
        if m:
            if hdr is not None or k != 0:
                raise TranslateError('%s: a second header is created (or not as the first statement): %s' % (where, s))
            hdr = m.group(1)
            if m.group(2) not in ('new_gnu', 'new_ustar', 'new_old'):
                raise TranslateError('%s: unknown header constructor tar::Header::%s' % (where, m.group(2)))
            steps.append('TsNew %s' % {'new_gnu': 'ThGnu', 'new_ustar': 'ThUstar', 'new_old': 'ThOld'}[m.group(2)])
            continue
        if hdr is None:
            raise TranslateError('%s: statement before `let mut header = tar::Header::new_gnu()`: %s' % (where, s[:200]))
        if s == '%s . set_size ( buf . len ( ) . try_into ( ) ? )' % hdr:
            steps.append('TsSetSizeBufLen')
            continue
        if s == '%s . set_path ( path ) ?' % hdr:
            steps.append('TsSetPath')
            continue
        m = re.fullmatch(r'%s \. set_mode \( (.*) \)' % hdr, s)
        if m:
            t = m.group(1).replace(' ', '')
            if not re.fullmatch(r'0o[0-7]+|\d+|0x[0-9a-fA-F]+', t):
                raise TranslateError('%s: the mode is not an integer literal: %s' % (where, m.group(1)[:50]))
            steps.append('TsSetMode %d' % (int(t, 10) if t.isdigit() else int(t, 0)))
            continue
        if s == '%s . set_cksum ( )' % hdr:
            steps.append('TsSetCksum')
            continue
        if s == 'builder . append ( & %s , buf ) ?' % hdr:
            steps.append('TsAppendBuf')
            continue
        raise TranslateError('%s: unrecognised statement (expected set_size(buf.len().try_into()?) / set_path(path)? / set_mode(<literal>) / set_cksum() / '
                             'builder.append(&header, buf)?): %s' % (where, s[:200]))
    for one in ('TsSetSizeBufLen', 'TsSetPath', 'TsSetCksum', 'TsAppendBuf'):
        if steps.count(one) != 1:
            raise TranslateError('%s: expected exactly one %s step, found %d' % (where, one, steps.count(one)))
    if sum(1 for x in steps if x.startswith('TsSetMode')) != 1 or steps[-1] != 'TsAppendBuf':
        raise TranslateError('%s: expected exactly one set_mode, and `builder.append(&header, buf)?` as the last step: %s' % (where, steps))
    # ---- the closing statement of fn write
    where = '%s fn write' % SLPP_SER
    params, ret, body = find_fn(SLPP_SER, None, 'write')
    sts = [sj(x) for x in fw_stmts(body, where)]
    tar_lines = [k for k, s in enumerate(sts) if re.search(r'\btar \. ', s)]
    if sts[-1] != 'Ok ( ( ) )' or tar_lines != [len(sts) - 2] or sts.count('let mut tar = tar :: Builder :: new ( w )') != 1:
        raise TranslateError('%s: expected `let mut tar = tar::Builder::new(w);` once and one use of a method of `tar`, immediately before the final `Ok(())`' % where)
    recv, calls = method_chain(tokenize(sts[-2], where), where)
    fin = []
    for nm, fish, a, q in calls:
        if a or fish or not q or nm not in ('into_inner', 'finish', 'flush'):
            raise TranslateError('%s: unrecognised call in the closing statement: .%s(%s)' % (where, nm, sj(a)[:50]))
        fin.append({'into_inner': 'TfIntoInner', 'finish': 'TfFinish', 'flush': 'TfFlush'}[nm])
    if sj(recv) != 'tar' or not calls:
        raise TranslateError('%s: the closing statement is not `tar.<m>()?..?` with every error propagated: %s' % (where, sts[-2][:200]))
    L = []
    L.append('(* GENERATED by tools/rust2coq.py from %s (fn tar_append; the closing statement of fn write) -- do not edit. *)' % SLPP_SER)
    L.append('From Coq Require Import NArith List String.')
    L.append('Import ListNotations.')
    L.append('')
    L.append('(* tar_append(builder, buf, path): the statements in order.  TsNew k: `let mut header = tar::Header::<new_gnu|new_ustar|new_old>()`;')
    L.append('   TsSetSizeBufLen: header.set_size(buf.len().try_into()?); TsSetPath: header.set_path(path)?; TsSetMode m: header.set_mode(<m>);')
    L.append('   TsSetCksum: header.set_cksum() (over the header as it is at that point); TsAppendBuf: builder.append(&header, buf)? *)')
    L.append('Inductive tar_hkind := ThGnu | ThUstar | ThOld.')
    L.append('Inductive tar_step := TsNew (k : tar_hkind) | TsSetSizeBufLen | TsSetPath | TsSetMode (m : N) | TsSetCksum | TsAppendBuf.')
    L.append('Definition tar_append_steps : list tar_step := [%s].' % '; '.join(x if ' ' not in x or x.startswith('TsNew') else 'TsSetMode %s%%N' % x.split(' ')[1] for x in steps))
    L.append('(* fn write: `%s` immediately before the final Ok(()): TfIntoInner = tar.into_inner()? (finishes the archive: two zero blocks);' % sts[-2].replace(' ', ''))
    L.append('   TfFinish = tar.finish()?; TfFlush = .flush()? of the underlying writer *)')
    L.append('Inductive tar_fin := TfIntoInner | TfFinish | TfFlush.')
    L.append('Definition tar_finish_steps : list tar_fin := [%s].' % '; '.join(fin))
    return '\n'.join(L) + '\n'


# ------------------------------------------------------------------------------------------------
# (x) .slpp writer-content front end: the CONTENT expression of every `tar_append(&mut tar, <content>, "<name>")?` of fn write
#     (src/io/peppi/ser.rs) in a small normal form, the first statement of fn write, the frames.arrow buffer, and the declaration of
#     `struct Peppi` (src/io/peppi/mod.rs) with `Version` / `Quirks` -> Gen/SlppWriteSrc.v
#     (names / guards / order of the entries: front end (d); the gecko prefix byte order: (n); tar_append and the closing statement: (w))

PEPPI_MOD_RS = 'src/io/peppi/mod.rs'
GAME_IMM_RS = 'src/game/immutable.rs'
SX_GAME_FIELDS = [('start', 'Start'), ('end', 'Option < End >'), ('frames', 'Frame'), ('metadata', 'Option < Map < String , Value > >'),
                  ('gecko_codes', 'Option < GeckoCodes >'), ('hash', 'Option < String >'), ('quirks', 'Option < Quirks >')]
# methods through which an Option (or a record) becomes something else before it is serialised / assembled
SX_CHANGERS = ('unwrap_or_default', 'unwrap_or', 'unwrap_or_else', 'unwrap', 'expect', 'as_ref', 'as_deref', 'as_mut', 'map', 'map_or', 'map_or_else',
               'and_then', 'or', 'or_else', 'filter', 'take', 'flatten', 'ok_or', 'ok_or_else', 'is_some', 'is_none', 'then', 'then_some', 'xor', 'zip',
               'iter', 'into_iter', 'get_or_insert_with', 'get_or_insert', 'insert', 'replace', 'default')


def sx_changer(text):
    for c in re.findall(r'\. (\w+) \(', text) + re.findall(r':: (\w+) \(', text):
        if c in SX_CHANGERS:
            return c
    return None


def sx_place(text, guard, where, what):
    """`[&] game . a . b` -> ('WpGame', [a, b]); `[&] <variable bound by the enclosing if-let> [. a ..]` -> ('WpGuard', [..])"""
    t = text[2:] if text.startswith('& ') else text
    m = re.fullmatch(r'(\w+)((?: \. \w+)*)', t)
    if not m:
        c = sx_changer(t)
        if c:
            raise TranslateError('%s: %s is not a field path taken AS IS: `.%s(..)` can turn the value into something else (a None into a default, ..): %s'
                                 % (where, what, c, text[:200]))
        raise TranslateError('%s: %s is not a field path `game.<field>..` (or a path from the variable bound by the enclosing `if let`): %s' % (where, what, text[:200]))
    path = re.findall(r'\. (\w+)', m.group(2))
    if m.group(1) == 'game' and path:
        return ('WpGame', path)
    if guard is not None and m.group(1) == guard[0]:
        return ('WpGuard', path)
    raise TranslateError('%s: %s is rooted at `%s`, which is neither `game` nor the variable bound by the enclosing `if let`: %s' % (where, what, m.group(1), text[:200]))


def sx_struct(name, rels):
    for rel in rels:
        toks = file_toks(rel)
        i = find_seq(toks, ['struct', name])
        if i >= 0 and toks[i + 2][1] in ('(', '{'):
            return rel, dict(parse_struct_decl(toks, name, rel))
    return None, None


def sx_type_of(place, guard, where):
    """the declared type (token-joined text) of a place, following struct declarations of src/game/{immutable,mod}.rs and src/io/slippi/mod.rs"""
    kind, path = place
    if kind == 'WpGame':
        gd = dict(parse_struct_decl(file_toks(GAME_IMM_RS), 'Game', GAME_IMM_RS))
        if path[0] not in gd:
            raise TranslateError('%s: `game.%s` is not a field of struct Game (%s)' % (where, path[0], GAME_IMM_RS))
        ty, path = gd[path[0]], path[1:]
    else:
        ty = guard[1]
    for p in path:
        m = re.fullmatch(r'(?:(\w+) :: )?(\w+)', ty)
        if not m:
            raise TranslateError('%s: `.%s` of a value of type %s (a field path cannot go through an Option / a container)' % (where, p, ty))
        rel, decl = sx_struct(m.group(2), (SLIPPI_MOD_RS,) if m.group(1) == 'slippi' else (GAME_RS, SLIPPI_MOD_RS))
        if decl is None or p not in decl:
            raise TranslateError('%s: `.%s` is not a field of %s' % (where, p, ty))
        ty = decl[p]
    return ty


def sx_coq_place(pl):
    if pl[0] == 'WpConst':
        return 'WpConst %s' % coq_str(pl[1])
    return '%s [%s]' % (pl[0], '; '.join(coq_str(x) for x in pl[1]))


def sx_serde_struct(rel, name, allowed_tuple=False):
    """a `#[derive(.. Serialize ..)] struct` without container-level serde attributes -> [(json key, rust field, omitted when None, type text)]
    (for a tuple struct: [(index, index, False, type)])"""
    toks = file_toks(rel)
    i = find_seq(toks, ['struct', name])
    w = '%s struct %s' % (rel, name)
    if i < 0 or toks[i + 2][1] not in ('(', '{'):
        raise TranslateError('%s: not found (or generic)' % w)
    attrs = attrs_before(toks, i)
    js_serde_items(attrs, w, ())
    if 'Serialize' not in js_derives(attrs):
        raise TranslateError('%s: does not derive Serialize (a hand-written impl is not modelled)' % w)
    if find_seq(toks, ['Serialize', 'for', name]) >= 0:
        raise TranslateError('%s: a hand-written `impl Serialize for %s` exists' % (w, name))
    e = match_close(toks, i + 2)
    tup = toks[i + 2][1] == '('
    if tup and not allowed_tuple:
        raise TranslateError('%s: a tuple struct' % w)
    out = []
    seen = set()
    for idx, f in enumerate(x for x in af_split(toks[i + 3:e], w) if x):
        fa = []
        while f and f[0] == ('punct', '#'):
            c = match_close(f, 1)
            fa.append(f[2:c])
            f = f[c + 1:]
        if f and f[0] == ('id', 'pub'):
            f = f[1:]
            if f and f[0] == ('punct', '('):
                f = f[match_close(f, 0) + 1:]
        if tup:
            js_serde_items(fa, '%s field %d' % (w, idx), ())
            out.append((str(idx), str(idx), False, sj(f)))
            continue
        if len(f) < 3 or f[0][0] != 'id' or f[1] != ('punct', ':'):
            raise TranslateError('%s: unrecognised field: %s' % (w, sj(f)[:100]))
        fn_ = fname(f[0][1])
        wf = '%s field %s' % (w, fn_)
        items = js_serde_items(fa, wf, (r'skip_serializing_if = "Option::is_none"', r'rename = "\w+"'))
        ty = sj(f[2:])
        key_, omit = fn_, False
        for it in items:
            mr = re.fullmatch(r'rename = "(\w+)"', it)
            if mr:
                key_ = mr.group(1)
            else:
                if not re.fullmatch(r'Option < .* >', ty):
                    raise TranslateError('%s: skip_serializing_if = "Option::is_none" on a field of type %s' % (wf, ty))
                omit = True
        if key_ in seen:
            raise TranslateError('%s: two fields are serialised under the key "%s"' % (w, key_))
        seen.add(key_)
        out.append((key_, fn_, omit, ty))
    return out


def sx_map_or(text, where):
    """`opts . map_or ( <default> , | o | o . <field> )` -> (default text, field)"""
    m = re.fullmatch(r'opts \. map_or \( (.*) , \| (\w+) \| (\w+) \. (\w+) \)', text)
    if not m or m.group(2) != m.group(3):
        raise TranslateError('%s: not `opts.map_or(<default>, |o| o.<field>)`: %s' % (where, text[:200]))
    return m.group(1), m.group(4)


def sx_comp_value(text, where):
    if text == 'None':
        return 'WvNone'
    m = re.fullmatch(r'Some \( Compression :: (LZ4|ZSTD) \)', text)
    if m:
        return {'LZ4': 'WvLz4', 'ZSTD': 'WvZstd'}[m.group(1)]
    raise TranslateError('%s: unrecognised compression value (expected None / Some(Compression::LZ4) / Some(Compression::ZSTD)): %s' % (where, text[:100]))


def gen_slpp_write_src():
    where = '%s fn write' % SLPP_SER
    params, ret, body = find_fn(SLPP_SER, None, 'write')
    if sjp(params) != 'w : W , game : Game , opts : Option < & Opts >':
        raise TranslateError('%s: unexpected parameters: %s' % (where, sjp(params)))
    if not {'peppi', 'slippi'} <= imported_from(SLPP_SER, ['io']) or 'port_occupancy' not in imported_from(SLPP_SER, ['game']):
        raise TranslateError('%s: expected `use crate::{game::{immutable::Game, port_occupancy}, io::{peppi, slippi}}`' % SLPP_SER)
    ser_toks = file_toks(SLPP_SER)
    if find_seq(ser_toks, ['immutable', '::', 'Game']) < 0:
        raise TranslateError('%s: `Game` is not game::immutable::Game' % SLPP_SER)
    gdecl = parse_struct_decl(file_toks(GAME_IMM_RS), 'Game', GAME_IMM_RS)
    if sorted(gdecl) != sorted(SX_GAME_FIELDS):
        raise TranslateError('%s: struct Game is not { %s }: %s' % (GAME_IMM_RS, ', '.join('%s: %s' % (a, b.replace(' ', '')) for a, b in SX_GAME_FIELDS), gdecl))
    bdecl = parse_struct_decl(file_toks(GAME_RS), 'Bytes', GAME_RS)
    if bdecl != [('0', 'Vec < u8 >')]:
        raise TranslateError('%s: struct Bytes is not (pub Vec<u8>): %s' % (GAME_RS, bdecl))
    # ---- struct Peppi, Version, Quirks
    peppi = sx_serde_struct(PEPPI_MOD_RS, 'Peppi')
    pver = sx_serde_struct(PEPPI_MOD_RS, 'Version', allowed_tuple=True)
    quirks = sx_serde_struct(GAME_RS, 'Quirks')
    if [t for _, _, _, t in pver] != ['u8', 'u8', 'u8']:
        raise TranslateError('%s: struct Version is not (pub u8, pub u8, pub u8)' % PEPPI_MOD_RS)
    if [(f, t) for _, f, _, t in quirks] != [('double_game_end', 'bool')]:
        raise TranslateError('%s: struct Quirks is not { double_game_end: bool } (the model keeps exactly this flag): %s' % (GAME_RS, quirks))
    if 'Quirks' not in imported_from(PEPPI_MOD_RS, ['game']) and find_seq(file_toks(PEPPI_MOD_RS), ['game', '::', 'Quirks']) < 0:
        raise TranslateError('%s: `Quirks` is not imported from crate::game' % PEPPI_MOD_RS)
    ptypes = dict((f, t) for _, f, _, t in peppi)
    if sorted(ptypes.items()) != [('quirks', 'Option < Quirks >'), ('slp_hash', 'Option < String >'), ('version', 'Version')]:
        raise TranslateError('%s: struct Peppi is not { version: Version, slp_hash: Option<String>, quirks: Option<Quirks> } (the model\'s enc_peppi takes exactly these): %s'
                             % (PEPPI_MOD_RS, sorted(ptypes.items())))
    version_const(PEPPI_MOD_RS, 'CURRENT_VERSION')

    contents = []       # (name, coq text)
    arrow = {}
    state = {'first': None, 'tar': False, 'fin': False, 'ok': False}

    def json_content(inner, guard, w):
        """the argument of serde_json::to_vec(..)"""
        if inner and inner[-1] == ('punct', ','):
            inner = inner[:-1]
        v = tv(inner)
        if v[:4] == ['&', 'peppi', '::', 'Peppi'] or v[:2] == ['&', 'Peppi'] or v[:3] == ['peppi', '::', 'Peppi'] or v[:1] == ['Peppi']:
            k = v.index('Peppi') + 1
            if v[0] != '&' or v[1] != 'peppi' or k >= len(v) or v[k] != '{' or match_close(inner, k) != len(inner) - 1:
                raise TranslateError('%s: not `&peppi::Peppi { .. }`: %s' % (w, sj(inner)[:200]))
            flds = []
            for f in af_split(inner[k + 1:-1], w):
                if not f:
                    continue
                if f[0] == ('punct', '..'):
                    raise TranslateError('%s: `%s` in the Peppi literal: the fields it fills in are not written down in the source (they would be defaults, not the game\'s values)'
                                         % (w, sj(f)[:80]))
                if len(f) < 3 or f[0][0] != 'id' or f[1] != ('punct', ':'):
                    raise TranslateError('%s: field of the Peppi literal is not `<name>: <source>`: %s' % (w, sj(f)[:100]))
                src = sj(f[2:])
                if src in ('peppi :: CURRENT_VERSION', 'CURRENT_VERSION', 'super :: CURRENT_VERSION'):
                    if src != 'peppi :: CURRENT_VERSION':
                        raise TranslateError('%s: constant not written as peppi::CURRENT_VERSION: %s' % (w, src))
                    pl, ty = ('WpConst', 'CURRENT_VERSION'), 'Version'
                else:
                    if src.startswith('& '):
                        raise TranslateError('%s: a reference in the Peppi literal: %s' % (w, src[:100]))
                    pl = sx_place(src, None, w, 'the source of Peppi.%s' % f[0][1])
                    ty = sx_type_of(pl, None, w)
                if f[0][1] in [a for a, _ in flds]:
                    raise TranslateError('%s: Peppi.%s is initialised twice' % (w, f[0][1]))
                if ptypes.get(f[0][1]) != ty:
                    raise TranslateError('%s: Peppi.%s (%s) is initialised from %s of type %s' % (w, f[0][1], ptypes.get(f[0][1]), src[:80], ty))
                flds.append((f[0][1], pl))
            missing = [f for f in ptypes if f not in [a for a, _ in flds]]
            if missing:
                raise TranslateError('%s: the Peppi literal does not initialise %s' % (w, ', '.join(missing)))
            return 'WcJsonStruct "Peppi" [%s]' % '; '.join('(%s, %s)' % (coq_str(a), sx_coq_place(p)) for a, p in flds)
        pl = sx_place(sj(inner), guard, w, 'the value serialised')
        ty = sx_type_of(pl, guard, w)
        if ty not in ('Option < Map < String , Value > >', 'Start', 'End'):
            raise TranslateError('%s: serde_json::to_vec of a value of type %s (the model has encoders for the metadata option, game::Start and game::End only)' % (w, ty))
        return 'WcJson (%s)' % sx_coq_place(pl)

    def buffer_content(group, guard, bufname, w):
        """the statements that build the local buffer handed to tar_append"""
        txt = [sj(x) for x in group]
        if guard is not None:
            m = strict_match(txt, [
                ('`let mut %s = <x>.actual_size.to_le_bytes().to_vec()`' % bufname, r'let mut %s = (.*) \. to_(?:le|be)_bytes \( \) \. to_vec \( \)' % bufname),
                ('`%s.write_all(&<x>.bytes)?`' % bufname, r'%s \. write_all \( (& .*) \) \?' % bufname),
            ], w)
            p1 = sx_place(m[0].group(1), guard, w, 'the size prefix')
            p2 = sx_place(m[1].group(1), guard, w, 'the bytes after the prefix')
            if sx_type_of(p1, guard, w) != 'u32' or sx_type_of(p2, guard, w) != 'Vec < u8 >':
                raise TranslateError('%s: the prefix is not a u32 field / the rest is not a Vec<u8> field' % w)
            return 'WcPrefixedBytes (%s) (%s)' % (sx_coq_place(p1), sx_coq_place(p2))
        if arrow:
            raise TranslateError('%s: a second Arrow buffer' % w)
        pats = [
            ('`let ports = port_occupancy(&game.start)`', r'let (\w+) = (\w+) \( (.*) \)'),
            ('`let batch = game.frames.into_struct_array(game.start.slippi.version, &ports)`', r'let (\w+) = (.*) \. (\w+) \( (.*) , & (\w+) \)'),
            ('`let schema = Schema::from(vec![Field { .. }])`', r'let (\w+) = Schema :: from \( vec ! \[ (.*) \] \)'),
            ('`let chunk = Chunk::new(vec![Box::new(batch) as Box<dyn Array>])`', r'let (\w+) = Chunk :: new \( vec ! \[ (.*) \] \)'),
            ('`let mut %s = Vec::new()`' % bufname, r'let mut %s = Vec :: new \( \)' % bufname),
            ('`let mut writer = FileWriter::try_new(&mut %s, schema, None, WriteOptions { compression: .. })?`' % bufname,
             r'let mut (\w+) = FileWriter :: try_new \( & mut %s , (\w+) , (\w+) , WriteOptions \{ compression : (.*) \} \) \?' % bufname),
        ]
        if len(txt) < len(pats):
            raise TranslateError('%s: expected the %d statements %s before the writer calls, found: %s' % (w, len(pats), ', '.join(p[0] for p in pats), ' ; '.join(txt)[:300]))
        m = strict_match(txt[:len(pats)], pats, w)
        ports, batch, schema, chunk, writer = m[0].group(1), m[1].group(1), m[2].group(1), m[3].group(1), m[5].group(1)
        if len({ports, batch, schema, chunk, writer, bufname}) != 6:
            raise TranslateError('%s: two of the locals share a name' % w)
        if m[0].group(2) != 'port_occupancy':
            raise TranslateError('%s: the ports are computed by `%s`, not by port_occupancy' % (w, m[0].group(2)))
        pp = sx_place(m[0].group(3), None, w, 'the argument of port_occupancy')
        if not m[0].group(3).startswith('& ') or sx_type_of(pp, None, w) != 'Start':
            raise TranslateError('%s: port_occupancy is not applied to a reference to a game::Start: %s' % (w, m[0].group(3)[:100]))
        if m[1].group(3) != 'into_struct_array' or m[1].group(5) != ports:
            raise TranslateError('%s: the batch is not `<frames>.into_struct_array(<version>, &%s)`: %s' % (w, ports, txt[1][:200]))
        pf = sx_place(m[1].group(2), None, w, 'the receiver of into_struct_array')
        pv = sx_place(m[1].group(4), None, w, 'the version passed to into_struct_array')
        if m[1].group(2).startswith('& ') or sx_type_of(pf, None, w) != 'Frame' or sx_type_of(pv, None, w) != 'Version':
            raise TranslateError('%s: into_struct_array is not called on a Frame with a slippi Version: %s' % (w, txt[1][:200]))
        # schema
        fields = []
        for f in af_split(tokenize(m[2].group(2), w), w):
            if not f:
                continue
            s = sj(f)
            mf = re.fullmatch(r'Field :: new \( (.*) , (.*) , (true|false) \)', s)
            if mf:
                d = {'name': mf.group(1), 'data_type': mf.group(2), 'is_nullable': mf.group(3), 'metadata': 'Default :: default ( )'}
            elif tv(f[:2]) == ['Field', '{'] and match_close(f, 1) == len(f) - 1:
                d = {}
                for g in af_split(f[2:-1], w):
                    if not g:
                        continue
                    if len(g) < 3 or g[0][0] != 'id' or g[1] != ('punct', ':') or g[0][1] in d:
                        raise TranslateError('%s: unrecognised initialiser in the Field literal: %s' % (w, sj(g)[:100]))
                    d[g[0][1]] = sj(g[2:])
                if sorted(d) != ['data_type', 'is_nullable', 'metadata', 'name']:
                    raise TranslateError('%s: the Field literal does not initialise exactly name, data_type, is_nullable, metadata: %s' % (w, sorted(d)))
            else:
                raise TranslateError('%s: schema element is not `Field { .. }` / `Field::new(..)`: %s' % (w, s[:200]))
            mn = re.fullmatch(r'"([A-Za-z0-9_]+)" \. (?:to_string|to_owned|into) \( \)', d['name']) or re.fullmatch(r'String :: from \( "([A-Za-z0-9_]+)" \)', d['name']) \
                or (mf and re.fullmatch(r'"([A-Za-z0-9_]+)"', d['name']))
            if not mn:
                raise TranslateError('%s: the field name is not a plain string literal: %s' % (w, d['name'][:100]))
            if d['data_type'] != '%s . data_type ( ) . clone ( )' % batch:
                raise TranslateError('%s: the field type is not taken from the batch (`%s.data_type().clone()`): %s' % (w, batch, d['data_type'][:100]))
            if d['is_nullable'] not in ('true', 'false'):
                raise TranslateError('%s: is_nullable is not a literal: %s' % (w, d['is_nullable'][:100]))
            if d['metadata'] not in ('Default :: default ( )', 'Metadata :: default ( )', 'Metadata :: new ( )'):
                raise TranslateError('%s: the field metadata is not empty (Default::default()): %s' % (w, d['metadata'][:100]))
            fields.append((mn.group(1), 'AdtOfBatch', d['is_nullable']))
        # chunk
        arrs = []
        for f in af_split(tokenize(m[3].group(2), w), w):
            if not f:
                continue
            s = sj(f)
            if s in ('Box :: new ( %s ) as Box < dyn Array >' % batch, '%s . boxed ( )' % batch, 'Box :: new ( %s )' % batch):
                arrs.append('AaBatch')
            else:
                raise TranslateError('%s: chunk element is not the boxed batch: %s' % (w, s[:200]))
        if arrs.count('AaBatch') > 1:
            raise TranslateError('%s: the batch is moved into the chunk twice' % w)
        if m[5].group(2) != schema:
            raise TranslateError('%s: FileWriter::try_new is given `%s`, not the schema `%s`' % (w, m[5].group(2), schema))
        if m[5].group(3) != 'None':
            raise TranslateError('%s: FileWriter::try_new is given explicit IPC fields: %s' % (w, m[5].group(3)))
        ce = m[5].group(4)
        if ce.startswith('opts'):
            dflt, fld = sx_map_or(ce, w)
            od = dict(parse_struct_decl(ser_toks, 'Opts', SLPP_SER))
            if od.get(fld) != 'Option < Compression >':
                raise TranslateError('%s: Opts.%s is not an Option<Compression> field' % (SLPP_SER, fld))
            comp = 'WzOptsMapOr %s %s' % (sx_comp_value(dflt, w), coq_str(fld))
        else:
            comp = 'WzConst %s' % sx_comp_value(ce, w)
        calls = []
        for s in txt[len(pats):]:
            if s == '%s . write ( & %s , None ) ?' % (writer, chunk):
                calls.append('AwWriteChunk')
            elif s == '%s . finish ( ) ?' % writer:
                calls.append('AwFinish')
            else:
                raise TranslateError('%s: unrecognised statement after FileWriter::try_new (expected `%s.write(&%s, None)?` / `%s.finish()?`, every error propagated): %s'
                                     % (w, writer, chunk, writer, s[:200]))
        arrow.update(ports=('port_occupancy', pp), batch=(pf, 'into_struct_array', pv), schema=fields, chunk=arrs, comp=comp, calls=calls)
        return 'WcArrowFile'

    def tar_call(st):
        """`tar_append(&mut tar, <content>, "<name>")?` -> (content tokens, name) or None"""
        if tv(st[:2]) != ['tar_append', '('] or tv(st[-1:]) != ['?'] or match_close(st, 1) != len(st) - 2:
            return None
        args = [a for a in af_split(st[2:-2], where) if a]
        if len(args) != 3 or sj(args[0]) != '& mut tar' or len(args[2]) != 1 or args[2][0][0] != 'str':
            raise TranslateError('%s: tar_append: expected (&mut tar, <content>, "<name>"): %s' % (where, sj(st)[:200]))
        return args[1], args[2][0][1][1:-1]

    def block(toks, guard, level):
        pending = []
        sts = fw_stmts(toks, where)
        for k, st in enumerate(sts):
            s = sj(st)
            if level == 'top' and k == 0:
                m = re.fullmatch(r'slippi :: (\w+) \( (.*) \) \?', s)
                if not m or m.group(1) != 'assert_max_version':
                    raise TranslateError('%s: the first statement is not `slippi::assert_max_version(<version>)?`: %s' % (where, s[:200]))
                pl = sx_place(m.group(2), None, where, 'the version checked')
                if m.group(2).startswith('& ') or sx_type_of(pl, None, where) != 'Version' or pl[1][-2:] != ['slippi', 'version']:
                    raise TranslateError('%s: assert_max_version is not applied to a slippi Version field: %s' % (where, m.group(2)[:100]))
                state['first'] = pl
                continue
            if 'assert_max_version' in s.split(' '):
                raise TranslateError('%s: assert_max_version is not (only) the first statement: %s' % (where, s[:200]))
            if level == 'top' and s == 'let mut tar = tar :: Builder :: new ( w )' and not state['tar'] and not pending:
                state['tar'] = True
                continue
            if level == 'top' and re.fullmatch(r'tar(?: \. \w+ \( \) \?)+', s) and not pending and not state['fin']:
                state['fin'] = True          # the closing statement: front end (w)
                continue
            if level == 'top' and s == 'Ok ( ( ) )' and k == len(sts) - 1 and not pending:
                state['ok'] = True
                continue
            if state['fin']:
                raise TranslateError('%s: statement after the archive is closed: %s' % (where, s[:200]))
            tc = tar_call(st)
            if tc is not None:
                content, name = tc
                w = '%s (entry %s)' % (where, name)
                if name in [n for n, _ in contents]:
                    raise TranslateError('%s: appended twice' % w)
                cs = sj(content)
                mb = re.fullmatch(r'& (\w+)', cs)
                if mb and mb.group(1) != 'game' and not (guard and mb.group(1) == guard[0]):
                    if not pending:
                        raise TranslateError('%s: the content `%s` is a local that is not built in the same block immediately before the call' % (w, cs))
                    contents.append((name, buffer_content(pending, guard, mb.group(1), w)))
                    pending = []
                    continue
                if pending:
                    raise TranslateError('%s: unrecognised statement(s) before the call: %s' % (w, ' ; '.join(sj(x) for x in pending)[:300]))
                v = tv(content)
                if 'to_vec' in v or 'to_string' in v or 'to_writer' in v or 'serde_json' in v or 'json' in v:
                    if v[:5] != ['&', 'serde_json', '::', 'to_vec', '('] or v[-1] != '?' or match_close(content, 4) != len(content) - 2:
                        raise TranslateError('%s: the content is not `&serde_json::to_vec(<value>)?`: %s' % (w, cs[:200]))
                    contents.append((name, json_content(content[5:-2], guard, w)))
                    continue
                if not cs.startswith('& '):
                    raise TranslateError('%s: the content is not a reference to a byte buffer: %s' % (w, cs[:200]))
                pl = sx_place(cs, guard, w, 'the raw content')
                if sx_type_of(pl, guard, w) != 'Vec < u8 >':
                    raise TranslateError('%s: the raw content %s is not a Vec<u8> (expected `<record>.bytes.0`)' % (w, cs[:100]))
                contents.append((name, 'WcRaw (%s)' % sx_coq_place(pl)))
                continue
            if tv(st[:1]) == ['if']:
                ib = fw_if_block(st, where)
                m = re.fullmatch(r'let Some \( (\w+) \) = & game \. (\w+)', ib[0])
                if not m or guard is not None or level != 'top' or pending:
                    raise TranslateError('%s: unrecognised `if` (only a top-level `if let Some(x) = &game.<field> { .. }` without else): %s' % (where, s[:200]))
                gty = re.fullmatch(r'Option < (\w+) >', dict(gdecl).get(m.group(2), ''))
                if not gty:
                    raise TranslateError('%s: game.%s is not an Option field of struct Game' % (where, m.group(2)))
                block(ib[1], (m.group(1), gty.group(1), m.group(2)), 'if')
                continue
            if tv(st[:1]) == ['{'] and match_close(st, 0) == len(st) - 1:
                if pending or level != 'top':
                    raise TranslateError('%s: unrecognised nesting of a block: %s' % (where, s[:200]))
                block(st[1:-1], None, 'block')
                continue
            if tv(st[:1]) == ['return'] or ('id', 'return') in st:
                raise TranslateError('%s: `return`: the entries after it would be conditional: %s' % (where, s[:200]))
            pending.append(st)
        if pending:
            raise TranslateError('%s: unrecognised statement(s): %s' % (where, ' ; '.join(sj(x) for x in pending)[:300]))

    block(body, None, 'top')
    if not (state['first'] and state['tar'] and state['fin'] and state['ok']):
        raise TranslateError('%s: expected assert_max_version first, `let mut tar = tar::Builder::new(w)`, a closing `tar.<..>()?` statement and a final `Ok(())`: %s' % (where, state))
    if not arrow:
        raise TranslateError('%s: no entry is built by an Arrow FileWriter' % where)

    L = []
    L.append('(* GENERATED by tools/rust2coq.py from %s (fn write: the first statement, the content of every tar_append, the frames.arrow buffer),' % SLPP_SER)
    L.append('   %s (struct Peppi, struct Version), %s (struct Quirks, struct Bytes) and %s (struct Game) -- do not edit. *)' % (PEPPI_MOD_RS, GAME_RS, GAME_IMM_RS))
    L.append('From Coq Require Import List String.')
    L.append('Import ListNotations.')
    L.append('Local Open Scope string_scope.')
    L.append('')
    L.append('(* where a value comes from: WpGame [f; g; ..] = game.f.g..; WpGuard [f; ..] = x.f.. for the x bound by the enclosing `if let Some(x) = &game.<guard>`')
    L.append('   (the guard of the entry is in Gen/SlppEntries.v slpp_write_entries); WpConst c = peppi::c.  The value is used AS IS: no method call is accepted *)')
    L.append('Inductive wplace := WpGame (path : list string) | WpGuard (path : list string) | WpConst (name : string).')
    L.append('(* the content handed to tar_append:')
    L.append('   WcJsonStruct T fs  = &serde_json::to_vec(&peppi::T { f: <source>, .. })?  (every field of T written down, no `..`);')
    L.append('   WcJson p           = &serde_json::to_vec(<p>)?  (an Option stays an Option);   WcRaw p = &<p>  (a Vec<u8>);')
    L.append('   WcPrefixedBytes a b = let mut buf = <a>.to_<le|be>_bytes().to_vec(); buf.write_all(&<b>)?; .. &buf  (byte order: Gen/SlppHelpers.v);')
    L.append('   WcArrowFile        = the buffer written by the Arrow FileWriter below *)')
    L.append('Inductive wcontent :=')
    L.append('| WcJsonStruct (ty : string) (fields : list (string * wplace)) | WcJson (p : wplace) | WcRaw (p : wplace)')
    L.append('| WcPrefixedBytes (size : wplace) (bytes : wplace) | WcArrowFile.')
    L.append('(* fn write(w, game: Game, opts: Option<&Opts>): the first statement `slippi::%s(%s)?` *)' % ('assert_max_version', 'game.' + '.'.join(state['first'][1])))
    L.append('Definition slpp_write_first : string * wplace := ("assert_max_version", %s).' % sx_coq_place(state['first']))
    L.append('(* the content of every `tar_append(&mut tar, <content>, "<name>")?`, in source order *)')
    L.append('Definition slpp_write_contents : list (string * wcontent) :=\n  [%s].' % ';\n   '.join('(%s, %s)' % (coq_str(n), c) for n, c in contents))
    L.append('')
    L.append('(* the frames.arrow buffer: let ports = %s(&%s); let batch = %s.%s(%s, &ports); *)' % (
        arrow['ports'][0], 'game.' + '.'.join(arrow['ports'][1][1]), 'game.' + '.'.join(arrow['batch'][0][1]), arrow['batch'][1], 'game.' + '.'.join(arrow['batch'][2][1])))
    L.append('Definition slpp_arrow_ports : string * wplace := (%s, %s).' % (coq_str(arrow['ports'][0]), sx_coq_place(arrow['ports'][1])))
    L.append('Definition slpp_arrow_batch : wplace * string * wplace := (%s, %s, %s).      (* receiver, method, first argument; the second is &ports *)' % (
        sx_coq_place(arrow['batch'][0]), coq_str(arrow['batch'][1]), sx_coq_place(arrow['batch'][2])))
    L.append('(* let schema = Schema::from(vec![Field { name, data_type: batch.data_type().clone(), is_nullable, metadata: <empty> }, ..]): (name, type, nullable) *)')
    L.append('Inductive arrow_dt := AdtOfBatch.')
    L.append('Definition slpp_arrow_schema : list (string * arrow_dt * bool) := [%s].' % '; '.join('(%s, %s, %s)' % (coq_str(a), b_, c) for a, b_, c in arrow['schema']))
    L.append('(* let chunk = Chunk::new(vec![Box::new(batch) as Box<dyn Array>, ..]) *)')
    L.append('Inductive arrow_arr := AaBatch.')
    L.append('Definition slpp_arrow_chunk : list arrow_arr := [%s].' % '; '.join(arrow['chunk']))
    L.append('(* let mut buf = Vec::new(); let mut writer = FileWriter::try_new(&mut buf, schema, None, WriteOptions { compression: <..> })?:')
    L.append('   WzOptsMapOr d f = opts.map_or(<d>, |o| o.<f>)  (d: the value when the caller passes no options); WzConst v = a constant *)')
    L.append('Inductive wcompv := WvNone | WvLz4 | WvZstd.')
    L.append('Inductive wcomp := WzOptsMapOr (default : wcompv) (field : string) | WzConst (v : wcompv).')
    L.append('Definition slpp_arrow_compression : wcomp := %s.' % arrow['comp'])
    L.append('(* .. then, in order: AwWriteChunk = writer.write(&chunk, None)?; AwFinish = writer.finish()?; then tar_append(.., &buf, ..) *)')
    L.append('Inductive arrow_wstep := AwWriteChunk | AwFinish.')
    L.append('Definition slpp_arrow_writer_calls : list arrow_wstep := [%s].' % '; '.join(arrow['calls']))
    L.append('')
    L.append('(* %s `#[derive(.., Serialize)] pub struct Peppi`: (JSON key, Rust field, true = #[serde(skip_serializing_if = "Option::is_none")]), in declaration order *)' % PEPPI_MOD_RS)
    L.append('Definition slpp_peppi_struct : list (string * string * bool) := [%s].' % '; '.join('(%s, %s, %s)' % (coq_str(k), coq_str(f), 'true' if o else 'false') for k, f, o, _ in peppi))
    L.append('(* `pub struct Version(pub u8, pub u8, pub u8)` (a JSON array of its fields) and %s `pub struct Quirks` *)' % GAME_RS)
    L.append('Definition slpp_peppi_version_arity : nat := %d.' % len(pver))
    L.append('Definition slpp_quirks_struct : list (string * string * bool) := [%s].' % '; '.join('(%s, %s, %s)' % (coq_str(k), coq_str(f), 'true' if o else 'false') for k, f, o, _ in quirks))
    L.append('(* %s `pub struct Game`: (field, true = an Option<..>) *)' % GAME_IMM_RS)
    L.append('Definition slpp_game_fields : list (string * bool) := [%s].' % '; '.join('(%s, %s)' % (coq_str(a), 'true' if b_.startswith('Option <') else 'false') for a, b_ in gdecl))
    return '\n'.join(L) + '\n'


# ------------------------------------------------------------------------------------------------
# (y) .slpp reader-assembly front end: the accumulators of fn read (src/io/peppi/de.rs), the statements of the arm that is not one of the
#     helper arms of front end (n) (the frames.arrow arm), and the assembly of the Game after the loop;
# (z) fn read_arrow_frames: the magic bytes, the prologue, what happens on each item of the Arrow stream and after the loop
#     -> Gen/SlppReadSrc.v   (names / break / targets of the arms: front end (d); the helper arms: (n))

SY_ERR = r'err ! \( (?:[^()]|\( (?:[^()]|\( [^()]* \))* \))* \)'      # the macro's own parentheses (balanced, up to two levels inside): nothing may follow inside the enclosing call


def sy_frames_arm(name, bd, accs, where):
    w = '%s (arm %s)' % (where, name)
    toks = tokenize(bd, w)
    sts = fw_stmts(toks, w)
    txt = [sj(x) for x in sts]
    if len(sts) != 3 or txt[2] != 'break':
        raise TranslateError('%s: expected three statements `let version = ..?; <acc> = Some(match opts.map_or(..) { .. }); break`: %s' % (w, ' ; '.join(txt)[:400]))
    m = re.fullmatch(r'let (\w+) = (\w+) \. as_ref \( \) \. map \( \| (\w+) \| (\w+)((?: \. \w+)+) \) \. ok_or \( %s \) \?' % SY_ERR, txt[0])
    if not m or m.group(3) != m.group(4) or m.group(2) not in accs:
        c = sx_changer(re.sub(r'\. (?:as_ref|map|ok_or) \(', '(', txt[0]))
        raise TranslateError('%s: statement 1 is not `let version = <acc>.as_ref().map(|s| s.<path>).ok_or(err!(..))?`%s: %s'
                             % (w, ' (`.%s(..)`: a missing accumulator would not be an error)' % c if c else '', txt[0][:300]))
    vvar, vacc, vpath = m.group(1), m.group(2), re.findall(r'\. (\w+)', m.group(5))
    if sx_type_of(('WpGuard', vpath), (None, 'Start'), w) != 'Version' or accs[vacc] != 'game :: Start':
        raise TranslateError('%s: the version is not a slippi Version field of the game::Start accumulator' % w)
    st = sts[1]
    v = tv(st)
    if len(st) < 8 or st[0][0] != 'id' or v[1:5] != ['=', 'Some', '(', 'match'] or match_close(st, 3) != len(st) - 1:
        raise TranslateError('%s: statement 2 is not `<acc> = Some(match <test> { .. })`: %s' % (w, txt[1][:300]))
    target = v[0]
    if target not in accs:
        raise TranslateError('%s: `%s` is not one of the accumulators %s' % (w, target, list(accs)))
    j = StmtView(st, w).first_top(5, len(st) - 1, '{')
    if j < 0 or match_close(st, j) != len(st) - 2:
        raise TranslateError('%s: unexpected tokens after the match: %s' % (w, txt[1][:300]))
    dflt, fld = sx_map_or(sj(st[5:j]), w + ' (the test)')
    if dflt not in ('true', 'false'):
        raise TranslateError('%s: the default of the test is not a bool literal: %s' % (w, dflt[:50]))
    od = dict(parse_struct_decl(file_toks(SLPP_DE), 'Opts', SLPP_DE))
    if od.get(fld) != 'bool':
        raise TranslateError('%s: Opts.%s is not a bool field' % (SLPP_DE, fld))
    arms = match_arms(st[j + 1:len(st) - 2], w)
    pats = [a for a, _ in arms]
    if len(arms) != 2 or pats[0] not in ('true', 'false') or pats[1] not in ('true', 'false', '_') or pats[0] == pats[1]:
        raise TranslateError('%s: the arms of the match are not `true => .., _ => ..` (or false / true in either order): %s' % (w, pats))
    branch = {}
    branch[pats[0]] = arms[0][1]
    branch['false' if pats[0] == 'true' else 'true'] = arms[1][1]

    def ver(text, binder):
        if text == vvar:
            return 'FvLocalVersion'
        mm = re.fullmatch(r'(\w+)((?: \. \w+)+)', text)
        if mm and binder is not None and mm.group(1) == binder:
            p = re.findall(r'\. (\w+)', mm.group(2))
            if sx_type_of(('WpGuard', p), (None, 'Start'), w) != 'Version':
                raise TranslateError('%s: %s is not a slippi Version' % (w, text))
            return 'FvStartField [%s]' % '; '.join(coq_str(x) for x in p)
        raise TranslateError('%s: unrecognised version expression (expected `%s` or a field path from the bound start): %s' % (w, vvar, text[:100]))

    def steps(text, which):
        ww = '%s (%s branch)' % (w, which)
        bt = tokenize(text, ww)
        out = []
        binder = size = buf = None
        bs = fw_stmts(bt, ww)
        for k, x in enumerate(bs):
            s = sj(x)
            last = k == len(bs) - 1
            if any(o.startswith('FbEmptyFrames') or o.startswith('FbDecode') for o in out):
                raise TranslateError('%s: statement after the value of the branch: %s' % (ww, s[:200]))
            mm = re.fullmatch(r'let (\w+) = (\w+) \. as_ref \( \) \. ok_or \( %s \) \?' % SY_ERR, s)
            if mm and mm.group(2) in accs and accs[mm.group(2)] == 'game :: Start' and binder is None:
                binder = mm.group(1)
                out.append('FbRequireStart %s' % coq_str(mm.group(2)))
                continue
            mm = re.fullmatch(r'MutableFrame :: with_capacity \( (\d+) , (.*) , & (\w+) \( (\w+) \) \) \. into \( \)', s)
            if mm and last:
                if binder is None or mm.group(4) != binder:
                    raise TranslateError('%s: the ports are not computed from the start bound by `let <s> = <acc>.as_ref().ok_or(..)?` in this branch: %s' % (ww, s[:200]))
                if mm.group(3) != 'port_occupancy':
                    raise TranslateError('%s: the ports are computed by `%s`, not by port_occupancy' % (ww, mm.group(3)))
                out.append('FbEmptyFrames %d%%N %s %s' % (int(mm.group(1)), cparen(ver(mm.group(2), binder)), coq_str(mm.group(3))))
                continue
            mm = re.fullmatch(r'let (\w+) = file \. size \( \)', s)
            if mm and size is None:
                size = mm.group(1)
                out.append('FbDeclaredSize')
                continue
            mm = re.fullmatch(r'let mut (\w+) = Vec :: new \( \)', s)
            if mm and buf is None:
                buf = mm.group(1)
                out.append('FbNewBuf')
                continue
            if buf is not None and s == 'file . read_to_end ( & mut %s ) ?' % buf:
                out.append('FbReadToEnd')
                continue
            mm = re.fullmatch(r'if (.*) \{ return Err \( %s \) ; \}' % SY_ERR, s)
            if mm:
                mc = re.fullmatch(r'\( %s \. len \( \) as u64 \) (<|<=|!=) %s' % (buf, size), mm.group(1)) if buf and size else None
                if not mc:
                    raise TranslateError('%s: the test is not `(<buf>.len() as u64) < <size>` over the buffer read and `file.size()`: %s' % (ww, mm.group(1)[:200]))
                out.append('FbShortIsErr %s' % {'<': 'FcLt', '<=': 'FcLe', '!=': 'FcNe'}[mc.group(1)])
                continue
            mm = re.fullmatch(r'(\w+) \( & (\w+) \[ \.\. \] , (.*) \) \?', s)
            if mm and last and buf is not None and mm.group(2) == buf:
                if mm.group(1) != 'read_arrow_frames':
                    raise TranslateError('%s: the entry is decoded by `%s`, not by read_arrow_frames' % (ww, mm.group(1)))
                out.append('FbDecode %s %s' % (coq_str(mm.group(1)), cparen(ver(mm.group(3), binder))))
                continue
            raise TranslateError('%s: unrecognised statement: %s' % (ww, s[:300]))
        if not out or not (out[-1].startswith('FbEmptyFrames') or out[-1].startswith('FbDecode')):
            raise TranslateError('%s: the branch does not end with an empty frame table or a call of read_arrow_frames' % ww)
        return out

    if find_seq(file_toks(SLPP_DE), ['mutable', '::', 'Frame', 'as', 'MutableFrame']) < 0 or 'port_occupancy' not in imported_from(SLPP_DE, ['game']):
        raise TranslateError('%s: expected `frame::mutable::Frame as MutableFrame` and `game::port_occupancy` among the imports' % SLPP_DE)
    return dict(name=name, target=target, vacc=vacc, vpath=vpath, dflt=dflt, fld=fld, when_true=steps(branch['true'], 'true'), when_false=steps(branch['false'], 'false'))


def sz_read_arrow_frames():
    where = '%s fn read_arrow_frames' % SLPP_DE
    params, ret, body = find_fn(SLPP_DE, None, 'read_arrow_frames')
    if sjp(params) != 'mut r : R , version : slippi :: Version' or sj(ret) != '-> Result < Frame >':
        raise TranslateError('%s: unexpected signature (%s) %s' % (where, sjp(params), sj(ret)))
    for t in body:
        if t[0] == 'id' and t[1] in ('is_empty', 'len', 'num_rows', 'filter', 'skip_while', 'skip'):
            raise TranslateError('%s: `%s`: a test or adaptor that can skip a batch (an EMPTY record batch is still the one batch of a zero-frame game)' % (where, t[1]))
    if 'expect_bytes' not in imported_from(SLPP_DE, ['io']):
        raise TranslateError('%s: expect_bytes is not imported from crate::io' % SLPP_DE)
    sts = fw_stmts(body, where)
    txt = [sj(x) for x in sts]
    if len(sts) != 6:
        raise TranslateError('%s: expected 6 statements (expect_bytes, read_stream_metadata, StreamReader::new, let mut frame, the loop, the final match), found %d' % (where, len(sts)))
    m = strict_match(txt[:4], [
        ('`expect_bytes(&mut r, &[<bytes>])?`', r'expect_bytes \( & mut r , & \[ ([0-9a-fx ,]+) \] \) \?'),
        ('`let metadata = read_stream_metadata(&mut r)?`', r'let (\w+) = read_stream_metadata \( & mut r \) \?'),
        ('`let reader = StreamReader::new(r, metadata, None)`', r'let (?:mut )?(\w+) = StreamReader :: new \( r , (\w+) , None \)'),
        ('`let mut frame: Option<Frame> = None`', r'let mut (\w+) : Option < Frame > = None'),
    ], where)
    magic = [num(x) for x in m[0].group(1).split(' , ') if x.strip()]
    if m[2].group(2) != m[1].group(1):
        raise TranslateError('%s: StreamReader::new is not given the metadata read just before' % where)
    reader, frame = m[2].group(1), m[3].group(1)
    fb = fw_for_block(sts[4], where)
    mh = re.fullmatch(r'(\w+) in %s' % reader, fb[0]) if fb else None
    if not mh:
        raise TranslateError('%s: statement 5 is not `for <item> in %s { .. }`: %s' % (where, reader, txt[4][:200]))
    inner = fw_stmts(fb[1], where)
    if len(inner) != 1 or tv(inner[0][:4]) != ['match', mh.group(1), '?', '{'] or match_close(inner[0], 3) != len(inner[0]) - 1:
        raise TranslateError('%s: the loop body is not exactly `match %s? { .. }` (an error of the stream must propagate)' % (where, mh.group(1)))

    def action(bd, ww, chunk=None):
        b = bd[:-2] if bd.endswith(' ;') and ' ; ' not in bd else bd
        if re.fullmatch(r'return Err \( %s \)' % SY_ERR, b):
            return 'RaErr'
        if b in ('continue', '', '( )'):
            return 'RaIgnore'
        if b == 'break':
            return 'RaStop'
        if chunk is not None:
            ss = [sj(x) for x in fw_stmts(tokenize(bd, ww), ww)]
            if len(ss) == 2:
                m1 = re.fullmatch(r'let (\w+) = %s \. arrays \( \) \[ (\d+) \] \. as_any \( \) \. downcast_ref :: < (\w+) > \( \) \. (?:expect \( ".*" \)|unwrap \( \))' % chunk, ss[0])
                m2 = re.fullmatch(r'%s = Some \( Frame :: (\w+) \( (\w+) \. clone \( \) , version \) \)' % frame, ss[1])
                if m1 and m2 and m2.group(2) == m1.group(1):
                    return 'RaStoreDecoded %d %s %s' % (int(m1.group(2)), coq_str(m1.group(3)), coq_str(m2.group(1)))
        raise TranslateError('%s: unrecognised action (expected `return Err(err!(..))`, or `let f = <chunk>.arrays()[<k>].as_any().downcast_ref::<StructArray>().expect(..); '
                             '%s = Some(Frame::from_struct_array(f.clone(), version))`): %s' % (ww, frame, bd[:300]))

    acts = {}
    for pat, bd in match_arms(inner[0][4:-1], where):
        mp = re.fullmatch(r'StreamState :: Some \( (\w+) \)', pat)
        if mp and 'chunk' not in acts:
            bt = tokenize(bd, where)
            if tv(bt[:3]) != ['match', frame, '{'] or match_close(bt, 2) != len(bt) - 1:
                raise TranslateError('%s: the StreamState::Some arm is not `match %s { None => .., Some(_) => .. }`: %s' % (where, frame, bd[:200]))
            sub = match_arms(bt[3:-1], where)
            if [a for a, _ in sub] not in (['None', 'Some ( _ )'], ['Some ( _ )', 'None'], ['None', '_']):
                raise TranslateError('%s: the arms on `%s` are not None / Some(_): %s' % (where, frame, [a for a, _ in sub]))
            for a, b in sub:
                acts['first' if a == 'None' else 'again'] = action(b, '%s (a chunk when %s is %s)' % (where, frame, a), mp.group(1))
            acts['chunk'] = True
        elif pat == 'StreamState :: Waiting' and 'waiting' not in acts:
            acts['waiting'] = action(bd, '%s (StreamState::Waiting)' % where)
        else:
            raise TranslateError('%s: unrecognised or repeated arm: %s' % (where, pat[:100]))
    if sorted(acts) != ['again', 'chunk', 'first', 'waiting']:
        raise TranslateError('%s: the loop does not handle exactly StreamState::Some and StreamState::Waiting' % where)
    bt = sts[5]
    if tv(bt[:3]) != ['match', frame, '{'] or match_close(bt, 2) != len(bt) - 1:
        raise TranslateError('%s: the last statement is not `match %s { .. }`: %s' % (where, frame, txt[5][:200]))
    fin = {}
    for a, b in match_arms(bt[3:-1], where):
        mp = re.fullmatch(r'Some \( (\w+) \)', a)
        if mp and b == 'Ok ( %s )' % mp.group(1) and 'some' not in fin:
            fin['some'] = 'RaOkStored'
        elif a in ('_', 'None') and re.fullmatch(r'Err \( %s \)' % SY_ERR, b) and 'none' not in fin:
            fin['none'] = 'RaErr'
        else:
            raise TranslateError('%s: unrecognised arm of the final match (expected `Some(f) => Ok(f), _ => Err(err!(..))`): %s => %s' % (where, a[:60], b[:100]))
    if sorted(fin) != ['none', 'some']:
        raise TranslateError('%s: the final match does not have exactly the arms Some(f) / _' % where)
    D = []
    D.append('(* %s (r, version): expect_bytes(&mut r, &[..])?; let metadata = read_stream_metadata(&mut r)?; let reader = StreamReader::new(r, metadata, None);' % where)
    D.append('   let mut frame: Option<Frame> = None; for result in reader { match result? { .. } }; match frame { Some(f) => Ok(f), _ => Err(..) } *)')
    D.append('Definition arrow_stream_magic : list N := [%s]%%N.' % '; '.join(str(x) for x in magic))
    D.append('Inductive raf_pro := RpExpectMagic | RpReadStreamMetadata | RpNewStreamReader.')
    D.append('Definition raf_prologue : list raf_pro := [RpExpectMagic; RpReadStreamMetadata; RpNewStreamReader].')
    D.append('(* RaStoreDecoded k T f: let a = chunk.arrays()[k] downcast to T (a panic otherwise); frame = Some(Frame::f(a.clone(), version));')
    D.append('   RaErr: return Err(err!(..)); RaIgnore: nothing (the loop goes on); RaStop: break; RaOkStored: Ok(the stored frame) *)')
    D.append('Inductive raf_act := RaStoreDecoded (array_index : nat) (downcast : string) (decoder : string) | RaErr | RaIgnore | RaStop | RaOkStored.')
    D.append('Definition raf_item_error_propagates : bool := true.     (* match result? { .. } *)')
    D.append('Definition raf_on_chunk_first : raf_act := %s.     (* StreamState::Some(chunk) while frame is None *)' % acts['first'])
    D.append('Definition raf_on_chunk_again : raf_act := %s.     (* StreamState::Some(chunk) while frame is Some(_) *)' % acts['again'])
    D.append('Definition raf_on_waiting : raf_act := %s.     (* StreamState::Waiting *)' % acts['waiting'])
    D.append('Definition raf_end_with_frame : raf_act := %s.     (* after the loop: Some(f) *)' % fin['some'])
    D.append('Definition raf_end_without_frame : raf_act := %s.     (* after the loop: no batch was seen *)' % fin['none'])
    return D


def gen_slpp_read_src():
    where = '%s fn read' % SLPP_DE
    params, ret, body = find_fn(SLPP_DE, None, 'read')
    if sjp(params) != 'r : R , opts : Option < & Opts >' or sj(ret) != '-> Result < Game >':
        raise TranslateError('%s: unexpected signature (%s) %s' % (where, sjp(params), sj(ret)))
    de_toks = file_toks(SLPP_DE)
    if find_seq(de_toks, ['immutable', '::', 'Game']) < 0:
        raise TranslateError('%s: `Game` is not game::immutable::Game' % SLPP_DE)
    gdecl = parse_struct_decl(file_toks(GAME_IMM_RS), 'Game', GAME_IMM_RS)
    if sorted(gdecl) != sorted(SX_GAME_FIELDS):
        raise TranslateError('%s: struct Game is not { %s }: %s' % (GAME_IMM_RS, ', '.join('%s: %s' % (a, b.replace(' ', '')) for a, b in SX_GAME_FIELDS), gdecl))
    pdecl = dict((f, t) for _, f, _, t in sx_serde_struct(PEPPI_MOD_RS, 'Peppi'))
    sts = fw_stmts(body, where)
    accs = {}
    order = []
    loop = None
    prelude = []        # (binder, acc)
    final = None
    for k, st in enumerate(sts):
        s = sj(st)
        m = re.fullmatch(r'let mut (\w+) : Option < (.*) > = (.*)', s)
        if m:
            if loop is not None or m.group(1) in accs:
                raise TranslateError('%s: an accumulator declared after the loop, or twice: %s' % (where, s[:200]))
            if m.group(3) != 'None':
                raise TranslateError('%s: the accumulator %s does not start as None: %s' % (where, m.group(1), s[:200]))
            accs[m.group(1)] = m.group(2)
            order.append(m.group(1))
            continue
        if tv(st[:1]) == ['for'] and loop is None:
            loop = st
            continue
        if loop is not None:
            m = re.fullmatch(r'let (\w+) = (\w+) \. ok_or \( %s \) \?' % SY_ERR, s)
            if m and m.group(2) in accs and m.group(2) not in [a for _, a in prelude] and final is None:
                prelude.append((m.group(1), m.group(2)))
                continue
            if tv(st[:4]) == ['Ok', '(', 'Game', '{'] and k == len(sts) - 1 and match_close(st, 1) == len(st) - 1 and match_close(st, 3) == len(st) - 2:
                final = st[4:-2]
                continue
        c = sx_changer(s)
        if c in ('unwrap_or_default', 'unwrap_or', 'unwrap_or_else', 'unwrap', 'expect') and any(('id', a) in st for a in accs):
            raise TranslateError('%s: `.%s(..)` on an accumulator: a missing entry would not be an error (or would be a panic): %s' % (where, c, s[:200]))
        raise TranslateError('%s: unrecognised statement (expected the `let mut <acc>: Option<..> = None` lines, the entry loop, `let x = <acc>.ok_or(err!(..))?` lines, '
                             '`Ok(Game { .. })`): %s' % (where, s[:300]))
    if loop is None or final is None:
        raise TranslateError('%s: no entry loop / no final `Ok(Game { .. })`' % where)
    binders = dict(prelude)
    live = [a for a in accs if a not in [x for _, x in prelude] and a not in binders]     # accumulators still visible as Options
    required = [a for _, a in prelude]
    asm = []
    used = set(a for _, a in prelude)
    for f in af_split(final, where):
        if not f:
            continue
        if f[0] == ('punct', '..'):
            raise TranslateError('%s: `%s` in the Game literal' % (where, sj(f)[:80]))
        if len(f) == 1 and f[0][0] == 'id':
            fld, e = f[0][1], f[0][1]
        elif len(f) >= 3 and f[0][0] == 'id' and f[1] == ('punct', ':'):
            fld, e = f[0][1], sj(f[2:])
        else:
            raise TranslateError('%s: unrecognised field of the Game literal: %s' % (where, sj(f)[:100]))
        gty = dict(gdecl).get(fld)
        if gty is None or fld in [a for a, _ in asm]:
            raise TranslateError('%s: Game.%s does not exist or is initialised twice' % (where, fld))
        m = re.fullmatch(r'(\w+) \. ok_or \( %s \) \?' % SY_ERR, e)
        mf = re.fullmatch(r'(\w+) \. (\w+)', e)
        if e in live and e not in used:
            if not gty.startswith('Option <'):
                raise TranslateError('%s: Game.%s (%s) is initialised from the Option accumulator %s' % (where, fld, gty, e))
            asm.append((fld, 'AsOptional %s' % coq_str(e)))
            used.add(e)
        elif e in binders:
            asm.append((fld, 'AsRequired %s' % coq_str(binders[e])))
        elif m and m.group(1) in live and m.group(1) not in used:
            asm.append((fld, 'AsRequired %s' % coq_str(m.group(1))))
            required.append(m.group(1))
            used.add(m.group(1))
        elif mf and mf.group(1) in binders:
            acc = binders[mf.group(1)]
            if accs[acc] != 'peppi :: Peppi' or mf.group(2) not in pdecl or pdecl[mf.group(2)] != gty:
                raise TranslateError('%s: Game.%s (%s) is initialised from `%s`, which is not a field of that type of the peppi::Peppi accumulator' % (where, fld, gty, e))
            asm.append((fld, 'AsRequiredField %s %s' % (coq_str(acc), coq_str(mf.group(2)))))
        else:
            c = sx_changer(e)
            if c in ('unwrap_or_default', 'unwrap_or', 'unwrap_or_else', 'unwrap', 'expect', 'or', 'or_else', 'map', 'and_then', 'filter', 'take', 'flatten'):
                raise TranslateError('%s: Game.%s: `.%s(..)` on an accumulator: a missing entry would not be an error / the value is not passed on as it was read: %s'
                                     % (where, fld, c, e[:200]))
            raise TranslateError('%s: Game.%s: unrecognised source (expected `<acc>`, `<acc>.ok_or(err!(..))?`, or a field of a `let x = <acc>.ok_or(..)?` binding): %s'
                                 % (where, fld, e[:200]))
    if sorted(a for a, _ in asm) != sorted(a for a, _ in gdecl):
        raise TranslateError('%s: the Game literal does not initialise every field of struct Game: %s' % (where, [a for a, _ in asm]))
    unused = [a for a in accs if a not in used]
    if unused:
        raise TranslateError('%s: the accumulator(s) %s are never used in the result' % (where, unused))

    # ---- the arms
    fb = fw_for_block(loop, where)
    ms = [st for st in fw_stmts(fb[1], where) if tv(st[:1]) == ['match']]
    if len(ms) != 1:
        raise TranslateError('%s: expected exactly one `match` in the entry loop' % where)
    j = StmtView(ms[0], where).first_top(1, len(ms[0]), '{')
    if j < 0 or match_close(ms[0], j) != len(ms[0]) - 1:
        raise TranslateError('%s: unexpected tokens after the match' % where)
    helpers = ('read_peppi_start', 'read_peppi_end', 'read_peppi_metadata', 'read_peppi_gecko_codes')
    fa = None
    for pat, bd0 in match_arms(ms[0][j + 1:-1], where):
        bd = bd0[:-2] if bd0.endswith(' ;') and ' ; ' not in bd0 else bd0
        if pat == '_':
            continue
        mm = re.fullmatch(r'(\w+) = (?:Some \( )?(\w+) \( file \) \?(?: \))?', bd)
        if mm and mm.group(2) in helpers:
            continue                  # front end (n)
        if 'assert_current_version' in bd.split(' '):
            continue                  # front end (n)
        pm = re.fullmatch(r'Some \( "([\w.\-]+)" \)', pat)
        if not pm or fa is not None:
            raise TranslateError('%s: a second arm that is neither a helper arm nor the catch-all, or an unrecognised pattern: %s' % (where, pat[:100]))
        fa = sy_frames_arm(pm.group(1), bd0, accs, where)
    if fa is None:
        raise TranslateError('%s: no arm builds the frames' % where)

    L = []
    L.append('(* GENERATED by tools/rust2coq.py from %s (fn read: the accumulators, the arm that builds the frames, the assembly of the Game; fn read_arrow_frames)' % SLPP_DE)
    L.append('   -- do not edit. *)')
    L.append('From Coq Require Import NArith List String.')
    L.append('Import ListNotations.')
    L.append('Local Open Scope string_scope.')
    L.append('')
    L.append('(* fn read(r, opts: Option<&Opts>): `let mut <acc>: Option<T> = None;` in order, with T *)')
    L.append('Definition slpp_read_accs : list (string * string) :=\n  [%s].' % '; '.join('(%s, %s)' % (coq_str(a), coq_str(accs[a].replace(' ', ''))) for a in order))
    L.append('')
    L.append('(* the arm Some(%s): `let version = %s.as_ref().map(|s| s.%s).ok_or(err!(..))?;` (no such accumulator yet: an error),' % (coq_str(fa['name']), fa['vacc'], '.'.join(fa['vpath'])))
    L.append('   `%s = Some(match opts.map_or(%s, |o| o.%s) { true => {..}, _ => {..} });` `break;` *)' % (fa['target'], fa['dflt'], fa['fld']))
    L.append('Definition slpp_frames_entry : string := %s.' % coq_str(fa['name']))
    L.append('Definition slpp_frames_target : string := %s.' % coq_str(fa['target']))
    L.append('Definition slpp_frames_version : string * list string := (%s, [%s]).' % (coq_str(fa['vacc']), '; '.join(coq_str(x) for x in fa['vpath'])))
    L.append('Definition slpp_frames_skip_default : bool := %s.       (* the value of the test when opts is None *)' % fa['dflt'])
    L.append('Definition slpp_frames_skip_field : string := %s.' % coq_str(fa['fld']))
    L.append('(* the statements of a branch.  FvLocalVersion: the `version` bound above; FvStartField p: <the start bound in the branch>.p')
    L.append('   FbRequireStart a: let start = <a>.as_ref().ok_or(err!(..))?;  FbEmptyFrames c v f: MutableFrame::with_capacity(c, <v>, &f(start)).into();')
    L.append('   FbDeclaredSize: let size = file.size();  FbNewBuf: let mut buf = Vec::new();  FbReadToEnd: file.read_to_end(&mut buf)?;')
    L.append('   FbShortIsErr cmp: if (buf.len() as u64) <cmp> size { return Err(err!(..)); }  FbDecode f v: f(&buf[..], <v>)? *)')
    L.append('Inductive fver := FvLocalVersion | FvStartField (path : list string).')
    L.append('Inductive fcmp := FcLt | FcLe | FcNe.')
    L.append('Inductive fb_step :=')
    L.append('| FbRequireStart (acc : string) | FbEmptyFrames (capacity : N) (v : fver) (ports_fn : string)')
    L.append('| FbDeclaredSize | FbNewBuf | FbReadToEnd | FbShortIsErr (cmp : fcmp) | FbDecode (fn : string) (v : fver).')
    L.append('Definition slpp_frames_when_skip : list fb_step := [%s].' % '; '.join(fa['when_true']))
    L.append('Definition slpp_frames_otherwise : list fb_step := [%s].' % '; '.join(fa['when_false']))
    L.append('')
    L.append('(* after the loop.  The accumulators that must be present, in the order their `.ok_or(err!(..))?` is evaluated (the `let x = <acc>.ok_or(..)?` lines first,')
    L.append('   then the fields of the Game literal in order) *)')
    L.append('Definition slpp_read_required : list string := [%s].' % '; '.join(coq_str(a) for a in required))
    L.append('(* Ok(Game { <field>: <source>, .. }): AsOptional a = the accumulator a as it is (an Option); AsRequired a = a.ok_or(err!(..))?;')
    L.append('   AsRequiredField a f = x.f for `let x = a.ok_or(err!(..))?` *)')
    L.append('Inductive asm_src := AsOptional (acc : string) | AsRequired (acc : string) | AsRequiredField (acc : string) (field : string).')
    L.append('Definition slpp_read_assembly : list (string * asm_src) :=\n  [%s].' % '; '.join('(%s, %s)' % (coq_str(a), b_) for a, b_ in asm))
    L.append('')
    L.extend(sz_read_arrow_frames())
    return '\n'.join(L) + '\n'


# ------------------------------------------------------------------------------------------------
# (aa) .slpp option-defaults front end: `struct Opts` of src/io/peppi/ser.rs and src/io/peppi/de.rs (fields, how Default is obtained), and the ONE use of
#      `opts` in fn write / fn read (`opts.map_or(<default>, |o| o.<field>)`): what the entry points do when the caller passes None -> Gen/SlppOptsSrc.v

def sa_value(text, ty, where):
    if ty == 'bool' and text in ('true', 'false'):
        return 'OvBool %s' % text
    if ty.startswith('Option <') and text == 'None':
        return 'OvNone'
    m = re.fullmatch(r'Some \( Compression :: (LZ4|ZSTD) \)', text)
    if m and ty == 'Option < Compression >':
        return {'LZ4': 'OvSomeLz4', 'ZSTD': 'OvSomeZstd'}[m.group(1)]
    raise TranslateError('%s: unrecognised default value `%s` for a field of type %s' % (where, text[:80], ty))


def sa_opts(rel):
    """-> (fields [(name, type)], how, defaults [(name, oval)])"""
    toks = file_toks(rel)
    w = '%s struct Opts' % rel
    i = find_seq(toks, ['struct', 'Opts'])
    if i < 0 or toks[i + 2][1] != '{':
        raise TranslateError('%s: not found (or not a plain struct)' % w)
    fields = parse_struct_decl(toks, 'Opts', rel)
    derived = 'Default' in js_derives(attrs_before(toks, i))
    manual = find_seq(toks, ['impl', 'Default', 'for', 'Opts'])
    if derived == (manual >= 0):
        raise TranslateError('%s: expected exactly one of `#[derive(Default)]` and `impl Default for Opts`' % w)
    if derived:
        dv = []
        for f, ty in fields:
            if ty == 'bool':
                dv.append((f, 'OvBool false'))
            elif ty.startswith('Option <'):
                dv.append((f, 'OvNone'))
            else:
                raise TranslateError('%s: the derived default of a field of type %s is not modelled' % (w, ty))
        return fields, 'OdDerived', dv
    params, ret, body, names, blk = other_impl_fn(rel, 'Default for Opts', 'default')
    if names != ['default'] or sjp(params) != '' or sj(ret) not in ('-> Self', '-> Opts'):
        raise TranslateError('%s: unexpected `impl Default for Opts`' % w)
    if tv(body[:2]) not in (['Self', '{'], ['Opts', '{']) or match_close(body, 1) != len(body) - 1:
        raise TranslateError('%s: fn default is not a struct literal: %s' % (w, sj(body)[:200]))
    d = {}
    for g in af_split(body[2:-1], w):
        if not g:
            continue
        if len(g) < 3 or g[0][0] != 'id' or g[1] != ('punct', ':') or g[0][1] in d:
            raise TranslateError('%s: unrecognised initialiser in fn default: %s' % (w, sj(g)[:100]))
        d[g[0][1]] = sj(g[2:])
    if sorted(d) != sorted(f for f, _ in fields):
        raise TranslateError('%s: fn default does not initialise exactly the fields' % w)
    return fields, 'OdManual', [(f, sa_value(d[f], ty, w)) for f, ty in fields]


def sa_use(rel, fn, fields):
    where = '%s fn %s' % (rel, fn)
    params, ret, body = find_fn(rel, None, fn)
    ps = dict(parse_params(params, where))
    if ps.get('opts') != 'Option < & Opts >':
        raise TranslateError('%s: no parameter `opts: Option<&Opts>`' % where)
    v = tv(body)
    uses = [k for k, t in enumerate(body) if t == ('id', 'opts')]
    if len(uses) != 1 or v[uses[0] + 1:uses[0] + 4] != ['.', 'map_or', '('] or body[uses[0] - 1][1] in ('.', '::'):
        raise TranslateError('%s: `opts` is not used exactly once, as `opts.map_or(<default>, |o| o.<field>)`' % where)
    e = match_close(body, uses[0] + 3)
    dflt, fld = sx_map_or(sj(body[uses[0]:e + 1]), where)
    ty = dict(fields).get(fld)
    if ty is None:
        raise TranslateError('%s: Opts.%s does not exist' % (where, fld))
    return fld, sa_value(dflt, ty, where)


def gen_slpp_opts_src():
    D = []
    D.append('(* OvBool b / OvNone / OvSomeLz4 / OvSomeZstd: the value of a field (bool, or Option<Compression>);')
    D.append('   OdDerived: #[derive(Default)] (false / None); OdManual: a hand-written `impl Default for Opts` whose literal is listed *)')
    D.append('Inductive oval := OvBool (b : bool) | OvNone | OvSomeLz4 | OvSomeZstd.')
    D.append('Inductive odefault := OdDerived | OdManual.')
    for rel, fn, pre in ((SLPP_SER, 'write', 'ser'), (SLPP_DE, 'read', 'de')):
        fields, how, dv = sa_opts(rel)
        fld, val = sa_use(rel, fn, fields)
        D.append('')
        D.append('(* %s: pub struct Opts { %s }; fn %s(.., opts: Option<&Opts>) uses `opts` once: opts.map_or(<default>, |o| o.%s) *)' % (
            rel, ', '.join('%s: %s' % (f, t.replace(' ', '')) for f, t in fields), fn, fld))
        D.append('Definition slpp_%s_opts_fields : list (string * string) := [%s].' % (pre, '; '.join('(%s, %s)' % (coq_str(f), coq_str(t.replace(' ', ''))) for f, t in fields)))
        D.append('Definition slpp_%s_opts_default_how : odefault := %s.' % (pre, how))
        D.append('Definition slpp_%s_opts_default : list (string * oval) := [%s].      (* Opts::default() *)' % (pre, '; '.join('(%s, %s)' % (coq_str(f), o) for f, o in dv)))
        D.append('Definition slpp_%s_opts_none : string * oval := (%s, %s).      (* the field consulted, and its value when opts is None *)' % (pre, coq_str(fld), val))
    L = []
    L.append('(* GENERATED by tools/rust2coq.py from %s (struct Opts, the use of `opts` in fn write) and %s (struct Opts, the use of `opts` in fn read)' % (SLPP_SER, SLPP_DE))
    L.append('   -- do not edit. *)')
    L.append('From Coq Require Import List String.')
    L.append('Import ListNotations.')
    L.append('Local Open Scope string_scope.')
    L.append('')
    L.extend(D)
    return '\n'.join(L) + '\n'


def write_if_changed(path, content):
    os.makedirs(os.path.dirname(path), exist_ok=True)
    try:
        with open(path) as f:
            if f.read() == content:
                return False
    except FileNotFoundError:
        pass
    with open(path, 'w') as f:
        f.write(content)
    return True


# the binder names of the reference sources, per file and function (`impl header|fn name`), in source order: parameters, `let`, closure
# parameters, `for`, match-arm and `if let` bindings.  Regenerate with `rust2coq.py --dump-binders` when the matchers of this file
# are moved to new reference sources.  The table is only ever used to alpha-rename (see alpha_canon): a wrong or stale entry can
# make a renaming impossible or pointless, never unsound.
EXPECTED_BINDERS = {
    'src/frame/immutable/mod.rs': {
        'Data|transpose_one': 'i version',
        'From < mutable :: Data > for Data|from': 'd v',
        'PortData|transpose_one': 'i version f',
        'From < mutable :: PortData > for PortData|from': 'p f',
        'Frame|transpose_one': 'i version p start end i',
        'Frame|rollbacks': 'keep',
        'Frame|rollbacks_': 'ids result unique_id_count idx seen idx id zero_based_id',
        'From < mutable :: Frame > for Frame|from': 'f p x x x x',
        'fmt :: Debug for Frame|fmt': 'f',
        'End|transpose_one': 'i version x',
        'From < mutable :: End > for End|from': 'x x v',
        'Item|transpose_one': 'i version x x x',
        'From < mutable :: Item > for Item|from': 'x x x x v',
        'ItemMisc|transpose_one': 'i version',
        'From < mutable :: ItemMisc > for ItemMisc|from': 'x',
        'Position|transpose_one': 'i version',
        'From < mutable :: Position > for Position|from': 'x v',
        'Post|transpose_one': 'i version x x x x x x x x x x x x x',
        'From < mutable :: Post > for Post|from': 'x x x x x x x x x x x x x x v',
        'Pre|transpose_one': 'i version x x x',
        'From < mutable :: Pre > for Pre|from': 'x x x x v',
        'Start|transpose_one': 'i version x',
        'From < mutable :: Start > for Start|from': 'x x v',
        'StateFlags|transpose_one': 'i version',
        'From < mutable :: StateFlags > for StateFlags|from': 'x',
        'TriggersPhysical|transpose_one': 'i version',
        'From < mutable :: TriggersPhysical > for TriggersPhysical|from': 'x v',
        'Velocities|transpose_one': 'i version',
        'From < mutable :: Velocities > for Velocities|from': 'x v',
        'Velocity|transpose_one': 'i version',
        'From < mutable :: Velocity > for Velocity|from': 'x v',
    },
    'src/frame/immutable/peppi.rs': {
        'Data|data_type': 'version',
        'Data|into_struct_array': 'version values',
        'Data|from_struct_array': 'array version values validity',
        'PortData|data_type': 'version port fields',
        'PortData|into_struct_array': 'version port values follower',
        'PortData|from_struct_array': 'array version port fields values f x',
        'Frame|port_data_type': 'version ports p',
        'Frame|item_data_type': 'version',
        'Frame|data_type': 'version ports fields',
        'Frame|into_struct_array': 'version ports values occupancy data arrays item_values',
        'Frame|port_data_from_struct_array': 'array version fields values ports i a',
        'Frame|from_struct_array': 'array version fields values end_idx item_idx item item_offset v arrays item_offset item v i v',
        'End|data_type': 'version fields',
        'End|into_struct_array': 'version values',
        'End|from_struct_array': 'array version values validity x',
        'Item|data_type': 'version fields',
        'Item|into_struct_array': 'version values',
        'Item|from_struct_array': 'array version values validity x x x',
        'ItemMisc|data_type': 'version fields',
        'ItemMisc|into_struct_array': 'version values',
        'ItemMisc|from_struct_array': 'array version values validity',
        'Position|data_type': 'version fields',
        'Position|into_struct_array': 'version values',
        'Position|from_struct_array': 'array version values validity',
        'Post|data_type': 'version fields',
        'Post|into_struct_array': 'version values',
        'Post|from_struct_array': 'array version values validity x x x x x x x x x x x x x',
        'Pre|data_type': 'version fields',
        'Pre|into_struct_array': 'version values',
        'Pre|from_struct_array': 'array version values validity x x x',
        'Start|data_type': 'version fields',
        'Start|into_struct_array': 'version values',
        'Start|from_struct_array': 'array version values validity x',
        'StateFlags|data_type': 'version fields',
        'StateFlags|into_struct_array': 'version values',
        'StateFlags|from_struct_array': 'array version values validity',
        'TriggersPhysical|data_type': 'version fields',
        'TriggersPhysical|into_struct_array': 'version values',
        'TriggersPhysical|from_struct_array': 'array version values validity',
        'Velocities|data_type': 'version fields',
        'Velocities|into_struct_array': 'version values',
        'Velocities|from_struct_array': 'array version values validity',
        'Velocity|data_type': 'version fields',
        'Velocity|into_struct_array': 'version values',
        'Velocity|from_struct_array': 'array version values validity',
    },
    'src/frame/immutable/slippi.rs': {
        'Data|write_pre': 'w version idx frame_id port v',
        'Data|write_post': 'w version idx frame_id port v',
        'PortData|write_pre': 'w version idx frame_id f v',
        'PortData|write_post': 'w version idx frame_id f v',
        'Frame|write': 'w version idx frame_id port offset item_idx port',
        'End|write': 'w version i',
        'End|size': 'version size',
        'Item|write': 'w version i',
        'Item|size': 'version size',
        'ItemMisc|write': 'w version i',
        'ItemMisc|size': 'version size',
        'Position|write': 'w version i',
        'Position|size': 'version size',
        'Post|write': 'w version i',
        'Post|size': 'version size',
        'Pre|write': 'w version i',
        'Pre|size': 'version size',
        'Start|write': 'w version i',
        'Start|size': 'version size',
        'StateFlags|write': 'w version i',
        'StateFlags|size': 'version size',
        'TriggersPhysical|write': 'w version i',
        'TriggersPhysical|size': 'version size',
        'Velocities|write': 'w version i',
        'Velocities|size': 'version size',
        'Velocity|write': 'w version i',
        'Velocity|size': 'version size',
    },
    'src/frame/mutable.rs': {
        'Data|with_capacity': 'capacity version',
        'Data|push_null': 'version len',
        'Data|transpose_one': 'i version',
        'PortData|with_capacity': 'capacity version port',
        'PortData|transpose_one': 'i version f',
        'Frame|with_capacity': 'capacity version ports p',
        'Frame|transpose_one': 'i version p start end i',
        'End|with_capacity': 'capacity version',
        'End|len': 'v',
        'End|push_null': 'version len',
        'End|read_push': 'r version x v',
        'End|transpose_one': 'i version x',
        'Item|with_capacity': 'capacity version',
        'Item|push_null': 'version len',
        'Item|read_push': 'r version x x x x x x x x v',
        'Item|transpose_one': 'i version x x x',
        'ItemMisc|with_capacity': 'capacity version',
        'ItemMisc|push_null': 'version',
        'ItemMisc|read_push': 'r version x x x x',
        'ItemMisc|transpose_one': 'i version',
        'Position|with_capacity': 'capacity version',
        'Position|push_null': 'version len',
        'Position|read_push': 'r version x x v',
        'Position|transpose_one': 'i version',
        'Post|with_capacity': 'capacity version',
        'Post|push_null': 'version len',
        'Post|read_push': 'r version x x x x x x x x x x x x x x x x x x x x v',
        'Post|transpose_one': 'i version x x x x x x x x x x x x x',
        'Pre|with_capacity': 'capacity version',
        'Pre|push_null': 'version len',
        'Pre|read_push': 'r version x x x x x x x x x v',
        'Pre|transpose_one': 'i version x x x',
        'Start|with_capacity': 'capacity version',
        'Start|push_null': 'version len',
        'Start|read_push': 'r version x x v',
        'Start|transpose_one': 'i version x',
        'StateFlags|with_capacity': 'capacity version',
        'StateFlags|push_null': 'version',
        'StateFlags|read_push': 'r version x x x x x',
        'StateFlags|transpose_one': 'i version',
        'TriggersPhysical|with_capacity': 'capacity version',
        'TriggersPhysical|push_null': 'version len',
        'TriggersPhysical|read_push': 'r version x x v',
        'TriggersPhysical|transpose_one': 'i version',
        'Velocities|with_capacity': 'capacity version',
        'Velocities|push_null': 'version len',
        'Velocities|read_push': 'r version x x x x x v',
        'Velocities|transpose_one': 'i version',
        'Velocity|with_capacity': 'capacity version',
        'Velocity|push_null': 'version len',
        'Velocity|read_push': 'r version x x v',
        'Velocity|transpose_one': 'i version',
    },
    'src/game/immutable.rs': {
        'game :: Game for Game|frame': 'idx',
    },
    'src/game/mod.rs': {
        'Port|parse': 's',
        'Display for Port|fmt': 'f',
        'Debug for Bytes|fmt': 'f',
        'End|size': 'version',
        '|port_occupancy': 'start p',
    },
    'src/game/shift_jis.rs': {
        'TryFrom < & [ u8 ] > for MeleeString|try_from': 's first_null x cow',
        '|fix_char': 'c c c',
    },
    'src/io/mod.rs': {
        '< R : Read > HashingReader < R >|new': 'reader hash',
        '< R : Read > Read for HashingReader < R >|read': 'buf n h',
        '< R : Read + Seek > Seek for HashingReader < R >|seek': 'pos n',
        '|parse_u8': 's',
        '|expect_bytes': 'r expected actual',
        '|format_hash': 'hasher',
    },
    'src/io/peppi/de.rs': {
        '|read_arrow_frames': 'r version metadata reader frame result chunk f f',
        '|read_peppi_start': 'r buf',
        '|read_peppi_end': 'r buf',
        '|read_peppi_metadata': 'r json_object map obj',
        '|read_peppi_gecko_codes': 'r actual_size bytes',
        '|read': 'r opts start end metadata gecko_codes frames peppi entry file path n p version s o start size buf peppi',
    },
    'src/io/peppi/mod.rs': {
        'fmt :: Display for Version|fmt': 'f',
        'str :: FromStr for Version|from_str': 's i major minor revision',
        '|assert_current_version': 'version',
    },
    'src/io/peppi/ser.rs': {
        '|tar_append': 'builder buf path header',
        '|write': 'w game opts tar end gecko_codes buf ports batch schema chunk buf writer o',
    },
    'src/io/slippi/de.rs': {
        'From < PartialGame > for Game|from': 'game',
        'game :: Game for ParseState|frame': 'idx',
        'ParseState|last_id': 'id',
        'ParseState|frame_open': 'id',
        'ParseState|expect_id': 'id last_id last_id',
        'ParseState|data_mut': 'port is_follower port_data i p',
        'ParseState|frame_close': 'len p f',
        '|if_more': 'r f',
        '|invalid_data': 'err',
        '|player': 'port v0 is_teams v1_0 v1_3 v3_9_name v3_9_code v3_11 r unmapped character r#type stocks costume team_shade handicap team_color team bitfield cpu_level cpu_level offense_ratio defense_ratio model_scale ucf v1_0 r x x name_tag v1_3 netplay name code suid v3_11 first_null x result r#type',
        '|player_bytes': 'r arrs buf',
        '|game_start': 'r bytes slippi unmapped bitfield buf is_raining_bombs is_teams item_spawn_frequency self_destruct_score stage timer item_spawn_bitfield buf damage_ratio players_v0 random_seed players_v1_0 r players_v1_3 r is_pal r is_frozen_ps r scene r players_v3_9 r players_v3_11 r language r r#match r id buf first_null x result game tiebreaker players n p p p p p',
        '|player_end': 'port placement p',
        '|game_end': 'r bytes method lras_initiator r x players r placements n',
        '|handle_splitter_event': 'buf accumulator actual_size wrapped_event is_final',
        '|debug_write_event': 'buf code state debug code_dir count s f',
        '|parse_payloads': 'r opts code size buf buf d o sizes code size c s s',
        '|parse_game_start': 'r payload_sizes bytes_read opts code size buf d o',
        '|parse_header': 'r _opts',
        '|parse_start': 'r opts bytes_read payload_sizes bytes_read start ports version capacity o game port_indexes result i p event_counts',
        '|parse_event': 'r state opts code size buf wrapped_event d o event event r id r id port is_follower last_id version data v r id port is_follower version r id old_len new_len r id',
        '|parse_metadata': 'r state _opts metadata',
        '|read': 'r opts hash o r raw_len state o end_offset skip len buf x',
    },
    'src/io/slippi/mod.rs': {
        'Version|gte': 'major minor',
        'Version|lt': 'major minor',
        'str :: FromStr for Version|from_str': 's i major minor patch',
        'fmt :: Display for Version|fmt': 'f',
        '|assert_max_version': 'version',
    },
    'src/io/slippi/ser.rs': {
        'PayloadSizes|push': 'event size',
        'PayloadSizes|raw_size': 'game counts sizes k v q s s s',
        '|payload_sizes': 'game sizes ver e codes',
        '|gecko_codes': 'w codes pos actual_size',
        '|game_start': 'w s ver',
        '|game_end': 'w e _ver',
        '|frame_counts': 'frames len p v f v i',
        '|gecko_codes_size': 'gecko_codes num_blocks',
        '|write': 'w game payload_sizes event size ver codes end q metadata',
    },
    'src/io/ubjson/de.rs': {
        '|to_utf8': 'r length buf',
        '|to_val': 'r depth c c',
        '|to_key': 'r c',
        '|read_map': 'r',
        '|read_map_at': 'r depth m k',
    },
    'src/io/ubjson/ser.rs': {
        '|write_utf8': 'w s',
        '|write_map': 'w map k v s n o',
    },
}
# ... and which operand of every `literal + chain` sum is the literal, per function ('L' first, 'R' last); see sum_canon
EXPECTED_SUMS = {
    'src/frame/immutable/mod.rs': {'Frame|rollbacks_': 'L'},
    'src/frame/immutable/slippi.rs': {'Frame|write': 'R'},
    'src/game/shift_jis.rs': {'|fix_char': 'R'},
    'src/io/slippi/de.rs': {'|parse_payloads': 'L', '|parse_event': 'R', '|read': 'LL'},
    'src/io/slippi/ser.rs': {'PayloadSizes|raw_size': 'LLL', '|gecko_codes': 'R'},
    'src/io/ubjson/de.rs': {'|to_val': 'R'},
}

# ... and the private free fns at the top level of each file (`--dump-binders`); see site_fn_rename
EXPECTED_PRIVATE_FNS = {
    'src/game/shift_jis.rs': 'fix_char',
    'src/io/mod.rs': 'parse_u8 expect_bytes',
    'src/io/peppi/de.rs': 'read_arrow_frames read_peppi_start read_peppi_end read_peppi_metadata read_peppi_gecko_codes',
    'src/io/peppi/ser.rs': 'tar_append',
    'src/io/slippi/de.rs': 'if_more invalid_data player player_bytes handle_splitter_event debug_write_event parse_payloads parse_game_start',
    'src/io/slippi/ser.rs': 'payload_sizes gecko_codes game_start game_end frame_counts gecko_codes_size',
    'src/io/ubjson/de.rs': 'to_utf8 to_val to_key read_map_at',
    'src/io/ubjson/ser.rs': 'write_utf8',
}


def run_front_end(gen):
    """run a front end on the sources as they are (binder names canonicalised); if it fails, once more under each structural
    normalisation pass that changes one of the files it read, then under all of them -- every variant is a program equivalent to
    the source, so whichever the front end accepts describes the source.  If none is accepted the ORIGINAL failure is reported."""
    global NORM_LEVEL
    NORM_LEVEL = FORCED_LEVEL
    _READ_LOG.clear()
    try:
        return gen()
    except TranslateError as e0:
        if FORCED_LEVEL or os.environ.get('RUST2COQ_NO_RETRY'):
            raise
        files = sorted(_READ_LOG)
        base = {}
        for rel in files:
            try:
                base[rel] = file_toks(rel)
            except Exception:
                pass
        tried = []
        levels = []
        for batch, everywhere in ((NORM_PASSES1, NORM_ALL), (NORM_PASSES2, tuple(n for n, _ in NORM_PASSES2))):
            for pname, site in batch:                # 1. one site of one pass at a time
                for rel in sorted(base):
                    try:
                        n = apply_pass(site, raw_toks(rel), rel, pick=-1)[1]
                    except Exception:
                        n = 0
                    levels.extend(((pname, rel, k),) for k in range(min(n, 40)))
            levels.extend((n,) for n in everywhere)  # 2. one pass everywhere   3. all passes (of the first batch; then of both)
            levels.append(NORM_ALL if batch is NORM_PASSES1 else NORM_ALL2)
        try:
            for level in levels:
                NORM_LEVEL = level
                try:
                    variant = {rel: file_toks(rel) for rel in base}
                except Exception:
                    continue
                if variant == base or variant in tried:
                    continue          # this variant shows the front end nothing new
                tried.append(variant)
                try:
                    out = gen()
                    if os.environ.get('RUST2COQ_DEBUG'):
                        sys.stderr.write('retry: accepted under %r (after %d variants); original failure: %s\n' % (level, len(tried), str(e0)[:200]))
                    return out
                except Exception as e1:
                    if os.environ.get('RUST2COQ_DEBUG'):
                        sys.stderr.write('retry: %r -> %s\n' % (level, str(e1)[:160]))
        finally:
            NORM_LEVEL = ()
        raise e0
    finally:
        NORM_LEVEL = ()


FORCED_LEVEL = tuple(x for x in os.environ.get('RUST2COQ_FORCE_PASSES', '').split(',') if x)     # testing aid: always normalise with these passes
if FORCED_LEVEL == ('all',):
    FORCED_LEVEL = NORM_ALL
if FORCED_LEVEL == ('all2',):
    FORCED_LEVEL = NORM_ALL2


def main():
    if sys.argv[1:2] == ['--dump-binders']:
        # the table EXPECTED_BINDERS for the sources under $PEPPI_REPO (to be pasted below when the reference sources change)
        rels = []
        for root, _, files in os.walk(os.path.join(REPO, 'src')):
            for f in files:
                if f.endswith('.rs'):
                    rels.append(os.path.relpath(os.path.join(root, f), REPO))
        d = dump_binders(rels)
        print('EXPECTED_BINDERS = {')
        for rel in sorted(d):
            print('    %r: {' % rel)
            for k in d[rel]:
                print('        %r: %r,' % (k, ' '.join(d[rel][k])))
            print('    },')
        print('}')
        d = dump_sums(rels)
        print('EXPECTED_SUMS = {')
        for rel in sorted(d):
            print('    %r: %r,' % (rel, d[rel]))
        print('}')
        print('EXPECTED_PRIVATE_FNS = {')
        for rel in sorted(rels):
            toks = tokenize(read(rel), rel)
            match, parent = bracket_maps(toks)
            names = [f['name'] for f in private_fns(toks, match, parent)]
            if names:
                print('    %r: %r,' % (rel, ' '.join(names)))
        print('}')
        return
    report = {'repo': REPO, 'files': [], 'changed': [], 'errors': []}
    ok = True
    for name, gen in (('Funs.v', gen_funs), ('Tables.v', lambda: emit_tables(gen_tables())), ('Layouts.v', gen_layouts),
                      ('WriterSizes.v', gen_payload_sizes), ('SlppEntries.v', gen_slpp_entries),
                      ('FrameWrite.v', gen_frame_write), ('Splitter.v', gen_splitter),
                      ('ReadTail.v', gen_read_tail), ('UbjsonMarkers.v', gen_ubjson_markers),
                      ('WriterRaw.v', gen_writer_raw), ('WriterSteps.v', gen_writer_steps), ('ParseEvent.v', gen_parse_event),
                      ('ArrowFrame.v', gen_arrow_frame), ('FrameTranspose.v', gen_frame_transpose), ('ReadPrologue.v', gen_read_prologue), ('SlppHelpers.v', gen_slpp_helpers),
                      ('RollbacksSrc.v', gen_rollbacks), ('VersionTextSrc.v', gen_version_text),
                      ('MeleeStringSrc.v', gen_melee_string), ('HashingSrc.v', gen_hashing),
                      ('PortOccupancySrc.v', gen_port_occupancy),
                      ('StartWiring.v', gen_start_wiring), ('JsonShape.v', gen_json_shape),
                      ('UbjsonBodies.v', gen_ubjson_bodies), ('TarSrc.v', gen_tar_src),
                      ('SlppWriteSrc.v', gen_slpp_write_src), ('SlppReadSrc.v', gen_slpp_read_src), ('SlppOptsSrc.v', gen_slpp_opts_src)):
        try:
            content = run_front_end(gen)
            if write_if_changed(os.path.join(OUT, name), content):
                report['changed'].append(name)
            report['files'].append(name)
        except TranslateError as e:
            ok = False
            report['errors'].append({'file': name, 'error': str(e)})
            # never keep a stale table: replace it by a file that fails to compile with the message
            write_if_changed(os.path.join(OUT, name),
                             '(* rust2coq FAILED: %s *)\nFail Definition translator_failed := 0.\nDefinition translator_failed : False := I.\n' % str(e).replace('*)', '* )'))
    print(json.dumps(report))
    sys.exit(0 if ok else 3)


if __name__ == '__main__':
    main()
