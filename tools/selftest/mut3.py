#!/usr/bin/env python3
"""self-test driver for the third batch of front ends (frame write order, message splitter, read() tail, UBJSON markers):
mutate a scratch copy of the pristine Rust source, run the translator on it into a second Coq tree, build the targets.
usage: mut3.py <test>...  |  mut3.py --all  |  mut3.py --loud [name...]"""
import os, shutil, subprocess, sys, json, re
BASE = '/tmp/ag/tgen4'
PRISTINE = BASE + '/repo0'          # git archive HEAD of /repo (the live /repo is being mutated by other jobs)
MUT = BASE + '/repo_mut'
T2 = '/tmp/ag/tgen4b'
FW = 'src/frame/immutable/slippi.rs'
DE = 'src/io/slippi/de.rs'
SER = 'src/io/slippi/ser.rs'
UDE = 'src/io/ubjson/de.rs'
USER = 'src/io/ubjson/ser.rs'
NEW_PROOFS = ('FrameWriteLayout.v', 'SplitterLayout.v', 'ReadLayout.v', 'UbjsonLayout.v')
GEN = ('Funs.v', 'Tables.v', 'Layouts.v', 'WriterSizes.v', 'SlppEntries.v', 'FrameWrite.v', 'Splitter.v', 'ReadTail.v', 'UbjsonMarkers.v')

def prepare():
    if not os.path.isdir(PRISTINE):
        os.makedirs(PRISTINE)
        subprocess.check_call('git -C /repo archive HEAD | tar -x -C %s' % PRISTINE, shell=True)
    shutil.rmtree(MUT, ignore_errors=True)
    os.makedirs(MUT + '/gen/resources')
    shutil.copytree(PRISTINE + '/src', MUT + '/src')
    shutil.copy(PRISTINE + '/Cargo.toml', MUT + '/Cargo.toml')
    shutil.copy(PRISTINE + '/gen/resources/frames.json', MUT + '/gen/resources/frames.json')
    if not os.path.isdir(T2):
        os.makedirs(T2)
        subprocess.check_call(['cp', '-a', BASE + '/coq', T2 + '/coq'])
        os.makedirs(T2 + '/tools')
    shutil.copy(BASE + '/tools/rust2coq.py', T2 + '/tools/rust2coq.py')
    for f in NEW_PROOFS:
        shutil.copy(BASE + '/coq/theories/Proofs/' + f, T2 + '/coq/theories/Proofs/' + f)

def run(name, edits, targets=(), quiet=False):
    prepare()
    for ed in edits:
        p = MUT + '/' + ed[0]
        s = open(p).read()
        if callable(ed[1]):
            s2 = ed[1](s)
            assert s2 != s, (name, 'callable edit made no change')
            s = s2
        else:
            assert s.count(ed[1]) >= 1, (name, ed[1])
            s = s.replace(ed[1], ed[2], 1)
        open(p, 'w').write(s)
    r = subprocess.run([sys.executable, T2 + '/tools/rust2coq.py'], env=dict(os.environ, PEPPI_REPO=MUT), capture_output=True, text=True)
    if not quiet:
        print('==== %s: translator rc=%d %s' % (name, r.returncode, r.stdout.strip()[-400:]))
        if r.stderr.strip():
            print('stderr:', r.stderr[-2000:])
    for t in targets:
        b = subprocess.run('cd %s/coq && ./Makefile.gen.sh && timeout 2400 make -j6 theories/Proofs/%s.vo 2>&1 | grep -v "^COQ\\|^Closed" | head -150' % (T2, t),
                           shell=True, capture_output=True, text=True)
        out = b.stdout.strip()
        print('build %s: %s' % (t, 'OK (no errors)' if 'Error' not in out else 'FAILED\n' + out))
    return r

# ---- C
def c_swap_groups(s):
    a = '\t\t\tfor port in &self.ports {\n\t\t\t\tport.write_pre(w, version, idx, frame_id)?;\n\t\t\t}\n'
    i = s.index(a)
    j = s.index('\t\t\tif version.gte(3, 0) {\n\t\t\t\tlet offset')
    k = s.index('\t\t\tfor port in &self.ports {\n\t\t\t\tport.write_post')
    return s[:i] + s[j:k] + a + s[k:]
def c_end_gate(s):
    i = s.index('\t\t\tif version.gte(3, 0) {\n\t\t\t\tw.write_u8(Event::FrameEnd')
    return s[:i] + s[i:].replace('version.gte(3, 0)', 'version.gte(3, 7)', 1)
HP = '\t\t\tw.write_u8(port.port as u8)?;\n'
HF = '\t\t\tw.write_u8(match port.follower {\n\t\t\t\ttrue => 1,\n\t\t\t\t_ => 0,\n\t\t\t})?;\n'
def c_follower_flag(s):
    i = s.index('f.write_post(')
    return s[:i] + s[i:].replace('follower: true', 'follower: false', 1)
def c_reformat(s):
    s = s.replace(HF, '\t\t\tw.write_u8(match port.follower { true => 1, _ => 0 })?;\n')
    s = s.replace('\t\tself.leader.write_pre(\n\t\t\tw,\n\t\t\tversion,\n\t\t\tidx,\n\t\t\tframe_id,\n\t\t\tPortOccupancy {\n\t\t\t\tport: self.port,\n\t\t\t\tfollower: false,\n\t\t\t},\n\t\t)?;',
                  '\t\tself.leader\n\t\t\t.write_pre(w, version, idx, frame_id, PortOccupancy { port: self.port, follower: false })?;')
    return s.replace('\t\t\t\tself.start.as_ref().unwrap().write(w, version, idx)?;', '\t\t\t\tself.start\n\t\t\t\t\t.as_ref()\n\t\t\t\t\t.unwrap()\n\t\t\t\t\t.write(w, version, idx)?;')
# ---- D
def d_swap_wrapped_final(s):
    return s.replace('let wrapped_event = buf[514];', 'let wrapped_event = buf[515];').replace('let is_final = buf[515] != 0;', 'let is_final = buf[514] != 0;')
WU16 = '\t\tw.write_u16::<BE>(std::cmp::min(512, actual_size - pos) as u16)?;\n'
WGK = '\t\tw.write_u8(Event::GeckoCodes as u8)?;\n'
def d_advance_after(s):
    a = '\t\tpos += 512;\n\t\tw.write_u8(u8::from(pos >= actual_size))?;\n'
    assert a in s
    return s.replace(a, '\t\tw.write_u8(u8::from(pos >= actual_size))?;\n\t\tpos += 512;\n')
# ---- E
def in_read(f):
    def g(s):
        i = s.index('pub fn read<R: Read + Seek>')
        return s[:i] + f(s[i:])
    return g
C = ['FrameWriteLayout']; D = ['SplitterLayout']; E = ['ReadLayout']; F = ['UbjsonLayout']
TESTS = {
    'identity': ([], C + D + E + F),
    'c_swap_groups': ([(FW, c_swap_groups)], C),
    'c_end_gate': ([(FW, c_end_gate)], C),
    'c_hdr_swap': ([(FW, HP + HF, HF + HP)], C),
    'c_follower_flag': ([(FW, c_follower_flag)], C),
    'c_item_event': ([(FW, 'w.write_u8(Event::Item as u8)?;', 'w.write_u8(Event::FrameEnd as u8)?;')], C),
    'd_len_517': ([(DE, 'if buf.len() != 516 {', 'if buf.len() != 517 {')], D),
    'd_swap_wrapped_final': ([(DE, d_swap_wrapped_final)], D),
    'd_max_size': ([(DE, 'if actual_size > 512 {', 'if actual_size > 511 {')], D),
    'd_writer_order': ([(SER, WU16 + WGK, WGK + WU16)], D),
    'd_min_511': ([(SER, 'std::cmp::min(512, actual_size - pos)', 'std::cmp::min(511, actual_size - pos)')], D),
    'd_advance_after': ([(SER, d_advance_after)], D),
    'e_end_offset': ([(DE, 'let end_offset = 1 + state.payload_sizes', 'let end_offset = 2 + state.payload_sizes')], E),
    'e_refuse': ([(DE, 'raw_len < state.bytes_read + end_offset', 'raw_len <= state.bytes_read + end_offset')], E),
    'e_gate': ([(DE, in_read(lambda t: t.replace('state.game.start.slippi.version.lt(3, 0)', 'state.game.start.slippi.version.lt(2, 2)', 1)))], E),
    'e_dup': ([(DE, '&& buf[0] == Event::GameEnd as u8', '&& buf[0] == Event::GameStart as u8')], E),
    'e_meta': ([(DE, '\t\t0x55 => {\n\t\t\tparse_metadata', '\t\t0x53 => {\n\t\t\tparse_metadata')], E),
    'e_loop': ([(DE, 'while raw_len == 0 || state.bytes_read < raw_len {', 'while raw_len == 0 || state.bytes_read <= raw_len {')], E),
    'f_str_marker': ([(UDE, '\t\t0x53 => match', '\t\t0x54 => match')], F),
    'f_wr_marker': ([(USER, 'write!(w, "S")?;', 'write!(w, "s")?;')], F),
    'f_close': ([(UDE, '\t\t0x7d => Ok(None),', '\t\t0x7e => Ok(None),')], F),
    'f_wr_open': ([(USER, 'write!(w, "{{")?;', 'write!(w, "[")?;')], F),
}
A0 = '\t\t\tw.write_i32::<BE>(frame_id)?;\n'
LOUD = [
  ('c_reformat', [(FW, c_reformat)], 'same'),
  ('c_no_validity', [(FW, 'if self.validity.as_ref().map_or(true, |v| v.get_bit(idx)) {\n\t\t\tw.write_u8(Event::FramePre', 'if true {\n\t\t\tw.write_u8(Event::FramePre')], 'FrameWrite.v'),
  ('c_extra_write', [(FW, A0, A0 + '\t\t\tw.write_u8(0)?;\n')], 'FrameWrite.v'),
  ('c_rev_ports', [(FW, 'for port in &self.ports {', 'for port in self.ports.iter().rev() {')], 'FrameWrite.v'),
  ('c_else', [(FW, '\t\t\t\tself.end.as_ref().unwrap().write(w, version, idx)?;\n\t\t\t}\n', '\t\t\t\tself.end.as_ref().unwrap().write(w, version, idx)?;\n\t\t\t} else {\n\t\t\t\tw.write_u8(0)?;\n\t\t\t}\n')], 'FrameWrite.v'),
  ('c_nested_gate', [(FW, '\t\t\tfor port in &self.ports {\n\t\t\t\tport.write_pre(w, version, idx, frame_id)?;\n\t\t\t}\n', '\t\t\tif version.gte(1, 0) {\n\t\t\t\tif version.gte(1, 2) {\n\t\t\t\t\tfor port in &self.ports {\n\t\t\t\t\t\tport.write_pre(w, version, idx, frame_id)?;\n\t\t\t\t\t}\n\t\t\t\t}\n\t\t\t}\n')], 'FrameWrite.v'),
  ('c_le', [(FW, A0, '\t\t\tw.write_i32::<LE>(frame_id)?;\n')], 'FrameWrite.v'),
  ('c_extra_fn', [(FW, 'impl Frame {\n', 'impl Frame {\n\tfn helper(&self) {}\n')], 'FrameWrite.v'),
  ('c_other_index', [(FW, 'self.item.as_ref().unwrap().write(w, version, item_idx)?;', 'self.item.as_ref().unwrap().write(w, version, idx)?;')], 'FrameWrite.v'),
  ('d_reformat', [(SER, WU16, '\t\tw.write_u16::<BE>(\n\t\t\tstd::cmp::min(512, actual_size - pos) as u16,\n\t\t)?;\n'),
                  (DE, 'let actual_size = (&buf[512..514]).read_u16::<BE>()?;', 'let actual_size = (&buf[512..514])\n\t\t.read_u16::<BE>()?;')], 'same'),
  ('d_extra_stmt', [(DE, '\tlet wrapped_event = buf[514];\n', '\tlet wrapped_event = buf[514];\n\taccumulator.raw.clear();\n')], 'Splitter.v'),
  ('d_le', [(DE, '(&buf[512..514]).read_u16::<BE>()?', '(&buf[512..514]).read_u16::<LE>()?')], 'Splitter.v'),
  ('d_size_3bytes', [(DE, '(&buf[512..514]).read_u16', '(&buf[511..514]).read_u16')], 'Splitter.v'),
  ('d_while_cond', [(SER, 'while pos < actual_size {', 'while pos <= actual_size {')], 'Splitter.v'),
  ('d_two_advances', [(SER, WGK, WGK + '\t\tpos += 1;\n')], 'Splitter.v'),
  ('d_call_changed', [(DE, '\t\t\tbuf.clear();\n\t\t\tbuf.append(&mut state.split_accumulator.raw);', '\t\t\tbuf.append(&mut state.split_accumulator.raw);')], 'Splitter.v'),
  ('e_reformat', [(DE, '\t\tif raw_len == 0 || raw_len < state.bytes_read + end_offset {', '\t\tif raw_len == 0\n\t\t\t|| raw_len\n\t\t\t\t< state.bytes_read + end_offset\n\t\t{'),
                  (DE, '\t\t0x7d => {} // top-level closing brace ("}")\n', '\t\t0x7d => {\n\t\t\t// top-level closing brace\n\t\t}\n')], 'same'),
  ('e_extra_stmt', [(DE, '\tinfo!("Frames: {}", state.game.frames.len());\n', '\tstate.bytes_read += 0;\n\tinfo!("Frames: {}", state.game.frames.len());\n')], 'ReadTail.v'),
  ('e_seek_changed', [(DE, 'r.seek(SeekFrom::Current(skip.try_into().map_err(invalid_data)?))?;', 'r.seek(SeekFrom::Start(skip as u64))?;')], 'ReadTail.v'),
  ('e_unsupported_expr', [(DE, 'let skip = raw_len - state.bytes_read - end_offset;', 'let skip = raw_len.saturating_sub(state.bytes_read + end_offset);')], 'ReadTail.v'),
  ('e_third_arm', [(DE, '\t\t0x7d => {} // top-level closing brace ("}")\n', '\t\t0x7d => {} // top-level closing brace ("}")\n\t\t0x00 => {}\n')], 'ReadTail.v'),
  ('e_dup_else_changed', [(DE, '\t} else if raw_len > 0 && state.bytes_read > raw_len {', '\t} else if state.bytes_read > raw_len {')], 'ReadTail.v'),
  ('f_reformat', [(UDE, '\t\t0x6c => Ok(Value::Number(serde_json::Number::from(\n\t\t\tr.read_i32::<BigEndian>()?,\n\t\t))),', '\t\t0x6c => Ok(Value::Number(serde_json::Number::from(r.read_i32::<BigEndian>()?))),'),
                  (USER, '\t\t\tValue::String(s) => {\n\t\t\t\twrite!(w, "S")?;', '\t\t\tValue::String(s) => {\n\t\t\t\twrite!(\n\t\t\t\t\tw,\n\t\t\t\t\t"S",\n\t\t\t\t)?;')], 'same'),
  ('f_i64', [(UDE, 'r.read_i32::<BigEndian>()?', 'r.read_i64::<BigEndian>()?')], 'UbjsonMarkers.v'),
  ('f_extra_arm', [(UDE, '\t\t// "{": map\n', '\t\t0x54 => Ok(Value::Bool(true)),\n\t\t// "{": map\n')], 'UbjsonMarkers.v'),
  ('f_utf8_changed', [(UDE, 'let length = r.read_u8()?;', 'let length = r.read_u16::<BigEndian>()?;')], 'UbjsonMarkers.v'),
  ('f_two_byte_marker', [(USER, 'write!(w, "l")?;', 'write!(w, "ll")?;')], 'UbjsonMarkers.v'),
  ('f_len_u16', [(USER, 'w.write_u8(s.len().try_into().unwrap())?;', 'w.write_u16::<BigEndian>(s.len().try_into().unwrap())?;')], 'UbjsonMarkers.v'),
  ('f_dup_marker', [(UDE, '\t\t0x6c => Ok(Value::Number', '\t\t0x53 => Ok(Value::Number')], 'UbjsonMarkers.v'),
  ('f_loop_changed', [(UDE, '\t\tNone => false,\n\t} {}', '\t\tNone => true,\n\t} {}')], 'UbjsonMarkers.v'),
]

if __name__ == '__main__':
    if sys.argv[1:2] == ['--loud']:
        ref = {f: open(BASE + '/coq/theories/Gen/' + f).read() for f in GEN if f != 'Funs.v'}
        bad = 0
        for name, edits, expect in LOUD:
            if len(sys.argv) > 2 and name not in sys.argv[2:]:
                continue
            r = run(name, edits, quiet=True)
            rep = json.loads(r.stdout.strip().split('\n')[-1]) if r.stdout.strip().startswith('{') else {'errors': [{'file': '?', 'error': r.stdout + r.stderr}]}
            errs = rep['errors']
            if expect == 'same':
                ok = r.returncode == 0 and all(open(T2 + '/coq/theories/Gen/' + f).read() == ref[f] for f in ref)
                print('%-20s %s' % (name, 'OK: generated files identical' if ok else 'BAD: %s' % (errs or 'output differs')))
            else:
                ok = r.returncode == 3 and len(errs) == 1 and errs[0]['file'] == expect and 'rust2coq FAILED' in open(T2 + '/coq/theories/Gen/' + expect).read()
                print('%-20s %s %s' % (name, 'OK: loud:' if ok else 'BAD (rc=%d):' % r.returncode, errs[0]['error'][:250] if errs else (r.stderr[-300:] or 'NO ERROR')))
            bad += (not ok)
        print('bad =', bad)
    else:
        names = list(TESTS) if sys.argv[1:2] == ['--all'] else sys.argv[1:]
        for k in names:
            run(k, *TESTS[k])
