#!/usr/bin/env python3
"""summarise a `mutN.py --all` log: per test the translator rc and, per target, OK or the place (file, line, enclosing theorem) of the first Coq error"""
import re, sys
ROOT = '/tmp/ag/tol/coq/theories/'
def theorem_at(path, line):
    name = '?'
    try:
        for l in open(path).read().split('\n')[:line]:
            m = re.match(r'\s*(Theorem|Lemma|Example|Corollary|Definition|Fixpoint|Fact|Remark) (\w+)', l)
            if m:
                name = m.group(2)
    except OSError:
        pass
    return name
out = []
cur = None
for l in open(sys.argv[1]).read().split('\n'):
    m = re.match(r'==== (\w+): translator rc=(\d+)', l)
    if m:
        cur = [m.group(1), m.group(2), []]
        out.append(cur)
        continue
    m = re.match(r'build(?: (\w+))?: (OK|FAILED)', l)
    if m and cur is not None:
        cur[2].append([m.group(1) or '', m.group(2), None])
        continue
    m = re.search(r'File "\./theories/(\S+)", line (\d+)', l)
    if m and cur is not None and cur[2] and cur[2][-1][1] == 'FAILED' and cur[2][-1][2] is None:
        f, n = m.group(1), int(m.group(2))
        cur[2][-1][2] = '%s:%d (%s)' % (f, n, theorem_at(ROOT + f, n) if f.startswith('Proofs') else 'generated table does not compile' if 'translator_failed' in open(sys.argv[1]).read() and f.startswith('Gen') else '-')
for name, rc, builds in out:
    print('%-34s rc=%s  %s' % (name, rc, '; '.join('%s: %s' % (t, 'OK' if r == 'OK' else 'FAILED at ' + str(w)) for t, r, w in builds)))
