#!/usr/bin/env python3
"""old vs new translator on the mutations of mut.py (TESTS) and loud.py (CASES), which edit src/io/slippi/de.rs by string replacement,
plus extra adversarial alpha-renaming cases (EXTRA)"""
import re, sys, os, json, shutil, subprocess
old, new, work = sys.argv[1:4]
REPO0 = '/tmp/ag/tol2/repo0'
def load(path, name):
    src = open(path).read()
    m = re.search(r'^\s*%s = (\{|\[)' % name, src, re.M)
    i = m.start(1)
    # find the matching close by a bracket count that skips string literals
    d = 0; j = i; q = None
    while j < len(src):
        c = src[j]
        if q:
            if c == '\\': j += 1
            elif c == q: q = None
        elif c in '\'"': q = c
        elif c in '{[(': d += 1
        elif c in '}])':
            d -= 1
            if d == 0: break
        j += 1
    env = {'A': 'let stage = r.read_u16::<BE>()?;'}
    return eval(src[i:j + 1], env)
tests = [(k, v[0]) for k, v in load('/tmp/ag/tol2/tools/selftest/mut.py', 'TESTS').items()]
tests += [(c[0], c[1]) for c in load('/tmp/ag/tol2/tools/selftest/loud.py', 'CASES')]
EXTRA = [
  # swap + fresh names: the reads at 10 / 12 exchanged between the fields, the locals renamed
  ('x_masked_swap', [('let is_raining_bombs = r.read_u8()? != 0;', 'let p = r.read_u8()? != 0;'), ('let is_teams = r.read_u8()? != 0;', 'let q = r.read_u8()? != 0;'),
                     ('\t\tis_raining_bombs,\n\t\tis_teams,\n', '\t\tis_raining_bombs: q,\n\t\tis_teams: p,\n'), ('\t\t\t\tis_teams,\n\t\t\t\tplayers_v1_0', '\t\t\t\tp,\n\t\t\t\tplayers_v1_0')]),
  # benign: the same with the fields wired as before
  ('x_fresh_names_same_wiring', [('let is_raining_bombs = r.read_u8()? != 0;', 'let p = r.read_u8()? != 0;'), ('let is_teams = r.read_u8()? != 0;', 'let q = r.read_u8()? != 0;'),
                     ('\t\tis_raining_bombs,\n\t\tis_teams,\n', '\t\tis_raining_bombs: p,\n\t\tis_teams: q,\n'), ('\t\t\t\tis_teams,\n\t\t\t\tplayers_v1_0', '\t\t\t\tq,\n\t\t\t\tplayers_v1_0')]),
  # one local renamed, its use not (would not compile; must not be 'repaired')
  ('x_binder_only', [('let stage = r.read_u16::<BE>()?;', 'let stage_id = r.read_u16::<BE>()?;')]),
  # the inner cursor of a tail renamed but its uses left on the outer r
  ('x_shadow_removed', [('let scene = if_more(r, |r| {', 'let scene = if_more(r, |r2| {')]),
  # two locals exchanged consistently, uses included: the same program
  ('x_consistent_swap', [('let game = r.read_u32::<BE>()?;\n\t\tlet tiebreaker = r.read_u32::<BE>()?;\n\t\tOk(Match {\n\t\t\tid,\n\t\t\tgame,\n\t\t\ttiebreaker,',
                          'let tiebreaker = r.read_u32::<BE>()?;\n\t\tlet game = r.read_u32::<BE>()?;\n\t\tOk(Match {\n\t\t\tid,\n\t\t\tgame: tiebreaker,\n\t\t\ttiebreaker: game,')]),
]
tests += EXTRA
t = work + '/tree'
gen = t + '/coq/theories/Gen'
mut = work + '/repo'
os.makedirs(t + '/tools', exist_ok=True)
def once(tr, edits):
    shutil.rmtree(mut, ignore_errors=True); os.makedirs(mut + '/gen/resources')
    shutil.copytree(REPO0 + '/src', mut + '/src'); shutil.copy(REPO0 + '/Cargo.toml', mut + '/Cargo.toml'); shutil.copy(REPO0 + '/gen/resources/frames.json', mut + '/gen/resources/frames.json')
    p = mut + '/src/io/slippi/de.rs'; s = open(p).read()
    for o, n in edits:
        assert s.count(o) >= 1, o
        s = s.replace(o, n, 1)
    open(p, 'w').write(s)
    shutil.rmtree(gen, ignore_errors=True); os.makedirs(gen)
    shutil.copy(tr, t + '/tools/rust2coq.py')
    r = subprocess.run([sys.executable, t + '/tools/rust2coq.py'], env=dict(os.environ, PEPPI_REPO=mut), capture_output=True, text=True)
    try:
        errs = sorted(e['file'] for e in json.loads(r.stdout.strip().split('\n')[-1])['errors'])
    except Exception:
        errs = ['<no json %s>' % r.stderr[-200:]]
    return r.returncode, errs, {f: open(gen + '/' + f).read() for f in sorted(os.listdir(gen)) if f.endswith('.v')}
ref = once(new, [])
nd = 0
for name, edits in tests:
    a, b = once(old, edits), once(new, edits)
    diff = [f for f in sorted(set(a[2]) | set(b[2])) if a[2].get(f) != b[2].get(f)]
    same = a[0] == b[0] and a[1] == b[1] and not diff
    pristine_like = [f for f in b[2] if b[2][f] == ref[2].get(f)]
    nd += not same
    print('%-28s %s%s' % (name, 'same (rc=%d failed=%s)' % (a[0], a[1]) if same else 'DIFFERENT: old rc=%d failed=%s | new rc=%d failed=%s | differing %s' % (a[0], a[1], b[0], b[1], diff),
                          '' if same else '  [new == pristine tables: %s]' % (len(pristine_like) == len(ref[2]))))
print('%d cases, %d different' % (len(tests), nd))
