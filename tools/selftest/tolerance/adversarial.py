#!/usr/bin/env python3
"""look-alikes of the benign classes that DO change behaviour (or whose equivalence the normaliser cannot establish): none of them may
come out with all tables identical to the pristine ones.  usage: adversarial.py <rust2coq.py> <workdir>"""
import sys, os, json, shutil, subprocess
tr, work = sys.argv[1:3]
REPO0 = '/tmp/ag/tol2/repo0'
DE, SER, PDE, PSER, MOD, IMM = ('src/io/slippi/de.rs', 'src/io/slippi/ser.rs', 'src/io/peppi/de.rs', 'src/io/peppi/ser.rs', 'src/io/slippi/mod.rs', 'src/frame/immutable/mod.rs')
B = '/tmp/ag/tol2/tools/selftest/benign/'
def patch(nn):
    return ('PATCH', B + nn + '/patch.diff')
HELPER_RET = ('\tstate.expect_id(id)?;\n\tif state.game.frames.item.is_none() {', '\tstate.expect_id(id)?;\n\tif id < -123 {\n\t\treturn Ok(());\n\t}\n\tif state.game.frames.item.is_none() {')
CASES = [
  ('let_impure', [(SER, 'w.write_u16::<BE>(std::cmp::min(512, actual_size - pos) as u16)?;', 'let block_size = next_size(&mut pos, actual_size);\n\t\tw.write_u16::<BE>(block_size)?;')]),
  ('let_not_adjacent', [(SER, '\t\tw.write_all(&codes.bytes[pos..pos + 512])?;\n\t\tw.write_u16::<BE>(std::cmp::min(512, actual_size - pos) as u16)?;',
                               '\t\tlet block_size = std::cmp::min(512, actual_size - pos) as u16;\n\t\tpos += 512;\n\t\tw.write_all(&codes.bytes[pos - 512..pos])?;\n\t\tw.write_u16::<BE>(block_size)?;'),
                        (SER, '\t\tw.write_u8(Event::GeckoCodes as u8)?;\n\t\tpos += 512;\n', '\t\tw.write_u8(Event::GeckoCodes as u8)?;\n')]),
  ('let_used_after_effect', [(SER, 'w.write_u16::<BE>(std::cmp::min(512, actual_size - pos) as u16)?;', 'let block_size = std::cmp::min(512, actual_size - pos) as u16;\n\t\tfinish(w.write_u8(0)?, block_size);')]),
  ('helper_early_ok', [patch('06'), (DE, ) + HELPER_RET]),
  ('helper_called_twice', [patch('06'), (DE, 'FrameEnd => {', 'FrameEnd => {\n\t\t\t\titem_event(&buf, state)?;')]),
  ('helper_other_arg', [patch('06'), (DE, 'Item => item_event(&buf, state)?,', 'Item => item_event(&buf[1..], state)?,')]),
  ('helper_result_ignored', [patch('06'), (DE, 'Item => item_event(&buf, state)?,', 'Item => { let _ = item_event(&buf, state); }')]),
  ('match_none_arm_not_empty', [patch('05'), (PSER, '\t\tNone => {}\n', '\t\tNone => {\n\t\t\ttar_append(&mut tar, &[], "end.raw")?;\n\t\t}\n')]),
  ('match_guarded', [patch('05'), (PSER, '\t\tSome(end) => {', '\t\tSome(end) if game.hash.is_some() => {')]),
  ('map_unwrap_or_other_default', [(PDE, 'opts.map_or(false, |o| o.skip_frames)', 'opts.map(|o| o.skip_frames).unwrap_or(true)')]),
  ('map_unwrap_or_effectful_default', [(PDE, 'opts.map_or(false, |o| o.skip_frames)', 'opts.map(|o| o.skip_frames).unwrap_or(end.is_some())')]),
  ('not_gte_with_other_lt', [patch('12'), (MOD, '\t\t!self.gte(major, minor)\n', '\t\tself.0 < major\n')]),
  ('not_gte_other_version', [(DE, 'state.game.start.slippi.version.lt(3, 0)', '!state.game.start.slippi.version.gte(3, 1)')]),
  ('swap_when_dependent', [patch('04'), (DE, '\t\tif hash {\n\t\t\tio::copy(&mut r.by_ref().take(skip as u64), &mut io::sink())?;', '\t\tif hash && state.bytes_read > 0 {\n\t\t\tio::copy(&mut r.by_ref().take(skip as u64), &mut io::sink())?;')]),
  ('swap_without_bound', [patch('04'), (DE, 'let skip = raw_len - state.bytes_read - end_offset;', 'let skip = raw_len - end_offset;')]),
  ('swap_two_io', [(DE, '\tlet raw_len = parse_header(&mut r, opts)? as usize;\n\tinfo!("Raw length: {} bytes", raw_len);\n\n\tlet mut state = parse_start(&mut r, opts)?;', '\tlet mut state = parse_start(&mut r, opts)?;\n\tlet raw_len = parse_header(&mut r, opts)? as usize;')]),
  ('loop_with_question', [patch('08'), (IMM, 'ports.push(p.transpose_one(i, version));', 'ports.push(p.transpose_one(i, version)?);')]),
  ('loop_skips_first', [patch('08'), (IMM, 'for p in self.ports.iter() {', 'for p in self.ports.iter().skip(1) {')]),
  ('loop_pushes_twice', [patch('08'), (IMM, 'ports.push(p.transpose_one(i, version));', 'ports.push(p.transpose_one(i, version));\n\t\t\t\t\tports.push(p.transpose_one(i, version));')]),
  ('fold_precedence', [(DE, 'if buf.len() != 516 {', 'if buf.len() != 520 - 512 + 4 {')]),     # (520 - 512) + 4 = 12
  ('fold_other_value', [(DE, 'if buf.len() != 516 {', 'if buf.len() != 512 + 8 {')]),
  ('const_other_value', [patch('11'), (SER, 'const SPLITTER_PAYLOAD_SIZE: usize = 516;', 'const SPLITTER_PAYLOAD_SIZE: usize = 517;')]),
  ('const_shadowed_elsewhere', [patch('11'), (SER, 'fn payload_sizes(game: &Game) -> PayloadSizes {', 'fn payload_sizes(game: &Game) -> PayloadSizes {\n\tconst SPLITTER_PAYLOAD_SIZE: usize = 4;')]),
  ('alpha_binder_reused', [(DE, 'let hash = opts.map_or(false, |o| o.compute_hash);', 'let hash2 = opts.map_or(false, |o| o.compute_hash);\n\tlet hash = false;'),
                           (DE, 'let mut r = HashingReader::new(r, hash);', 'let mut r = HashingReader::new(r, hash2);')]),
  ('alpha_wrong_field', [patch('01'), (DE, '\t\tstage: stage_id,\n\t\ttimer,', '\t\tstage: timer as u16,\n\t\ttimer: stage_id as u32,')]),
  ('commute_minus', [(DE, 'state.bytes_read += size + 1;', 'state.bytes_read += size - 1;')]),
]
t = work + '/tree'; gen = t + '/coq/theories/Gen'; mut = work + '/repo'
os.makedirs(t + '/tools', exist_ok=True)
shutil.copy(tr, t + '/tools/rust2coq.py')
def once(edits):
    shutil.rmtree(mut, ignore_errors=True); os.makedirs(mut + '/gen/resources')
    shutil.copytree(REPO0 + '/src', mut + '/src'); shutil.copy(REPO0 + '/Cargo.toml', mut + '/Cargo.toml'); shutil.copy(REPO0 + '/gen/resources/frames.json', mut + '/gen/resources/frames.json')
    for ed in edits:
        if ed[0] == 'PATCH':
            subprocess.check_call(['patch', '-p1', '-s', '--no-backup-if-mismatch', '-i', ed[1]], cwd=mut)
            continue
        p = mut + '/' + ed[0]; s = open(p).read()
        assert ed[1] in s, ed[1]
        open(p, 'w').write(s.replace(ed[1], ed[2], 1))
    shutil.rmtree(gen, ignore_errors=True); os.makedirs(gen)
    r = subprocess.run([sys.executable, t + '/tools/rust2coq.py'], env=dict(os.environ, PEPPI_REPO=mut, RUST2COQ_DEBUG='1'), capture_output=True, text=True)
    rep = json.loads(r.stdout.strip().split('\n')[-1])
    return r.returncode, rep['errors'], {f: open(gen + '/' + f).read() for f in sorted(os.listdir(gen)) if f.endswith('.v')}
ref = once([])
bad = 0
for name, edits in CASES:
    rc, errs, files = once(edits)
    ch = [f for f in files if files[f] != ref[2][f] and f not in [e['file'] for e in errs]]
    if errs or ch:
        print('%-34s ok: %s' % (name, ('failed ' + ','.join(sorted(e['file'] for e in errs)) if errs else '') + (' changed ' + ','.join(ch) if ch else '')))
    else:
        bad += 1
        print('%-34s BAD: every table identical to the pristine one' % name)
print('bad =', bad)
