#!/usr/bin/env python3
"""B(i): OLD vs NEW translator on every seeded (behaviour-changing) patch.
usage: seeded_cmp.py <old rust2coq.py> <new rust2coq.py> <pristine repo> <seeded dir> <workdir> [jobs]
For every <seeded dir>/*/patch.diff: a fresh copy of the pristine repo is patched (`patch -p1`), both translators are run on it (each
in its own scratch tree so that its Gen/ starts empty), and exit code, the JSON `errors` file list and every generated file are compared
(the stub of a failed file carries the message, so messages are compared too).  Also reports whether the patched result differs from the
pristine tables at all (informational).  Nothing outside <workdir> is written."""
import json, os, shutil, subprocess, sys
from concurrent.futures import ThreadPoolExecutor
old, new, repo0, seeded, work = sys.argv[1:6]
jobs = int(sys.argv[6]) if len(sys.argv) > 6 else 6


def translate(tr, tree, repo):
    gen = os.path.join(tree, 'coq', 'theories', 'Gen')
    shutil.rmtree(tree, ignore_errors=True)
    os.makedirs(gen)
    os.makedirs(os.path.join(tree, 'tools'))
    shutil.copy(tr, os.path.join(tree, 'tools', 'rust2coq.py'))
    r = subprocess.run([sys.executable, os.path.join(tree, 'tools', 'rust2coq.py')], env=dict(os.environ, PEPPI_REPO=repo), capture_output=True, text=True)
    try:
        errs = sorted(e['file'] for e in json.loads(r.stdout.strip().split('\n')[-1])['errors'])
    except Exception:
        errs = ['<no json: %s>' % (r.stdout + r.stderr)[-300:]]
    files = {f: open(os.path.join(gen, f)).read() for f in sorted(os.listdir(gen)) if f.endswith('.v')}
    return r.returncode, errs, files


def one(name):
    d = os.path.join(work, name)
    shutil.rmtree(d, ignore_errors=True)
    os.makedirs(d)
    repo = os.path.join(d, 'repo')
    shutil.copytree(repo0, repo, symlinks=True)
    if name != '<pristine>':
        p = subprocess.run(['patch', '-p1', '-s', '-i', os.path.join(seeded, name, 'patch.diff')], cwd=repo, capture_output=True, text=True)
        if p.returncode != 0:
            return name, 'PATCH DOES NOT APPLY: ' + (p.stdout + p.stderr)[-200:], None
    a = translate(old, os.path.join(d, 'old'), repo)
    b = translate(new, os.path.join(d, 'new'), repo)
    shutil.rmtree(repo, ignore_errors=True)
    diff = [f for f in sorted(set(a[2]) | set(b[2])) if a[2].get(f) != b[2].get(f)]
    same = a[0] == b[0] and a[1] == b[1] and not diff
    msg = 'same (rc=%d, failed=%s)' % (a[0], a[1]) if same else \
        'DIFFERENT: old rc=%d failed=%s | new rc=%d failed=%s | files differing: %s' % (a[0], a[1], b[0], b[1], diff)
    return name, msg, (same, b)


names = sorted(n for n in os.listdir(seeded) if os.path.exists(os.path.join(seeded, n, 'patch.diff')))
ref = one('<pristine>')
print('%-12s %s' % ref[:2])
refs = ref[2][1][2]
nd = nbad = nsame_as_pristine = 0
with ThreadPoolExecutor(jobs) as ex:
    for name, msg, res in ex.map(one, names):
        if res is None:
            nbad += 1
        else:
            nd += not res[0]
            hdr = lambda s: s.split('\n', 1)[-1]
            if all(hdr(res[1][2].get(f, '')) == hdr(refs[f]) for f in refs):
                nsame_as_pristine += 1
                msg += '  [tables == pristine]'
        print('%-12s %s' % (name, msg))
        sys.stdout.flush()
print('%d seeded patches, %d not applicable, %d with a different translator result; %d leave all tables as pristine (not visible to the translator)' % (len(names), nbad, nd, nsame_as_pristine))
