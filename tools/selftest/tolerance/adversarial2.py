#!/usr/bin/env python3
"""behaviour-CHANGING (or not provably harmless) look-alikes of the benign2 classes: none may come out with the pristine tables.
usage: adversarial2.py <rust2coq.py> <repo0> <workdir>"""
import json, os, shutil, subprocess, sys
tr, repo0, work = sys.argv[1:4]
DE, SER, PDE, IOM, UDE, USER, SM = 'src/io/slippi/de.rs', 'src/io/slippi/ser.rs', 'src/io/peppi/de.rs', 'src/io/mod.rs', 'src/io/ubjson/de.rs', 'src/io/ubjson/ser.rs', 'src/io/slippi/mod.rs'
A05 = ('if state.game.start.slippi.version.gte(2, 2) {\n\t\t\t\t\tstate.expect_id(id)?;\n\t\t\t\t} else {', )
WL_OLD = 'while match to_key(r)? {\n\t\tSome(k) => {\n\t\t\tm.insert(k, to_val(r, depth)?);\n\t\t\ttrue\n\t\t}\n\t\tNone => false,\n\t} {}'
IF_OLD = 'if hash {\n\t\t\tio::copy(&mut r.by_ref().take(skip as u64), &mut io::sink())?;\n\t\t} else {\n\t\t\tr.seek(SeekFrom::Current(skip.try_into().map_err(invalid_data)?))?;\n\t\t}'
CASES = [
  ('not_lt_other_args', [(SER, 'if ver.gte(2, 2) {', 'if !ver.lt(2, 3) {')]),
  ('not_lt_lt_redefined', [(SER, 'if ver.gte(2, 2) {', 'if !ver.lt(2, 2) {'), (SM, '!self.gte(major, minor)', 'self.major < major')]),
  ('not_lt_missing_bang', [(SER, 'if ver.gte(2, 2) {', 'if ver.lt(2, 2) {')]),
  ('if_lt_not_swapped', [(DE, 'if state.game.start.slippi.version.gte(2, 2) {\n\t\t\t\t\tstate.expect_id(id)?;', 'if state.game.start.slippi.version.lt(2, 2) {\n\t\t\t\t\tstate.expect_id(id)?;')]),
  ('match_bool_swapped', [(DE, IF_OLD, 'match hash {\n\t\t\ttrue => {\n\t\t\t\tr.seek(SeekFrom::Current(skip.try_into().map_err(invalid_data)?))?;\n\t\t\t}\n\t\t\tfalse => {\n\t\t\t\tio::copy(&mut r.by_ref().take(skip as u64), &mut io::sink())?;\n\t\t\t}\n\t\t}')]),
  ('match_bool_negated_scrutinee', [(DE, IF_OLD, 'match !hash {\n\t\t\ttrue => {\n\t\t\t\tio::copy(&mut r.by_ref().take(skip as u64), &mut io::sink())?;\n\t\t\t}\n\t\t\tfalse => {\n\t\t\t\tr.seek(SeekFrom::Current(skip.try_into().map_err(invalid_data)?))?;\n\t\t\t}\n\t\t}')]),
  ('match_bool_guard', [(DE, IF_OLD, 'match hash {\n\t\t\ttrue if skip > 0 => {\n\t\t\t\tio::copy(&mut r.by_ref().take(skip as u64), &mut io::sink())?;\n\t\t\t}\n\t\t\t_ => {\n\t\t\t\tr.seek(SeekFrom::Current(skip.try_into().map_err(invalid_data)?))?;\n\t\t\t}\n\t\t}')]),
  ('as_slice_subrange', [(DE, 'let buf = &mut &buf[..];', 'let buf = &mut &buf.as_slice()[1..];')]),
  ('as_slice_other_local', [(DE, 'let buf = &mut &buf[..];', 'let buf = &mut sizes.as_slice();')]),
  ('from_bool', [(DE, 'accumulator.actual_size += actual_size as u32;', 'accumulator.actual_size += u32::from(is_final);')]),
  ('from_other_value', [(DE, 'accumulator.actual_size += actual_size as u32;', 'accumulator.actual_size += u32::from(actual_size) + 1;')]),
  ('from_narrowing_lookalike', [(DE, 'let actual_size = (&buf[512..514]).read_u16::<BE>()?;', 'let actual_size = (&buf[512..516]).read_u32::<BE>()?;'), (DE, 'accumulator.actual_size += actual_size as u32;', 'accumulator.actual_size += u16::from(actual_size) as u32;')]),
  ('ok_or_else_effect', [(PDE, '.ok_or(err!("no start"))?;', '.ok_or_else(|| { frames = None; err!("no start") })?;')]),
  ('ok_or_else_nonliteral', [(PDE, '.ok_or(err!("no start"))?;', '.ok_or_else(|| err!("no start {}", path.display()))?;')]),
  ('ok_or_else_default', [(PDE, '.ok_or(err!("no start"))?;', '.ok_or_else(|| err!("no start")).or_else(|_| Ok::<_, Error>(Version(0, 1, 0)))?;')]),
  ('ok_or_default_direct', [(PDE, '.ok_or(err!("no start"))?;', '.ok_or(err!("no start")).or_else(|_| Ok::<_, Error>(Version(0, 1, 0)))?;')]),
  ('iflet_with_else', [(IOM, 'self.hasher.as_mut().map(|h| h.update(&buf[..n]));', 'if let Some(h) = self.hasher.as_mut() {\n\t\t\th.update(&buf[..n]);\n\t\t} else {\n\t\t\treturn Ok(0);\n\t\t}')]),
  ('iflet_other_bytes', [(IOM, 'self.hasher.as_mut().map(|h| h.update(&buf[..n]));', 'if let Some(h) = self.hasher.as_mut() {\n\t\t\th.update(&buf[..n - 1]);\n\t\t}')]),
  ('iflet_two_stmts', [(IOM, 'self.hasher.as_mut().map(|h| h.update(&buf[..n]));', 'if let Some(h) = self.hasher.as_mut() {\n\t\t\th.update(&buf[..n]);\n\t\t\th.update(&buf[..n]);\n\t\t}')]),
  ('iflet_return_inside', [(IOM, 'self.hasher.as_mut().map(|h| h.update(&buf[..n]));', 'if let Some(h) = self.hasher.as_mut() {\n\t\t\treturn Ok(h.update(&buf[..n]) as usize);\n\t\t}')]),
  ('iflet_none_arm', [(IOM, 'self.hasher.as_mut().map(|h| h.update(&buf[..n]));', 'if let None = self.hasher.as_mut() {\n\t\t\tself.pos += n;\n\t\t}')]),
  ('while_let_break', [(UDE, WL_OLD, 'while let Some(k) = to_key(r)? {\n\t\tm.insert(k, to_val(r, depth)?);\n\t\tbreak;\n\t}')]),
  ('while_let_skips_value', [(UDE, WL_OLD, 'while let Some(k) = to_key(r)? {\n\t\tm.insert(k, Value::Null);\n\t}')]),
  ('while_let_continue', [(UDE, WL_OLD, 'while let Some(k) = to_key(r)? {\n\t\tif k.is_empty() { continue; }\n\t\tm.insert(k, to_val(r, depth)?);\n\t}')]),
  ('if_let_once_not_loop', [(UDE, WL_OLD, 'if let Some(k) = to_key(r)? {\n\t\tm.insert(k, to_val(r, depth)?);\n\t}')]),
  ('fn_rename_old_kept_too', [(USER, 'fn write_utf8<W: Write>(w: &mut W, s: &str) -> Result<()> {', 'fn write_utf8<W: Write>(w: &mut W, s: &str) -> Result<()> {\n\twrite!(w, "S")?;\n\twrite_short_str(w, s)\n}\n\nfn write_short_str<W: Write>(w: &mut W, s: &str) -> Result<()> {')]),
  ('fn_rename_name_used_elsewhere', [(USER, 'write_utf8', 'to_utf8'), (USER, 'write_utf8', 'to_utf8'), (USER, 'write_utf8', 'to_utf8')]),
  ('fn_rename_made_pub', [(USER, 'fn write_utf8', 'pub fn write_short_str'), (USER, 'write_utf8', 'write_short_str'), (USER, 'write_utf8', 'write_short_str')]),
  ('fn_rename_body_changed', [(USER, 'fn write_utf8', 'fn write_short_str'), (USER, 'write_utf8', 'write_short_str'), (USER, 'write_utf8', 'write_short_str'), (USER, 'write!(w, "U")?;', 'write!(w, "u")?;')]),
  ('fn_rename_two_renamed', [(USER, 'fn write_utf8', 'fn write_short_str'), (USER, 'write_utf8', 'write_short_str'), (USER, 'write_utf8', 'write_short_str'), (UDE, 'fn to_utf8', 'fn rd_utf8'), (UDE, 'to_utf8(r)', 'rd_utf8(r)')]),
]
tree = work + '/tree'; gen = tree + '/coq/theories/Gen'; mut = work + '/repo'
os.makedirs(tree + '/tools', exist_ok=True)
shutil.copy(tr, tree + '/tools/rust2coq.py')
def once(edits):
    shutil.rmtree(mut, ignore_errors=True); os.makedirs(mut + '/gen/resources')
    shutil.copytree(repo0 + '/src', mut + '/src'); shutil.copy(repo0 + '/Cargo.toml', mut + '/Cargo.toml'); shutil.copy(repo0 + '/gen/resources/frames.json', mut + '/gen/resources/frames.json')
    for f, o, n in edits:
        p = mut + '/' + f; s = open(p).read()
        assert s.count(o) >= 1, (f, o)
        open(p, 'w').write(s.replace(o, n, 1))
    shutil.rmtree(gen, ignore_errors=True); os.makedirs(gen)
    r = subprocess.run([sys.executable, tree + '/tools/rust2coq.py'], env=dict(os.environ, PEPPI_REPO=mut), capture_output=True, text=True)
    errs = sorted(e['file'] for e in json.loads(r.stdout.strip().split('\n')[-1])['errors'])
    return r.returncode, errs, {f: open(gen + '/' + f).read() for f in sorted(os.listdir(gen)) if f.endswith('.v')}
ref = once([])
bad = 0
for name, edits in CASES:
    if sys.argv[4:] and name not in sys.argv[4:]:
        continue
    rc, errs, files = once(edits)
    changed = [f for f in files if files[f] != ref[2][f] and f not in errs]
    pristine = not errs and not changed
    bad += pristine
    print('%-32s %s' % (name, 'BAD: pristine tables' if pristine else 'detected: failed=%s changed=%s' % (errs, changed)))
print('%d cases, bad = %d' % (len(CASES), bad))
