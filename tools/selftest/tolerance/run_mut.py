#!/usr/bin/env python3
"""run a tools/selftest/mutN.py with its hard-wired scratch paths redirected (the tests' contents are not touched):
   run_mut.py <script> <BASE> <T2> [args of the script...]      MUT becomes <T2>_repo"""
import re, sys, os
script, base, t2 = sys.argv[1:4]
src = open(script).read()
src, n1 = re.subn(r"^BASE = '[^']*'", "BASE = %r" % base, src, count=1, flags=re.M)
src, n2 = re.subn(r"^T2 = '[^']*'", "T2 = %r" % t2, src, count=1, flags=re.M)
src, n3 = re.subn(r"^MUT = BASE \+ '/repo_mut'", "MUT = %r" % (t2 + '_repo'), src, count=1, flags=re.M)
assert n1 == n2 == n3 == 1, (n1, n2, n3)
sys.argv = [script] + sys.argv[4:]
exec(compile(src, script, 'exec'), {'__name__': '__main__', '__file__': script})
