#!/usr/bin/env python3
"""further behaviour-preserving edits (not among tools/selftest/benign): do the mechanisms generalise beyond the sixteen patches?
usage: extra_benign.py <rust2coq.py> <workdir>"""
import sys, os, json, shutil, subprocess
tr, work = sys.argv[1:3]
REPO0 = '/tmp/ag/tol2/repo0'
DE, SER, PDE, PSER, UDE, MUT, IMM, IO = ('src/io/slippi/de.rs', 'src/io/slippi/ser.rs', 'src/io/peppi/de.rs', 'src/io/peppi/ser.rs', 'src/io/ubjson/de.rs',
                                         'src/frame/mutable.rs', 'src/frame/immutable/mod.rs', 'src/io/mod.rs')
def all_(old, new):
    return lambda s: s.replace(old, new)
CASES = [
  # ---- alpha
  ('closure_param_o', [(DE, 'opts.map_or(false, |o| o.compute_hash)', 'opts.map_or(false, |options| options.compute_hash)')]),
  ('ver_in_payload_sizes', [(SER, lambda s: s[:s.index('fn gecko_codes')].replace('ver', 'vsn') .replace('vsnsion', 'version') + s[s.index('fn gecko_codes'):])]),
  ('if_let_binding_end', [(PSER, 'if let Some(end) = &game.end {\n\t\ttar_append(&mut tar, &serde_json::to_vec(end)?, "end.json")?;\n\t\ttar_append(&mut tar, &end.bytes.0, "end.raw")?;',
                           'if let Some(game_end) = &game.end {\n\t\ttar_append(&mut tar, &serde_json::to_vec(game_end)?, "end.json")?;\n\t\ttar_append(&mut tar, &game_end.bytes.0, "end.raw")?;')]),
  ('param_rename_splitter', [(DE, lambda s: s.replace('fn handle_splitter_event(buf: &[u8], accumulator: &mut SplitAccumulator)', 'fn handle_splitter_event(buf: &[u8], acc: &mut SplitAccumulator)')
                                   .replace('accumulator.raw.extend_from_slice', 'acc.raw.extend_from_slice').replace('accumulator.actual_size += actual_size as u32', 'acc.actual_size += actual_size as u32'))]),
  ('for_var_frame_close', [(DE, lambda s: s[:s.index('fn frame_close')] + s[s.index('fn frame_close'):s.index('fn frame_close') + 700].replace('for p in', 'for port_data in').replace(' p.', ' port_data.').replace('\tp.', '\tport_data.').replace('&mut p.', '&mut port_data.') + s[s.index('fn frame_close') + 700:])]),
  ('all_generated_closures', [(MUT, lambda s: s.replace('|x| ', '|val| ').replace('Some(x)', 'Some(val)').replace('val| x.', 'val| val.').replace('{ x.', '{ val.'))]),
  # ---- literals
  ('hex_event_code', [(DE, 'GameStart = 0x36,', 'GameStart = 54,')]),
  ('hex_in_splitter', [(DE, 'if buf.len() != 516 {', 'if buf.len() != 0x204 {')]),
  ('commute_size_plus_one', [(DE, 'state.bytes_read += size + 1;', 'state.bytes_read += 1 + size;')]),
  ('commute_end_offset', [(DE, 'let end_offset = 1 + state.payload_sizes[Event::GameEnd as usize].unwrap().get() as usize;', 'let end_offset = state.payload_sizes[Event::GameEnd as usize].unwrap().get() as usize + 1;')]),
  ('fold_pos_advance', [(SER, 'pos += 512;', 'pos += 256 * 2;')]),
  ('const_used_once_u16', [(SER, 'fn gecko_codes<W: Write>', 'const STEP: usize = 512;\n\nfn gecko_codes<W: Write>'), (SER, 'pos += 512;', 'pos += STEP;')]),
  # ---- lt / gte, map_or, match
  ('not_gte_in_read', [(DE, 'if state.game.start.slippi.version.lt(3, 0) {\n\t\tstate.frame_close();', 'if !state.game.start.slippi.version.gte(3, 0) {\n\t\tstate.frame_close();')]),
  ('map_unwrap_or_compute_hash', [(DE, 'opts.map_or(false, |o| o.compute_hash)', 'opts.map(|o| o.compute_hash).unwrap_or(false)')]),
  ('map_unwrap_or_compression', [(PSER, 'opts.map_or(None, |o| o.compression)', 'opts.map(|o| o.compression).unwrap_or(None)')]),
  ('match_gecko_payload_sizes', [(SER, '\t\t\t\t\tif let Some(codes) = &game.gecko_codes {\n\t\t\t\t\t\t// discard higher-order bits of actual_size, matching Slippi\'s behavior\n\t\t\t\t\t\tsizes.push(Event::GeckoCodes, codes.actual_size as u16 as usize);\n\t\t\t\t\t\tsizes.push(Event::MessageSplitter, 516);\n\t\t\t\t\t}',
                                  '\t\t\t\t\tmatch &game.gecko_codes {\n\t\t\t\t\t\tNone => {}\n\t\t\t\t\t\tSome(codes) => {\n\t\t\t\t\t\t\tsizes.push(Event::GeckoCodes, codes.actual_size as u16 as usize);\n\t\t\t\t\t\t\tsizes.push(Event::MessageSplitter, 516);\n\t\t\t\t\t\t}\n\t\t\t\t\t}')]),
  # ---- single-use let, helper
  ('let_wrapped_index', [(DE, 'let wrapped_event = buf[515];' if False else 'accumulator.actual_size += actual_size as u32;', 'let add = actual_size as u32;\n\taccumulator.actual_size += add;')]),
  ('let_final_flag', [(SER, 'w.write_u8(u8::from(pos >= actual_size))?;', 'let done = pos >= actual_size;\n\t\tw.write_u8(u8::from(done))?;')]),
  ('helper_frame_end_arm', None),
  ('helper_stmt_metadata', [(DE, '\tstate.game.metadata = Some(metadata);\n\tOk(())\n}', '\tstore_metadata(state, metadata);\n\tOk(())\n}\n\nfn store_metadata(state: &mut ParseState, metadata: serde_json::Map<String, serde_json::Value>) {\n\tstate.game.metadata = Some(metadata);\n}')]),
  # ---- combination of several classes in one file
  ('combo_de', [(DE, 'opts.map_or(false, |o| o.compute_hash)', 'opts.map(|o| o.compute_hash).unwrap_or(false)'), (DE, 'if buf.len() != 516 {', 'if buf.len() != 512 + 4 {'),
                (DE, 'let stage = r.read_u16::<BE>()?;', 'let stage_id = r.read_u16::<BE>()?;'), (DE, '\t\tstage,\n\t\ttimer,', '\t\tstage: stage_id,\n\t\ttimer,')]),
]
def frame_end_helper(s):
    a = s.index('\t\t\tFrameEnd => {')
    b = s.index('\t\t\tItem => {', a)
    arm = s[a:b]
    body = arm[len('\t\t\tFrameEnd => {\n'):arm.rindex('\t\t\t}')]
    helper = 'fn frame_end_event(buf: &[u8], state: &mut ParseState) -> Result<()> {\n' + body.replace('\n\t\t\t\t', '\n\t').replace('\t\t\t\t', '\t', 1) + '\tOk(())\n}\n\n'
    s = s[:a] + '\t\t\tFrameEnd => frame_end_event(&buf, state)?,\n' + s[b:]
    i = s.index('/// Parses a single event from `r`.')
    return s[:i] + helper + s[i:]
CASES = [(n, e if e is not None else [(DE, frame_end_helper)]) for n, e in CASES]
t = work + '/tree'; gen = t + '/coq/theories/Gen'; mut = work + '/repo'
os.makedirs(t + '/tools', exist_ok=True)
shutil.copy(tr, t + '/tools/rust2coq.py')
def once(edits):
    shutil.rmtree(mut, ignore_errors=True); os.makedirs(mut + '/gen/resources')
    shutil.copytree(REPO0 + '/src', mut + '/src'); shutil.copy(REPO0 + '/Cargo.toml', mut + '/Cargo.toml'); shutil.copy(REPO0 + '/gen/resources/frames.json', mut + '/gen/resources/frames.json')
    for ed in edits:
        p = mut + '/' + ed[0]; s = open(p).read()
        if callable(ed[1]):
            s2 = ed[1](s); assert s2 != s, ('no change', ed[0])
        else:
            assert ed[1] in s, ed[1]
            s2 = s.replace(ed[1], ed[2], 1)
        open(p, 'w').write(s2)
    shutil.rmtree(gen, ignore_errors=True); os.makedirs(gen)
    r = subprocess.run([sys.executable, t + '/tools/rust2coq.py'], env=dict(os.environ, PEPPI_REPO=mut, RUST2COQ_DEBUG='1'), capture_output=True, text=True)
    rep = json.loads(r.stdout.strip().split('\n')[-1])
    acc = [l for l in r.stderr.split('\n') if 'accepted' in l]
    return r.returncode, rep['errors'], {f: open(gen + '/' + f).read() for f in sorted(os.listdir(gen)) if f.endswith('.v')}, acc
ref = once([])
assert ref[0] == 0
for name, edits in CASES:
    rc, errs, files, acc = once(edits)
    ch = [f for f in files if files[f] != ref[2][f] and f not in [e['file'] for e in errs]]
    res = 'FAILED %s' % [(e['file'], e['error'][:150]) for e in errs] if errs else ('CHANGED %s' % ch if ch else 'identical')
    print('%-30s %s%s' % (name, res, ('   via ' + '; '.join(a.split('accepted under ')[1].split(' (after')[0] for a in acc)) if acc else ''))
