#!/usr/bin/env python3
"""for every mutation (TESTS and LOUD) of the given mutN.py: run the OLD and the NEW translator on the mutated sources and compare
rc, the failed files and every generated file.  usage: cmp_translators.py <script> <old rust2coq.py> <new rust2coq.py> <workdir>"""
import re, sys, os, json, shutil, subprocess
script, old, new, work = sys.argv[1:5]
src = open(script).read()
base = work + '/base'
t2 = work + '/t2'
for d in (base + '/tools', base + '/coq/theories/Proofs', t2 + '/tools', t2 + '/coq/theories/Proofs', t2 + '/coq/theories/Gen'):
    os.makedirs(d, exist_ok=True)
for nm in ('repo0', 'repo_base'):
    if not os.path.exists(base + '/' + nm):
        os.symlink('/tmp/ag/tol2/repo0', base + '/' + nm)
for f in os.listdir('/tmp/ag/tol2/coq/theories/Proofs'):
    if f.endswith('.v'):
        shutil.copy('/tmp/ag/tol2/coq/theories/Proofs/' + f, base + '/coq/theories/Proofs/' + f)
src = re.sub(r"^BASE = '[^']*'", "BASE = %r" % base, src, count=1, flags=re.M)
src = re.sub(r"^T2 = '[^']*'", "T2 = %r" % t2, src, count=1, flags=re.M)
src = re.sub(r"^MUT = BASE \+ '/repo_mut'", "MUT = %r" % (t2 + '_repo'), src, count=1, flags=re.M)
ns = {'__name__': 'mut', '__file__': script}
exec(compile(src, script, 'exec'), ns)
gen = t2 + '/coq/theories/Gen'

def once(tr, name, edits):
    shutil.copy(tr, base + '/tools/rust2coq.py')
    shutil.rmtree(gen); os.makedirs(gen)
    r = ns['run'](name, edits, targets=(), quiet=True)
    try:
        rep = json.loads(r.stdout.strip().split('\n')[-1])
        errs = sorted(e['file'] for e in rep['errors'])
    except Exception:
        errs = ['<no json: %s>' % (r.stdout + r.stderr)[-200:]]
    files = {f: open(gen + '/' + f).read() for f in sorted(os.listdir(gen)) if f.endswith('.v')}
    return r.returncode, errs, files

items = [(k, v[0]) for k, v in ns.get('TESTS', {}).items()] + [(x[0], x[1]) for x in ns.get('LOUD', [])]
nd = 0
for name, edits in items:
    a = once(old, name, edits)
    b = once(new, name, edits)
    # a failed file's stub carries the message; compare messages too
    diff = [f for f in sorted(set(a[2]) | set(b[2])) if a[2].get(f) != b[2].get(f)]
    same = a[0] == b[0] and a[1] == b[1] and not diff
    nd += (not same)
    print('%-34s %s' % (name, 'same (rc=%d, failed=%s)' % (a[0], a[1]) if same else 'DIFFERENT: old rc=%d failed=%s | new rc=%d failed=%s | files differing: %s' % (a[0], a[1], b[0], b[1], diff)))
    sys.stdout.flush()
print('%s: %d mutations, %d with a different translator result' % (os.path.basename(script), len(items), nd))
