#!/usr/bin/env python3
"""further harmless edits at OTHER sites than the benign2 patches: expected to come out with the pristine tables (a failure is loud, not unsound)"""
import sys, re
src = open('/tmp/ag/tol2/harness/adversarial2.py').read()
src = src[:src.index('CASES = [')] + '''CASES = [
  ('not_lt_inner', [(SER, 'if ver.gte(3, 0) {', 'if !ver.lt(3, 0) {')]),
  ('ok_or_else_missing_start', [(PDE, '.ok_or(err!("missing start"))?', '.ok_or_else(|| err!("missing start"))?')]),
  ('match_bool_arms_reversed', [(DE, IF_OLD, 'match hash {\\n\\t\\t\\tfalse => {\\n\\t\\t\\t\\tr.seek(SeekFrom::Current(skip.try_into().map_err(invalid_data)?))?;\\n\\t\\t\\t}\\n\\t\\t\\ttrue => {\\n\\t\\t\\t\\tio::copy(&mut r.by_ref().take(skip as u64), &mut io::sink())?;\\n\\t\\t\\t}\\n\\t\\t}')]),
  ('rename_private_to_val', [(UDE, 'to_utf8', 'read_utf8'), (UDE, 'to_utf8', 'read_utf8'), (UDE, 'to_utf8', 'read_utf8')]),
  ('two_classes_one_file', [(DE, 'accumulator.actual_size += actual_size as u32;', 'accumulator.actual_size += u32::from(actual_size);'), (DE, 'let buf = &mut &buf[..];', 'let buf = &mut buf.as_slice();')]),
]
''' + src[src.index('tree = work'):]
exec(compile(src, 'extra', 'exec'))
