#!/usr/bin/env python3
"""self-test driver for the ninth batch of front ends, all on the .slpp side: writer content expressions (X), reader assembly (Y),
read_arrow_frames (Z), option defaults (AA): mutate a scratch copy of the pristine Rust source, run the translator on it into a second
Coq tree, build the targets.
usage: mut9.py <test>...  |  mut9.py --all  |  mut9.py --loud [name...]"""
import os, shutil, subprocess, sys, json, re
BASE = '/tmp/ag/tgen10'
PRISTINE = BASE + '/repo0'          # git archive HEAD of /repo (the live /repo is being mutated by other jobs)
MUT = BASE + '/repo_mut'
T2 = '/tmp/ag/tgen10b'
PSER = 'src/io/peppi/ser.rs'
PDE = 'src/io/peppi/de.rs'
PMOD = 'src/io/peppi/mod.rs'
GAME = 'src/game/mod.rs'
NEW_PROOFS = ('SlppWriteLayout.v', 'SlppReadLayout.v', 'SlppOptsLayout.v')
NEW_GEN = ('SlppWriteSrc.v', 'SlppReadSrc.v', 'SlppOptsSrc.v')
GEN = ('Funs.v', 'Tables.v', 'Layouts.v', 'WriterSizes.v', 'SlppEntries.v', 'FrameWrite.v', 'Splitter.v', 'ReadTail.v', 'UbjsonMarkers.v',
       'WriterRaw.v', 'WriterSteps.v', 'ParseEvent.v', 'ArrowFrame.v', 'FrameTranspose.v', 'ReadPrologue.v', 'SlppHelpers.v',
       'RollbacksSrc.v', 'VersionTextSrc.v', 'MeleeStringSrc.v', 'HashingSrc.v', 'PortOccupancySrc.v', 'StartWiring.v', 'JsonShape.v',
       'UbjsonBodies.v', 'TarSrc.v') + NEW_GEN


def prepare():
    if not os.path.isdir(PRISTINE):
        os.makedirs(PRISTINE)
        subprocess.check_call('git -C /repo archive HEAD | tar -x -C %s' % PRISTINE, shell=True)
    shutil.rmtree(MUT, ignore_errors=True)
    os.makedirs(MUT + '/gen/resources')
    shutil.copytree(PRISTINE + '/src', MUT + '/src')
    shutil.copy(PRISTINE + '/Cargo.toml', MUT + '/Cargo.toml')
    shutil.copy(PRISTINE + '/gen/resources/frames.json', MUT + '/gen/resources/frames.json')
    if not os.path.isdir(T2):
        os.makedirs(T2)
        subprocess.check_call(['cp', '-a', BASE + '/coq', T2 + '/coq'])
        os.makedirs(T2 + '/tools')
    shutil.copy(BASE + '/tools/rust2coq.py', T2 + '/tools/rust2coq.py')
    for f in NEW_PROOFS:
        shutil.copy(BASE + '/coq/theories/Proofs/' + f, T2 + '/coq/theories/Proofs/' + f)


def run(name, edits, targets=(), quiet=False):
    prepare()
    for ed in edits:
        p = MUT + '/' + ed[0]
        s = open(p).read()
        if callable(ed[1]):
            s2 = ed[1](s)
            assert s2 != s, (name, 'callable edit made no change')
            s = s2
        else:
            assert s.count(ed[1]) >= 1, (name, ed[1])
            s = s.replace(ed[1], ed[2], 1)
        open(p, 'w').write(s)
    r = subprocess.run([sys.executable, T2 + '/tools/rust2coq.py'], env=dict(os.environ, PEPPI_REPO=MUT), capture_output=True, text=True)
    if not quiet:
        rep = json.loads(r.stdout.strip().split('\n')[-1]) if r.stdout.strip().startswith('{') else {}
        print('==== %s: translator rc=%d changed=%s errors=%s' % (name, r.returncode, rep.get('changed'), [(e['file'], e['error'][:160]) for e in rep.get('errors', [])]))
        if r.stderr.strip():
            print('stderr:', r.stderr[-2000:])
    for t in targets:
        b = subprocess.run('cd %s/coq && ./Makefile.gen.sh && timeout 2400 make -j6 theories/Proofs/%s.vo 2>&1 | grep -v "^COQ\\|^Closed" | head -40' % (T2, t),
                           shell=True, capture_output=True, text=True)
        out = b.stdout.strip()
        if 'Error' not in out:
            print('build %s: OK (no errors)' % t)
        else:
            m = re.search(r'File "\./theories/(\S+)", line (\d+)', out)
            thm = theorem_at(T2 + '/coq/theories/' + m.group(1), int(m.group(2))) if m else '?'
            print('build %s: FAILED at %s line %s (%s)\n%s' % (t, m.group(1) if m else '?', m.group(2) if m else '?', thm, out[:700]))
    return r


def theorem_at(path, line):
    """the name of the last Theorem/Lemma/Example/Corollary at or before the line"""
    name = '?'
    for i, l in enumerate(open(path).read().split('\n')[:line]):
        m = re.match(r'\s*(Theorem|Lemma|Example|Corollary|Definition|Fixpoint) (\w+)', l)
        if m:
            name = m.group(2)
    return name


def rep1(old, new):
    def f(t):
        assert old in t, old
        return t.replace(old, new, 1)
    return f


def seq(*fs):
    def g(s):
        for f in fs:
            s = f(s)
        return s
    return g


# ---- source fragments (tabs as in the repository)
W_ASSERT = '\tslippi::assert_max_version(game.start.slippi.version)?;\n'
W_PEPPI = ('\ttar_append(\n\t\t&mut tar,\n\t\t&serde_json::to_vec(&peppi::Peppi {\n\t\t\tversion: peppi::CURRENT_VERSION,\n\t\t\tslp_hash: game.hash,\n'
           '\t\t\tquirks: game.quirks,\n\t\t})?,\n\t\t"peppi.json",\n\t)?;\n')
W_META = '\ttar_append(\n\t\t&mut tar,\n\t\t&serde_json::to_vec(&game.metadata)?,\n\t\t"metadata.json",\n\t)?;\n'
W_STARTJ = '\ttar_append(&mut tar, &serde_json::to_vec(&game.start)?, "start.json")?;\n'
W_STARTR = '\ttar_append(&mut tar, &game.start.bytes.0, "start.raw")?;\n'
W_ENDJ = '\t\ttar_append(&mut tar, &serde_json::to_vec(end)?, "end.json")?;\n'
W_ENDR = '\t\ttar_append(&mut tar, &end.bytes.0, "end.raw")?;\n'
W_PORTS = '\t\tlet ports = port_occupancy(&game.start);\n'
W_BATCH = '\t\tlet batch = game\n\t\t\t.frames\n\t\t\t.into_struct_array(game.start.slippi.version, &ports);\n'
W_SCHEMA = ('\t\tlet schema = Schema::from(vec![Field {\n\t\t\tname: "frame".to_string(),\n\t\t\tdata_type: batch.data_type().clone(),\n\t\t\tis_nullable: false,\n'
            '\t\t\tmetadata: Default::default(),\n\t\t}]);\n')
W_CHUNK = '\t\tlet chunk = Chunk::new(vec![Box::new(batch) as Box<dyn Array>]);\n'
W_TRYNEW = ('\t\tlet mut writer = FileWriter::try_new(\n\t\t\t&mut buf,\n\t\t\tschema,\n\t\t\tNone,\n\t\t\tWriteOptions {\n'
            '\t\t\t\tcompression: opts.map_or(None, |o| o.compression),\n\t\t\t},\n\t\t)?;\n')
W_COMP = '\t\t\t\tcompression: opts.map_or(None, |o| o.compression),\n'
W_WRITE = '\t\twriter.write(&chunk, None)?;\n'
W_FINISH = '\t\twriter.finish()?;\n'
P_SKIP = '\t#[serde(skip_serializing_if = "Option::is_none")]\n'
P_HASH = P_SKIP + '\tpub slp_hash: Option<String>,\n'
P_QUIRKS = P_SKIP + '\tpub quirks: Option<Quirks>,\n'
R_VERSION = '\t\t\t\tlet version = start\n\t\t\t\t\t.as_ref()\n\t\t\t\t\t.map(|s| s.slippi.version)\n\t\t\t\t\t.ok_or(err!("no start"))?;\n'
R_MATCH = '\t\t\t\tframes = Some(match opts.map_or(false, |o| o.skip_frames) {\n'
R_SKIPB = ('\t\t\t\t\ttrue => {\n\t\t\t\t\t\tlet start = start.as_ref().ok_or(err!("missing start"))?;\n'
           '\t\t\t\t\t\tMutableFrame::with_capacity(0, start.slippi.version, &port_occupancy(start))\n\t\t\t\t\t\t\t.into()\n\t\t\t\t\t}\n')
R_SHORT = '\t\t\t\t\t\tif (buf.len() as u64) < size {\n\t\t\t\t\t\t\treturn Err(err!("truncated frames.arrow"));\n\t\t\t\t\t\t}\n'
R_DECODE = '\t\t\t\t\t\tread_arrow_frames(&buf[..], version)?\n'
R_PEPPI = '\tlet peppi = peppi.ok_or(err!("missing peppi"))?;\n'
R_START = '\t\tstart: start.ok_or(err!("missing start"))?,\n'
R_FRAMES = '\t\tframes: frames.ok_or(err!("missing frames"))?,\n'
Z_MAGIC = '\texpect_bytes(&mut r, &[65, 82, 82, 79, 87, 49, 0, 0])?;\n'
Z_FIRST = ('\t\t\t\tNone => {\n\t\t\t\t\tlet f = chunk.arrays()[0]\n\t\t\t\t\t\t.as_any()\n\t\t\t\t\t\t.downcast_ref::<StructArray>()\n'
           '\t\t\t\t\t\t.expect("expected a `StructArray`");\n\t\t\t\t\tframe = Some(Frame::from_struct_array(f.clone(), version))\n\t\t\t\t}\n')
Z_AGAIN = '\t\t\t\tSome(_) => return Err(err!("multiple batches")),\n'
Z_WAIT = '\t\t\tStreamState::Waiting => return Err(err!("truncated Arrow stream")),\n'
Z_END = '\t\t_ => Err(err!("no batches")),\n'
O_SER = '#[derive(Clone, Debug, Default)]\npub struct Opts {\n\t/// Internal compression to use, if any.'
O_DE = '#[derive(Clone, Debug, Default)]\npub struct Opts {\n\t/// Skip all frame data'


def x_reformat(t):
    t = t.replace(W_PEPPI, '\ttar_append(&mut tar, &serde_json::to_vec(&peppi::Peppi { version: peppi::CURRENT_VERSION, slp_hash: game.hash, quirks: game.quirks })?, "peppi.json")?;\n')
    t = t.replace(W_STARTJ, '\ttar_append(\n\t\t&mut tar,\n\t\t&serde_json::to_vec(\n\t\t\t&game.start,\n\t\t)?,\n\t\t"start.json",\n\t)?;\n')
    t = t.replace(W_BATCH, '\t\tlet batch = game.frames.into_struct_array(\n\t\t\tgame.start.slippi.version,\n\t\t\t&ports,\n\t\t);\n')
    t = t.replace(W_SCHEMA, '\t\tlet schema = Schema::from(vec![\n\t\t\tField { name: "frame".to_string(), data_type: batch.data_type().clone(), is_nullable: false, metadata: Default::default() },\n\t\t]);\n')
    return t.replace(W_TRYNEW, '\t\tlet mut writer = FileWriter::try_new(&mut buf, schema, None, WriteOptions { compression: opts.map_or(None, |o| o.compression) })?;\n')


def x_reformat_mod(t):
    return t.replace(P_HASH, '\t#[serde(\n\t\tskip_serializing_if = "Option::is_none",\n\t)]\n\tpub slp_hash: Option<String>,\n')


def y_reformat(t):
    t = t.replace(R_VERSION, '\t\t\t\tlet version = start.as_ref().map(|s| s.slippi.version).ok_or(err!("no start"))?;\n')
    t = t.replace(R_SHORT, '\t\t\t\t\t\tif (buf.len() as u64) < size { return Err(err!("truncated frames.arrow")); }\n')
    t = t.replace(R_START, '\t\tstart: start\n\t\t\t.ok_or(err!("missing start"))?,\n')
    t = t.replace(Z_MAGIC, '\texpect_bytes(\n\t\t&mut r,\n\t\t&[\n\t\t\t65, 82, 82, 79, 87, 49, 0, 0,\n\t\t],\n\t)?;\n')
    t = t.replace(Z_AGAIN, '\t\t\t\tSome(_) => {\n\t\t\t\t\treturn Err(err!("multiple batches"));\n\t\t\t\t}\n')
    return t.replace('\t\t\t\t\tlet f = chunk.arrays()[0]\n\t\t\t\t\t\t.as_any()\n\t\t\t\t\t\t.downcast_ref::<StructArray>()\n\t\t\t\t\t\t.expect("expected a `StructArray`");\n',
                     '\t\t\t\t\tlet f = chunk.arrays()[0].as_any().downcast_ref::<StructArray>().expect("expected a `StructArray`");\n')


MANUAL_DE = ('#[derive(Clone, Debug)]\npub struct Opts {\n\t/// Skip all frame data', '\nimpl Default for Opts {\n\tfn default() -> Self {\n\t\tSelf { skip_frames: %s }\n\t}\n}\n')
MANUAL_SER = ('#[derive(Clone, Debug)]\npub struct Opts {\n\t/// Internal compression to use, if any.', '\nimpl Default for Opts {\n\tfn default() -> Self {\n\t\tSelf { compression: %s }\n\t}\n}\n')


def manual_default(frag, impl, val, anchor):
    def f(t):
        t = t.replace(frag, impl[0], 1)
        i = t.index(anchor)
        return t[:i] + (impl[1] % val).lstrip('\n') + '\n' + t[i:]
    return f


X, Y, O = ['SlppWriteLayout'], ['SlppReadLayout'], ['SlppOptsLayout']
TESTS = {
    'identity': ([], X + Y + O),
    # ---- X: writer content expressions
    'x1_meta_start_contents_swapped': ([(PSER, seq(rep1('&serde_json::to_vec(&game.metadata)?', '&serde_json::to_vec(&game.START)?'),
                                                     rep1(W_STARTJ, W_STARTJ.replace('&game.start', '&game.metadata')),
                                                     rep1('&game.START', '&game.start')))], X),
    'x2_end_raw_from_start': ([(PSER, W_ENDR, W_ENDR.replace('&end.bytes.0', '&game.start.bytes.0'))], X),
    'x3_schema_field_renamed': ([(PSER, 'name: "frame".to_string()', 'name: "frames".to_string()')], X),
    'x4_schema_nullable': ([(PSER, 'is_nullable: false', 'is_nullable: true')], X),
    'x5_default_compression_lz4': ([(PSER, W_COMP, W_COMP.replace('map_or(None,', 'map_or(Some(Compression::LZ4),'))], X + O),
    'x6_compression_ignored': ([(PSER, W_COMP, '\t\t\t\tcompression: None,\n')], X),
    'x7_no_finish': ([(PSER, W_FINISH, '')], X),
    'x8_end_json_of_start': ([(PSER, W_ENDJ, W_ENDJ.replace('to_vec(end)', 'to_vec(&game.start)'))], X),
    'x9_quirks_always_written': ([(PMOD, P_QUIRKS, '\tpub quirks: Option<Quirks>,\n')], X),
    'x10_peppi_fields_reordered': ([(PMOD, P_HASH + P_QUIRKS, P_QUIRKS + P_HASH)], X),
    'x11_two_writes': ([(PSER, W_WRITE, W_WRITE + W_WRITE)], X),
    # ---- Y: reader assembly
    'y1_skip_default_true': ([(PDE, R_MATCH, R_MATCH.replace('map_or(false,', 'map_or(true,'))], Y + O),
    'y2_branches_exchanged': ([(PDE, seq(rep1('\t\t\t\t\ttrue => {\n\t\t\t\t\t\tlet start = start', '\t\t\t\t\tfalse => {\n\t\t\t\t\t\tlet start = start')))], Y),
    'y3_short_test_le': ([(PDE, '(buf.len() as u64) < size', '(buf.len() as u64) <= size')], Y),
    'y4_no_short_test': ([(PDE, R_SHORT, '')], Y),
    'y5_capacity_one': ([(PDE, 'with_capacity(0, start.slippi.version', 'with_capacity(1, start.slippi.version')], Y),
    # ---- Z: read_arrow_frames
    'z1_second_array': ([(PDE, 'chunk.arrays()[0]', 'chunk.arrays()[1]')], Y),
    'z2_further_batches_ignored': ([(PDE, Z_AGAIN, '\t\t\t\tSome(_) => {}\n')], Y),
    'z3_waiting_ignored': ([(PDE, Z_WAIT, '\t\t\tStreamState::Waiting => continue,\n')], Y),
    'z4_magic': ([(PDE, Z_MAGIC, Z_MAGIC.replace('49, 0, 0', '50, 0, 0'))], Y),
    # ---- AA: option defaults
    'a1_de_default_impl_skips': ([(PDE, manual_default(O_DE, MANUAL_DE, 'true', 'fn read_arrow_frames'))], O),
    'a2_ser_default_impl_zstd': ([(PSER, manual_default(O_SER, MANUAL_SER, 'Some(Compression::ZSTD)', 'fn tar_append'))], O),
    'a3_manual_impls_same_values': ([(PDE, manual_default(O_DE, MANUAL_DE, 'false', 'fn read_arrow_frames')), (PSER, manual_default(O_SER, MANUAL_SER, 'None', 'fn tar_append'))], O),
}
LOUD = [
    ('x_reformat', [(PSER, x_reformat), (PMOD, x_reformat_mod)], 'same'),
    ('y_reformat', [(PDE, y_reformat)], 'same'),
    ('a_reformat', [(PSER, rep1('#[derive(Clone, Debug, Default)]\npub struct Opts {', '#[derive(\n\tClone,\n\tDebug,\n\tDefault,\n)]\npub struct Opts {')),
                    (PDE, seq(rep1('#[derive(Clone, Debug, Default)]\npub struct Opts {', '#[derive(Clone, Debug)]\n#[derive(Default)]\npub struct Opts {'),
                              rep1(R_MATCH, '\t\t\t\tframes = Some(match opts.map_or(\n\t\t\t\t\tfalse,\n\t\t\t\t\t|o| o.skip_frames,\n\t\t\t\t) {\n')))], 'same'),
    # ---- X
    ('x_struct_update', [(PSER, '\t\t\tquirks: game.quirks,\n', '\t\t\t..Default::default()\n')], 'SlppWriteSrc.v'),
    ('x_meta_unwrap_or_default', [(PSER, 'to_vec(&game.metadata)?', 'to_vec(&game.metadata.unwrap_or_default())?')], 'SlppWriteSrc.v'),
    ('x_meta_unwrap_or', [(PSER, 'to_vec(&game.metadata)?', 'to_vec(&game.metadata.unwrap_or(serde_json::Map::new()))?')], 'SlppWriteSrc.v'),
    ('x_meta_as_ref_map', [(PSER, 'to_vec(&game.metadata)?', 'to_vec(&game.metadata.as_ref().map(|m| m.len()))?')], 'SlppWriteSrc.v'),
    ('x_hash_none', [(PSER, 'slp_hash: game.hash,', 'slp_hash: None,')], 'SlppWriteSrc.v'),
    ('x_hash_filtered', [(PSER, 'slp_hash: game.hash,', 'slp_hash: game.hash.filter(|h| !h.is_empty()),')], 'SlppWriteSrc.v'),
    ('x_version_min', [(PSER, 'version: peppi::CURRENT_VERSION,', 'version: peppi::MIN_VERSION,')], 'SlppWriteSrc.v'),
    ('x_quirks_from_hash_type', [(PSER, 'quirks: game.quirks,', 'quirks: game.end,')], 'SlppWriteSrc.v'),
    ('x_no_version_check', [(PSER, W_ASSERT, '')], 'SlppWriteSrc.v'),
    ('x_version_check_later', [(PSER, seq(rep1(W_ASSERT, ''), rep1('\tlet mut tar = tar::Builder::new(w);\n', '\tlet mut tar = tar::Builder::new(w);\n' + W_ASSERT)))], 'SlppWriteSrc.v'),
    ('x_start_json_string', [(PSER, '&serde_json::to_vec(&game.start)?', 'serde_json::to_string(&game.start)?.as_bytes()')], 'SlppWriteSrc.v'),
    ('x_raw_cloned_truncated', [(PSER, W_STARTR, W_STARTR.replace('&game.start.bytes.0', '&game.start.bytes.0[..4]'))], 'SlppWriteSrc.v'),
    ('x_second_schema_field', [(PSER, '\t\t\tmetadata: Default::default(),\n\t\t}]);\n', '\t\t\tmetadata: Default::default(),\n\t\t}, Field::new("n", DataType::Null, true)]);\n')], 'SlppWriteSrc.v'),
    ('x_ipc_fields_given', [(PSER, '\t\t\tschema,\n\t\t\tNone,\n', '\t\t\tschema,\n\t\t\tSome(vec![]),\n')], 'SlppWriteSrc.v'),
    ('x_write_error_swallowed', [(PSER, W_WRITE, '\t\twriter.write(&chunk, None).ok();\n')], 'SlppWriteSrc.v'),
    ('x_ports_empty', [(PSER, W_PORTS, '\t\tlet ports = Vec::new();\n')], 'SlppWriteSrc.v'),
    ('x_extra_statement', [(PSER, '\tlet mut tar = tar::Builder::new(w);\n', '\tlet mut tar = tar::Builder::new(w);\n\tlet game = sanitize(game);\n')], 'SlppWriteSrc.v'),
    ('x_compression_not_option_field', [(PSER, W_COMP, '\t\t\t\tcompression: opts.and_then(|o| o.compression),\n')], ('SlppWriteSrc.v', 'SlppOptsSrc.v')),
    ('x_peppi_rename_all', [(PMOD, '#[derive(Clone, Debug, Default, Deserialize, Serialize)]\npub struct Peppi {', '#[derive(Clone, Debug, Default, Deserialize, Serialize)]\n#[serde(rename_all = "camelCase")]\npub struct Peppi {')], ('SlppWriteSrc.v', 'SlppReadSrc.v')),
    ('x_peppi_quirks_skipped', [(PMOD, P_QUIRKS, '\t#[serde(skip)]\n\tpub quirks: Option<Quirks>,\n')], ('SlppWriteSrc.v', 'SlppReadSrc.v')),
    ('x_quirks_new_field', [(GAME, '\tpub double_game_end: bool,\n', '\tpub double_game_end: bool,\n\tpub other: bool,\n')], 'SlppWriteSrc.v'),
    ('x_frames_from_other_batch', [(PSER, 'vec![Box::new(batch) as Box<dyn Array>]', 'vec![Box::new(batch.slice(0, 0)) as Box<dyn Array>]')], 'SlppWriteSrc.v'),
    # ---- Y
    ('y_start_default', [(PDE, R_START, '\t\tstart: start.unwrap_or_default(),\n')], 'SlppReadSrc.v'),
    ('y_frames_default', [(PDE, R_FRAMES, '\t\tframes: frames.unwrap_or(MutableFrame::with_capacity(0, slippi::Version(0, 1, 0), &[]).into()),\n')], 'SlppReadSrc.v'),
    ('y_peppi_default', [(PDE, R_PEPPI, '\tlet peppi = peppi.unwrap_or_default();\n')], 'SlppReadSrc.v'),
    ('y_version_default', [(PDE, '\t\t\t\t\t.ok_or(err!("no start"))?;\n', '\t\t\t\t\t.unwrap_or(slippi::Version(0, 1, 0));\n')], 'SlppReadSrc.v'),
    ('y_metadata_or_empty', [(PDE, '\t\tmetadata: metadata,\n', '\t\tmetadata: metadata.or(Some(JsMap::new())),\n')], 'SlppReadSrc.v'),
    ('y_acc_not_none', [(PDE, '\tlet mut metadata: Option<JsMap> = None;\n', '\tlet mut metadata: Option<JsMap> = Some(JsMap::new());\n')], ('SlppReadSrc.v', 'SlppEntries.v')),
    ('y_gecko_dropped', [(PDE, '\t\tgecko_codes: gecko_codes,\n', '\t\tgecko_codes: None,\n')], 'SlppReadSrc.v'),
    ('y_empty_entry_shortcut', [(PDE, R_DECODE, '\t\t\t\t\t\tif buf.is_empty() {\n\t\t\t\t\t\t\tbreak;\n\t\t\t\t\t\t}\n' + R_DECODE)], ('SlppReadSrc.v', 'SlppEntries.v')),
    ('y_test_negated', [(PDE, R_MATCH, R_MATCH.replace('|o| o.skip_frames', '|o| !o.skip_frames'))], ('SlppReadSrc.v', 'SlppOptsSrc.v')),
    ('y_guarded_arm', [(PDE, '\t\t\t\t\ttrue => {\n\t\t\t\t\t\tlet start = start', '\t\t\t\t\ttrue if end.is_some() => {\n\t\t\t\t\t\tlet start = start')], 'SlppReadSrc.v'),
    ('y_ports_empty', [(PDE, '&port_occupancy(start))', '&Vec::new())')], 'SlppReadSrc.v'),
    ('y_statement_after_loop', [(PDE, R_PEPPI, R_PEPPI + '\tlet end = end.or(None);\n')], 'SlppReadSrc.v'),
    # ---- Z
    ('z_skip_empty_batch', [(PDE, Z_FIRST, '\t\t\t\tNone if chunk.is_empty() => continue,\n' + Z_FIRST)], 'SlppReadSrc.v'),
    ('z_skip_len_zero', [(PDE, '\t\t\tStreamState::Some(chunk) => match frame {\n', '\t\t\tStreamState::Some(chunk) if chunk.len() == 0 => continue,\n\t\t\tStreamState::Some(chunk) => match frame {\n')], 'SlppReadSrc.v'),
    ('z_reader_skip', [(PDE, '\tfor result in reader {\n', '\tfor result in reader.skip(1) {\n')], 'SlppReadSrc.v'),
    ('z_stream_error_ignored', [(PDE, '\t\tmatch result? {\n', '\t\tmatch result.unwrap_or(StreamState::Waiting) {\n')], 'SlppReadSrc.v'),
    ('z_no_batch_default', [(PDE, Z_END, '\t\t_ => Ok(MutableFrame::with_capacity(0, version, &[]).into()),\n')], 'SlppReadSrc.v'),
    ('z_no_magic', [(PDE, Z_MAGIC, '')], 'SlppReadSrc.v'),
    ('z_last_batch_wins', [(PDE, seq(rep1(Z_AGAIN, ''), rep1('\t\t\t\tNone => {\n\t\t\t\t\tlet f = chunk', '\t\t\t\t_ => {\n\t\t\t\t\tlet f = chunk')))], 'SlppReadSrc.v'),
    # ---- AA
    ('a_opts_unwrapped', [(PDE, R_MATCH, '\t\t\t\tlet o = opts.cloned().unwrap_or_default();\n' + R_MATCH.replace('opts.map_or(false, |o| o.skip_frames)', 'o.skip_frames'))], ('SlppOptsSrc.v', 'SlppReadSrc.v')),
    ('a_both_derive_and_impl', [(PDE, 'fn read_arrow_frames', 'impl Default for Opts {\n\tfn default() -> Self {\n\t\tSelf { skip_frames: true }\n\t}\n}\n\nfn read_arrow_frames')], 'SlppOptsSrc.v'),
    ('a_default_computed', [(PDE, manual_default(O_DE, MANUAL_DE, 'cfg!(feature = "fast")', 'fn read_arrow_frames'))], 'SlppOptsSrc.v'),
    ('a_new_field_unmodelled', [(PSER, '\tpub compression: Option<Compression>,\n', '\tpub compression: Option<Compression>,\n\tpub level: u8,\n')], 'SlppOptsSrc.v'),
    ('a_no_default', [(PSER, O_SER, O_SER.replace(', Default', ''))], 'SlppOptsSrc.v'),
]

if __name__ == '__main__':
    if sys.argv[1:2] == ['--loud']:
        ref = {f: open(BASE + '/coq/theories/Gen/' + f).read() for f in GEN if f != 'Funs.v'}
        bad = 0
        for name, edits, expect in LOUD:
            if len(sys.argv) > 2 and name not in sys.argv[2:]:
                continue
            r = run(name, edits, quiet=True)
            rep = json.loads(r.stdout.strip().split('\n')[-1]) if r.stdout.strip().startswith('{') else {'errors': [{'file': '?', 'error': r.stdout + r.stderr}]}
            errs = rep['errors']
            if expect == 'same':
                ok = r.returncode == 0 and all(open(T2 + '/coq/theories/Gen/' + f).read() == ref[f] for f in ref)
                print('%-26s %s' % (name, 'OK: generated files identical' if ok else 'BAD: %s' % (errs or 'output differs')))
            else:
                want = sorted(expect) if isinstance(expect, tuple) else [expect]
                first = expect[0] if isinstance(expect, tuple) else expect
                mine = [e for e in errs if e['file'] == first] or errs
                ok = r.returncode == 3 and sorted(e['file'] for e in errs) == want and all('rust2coq FAILED' in open(T2 + '/coq/theories/Gen/' + f).read() for f in want)
                print('%-26s %s %s' % (name, 'OK: loud%s:' % (' (+%s)' % ', '.join(w for w in want if w != first) if len(want) > 1 else '') if ok
                                       else 'BAD (rc=%d, errors in %s):' % (r.returncode, sorted(e['file'] for e in errs)),
                                       mine[0]['error'][:260] if mine else (r.stderr[-300:] or 'NO ERROR')))
            bad += (not ok)
        print('bad =', bad)
    else:
        names = list(TESTS) if sys.argv[1:2] == ['--all'] else sys.argv[1:]
        for k in names:
            run(k, *TESTS[k])
