#!/usr/bin/env python3
"""self-test driver for the eighth batch of front ends: Game Start -> player wiring (T), JSON shape of the game structs (U), UBJSON
reader / writer bodies (V), tar entries (W): mutate a scratch copy of the pristine Rust source, run the translator on it into a second
Coq tree, build the targets.
usage: mut8.py <test>...  |  mut8.py --all  |  mut8.py --loud [name...]"""
import os, shutil, subprocess, sys, json, re
BASE = '/tmp/ag/tgen9'
PRISTINE = BASE + '/repo0'          # git archive HEAD of /repo (the live /repo is being mutated by other jobs)
MUT = BASE + '/repo_mut'
T2 = '/tmp/ag/tgen9b'
DE = 'src/io/slippi/de.rs'
GAME = 'src/game/mod.rs'
SLP = 'src/io/slippi/mod.rs'
SJ = 'src/game/shift_jis.rs'
UDE = 'src/io/ubjson/de.rs'
USER = 'src/io/ubjson/ser.rs'
PSER = 'src/io/peppi/ser.rs'
NEW_PROOFS = ('StartWiringLayout.v', 'JsonShapeLayout.v', 'UbjsonBodiesLayout.v', 'TarLayout.v')
NEW_GEN = ('StartWiring.v', 'JsonShape.v', 'UbjsonBodies.v', 'TarSrc.v')
GEN = ('Funs.v', 'Tables.v', 'Layouts.v', 'WriterSizes.v', 'SlppEntries.v', 'FrameWrite.v', 'Splitter.v', 'ReadTail.v', 'UbjsonMarkers.v',
       'WriterRaw.v', 'WriterSteps.v', 'ParseEvent.v', 'ArrowFrame.v', 'FrameTranspose.v', 'ReadPrologue.v', 'SlppHelpers.v',
       'RollbacksSrc.v', 'VersionTextSrc.v', 'MeleeStringSrc.v', 'HashingSrc.v', 'PortOccupancySrc.v') + NEW_GEN


def prepare():
    if not os.path.isdir(PRISTINE):
        os.makedirs(PRISTINE)
        subprocess.check_call('git -C /repo archive HEAD | tar -x -C %s' % PRISTINE, shell=True)
    shutil.rmtree(MUT, ignore_errors=True)
    os.makedirs(MUT + '/gen/resources')
    shutil.copytree(PRISTINE + '/src', MUT + '/src')
    shutil.copy(PRISTINE + '/Cargo.toml', MUT + '/Cargo.toml')
    shutil.copy(PRISTINE + '/gen/resources/frames.json', MUT + '/gen/resources/frames.json')
    if not os.path.isdir(T2):
        os.makedirs(T2)
        subprocess.check_call(['cp', '-a', BASE + '/coq', T2 + '/coq'])
        os.makedirs(T2 + '/tools')
    shutil.copy(BASE + '/tools/rust2coq.py', T2 + '/tools/rust2coq.py')
    for f in NEW_PROOFS:
        shutil.copy(BASE + '/coq/theories/Proofs/' + f, T2 + '/coq/theories/Proofs/' + f)


def run(name, edits, targets=(), quiet=False):
    prepare()
    for ed in edits:
        p = MUT + '/' + ed[0]
        s = open(p).read()
        if callable(ed[1]):
            s2 = ed[1](s)
            assert s2 != s, (name, 'callable edit made no change')
            s = s2
        else:
            assert s.count(ed[1]) >= 1, (name, ed[1])
            s = s.replace(ed[1], ed[2], 1)
        open(p, 'w').write(s)
    r = subprocess.run([sys.executable, T2 + '/tools/rust2coq.py'], env=dict(os.environ, PEPPI_REPO=MUT), capture_output=True, text=True)
    if not quiet:
        rep = json.loads(r.stdout.strip().split('\n')[-1]) if r.stdout.strip().startswith('{') else {}
        print('==== %s: translator rc=%d changed=%s errors=%s' % (name, r.returncode, rep.get('changed'), [(e['file'], e['error'][:160]) for e in rep.get('errors', [])]))
        if r.stderr.strip():
            print('stderr:', r.stderr[-2000:])
    for t in targets:
        b = subprocess.run('cd %s/coq && ./Makefile.gen.sh && timeout 2400 make -j6 theories/Proofs/%s.vo 2>&1 | grep -v "^COQ\\|^Closed" | head -40' % (T2, t),
                           shell=True, capture_output=True, text=True)
        out = b.stdout.strip()
        if 'Error' not in out:
            print('build %s: OK (no errors)' % t)
        else:
            m = re.search(r'File "\./theories/(\S+)", line (\d+)', out)
            thm = theorem_at(T2 + '/coq/theories/' + m.group(1), int(m.group(2))) if m else '?'
            print('build %s: FAILED at %s line %s (%s)\n%s' % (t, m.group(1) if m else '?', m.group(2) if m else '?', thm, out[:700]))
    return r


def theorem_at(path, line):
    """the name of the last Theorem/Lemma/Example/Corollary at or before the line"""
    name = '?'
    for i, l in enumerate(open(path).read().split('\n')[:line]):
        m = re.match(r'(Theorem|Lemma|Example|Corollary|Definition|Fixpoint) (\w+)', l)
        if m:
            name = m.group(2)
    return name


def in_fn(name, f, nth=1):
    def g(s):
        i = -1
        for _ in range(nth):
            i = s.index(name, i + 1)
        return s[:i] + f(s[i:])
    return g


def rep1(old, new):
    def f(t):
        assert old in t, old
        return t.replace(old, new, 1)
    return f


def seq(*fs):
    def g(s):
        for f in fs:
            s = f(s)
        return s
    return g


# ---- source fragments (tabs as in the repository)
GS = 'pub(crate) fn game_start('
A_PORT = '\t\t\t\tPort::try_from(n as u8).unwrap(),\n'
A_V0 = '\t\t\t\t&players_v0[n],\n'
A_TEAMS = '\t\t\t\tis_teams,\n'
A_V10 = '\t\t\t\tplayers_v1_0.map(|p| p[n]),\n'
A_V13 = '\t\t\t\tplayers_v1_3.map(|p| p[n]),\n'
A_NAME = '\t\t\t\tplayers_v3_9.map(|p| p.0[n]),\n'
A_CODE = '\t\t\t\tplayers_v3_9.map(|p| p.1[n]),\n'
A_V311 = '\t\t\t\tplayers_v3_11.map(|p| p[n]),\n'
PLAYERS = ('\tlet players = (0..NUM_PORTS)\n\t\t.filter_map(|n| {\n\t\t\tplayer(\n' + A_PORT + A_V0 + A_TEAMS + A_V10 + A_V13 + A_NAME + A_CODE + A_V311
           + '\t\t\t)\n\t\t\t.transpose()\n\t\t})\n\t\t.collect::<Result<Vec<_>>>()?;\n')
CALL = '\t\t\tplayer(\n' + A_PORT + A_V0 + A_TEAMS + A_V10 + A_V13 + A_NAME + A_CODE + A_V311 + '\t\t\t)\n'
ARGS1 = 'Port::try_from(n as u8).unwrap(), &players_v0[n], is_teams, players_v1_0.map(|p| p[n]), players_v1_3.map(|p| p[n]), players_v3_9.map(|p| p.0[n]), players_v3_9.map(|p| p.1[n]), players_v3_11.map(|p| p[n])'
SKIP_ATTR = '\t#[serde(skip_serializing_if = "Option::is_none")]\n'
TO_UTF8 = ('fn to_utf8<R: Read>(r: &mut R) -> Result<String> {\n\tlet length = r.read_u8()?;\n\tlet mut buf = vec![0; length as usize];\n\tr.read_exact(&mut buf)?;\n'
           '\tOk(String::from_utf8(buf)?)\n}\n')
I32_ARM = '\t\t0x6c => Ok(Value::Number(serde_json::Number::from(\n\t\t\tr.read_i32::<BigEndian>()?,\n\t\t))),\n'
DEPTH_IF = '\tif depth > MAX_DEPTH {\n\t\treturn Err(err!("UBJSON maps nested too deeply (max {})", MAX_DEPTH));\n\t}\n'
WR_LEN = '\tw.write_u8(s.len().try_into().unwrap())?;\n'
WR_INT = '\t\t\t\tw.write_i32::<BigEndian>(n.as_i64().unwrap().try_into().unwrap())?;\n'
T_NEW = '\tlet mut header = tar::Header::new_gnu();\n'
T_SIZE = '\theader.set_size(buf.len().try_into()?);\n'
T_PATH = '\theader.set_path(path)?;\n'
T_MODE = '\theader.set_mode(0o644);\n'
T_CK = '\theader.set_cksum();\n'
T_APP = '\tbuilder.append(&header, buf)?;\n'
T_FIN = '\ttar.into_inner()?.flush()?;\n'


def t_reformat(t):
    return t.replace(PLAYERS, '\tlet players = (0..NUM_PORTS).filter_map(|n| player(\n\t\t' + ARGS1.replace(', ', ',\n\t\t') + ',\n\t).transpose())\n'
                     '\t\t.collect::<Result<Vec<_>>>()?;\n')


def u_reformat(t):
    t = t.replace('\t/// UCF info (added: v1.0)\n' + SKIP_ATTR + '\tpub ucf: Option<Ucf>,\n', '\t#[serde(skip_serializing_if = "Option::is_none")] pub ucf: Option<Ucf>,\n')
    t = t.replace('#[derive(Clone, Copy, Debug, PartialEq, Eq, Serialize)]\npub struct Team {\n\tpub color: u8,\n\tpub shade: u8,\n}\n',
                  '#[derive(\n\tClone,\n\tCopy,\n\tDebug,\n\tPartialEq,\n\tEq,\n\tSerialize,\n)]\npub struct Team { pub color: u8, pub shade: u8 }\n')
    return t.replace('\t#[serde(skip)]\n\t#[doc(hidden)]\n\tpub bytes: Bytes,\n', '\t#[doc(hidden)]\n\t#[serde(\n\t\tskip,\n\t)]\n\tpub bytes: Bytes,\n')


def v_reformat_de(t):
    t = t.replace(I32_ARM, '\t\t0x6c => {\n\t\t\tOk(Value::Number(serde_json::Number::from(r.read_i32::<BigEndian>()?)))\n\t\t}\n')
    return t.replace(DEPTH_IF, '\tif depth > MAX_DEPTH { return Err(err!("UBJSON maps nested too deeply (max {})", MAX_DEPTH)); }\n')


def v_reformat_ser(t):
    return t.replace(WR_INT, '\t\t\t\tw.write_i32::<BigEndian>(\n\t\t\t\t\tn.as_i64()\n\t\t\t\t\t\t.unwrap()\n\t\t\t\t\t\t.try_into()\n\t\t\t\t\t\t.unwrap(),\n\t\t\t\t)?;\n')


def w_reformat(t):
    t = t.replace(T_SIZE, '\theader.set_size(\n\t\tbuf.len().try_into()?,\n\t);\n')
    return t.replace(T_FIN, '\ttar.into_inner()?\n\t\t.flush()?;\n')


T, U, V, W = ['StartWiringLayout'], ['JsonShapeLayout'], ['UbjsonBodiesLayout'], ['TarLayout']
TESTS = {
    'identity': ([], T + U + V + W),
    # ---- T
    't1_name_code_swapped': ([(DE, A_NAME + A_CODE, A_CODE + A_NAME)], T),
    't2_index_const': ([(DE, A_V13, A_V13.replace('p[n]', 'p[0]'))], T),
    't3_range_from_1': ([(DE, '\tlet players = (0..NUM_PORTS)\n', '\tlet players = (1..NUM_PORTS)\n')], T),
    't4_v0_index_plus_1': ([(DE, A_V0, A_V0.replace('[n]', '[n + 1]'))], T),
    't5_port_plus_1': ([(DE, A_PORT, A_PORT.replace('n as u8', '(n + 1) as u8'))], T),
    't6_blocks_swapped': ([(DE, A_V10 + A_V13, A_V13 + A_V10)], T),
    't7_range_max_players': ([(DE, '\tlet players = (0..NUM_PORTS)\n', '\tlet players = (0..MAX_PLAYERS)\n')], T),
    't8_v311_from_v13': ([(DE, A_V311, A_V311.replace('players_v3_11', 'players_v1_3'))], T),
    # ---- U
    'u1_field_order': ([(GAME, '\t/// starting stock count\n\tpub stocks: u8,\n\n\tpub costume: u8,\n', '\tpub costume: u8,\n\n\t/// starting stock count\n\tpub stocks: u8,\n')], U),
    'u2_omit_attr_removed': ([(GAME, '\t/// UCF info (added: v1.0)\n' + SKIP_ATTR, '\t/// UCF info (added: v1.0)\n')], U),
    'u3_omit_attr_added': ([(GAME, '\tpub team: Option<Team>,\n', SKIP_ATTR + '\tpub team: Option<Team>,\n')], U),
    'u4_signedness': ([(GAME, '\tpub item_spawn_frequency: i8,\n', '\tpub item_spawn_frequency: u8,\n')], U),
    'u5_renamed_key': ([(GAME, SKIP_ATTR + '\tpub language: Option<Language>,\n', '\t#[serde(skip_serializing_if = "Option::is_none", rename = "lang")]\n\tpub language: Option<Language>,\n')], U),
    'u6_lras_flattened': ([(GAME, '\tpub lras_initiator: Option<Option<Port>>,\n', '\tpub lras_initiator: Option<Port>,\n')], U),
    'u7_new_field': ([(GAME, 'pub struct Scene {\n\tpub minor: u8,\n', 'pub struct Scene {\n\tpub kind: u8,\n\tpub minor: u8,\n')], U),
    'u8_port_as_number': ([(GAME, 'pub struct PlayerEnd {\n\tpub port: Port,\n', 'pub struct PlayerEnd {\n\tpub port: u8,\n')], U),
    'u9_netplay_suid_always': ([(GAME, '\t/// Slippi UID (added: v3.11)\n' + SKIP_ATTR, '\t/// Slippi UID (added: v3.11)\n')], U),
    # ---- V (every one of these is ALSO rejected by the older marker front end (h): rc 3 with an error for UbjsonMarkers.v, while UbjsonBodies.v is regenerated)
    'v1_depth_ge': ([(UDE, 'if depth > MAX_DEPTH {', 'if depth >= MAX_DEPTH {')], V),
    'v2_initial_depth_0': ([(UDE, '\tread_map_at(r, 1)\n', '\tread_map_at(r, 0)\n')], V),
    'v3_int_unsigned': ([(UDE, 'r.read_i32::<BigEndian>()?', 'r.read_u32::<BigEndian>()?')], V),
    'v4_int_little_endian': ([(UDE, 'r.read_i32::<BigEndian>()?', 'r.read_i32::<LittleEndian>()?')], V),
    'v5_len_u16': ([(UDE, '\tlet length = r.read_u8()?;\n', '\tlet length = r.read_u16::<BigEndian>()?;\n')], V),
    'v6_len_truncating_cast': ([(USER, WR_LEN, '\tw.write_u8(s.len() as u8)?;\n')], V),
    'v7_nested_depth_plus_2': ([(UDE, 'read_map_at(r, depth + 1)?', 'read_map_at(r, depth + 2)?')], V),
    'v8_write_i16': ([(USER, WR_INT, WR_INT.replace('write_i32', 'write_i16'))], V),
    'v9_len_signed': ([(UDE, '\tlet length = r.read_u8()?;\n', '\tlet length = r.read_i8()?;\n')], V),
    'v11_to_val_depth_1': ([(UDE, 'm.insert(k, to_val(r, depth)?);', 'm.insert(k, to_val(r, 1)?);')], V),
    'v10_max_depth_128': ([(UDE, 'const MAX_DEPTH: usize = 127;', 'const MAX_DEPTH: usize = 128;')], V),
    # ---- W (mutations of tar_append are ALSO rejected by the older .slpp-entries front end (d): rc 3 with an error for SlppEntries.v, while TarSrc.v is regenerated)
    'w1_mode_600': ([(PSER, T_MODE, '\theader.set_mode(0o600);\n')], W),
    'w2_cksum_before_mode': ([(PSER, T_MODE + T_CK, T_CK + T_MODE)], W),
    'w3_ustar_header': ([(PSER, T_NEW, T_NEW.replace('new_gnu', 'new_ustar'))], W),
    'w4_flush_only': ([(PSER, T_FIN, '\ttar.flush()?;\n')], W),
    'w5_size_after_path': ([(PSER, T_SIZE + T_PATH, T_PATH + T_SIZE)], W),
}
LOUD = [
    ('t_reformat', [(DE, t_reformat)], 'same'),
    ('u_reformat', [(GAME, u_reformat)], 'same'),
    ('v_reformat', [(UDE, v_reformat_de), (USER, v_reformat_ser)], 'same'),
    ('w_reformat', [(PSER, w_reformat)], 'same'),
    # ---- T: pipelines in which an error (or a player) can disappear, and other unrecognised shapes
    ('t_ok_flatten', [(DE, PLAYERS, PLAYERS.replace('\t\t\t.transpose()\n', '\t\t\t.ok()\n\t\t\t.flatten()\n').replace('.collect::<Result<Vec<_>>>()?;', '.collect::<Vec<_>>();'))], 'StartWiring.v'),
    ('t_flat_map', [(DE, PLAYERS, PLAYERS.replace('.filter_map(|n| {', '.flat_map(|n| {').replace('\t\t\t.transpose()\n', '').replace('.collect::<Result<Vec<_>>>()?;', '.flatten().collect::<Vec<_>>();'))], 'StartWiring.v'),
    ('t_filter_map_result_ok', [(DE, PLAYERS, PLAYERS.replace('\t\t.collect::<Result<Vec<_>>>()?;', '\t\t.filter_map(Result::ok)\n\t\t.collect::<Vec<_>>();'))], 'StartWiring.v'),
    ('t_unwrap_or_none', [(DE, PLAYERS, PLAYERS.replace('\t\t\t.transpose()\n', '\t\t\t.unwrap_or(None)\n').replace('.collect::<Result<Vec<_>>>()?;', '.collect::<Vec<_>>();'))], 'StartWiring.v'),
    ('t_unwrap_or_default', [(DE, PLAYERS, PLAYERS.replace('\t\t\t.transpose()\n', '\t\t\t.unwrap_or_default()\n').replace('.collect::<Result<Vec<_>>>()?;', '.collect::<Vec<_>>();'))], 'StartWiring.v'),
    ('t_collect_vec_of_results', [(DE, PLAYERS, PLAYERS.replace('.collect::<Result<Vec<_>>>()?;', '.collect::<Vec<_>>();'))], 'StartWiring.v'),
    ('t_collect_then_flatten', [(DE, PLAYERS, PLAYERS.replace('.collect::<Result<Vec<_>>>()?;', '.flatten().collect::<Vec<_>>();'))], 'StartWiring.v'),
    ('t_range_reversed', [(DE, '\tlet players = (0..NUM_PORTS)\n', '\tlet players = (0..NUM_PORTS)\n\t\t.rev()\n')], 'StartWiring.v'),
    ('t_range_inclusive', [(DE, '\tlet players = (0..NUM_PORTS)\n', '\tlet players = (0..=3)\n')], 'StartWiring.v'),
    ('t_index_modulo', [(DE, A_V13, A_V13.replace('p[n]', 'p[n % 2]'))], 'StartWiring.v'),
    ('t_teams_literal', [(DE, A_TEAMS, '\t\t\t\tfalse,\n')], 'StartWiring.v'),
    ('t_two_statement_closure', [(DE, PLAYERS, PLAYERS.replace('\t\t\tplayer(\n', '\t\t\tlet p = player(\n').replace('\t\t\t)\n\t\t\t.transpose()\n', '\t\t\t);\n\t\t\tp.transpose()\n'))], 'StartWiring.v'),
    ('t_second_call', [(DE, PLAYERS, PLAYERS + '\tlet _extra = player(Port::P1, &players_v0[5], is_teams, None, None, None, None, None)?;\n')], 'StartWiring.v'),
    ('t_players_filtered_later', [(DE, PLAYERS, PLAYERS.replace('\tlet players = ', '\tlet mut players = ') + '\tplayers.retain(|p| p.stocks > 0);\n')], 'StartWiring.v'),
    ('t_players_field_explicit', [(DE, '\t\tplayers,\n\t\trandom_seed,\n', '\t\tplayers: Vec::new(),\n\t\trandom_seed,\n')], 'StartWiring.v'),
    ('t_opt_unwrap_or', [(DE, A_V10, '\t\t\t\tSome(players_v1_0.map(|p| p[n]).unwrap_or([0; 8])),\n')], 'StartWiring.v'),
    ('t_missing_argument', [(DE, A_V311, '')], 'StartWiring.v'),
    # ---- U
    ('u_rename_all', [(GAME, '#[derive(Clone, Copy, Debug, PartialEq, Eq, Serialize)]\npub struct Scene {', '#[derive(Clone, Copy, Debug, PartialEq, Eq, Serialize)]\n#[serde(rename_all = "camelCase")]\npub struct Scene {')], 'JsonShape.v'),
    ('u_serialize_with', [(GAME, '\tpub stage: u16,\n', '\t#[serde(serialize_with = "stage_name")]\n\tpub stage: u16,\n')], 'JsonShape.v'),
    ('u_flatten', [(GAME, '\tpub slippi: slippi::Slippi,\n', '\t#[serde(flatten)]\n\tpub slippi: slippi::Slippi,\n')], 'JsonShape.v'),
    ('u_variant_rename', [(GAME, '\tJapanese = 0,\n', '\t#[serde(rename = "jp")]\n\tJapanese = 0,\n')], ('JsonShape.v', 'Funs.v')),
    ('u_hand_written_impl', [(GAME, 'impl Default for Port {', 'impl Serialize for Port {\n\tfn serialize<S: serde::Serializer>(&self, s: S) -> Result<S::Ok, S::Error> {\n\t\ts.serialize_u8(*self as u8)\n\t}\n}\n\nimpl Default for Port {')], 'JsonShape.v'),
    ('u_no_derive', [(GAME, '#[derive(Clone, Copy, Debug, PartialEq, Eq, Serialize)]\npub struct Team {', '#[derive(Clone, Copy, Debug, PartialEq, Eq)]\npub struct Team {')], 'JsonShape.v'),
    ('u_bytes_not_skipped', [(GAME, '\t#[serde(skip)]\n\t#[doc(hidden)]\n\tpub bytes: Bytes,\n\n\t/// (added: v1.5)', '\t#[doc(hidden)]\n\tpub bytes: Bytes,\n\n\t/// (added: v1.5)')], 'JsonShape.v'),
    ('u_f64_field', [(GAME, '\tpub damage_ratio: f32,\n', '\tpub damage_ratio: f64,\n')], 'JsonShape.v'),
    ('u_skip_if_other_fn', [(GAME, '\t/// (added: v1.5)\n' + SKIP_ATTR, '\t/// (added: v1.5)\n\t#[serde(skip_serializing_if = "is_false")]\n')], 'JsonShape.v'),
    ('u_cfg_attr', [(GAME, '\tpub timer: u32,\n', '\t#[cfg(feature = "timer")]\n\tpub timer: u32,\n')], 'JsonShape.v'),
    ('u_duplicate_key', [(GAME, '\tpub placement: u8,\n', '\t#[serde(rename = "port")]\n\tpub placement: u8,\n')], 'JsonShape.v'),
    ('u_tuple_variant', [(GAME, '\tDemo = 2,\n', '\tDemo = 2,\n\tOther(u8),\n')], ('JsonShape.v', 'Funs.v')),
    # ---- V
    ('v_lossy', [(UDE, '\tOk(String::from_utf8(buf)?)\n', '\tOk(String::from_utf8_lossy(&buf).into_owned())\n')], ('UbjsonBodies.v', 'UbjsonMarkers.v')),
    ('v_trimmed', [(UDE, '\tOk(String::from_utf8(buf)?)\n', '\tOk(String::from_utf8(buf)?.trim_end_matches(\'\\0\').to_string())\n')], ('UbjsonBodies.v', 'UbjsonMarkers.v')),
    ('v_replace', [(UDE, '\tOk(String::from_utf8(buf)?)\n', '\tOk(String::from_utf8(buf)?.replace("\\u{0}", ""))\n')], ('UbjsonBodies.v', 'UbjsonMarkers.v')),
    ('v_unchecked', [(UDE, '\tOk(String::from_utf8(buf)?)\n', '\tOk(unsafe { String::from_utf8_unchecked(buf) })\n')], ('UbjsonBodies.v', 'UbjsonMarkers.v')),
    ('v_char_count', [(USER, WR_LEN, '\tw.write_u8(s.chars().count().try_into().unwrap())?;\n')], ('UbjsonBodies.v', 'UbjsonMarkers.v')),
    ('v_no_depth_test', [(UDE, DEPTH_IF, '')], ('UbjsonBodies.v', 'UbjsonMarkers.v')),
    ('v_depth_test_warns', [(UDE, DEPTH_IF, '\tif depth > MAX_DEPTH {\n\t\tlog::warn!("deep");\n\t}\n')], ('UbjsonBodies.v', 'UbjsonMarkers.v')),
    ('v_as_u64', [(USER, WR_INT, WR_INT.replace('n.as_i64()', 'n.as_u64()'))], ('UbjsonBodies.v', 'UbjsonMarkers.v')),
    ('v_len_plus_one', [(UDE, '\tlet mut buf = vec![0; length as usize];\n', '\tlet mut buf = vec![0; length as usize + 1];\n')], ('UbjsonBodies.v', 'UbjsonMarkers.v')),
    ('v_number_from_cast', [(UDE, I32_ARM, I32_ARM.replace('r.read_i32::<BigEndian>()?,', 'r.read_i32::<BigEndian>()? as i16,'))], ('UbjsonBodies.v', 'UbjsonMarkers.v')),
    # ---- W
    ('w_set_mtime', [(PSER, T_MODE, T_MODE + '\theader.set_mtime(1);\n')], ('TarSrc.v', 'SlppEntries.v')),
    ('w_size_zero', [(PSER, T_SIZE, '\theader.set_size(0);\n')], ('TarSrc.v', 'SlppEntries.v')),
    ('w_append_data', [(PSER, T_APP, '\tbuilder.append_data(&mut header, path, buf)?;\n')], ('TarSrc.v', 'SlppEntries.v')),
    ('w_append_unchecked', [(PSER, T_APP, '\tbuilder.append(&header, buf).ok();\n')], ('TarSrc.v', 'SlppEntries.v')),
    ('w_mode_variable', [(PSER, T_MODE, '\theader.set_mode(mode);\n')], ('TarSrc.v', 'SlppEntries.v')),
    ('w_no_cksum', [(PSER, T_CK, '')], ('TarSrc.v', 'SlppEntries.v')),
    ('w_two_modes', [(PSER, T_MODE, T_MODE + '\theader.set_mode(0o600);\n')], ('TarSrc.v', 'SlppEntries.v')),
    ('w_finish_swallowed', [(PSER, T_FIN, '\ttar.into_inner().ok();\n')], ('TarSrc.v', 'SlppEntries.v')),
    ('w_tar_used_twice', [(PSER, T_FIN, '\ttar.finish()?;\n' + T_FIN)], ('TarSrc.v', 'SlppEntries.v')),
]

if __name__ == '__main__':
    if sys.argv[1:2] == ['--loud']:
        ref = {f: open(BASE + '/coq/theories/Gen/' + f).read() for f in GEN if f != 'Funs.v'}
        bad = 0
        for name, edits, expect in LOUD:
            if len(sys.argv) > 2 and name not in sys.argv[2:]:
                continue
            r = run(name, edits, quiet=True)
            rep = json.loads(r.stdout.strip().split('\n')[-1]) if r.stdout.strip().startswith('{') else {'errors': [{'file': '?', 'error': r.stdout + r.stderr}]}
            errs = rep['errors']
            if expect == 'same':
                ok = r.returncode == 0 and all(open(T2 + '/coq/theories/Gen/' + f).read() == ref[f] for f in ref)
                print('%-26s %s' % (name, 'OK: generated files identical' if ok else 'BAD: %s' % (errs or 'output differs')))
            else:
                want = sorted(expect) if isinstance(expect, tuple) else [expect]
                first = expect[0] if isinstance(expect, tuple) else expect
                mine = [e for e in errs if e['file'] == first] or errs
                ok = r.returncode == 3 and sorted(e['file'] for e in errs) == want and all('rust2coq FAILED' in open(T2 + '/coq/theories/Gen/' + f).read() for f in want)
                print('%-26s %s %s' % (name, 'OK: loud%s:' % (' (+%s)' % ', '.join(w for w in want if w != first) if len(want) > 1 else '') if ok
                                       else 'BAD (rc=%d, errors in %s):' % (r.returncode, sorted(e['file'] for e in errs)),
                                       mine[0]['error'][:260] if mine else (r.stderr[-300:] or 'NO ERROR')))
            bad += (not ok)
        print('bad =', bad)
    else:
        names = list(TESTS) if sys.argv[1:2] == ['--all'] else sys.argv[1:]
        for k in names:
            run(k, *TESTS[k])
