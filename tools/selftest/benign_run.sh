#!/bin/sh
cd /verif
mkdir -p .work/benign_results
for d in /verif/tools/selftest/benign/[0-9][0-9]/; do
  n=$(basename $d)
  if ! git -C /repo apply $d/patch.diff; then echo "$n APPLY-FAILED" | tee .work/benign_results/$n.txt; continue; fi
  : > .work/benign_results/$n.txt
  for id in C01 C02 C03 C04 C05 C06 C07 C08 C09 C10 C11 C12 C13 C14 C15 C16 C17 C18 C19 C20; do
    ./check $id quick > .work/benign_results/$n.$id.log 2>&1
    v=$(grep -m1 '^VIOLATION' .work/benign_results/$n.$id.log)
    [ -n "$v" ] && echo "$id $v" >> .work/benign_results/$n.txt
  done
  git -C /repo checkout -- .
  echo "$n done: $(wc -l < .work/benign_results/$n.txt) alarms"
done
git -C /repo status --short | wc -l
