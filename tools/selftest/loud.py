#!/usr/bin/env python3
"""translator-only self-tests: reformatting must not change Layouts.v; unrecognised cursor uses must fail loudly"""
import sys, json
sys.path.insert(0, '/tmp/ag/tgen/selftest')
import mut
REF = open('/tmp/ag/tgen/coq/theories/Gen/Layouts.v').read()
OUT = mut.T2 + '/coq/theories/Gen/Layouts.v'
A = 'let stage = r.read_u16::<BE>()?;'
CASES = [
  ('reformat', [(A, 'let stage = r\n\t\t.read_u16 :: < BE > ( ) ?;'),
                ('if_more(r, |r| player_bytes::<8, NUM_PORTS>(r))?', 'if_more(\n\t\tr,\n\t\t|r| player_bytes::<8, NUM_PORTS>(\n\t\t\tr,\n\t\t),\n\t)?'),
                ('slippi::Version(r.read_u8()?, r.read_u8()?, r.read_u8()?)', 'slippi::Version(\n\t\t\tr.read_u8()?,\n\t\t\tr.read_u8()?,\n\t\t\tr.read_u8()?,\n\t\t)'),
                ('let mut buf = [0; 4];\n\t\tr.read_exact(&mut buf)?;', 'let mut buf = [0u8; 4];\n\t\tr.read_exact(\n\t\t\t&mut buf,\n\t\t)?;'),
                ('let placements = [r.read_i8()?, r.read_i8()?, r.read_i8()?, r.read_i8()?];', 'let placements = [\n\t\t\tr.read_i8()?,\n\t\t\tr.read_i8()?,\n\t\t\tr.read_i8()?,\n\t\t\tr.read_i8()?,\n\t\t];'),
                ('r.read_exact(&mut unmapped[0..3])?;', 'r.read_exact(&mut unmapped[..3])?;'),
                ('let is_pal = if_more(r, |r| Ok(r.read_u8()? != 0))?;', 'let is_pal = if_more(r, |r| {\n\t\tOk(r.read_u8()? != 0)\n\t})?;')], 'same'),
  ('cond_if', [(A, 'let stage = if is_teams { r.read_u16::<BE>()? } else { 0 };')], 'fail'),
  ('cond_if_stmt', [(A, A + '\n\tif is_teams { r.read_u8()?; }')], 'fail'),
  ('cond_match_arm', [(A, 'let stage = match is_teams { true => r.read_u16::<BE>()?, false => 0 };')], 'fail'),
  ('cond_andand', [(A, A + '\n\tlet q = is_teams && r.read_u8()? == 2;')], 'fail'),
  ('passed_on', [(A, A + '\n\thelper(r)?;')], 'fail'),
  ('reborrow', [(A, A + '\n\tlet q = &mut *r;\n\tq.read_u8()?;')], 'fail'),
  ('other_reader', [(A, A + '\n\tlet z = other.read_u8()?;')], 'fail'),
  ('closure', [(A, A + '\n\tlet x = (0..2).map(|_| r.read_u8()).collect::<Vec<_>>();')], 'fail'),
  ('little_endian', [(A, 'let stage = r.read_u16::<LE>()?;')], 'fail'),
  ('for_loop', [(A, A + '\n\tfor _ in 0..3 { r.read_u8()?; }')], 'fail'),
  ('unknown_const', [('r.read_exact(&mut unmapped[2..3])?;', 'r.read_exact(&mut unmapped[2..n])?;')], 'fail'),
  ('read_after_tail', [('let players = (0..NUM_PORTS)\n\t\t.filter_map(|n| {\n\t\t\tplayer(', 'let extra = r.read_u8()?;\n\tlet players = (0..NUM_PORTS)\n\t\t.filter_map(|n| {\n\t\t\tplayer(')], 'fail'),
  ('ufcs', [('r.read_exact(&mut unmapped[2..3])?;', 'std::io::Read::read_exact(r, &mut unmapped[2..3])?;')], 'fail'),
  ('macro', [(A, A + '\n\tdebug!("{}", r.read_u8()?);')], 'fail'),
  ('if_more_changed', [('true => None,\n\t\t_ => Some(f(r)?),', 'false => None,\n\t\t_ => Some(f(r)?),')], 'fail'),
  ('player_bytes_changed', [('let mut arrs: [[u8; N]; M] = [[0; N]; M];', 'let mut arrs: [[u8; N]; M] = [[0; N]; M];\n\tr.read_u8()?;')], 'fail'),
  ('read_to_end', [(A, A + '\n\tlet mut v = vec![];\n\tr.read_to_end(&mut v)?;')], 'fail'),
  ('assign_cursor', [(A, A + '\n\t*r = &r[4..];')], 'fail'),
  ('if_more_stmt', [(A, A + '\n\tif_more(r, |r| r.read_u8())?;')], 'fail'),
  ('nested_if_more', [('let is_pal = if_more(r, |r| Ok(r.read_u8()? != 0))?;', 'let is_pal = if_more(r, |r| { let a = r.read_u8()?; let b = if_more(r, |r| r.read_u8())?; Ok(a != 0) })?;')], 'fail'),
  ('early_return', [(A, A + '\n\tif stage == 0 { return Err(err!("x")); }')], 'fail'),
  ('dup_name', [(A, A + '\n\tlet stage = r.read_u8()?;')], 'fail'),
  ('overrun', [('let model_scale = r.read_f32::<BE>()?;', 'let model_scale = r.read_f32::<BE>()?;\n\tlet more = r.read_u8()?;')], 'fail'),
  ('third_cursor', [('let name_tag = v1_3', 'let zz = { let mut r = &v1_3[..]; r.read_u8()? };\n\tlet name_tag = v1_3')], 'fail'),
  ('slice_cursor', [('let mut r = &v0[..];', 'let mut r = &v0[4..];')], 'fail'),
  ('while_let', [(A, A + '\n\twhile let Ok(x) = r.read_u8() { }')], 'fail'),
  ('tuple_pattern', [(A, 'let (stage, extra) = (r.read_u16::<BE>()?, r.read_u8()?);')], 'fail'),
]
bad = 0
for name, edits, expect in CASES:
    if len(sys.argv) > 1 and name not in sys.argv[1:]:
        continue
    import io, contextlib
    buf = io.StringIO()
    with contextlib.redirect_stdout(buf):
        r = mut.run(name, edits, build=False)
    rep = json.loads(r.stdout.strip().split('\n')[-1]) if r.stdout.strip().startswith('{') else {'errors': [{'file': '?', 'error': r.stdout + r.stderr}]}
    errs = [e for e in rep['errors']]
    if expect == 'same':
        ok = r.returncode == 0 and open(OUT).read() == REF
        print('%-22s %s' % (name, 'OK: Layouts.v identical' if ok else 'BAD: %s' % (errs or 'output differs')))
    else:
        ok = r.returncode == 3 and len(errs) == 1 and errs[0]['file'] == 'Layouts.v' and 'rust2coq FAILED' in open(OUT).read()
        print('%-22s %s %s' % (name, 'OK: loud:' if ok else 'BAD (rc=%d):' % r.returncode, errs[0]['error'][:230] if errs else (r.stderr[-300:] or 'NO ERROR')))
    bad += (not ok)
print('bad =', bad)
