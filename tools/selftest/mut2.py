#!/usr/bin/env python3
"""self-test driver for the writer-table front ends (payload_sizes, .slpp entries): mutate a scratch copy of the Rust
source, run the translator on it into a second Coq tree, build the given targets.
usage: mut2.py <test>...   |   mut2.py --loud"""
import os, shutil, subprocess, sys, json, re
BASE = '/tmp/ag/tgen3'
PRISTINE = BASE + '/repo_base'          # git archive HEAD of /repo (the live /repo is being mutated by other runs)
MUT = BASE + '/repo_mut'
T2 = '/tmp/ag/tgen3b'
SER = 'src/io/slippi/ser.rs'
PSER = 'src/io/peppi/ser.rs'
PDE = 'src/io/peppi/de.rs'

def prepare():
    if not os.path.isdir(PRISTINE):
        os.makedirs(PRISTINE)
        subprocess.check_call('git -C /repo archive HEAD | tar -x -C %s' % PRISTINE, shell=True)
    shutil.rmtree(MUT, ignore_errors=True)
    os.makedirs(MUT + '/gen/resources')
    shutil.copytree(PRISTINE + '/src', MUT + '/src')
    shutil.copy(PRISTINE + '/Cargo.toml', MUT + '/Cargo.toml')
    shutil.copy(PRISTINE + '/gen/resources/frames.json', MUT + '/gen/resources/frames.json')
    if not os.path.isdir(T2):
        os.makedirs(T2)
        subprocess.check_call(['cp', '-a', BASE + '/coq', T2 + '/coq'])
        os.makedirs(T2 + '/tools')
    shutil.copy(BASE + '/tools/rust2coq.py', T2 + '/tools/rust2coq.py')
    for f in ('WriterLayout.v', 'SlppLayout.v', 'StartLayout.v'):
        shutil.copy(BASE + '/coq/theories/Proofs/' + f, T2 + '/coq/theories/Proofs/' + f)

def run(name, edits, targets=(), quiet=False):
    """edits: list of (file, old, new) plain-text replacements (first occurrence) or (file, callable)"""
    prepare()
    for ed in edits:
        p = MUT + '/' + ed[0]
        s = open(p).read()
        if callable(ed[1]):
            s2 = ed[1](s)
            assert s2 != s, (name, 'callable edit made no change')
            s = s2
        else:
            assert s.count(ed[1]) >= 1, (name, ed[1])
            s = s.replace(ed[1], ed[2], 1)
        open(p, 'w').write(s)
    r = subprocess.run([sys.executable, T2 + '/tools/rust2coq.py'], env=dict(os.environ, PEPPI_REPO=MUT), capture_output=True, text=True)
    if not quiet:
        print('==== %s: translator rc=%d %s' % (name, r.returncode, r.stdout.strip()[-700:]))
        if r.stderr.strip():
            print('stderr:', r.stderr[-2000:])
    for t in targets:
        b = subprocess.run('cd %s/coq && ./Makefile.gen.sh && timeout 2400 make -j6 theories/Proofs/%s.vo 2>&1 | grep -v "^COQ\\|^Closed" | head -150' % (T2, t),
                           shell=True, capture_output=True, text=True)
        out = b.stdout.strip()
        print('build %s: %s' % (t, 'OK (no errors)' if not out else 'FAILED\n' + out))
    return r

def move_frames_before_gecko(s):
    i = s.index('\tif let Some(gecko_codes) = &game.gecko_codes {')
    j = s.index('\t// Always written')
    k = s.index('\ttar.into_inner()?.flush()?;')
    return s[:i] + s[j:k] + s[i:j] + s[k:]

def swap_pre_post(s):
    a = '\tsizes.push(Event::FramePre, FRAME_NUMBER + PORT + Pre::size(ver));\n'
    b = '\tsizes.push(Event::FramePost, FRAME_NUMBER + PORT + Post::size(ver));\n'
    assert a + b in s
    return s.replace(a + b, b + a)

def gate_frame_end(s):
    i = s.index('sizes.push(Event::Item')
    j = s.index('if ver.gte(3, 0) {', i)
    return s[:j] + 'if ver.gte(3, 7) {' + s[j + len('if ver.gte(3, 0) {'):]

W, S = ['WriterLayout'], ['SlppLayout']
TESTS = {
    'identity': ([], W + S + ['StartLayout']),
    # A
    'frame_end_3_7': ([(SER, gate_frame_end)], W),
    'swap_pre_post': ([(SER, swap_pre_post)], W),
    'port_3': ([(SER, 'const PORT: usize = 2 * std::mem::size_of::<u8>();', 'const PORT: usize = 3 * std::mem::size_of::<u8>();')], W),
    'item_end_events': ([(SER, 'sizes.push(Event::Item, FRAME_NUMBER + Item::size(ver));', 'sizes.push(Event::Item, FRAME_NUMBER + End::size(ver));')], W),
    'splitter_512': ([(SER, 'sizes.push(Event::MessageSplitter, 516);', 'sizes.push(Event::MessageSplitter, 512);')], W),
    'gecko_ungated': ([(SER, '\t\t\t\tif ver.gte(3, 3) {\n\t\t\t\t\tif let Some(codes)', '\t\t\t\tif ver.gte(3, 0) {\n\t\t\t\t\tif let Some(codes)')], W),
    # B
    'hoist_end_json': ([(PSER, '\tif let Some(end) = &game.end {\n\t\ttar_append(&mut tar, &serde_json::to_vec(end)?, "end.json")?;\n',
                         '\ttar_append(&mut tar, &serde_json::to_vec(&game.end)?, "end.json")?;\n\tif let Some(end) = &game.end {\n')], S),
    'rename_start_raw': ([(PDE, 'Some("start.raw") =>', 'Some("start.bin") =>')], S),
    'frames_before_gecko': ([(PSER, move_frames_before_gecko)], S),
    'break_moved': ([(PDE, '\t\t\t\tbreak;\n\t\t\t}\n', '\t\t\t}\n'), (PDE, 'Some("gecko_codes.raw") => gecko_codes = Some(read_peppi_gecko_codes(file)?),',
                     'Some("gecko_codes.raw") => {\n\t\t\t\tgecko_codes = Some(read_peppi_gecko_codes(file)?);\n\t\t\t\tbreak;\n\t\t\t}')], S),
    'swap_targets': ([(PDE, 'Some("start.raw") => start = Some(read_peppi_start(file)?),\n\t\t\tSome("end.raw") => end = Some(read_peppi_end(file)?),',
                       'Some("end.raw") => start = Some(read_peppi_start(file)?),\n\t\t\tSome("start.raw") => end = Some(read_peppi_end(file)?),')], S),
    'writer_rename': ([(PSER, '"metadata.json",', '"meta.json",')], S),
}

A0 = '\tsizes.push(Event::FramePre, FRAME_NUMBER + PORT + Pre::size(ver));\n'
LOUD = [
  ('ps_else', [(SER, '\t\t\t\t\t}\n\t\t\t\t}\n\t\t\t}\n\t\t}\n\t}\n\n\tsizes\n', '\t\t\t\t\t}\n\t\t\t\t}\n\t\t\t}\n\t\t}\n\t} else {\n\t\tsizes.push(Event::FrameStart, 0);\n\t}\n\n\tsizes\n')], 'WriterSizes.v'),
  ('ps_loop', [(SER, A0, A0 + '\tfor _ in 0..2 { sizes.push(Event::Item, 1); }\n')], 'WriterSizes.v'),
  ('ps_closure', [(SER, A0, A0 + '\tlet mut f = |n| sizes.push(Event::Item, n);\n\tf(3);\n')], 'WriterSizes.v'),
  ('ps_unknown_size', [(SER, 'FRAME_NUMBER + PORT + Pre::size(ver)', 'FRAME_NUMBER + PORT + Pre::size(ver) * 2')], 'WriterSizes.v'),
  ('ps_other_cond', [(SER, 'if ver.gte(2, 2) {', 'if ver.gte(2, 2) && game.end.is_some() {')], 'WriterSizes.v'),
  ('ps_lt', [(SER, 'if ver.gte(2, 2) {', 'if ver.lt(2, 2) {')], 'WriterSizes.v'),      # (the harmless spelling `!ver.lt(2, 2)` is now normalised: benign2/07)
  ('ps_game_end_record', [(SER, 'FRAME_NUMBER + End::size(ver)', 'FRAME_NUMBER + game::End::size(ver)')], 'WriterSizes.v'),
  ('ps_push_changed', [(SER, 'self.sizes.push((event as u8, size.try_into().unwrap()))', 'self.sizes.push((event as u8, size as u16))')], 'WriterSizes.v'),
  ('ps_dup_event', [(SER, A0, A0 + A0)], 'WriterSizes.v'),
  ('ps_unknown_event', [(SER, 'Event::FramePre, FRAME', 'Event::FramePrae, FRAME')], 'WriterSizes.v'),
  ('ps_early_return', [(SER, A0, A0 + '\tif game.frames.len() == 0 {\n\t\treturn sizes;\n\t}\n')], 'WriterSizes.v'),
  ('ps_gecko_unguarded', [(SER, A0, A0 + '\tsizes.push(Event::GeckoCodes, codes.actual_size as u16 as usize);\n')], 'WriterSizes.v'),
  ('ps_const_expr', [(SER, 'const PORT: usize = 2 * std::mem::size_of::<u8>();', 'const PORT: usize = two() * std::mem::size_of::<u8>();')], 'WriterSizes.v'),
  ('ps_reformat', [(SER, A0, '\tsizes.push(\n\t\tEvent::FramePre,\n\t\tFRAME_NUMBER\n\t\t\t+ PORT\n\t\t\t+ Pre::size(ver),\n\t);\n'),
                   (SER, 'sizes.push(Event::MessageSplitter, 516);', 'sizes\n\t\t\t\t\t\t\t.push(Event::MessageSplitter, 516usize);')], 'same'),
  ('sl_if_cond', [(PSER, '\ttar_append(&mut tar, &game.start.bytes.0, "start.raw")?;', '\tif opts.is_some() {\n\t\ttar_append(&mut tar, &game.start.bytes.0, "start.raw")?;\n\t}')], 'SlppEntries.v'),
  ('sl_nested_guard', [(PSER, '\t\ttar_append(&mut tar, &end.bytes.0, "end.raw")?;', '\t\tif let Some(gecko_codes) = &game.gecko_codes {\n\t\t\ttar_append(&mut tar, &end.bytes.0, "end.raw")?;\n\t\t}')], 'SlppEntries.v'),
  ('sl_else', [(PSER, '\t\ttar_append(&mut tar, &end.bytes.0, "end.raw")?;\n\t}', '\t\ttar_append(&mut tar, &end.bytes.0, "end.raw")?;\n\t} else {\n\t\ttar_append(&mut tar, &[], "end.raw")?;\n\t}')], 'SlppEntries.v'),
  ('sl_direct_append', [(PSER, '\ttar_append(&mut tar, &game.start.bytes.0, "start.raw")?;', '\ttar_append(&mut tar, &game.start.bytes.0, "start.raw")?;\n\ttar.append_data(&mut h, "x", &b[..])?;')], 'SlppEntries.v'),
  ('sl_name_var', [(PSER, '&game.start.bytes.0, "start.raw")?;', '&game.start.bytes.0, name)?;')], 'SlppEntries.v'),
  ('sl_loop', [(PSER, '\ttar_append(&mut tar, &game.start.bytes.0, "start.raw")?;', '\tfor n in ["a", "b"] {\n\t\ttar_append(&mut tar, &game.start.bytes.0, n)?;\n\t}')], 'SlppEntries.v'),
  ('sl_no_question', [(PSER, '&game.start.bytes.0, "start.raw")?;', '&game.start.bytes.0, "start.raw").ok();')], 'SlppEntries.v'),
  ('sl_helper_changed', [(PSER, '\theader.set_path(path)?;', '\theader.set_path("x")?;')], 'SlppEntries.v'),
  ('sl_dup_entry', [(PSER, '\ttar_append(&mut tar, &game.start.bytes.0, "start.raw")?;', '\ttar_append(&mut tar, &game.start.bytes.0, "start.raw")?;\n\ttar_append(&mut tar, &game.start.bytes.0, "start.raw")?;')], 'SlppEntries.v'),
  ('sl_or_pattern', [(PDE, 'Some("end.raw") =>', 'Some("end.raw") | Some("end.bin") =>')], 'SlppEntries.v'),
  ('sl_guard_pattern', [(PDE, 'Some("end.raw") =>', 'Some("end.raw") if end.is_none() =>')], 'SlppEntries.v'),
  ('sl_wild_break', [(PDE, '_ => debug!("=> skipping"),', '_ => break,')], 'SlppEntries.v'),
  ('sl_two_targets', [(PDE, 'Some("end.raw") => end = Some(read_peppi_end(file)?),', 'Some("end.raw") => {\n\t\t\t\tend = Some(read_peppi_end(file)?);\n\t\t\t\tstart = None;\n\t\t\t}')], 'SlppEntries.v'),
  ('sl_break_in_middle', [(PDE, '\t\t\t\tlet version = start\n', '\t\t\t\tif start.is_none() { break; }\n\t\t\t\tlet version = start\n')], 'SlppEntries.v'),
  ('sl_other_scrutinee', [(PDE, 'match path.file_name().and_then(|n| n.to_str()) {', 'match path.to_str() {')], 'SlppEntries.v'),
  ('sl_stmt_after_match', [(PDE, '\t\t\t_ => debug!("=> skipping"),\n\t\t};\n', '\t\t\t_ => debug!("=> skipping"),\n\t\t};\n\t\tif frames.is_some() { break; }\n')], 'SlppEntries.v'),
  ('sl_continue_before', [(PDE, '\t\tlet path = file.path()?;\n', '\t\tlet path = file.path()?;\n\t\tif file.size() == 0 { continue; }\n')], 'SlppEntries.v'),
  ('sl_reformat', [(PSER, '\ttar_append(&mut tar, &game.start.bytes.0, "start.raw")?;', '\ttar_append(\n\t\t&mut tar,\n\t\t&game.start.bytes.0,\n\t\t"start.raw",\n\t)?;'),
                   (PDE, 'Some("end.raw") => end = Some(read_peppi_end(file)?),', 'Some("end.raw") => {\n\t\t\t\tend = Some(read_peppi_end(file)?);\n\t\t\t}')], 'same'),
]

if __name__ == '__main__':
    if sys.argv[1:2] == ['--loud']:
        ref = {f: open(BASE + '/coq/theories/Gen/' + f).read() for f in ('WriterSizes.v', 'SlppEntries.v', 'Layouts.v', 'Tables.v')}
        bad = 0
        for name, edits, expect in LOUD:
            if len(sys.argv) > 2 and name not in sys.argv[2:]:
                continue
            r = run(name, edits, quiet=True)
            rep = json.loads(r.stdout.strip().split('\n')[-1]) if r.stdout.strip().startswith('{') else {'errors': [{'file': '?', 'error': r.stdout + r.stderr}]}
            errs = rep['errors']
            if expect == 'same':
                ok = r.returncode == 0 and all(open(T2 + '/coq/theories/Gen/' + f).read() == ref[f] for f in ref)
                print('%-22s %s' % (name, 'OK: generated files identical' if ok else 'BAD: %s' % (errs or 'output differs')))
            else:
                ok = r.returncode == 3 and len(errs) == 1 and errs[0]['file'] == expect and 'rust2coq FAILED' in open(T2 + '/coq/theories/Gen/' + expect).read()
                print('%-22s %s %s' % (name, 'OK: loud:' if ok else 'BAD (rc=%d):' % r.returncode, errs[0]['error'][:260] if errs else (r.stderr[-300:] or 'NO ERROR')))
            bad += (not ok)
        print('bad =', bad)
    else:
        for k in sys.argv[1:]:
            run(k, *TESTS[k])
