#!/usr/bin/env python3
"""self-test driver for the seventh batch of front ends: rollback marking (O), version text (P), MeleeString (Q), hashing reader (R),
port_occupancy (S): mutate a scratch copy of the pristine Rust source, run the translator on it into a second Coq tree, build the targets.
usage: mut7.py <test>...  |  mut7.py --all  |  mut7.py --loud [name...]"""
import os, shutil, subprocess, sys, json, re
BASE = '/tmp/ag/tgen8'
PRISTINE = BASE + '/repo0'          # git archive HEAD of /repo (the live /repo is being mutated by other jobs)
MUT = BASE + '/repo_mut'
T2 = '/tmp/ag/tgen8b'
IMM = 'src/frame/immutable/mod.rs'
FMOD = 'src/frame/mod.rs'
SLP = 'src/io/slippi/mod.rs'
PEP = 'src/io/peppi/mod.rs'
IO = 'src/io/mod.rs'
SJ = 'src/game/shift_jis.rs'
DE = 'src/io/slippi/de.rs'
GAME = 'src/game/mod.rs'
NEW_PROOFS = ('RollbacksLayout.v', 'VersionTextLayout.v', 'MeleeStringLayout.v', 'HashingLayout.v', 'PortOccupancyLayout.v')
NEW_GEN = ('RollbacksSrc.v', 'VersionTextSrc.v', 'MeleeStringSrc.v', 'HashingSrc.v', 'PortOccupancySrc.v')
GEN = ('Funs.v', 'Tables.v', 'Layouts.v', 'WriterSizes.v', 'SlppEntries.v', 'FrameWrite.v', 'Splitter.v', 'ReadTail.v', 'UbjsonMarkers.v',
       'WriterRaw.v', 'WriterSteps.v', 'ParseEvent.v', 'ArrowFrame.v', 'FrameTranspose.v', 'ReadPrologue.v', 'SlppHelpers.v') + NEW_GEN


def prepare():
    if not os.path.isdir(PRISTINE):
        os.makedirs(PRISTINE)
        subprocess.check_call('git -C /repo archive HEAD | tar -x -C %s' % PRISTINE, shell=True)
    shutil.rmtree(MUT, ignore_errors=True)
    os.makedirs(MUT + '/gen/resources')
    shutil.copytree(PRISTINE + '/src', MUT + '/src')
    shutil.copy(PRISTINE + '/Cargo.toml', MUT + '/Cargo.toml')
    shutil.copy(PRISTINE + '/gen/resources/frames.json', MUT + '/gen/resources/frames.json')
    if not os.path.isdir(T2):
        os.makedirs(T2)
        subprocess.check_call(['cp', '-a', BASE + '/coq', T2 + '/coq'])
        os.makedirs(T2 + '/tools')
    shutil.copy(BASE + '/tools/rust2coq.py', T2 + '/tools/rust2coq.py')
    for f in NEW_PROOFS:
        shutil.copy(BASE + '/coq/theories/Proofs/' + f, T2 + '/coq/theories/Proofs/' + f)


def run(name, edits, targets=(), quiet=False):
    prepare()
    for ed in edits:
        p = MUT + '/' + ed[0]
        s = open(p).read()
        if callable(ed[1]):
            s2 = ed[1](s)
            assert s2 != s, (name, 'callable edit made no change')
            s = s2
        else:
            assert s.count(ed[1]) >= 1, (name, ed[1])
            s = s.replace(ed[1], ed[2], 1)
        open(p, 'w').write(s)
    r = subprocess.run([sys.executable, T2 + '/tools/rust2coq.py'], env=dict(os.environ, PEPPI_REPO=MUT), capture_output=True, text=True)
    if not quiet:
        rep = json.loads(r.stdout.strip().split('\n')[-1]) if r.stdout.strip().startswith('{') else {}
        print('==== %s: translator rc=%d changed=%s errors=%s' % (name, r.returncode, rep.get('changed'), [(e['file'], e['error'][:160]) for e in rep.get('errors', [])]))
        if r.stderr.strip():
            print('stderr:', r.stderr[-2000:])
    for t in targets:
        b = subprocess.run('cd %s/coq && ./Makefile.gen.sh && timeout 2400 make -j6 theories/Proofs/%s.vo 2>&1 | grep -v "^COQ\\|^Closed" | head -40' % (T2, t),
                           shell=True, capture_output=True, text=True)
        out = b.stdout.strip()
        if 'Error' not in out:
            print('build %s: OK (no errors)' % t)
        else:
            m = re.search(r'File "\./theories/(\S+)", line (\d+)', out)
            thm = theorem_at(T2 + '/coq/theories/' + m.group(1), int(m.group(2))) if m else '?'
            print('build %s: FAILED at %s line %s (%s)\n%s' % (t, m.group(1) if m else '?', m.group(2) if m else '?', thm, out[:900]))
    return r


def theorem_at(path, line):
    """the name of the last Theorem/Lemma/Example/Corollary at or before the line"""
    name = '?'
    for i, l in enumerate(open(path).read().split('\n')[:line]):
        m = re.match(r'(Theorem|Lemma|Example|Corollary|Definition|Fixpoint) (\w+)', l)
        if m:
            name = m.group(2)
    return name


def in_fn(name, f, nth=1):
    def g(s):
        i = -1
        for _ in range(nth):
            i = s.index(name, i + 1)
        return s[:i] + f(s[i:])
    return g


def rep1(old, new):
    def f(t):
        assert old in t, old
        return t.replace(old, new, 1)
    return f


def seq(*fs):
    def g(s):
        for f in fs:
            s = f(s)
        return s
    return g


# ---- source fragments (tabs as in the repository)
RB = '\tfn rollbacks_<'
ARM_FIRST = '\t\t\tExceptFirst => self.rollbacks_(self.id.values_iter().enumerate()),\n'
ARM_LAST = '\t\t\tExceptLast => self.rollbacks_(self.id.values_iter().enumerate().rev()),\n'
COUNT = ('\t\tlet unique_id_count = self.id.values_iter().max().map_or(0, |idx| {\n'
         '\t\t\t1 + usize::try_from(i64::from(*idx) - i64::from(frame::FIRST_INDEX)).unwrap()\n\t\t});\n')
ZB = '\t\t\tlet zero_based_id = usize::try_from(i64::from(*id) - i64::from(frame::FIRST_INDEX)).unwrap();\n'
IFELSE = ('\t\t\tif !seen[zero_based_id] {\n\t\t\t\tseen[zero_based_id] = true;\n\t\t\t\tresult[idx] = false;\n\t\t\t} else {\n'
          '\t\t\t\tresult[idx] = true;\n\t\t\t}\n')
FROMSTR_ARM = ('\t\t\t(Some(major), Some(minor), Some(patch), None) => Ok(Version(\n\t\t\t\tparse_u8(major)?,\n\t\t\t\tparse_u8(minor)?,\n'
               '\t\t\t\tparse_u8(patch)?,\n\t\t\t)),\n')
PARSE_U8 = 'fn parse_u8(s: &str) -> Result<u8> {\n\ts.parse().map_err(|_| err!("couldn\'t parse integer: {}", s))\n}\n'
TRY_FROM = '\tfn try_from(s: &[u8]) -> Result<MeleeString> {'
NAME_TAG = '\tlet name_tag = v1_3\n\t\t.map(|v1_3| MeleeString::try_from(v1_3.as_slice()))\n\t\t.transpose()?;\n'
NP_NAME = '\t\t\t\tname: MeleeString::try_from(name.as_slice())?,\n'
NP_CODE = '\t\t\t\tcode: MeleeString::try_from(code.as_slice())?,\n'
HR_READ = '\t\tself.hasher.as_mut().map(|h| h.update(&buf[..n]));\n'
SKIP_ALT = ('\t\tif hash {\n\t\t\tio::copy(&mut r.by_ref().take(skip as u64), &mut io::sink())?;\n\t\t} else {\n'
            '\t\t\tr.seek(SeekFrom::Current(skip.try_into().map_err(invalid_data)?))?;\n\t\t}\n')
SKIP_ALT_SWAPPED = ('\t\tif hash {\n\t\t\tr.seek(SeekFrom::Current(skip.try_into().map_err(invalid_data)?))?;\n\t\t} else {\n'
                    '\t\t\tio::copy(&mut r.by_ref().take(skip as u64), &mut io::sink())?;\n\t\t}\n')
PO_BODY = ('\tstart\n\t\t.players\n\t\t.iter()\n\t\t.map(|p| PortOccupancy {\n\t\t\tport: p.port,\n\t\t\tfollower: p.character == ICE_CLIMBERS,\n\t\t})\n'
           '\t\t.collect()\n')


def o_reformat(t):
    t = t.replace(ARM_FIRST, '\t\t\tExceptFirst => {\n\t\t\t\tself.rollbacks_(self.id.values_iter().enumerate())\n\t\t\t}\n')
    t = t.replace(ARM_LAST, '\t\t\tExceptLast => self.rollbacks_(\n\t\t\t\tself.id\n\t\t\t\t\t.values_iter()\n\t\t\t\t\t.enumerate()\n\t\t\t\t\t.rev(),\n\t\t\t),\n')
    t = t.replace(COUNT, '\t\tlet unique_id_count = self\n\t\t\t.id\n\t\t\t.values_iter()\n\t\t\t.max()\n'
                  '\t\t\t.map_or(0, |idx| 1 + usize::try_from(i64::from(*idx) - i64::from(frame::FIRST_INDEX)).unwrap());\n')
    return t.replace(IFELSE, '\t\t\tif !seen[zero_based_id] { seen[zero_based_id] = true; result[idx] = false; } else { result[idx] = true; }\n')


def p_reformat(t):
    third = 'patch' if 'Some(patch)' in t else 'revision'
    t = t.replace(FROMSTR_ARM.replace('patch', third),
                  '\t\t\t(Some(major), Some(minor), Some(%s), None) => {\n\t\t\t\tOk(Version(parse_u8(major)?, parse_u8(minor)?, parse_u8(%s)?))\n\t\t\t}\n' % (third, third))
    t = t.replace('\t\twrite!(f, "{}.{}.{}", self.0, self.1, self.2)\n', '\t\twrite!(\n\t\t\tf,\n\t\t\t"{}.{}.{}",\n\t\t\tself.0,\n\t\t\tself.1,\n\t\t\tself.2,\n\t\t)\n')
    return t.replace('\t\tmatch (i.next(), i.next(), i.next(), i.next()) {', '\t\tmatch (\n\t\t\ti.next(),\n\t\t\ti.next(),\n\t\t\ti.next(),\n\t\t\ti.next(),\n\t\t) {')


def p_reformat_io(t):
    return t.replace(PARSE_U8, 'fn parse_u8(s: &str) -> Result<u8> {\n\ts.parse()\n\t\t.map_err(|_| err!("couldn\'t parse integer: {}", s))\n}\n')


def q_reformat(t):
    t = t.replace('\t\tlet first_null = s.iter().position(|&x| x == 0).unwrap_or(s.len());\n',
                  '\t\tlet first_null = s\n\t\t\t.iter()\n\t\t\t.position(|&x| x == 0)\n\t\t\t.unwrap_or(s.len());\n')
    t = t.replace('\t\t\tSome(cow) => Ok(MeleeString(cow.to_string())),\n', '\t\t\tSome(cow) => {\n\t\t\t\tOk(MeleeString(cow.to_string()))\n\t\t\t}\n')
    return t.replace('\t\tself.0.clone().chars().map(fix_char).collect::<String>()\n', '\t\tself.0\n\t\t\t.clone()\n\t\t\t.chars()\n\t\t\t.map(fix_char)\n\t\t\t.collect::<String>()\n')


def q_reformat_de(t):
    t = t.replace(NAME_TAG, '\tlet name_tag = v1_3.map(|v1_3| MeleeString::try_from(v1_3.as_slice())).transpose()?;\n')
    return t.replace(NP_NAME, '\t\t\t\tname: MeleeString::try_from(\n\t\t\t\t\tname.as_slice(),\n\t\t\t\t)?,\n')


def r_reformat(t):
    t = t.replace('\t\t\thasher: hash.then(|| Box::new(Xxh3::new())),\n', '\t\t\thasher: hash\n\t\t\t\t.then(|| Box::new(Xxh3::new())),\n')
    t = t.replace(HR_READ, '\t\tself.hasher\n\t\t\t.as_mut()\n\t\t\t.map(|h| h.update(&buf[..n]));\n')
    return t.replace('\tformat!("xxh3:{:016x}", &hasher.digest())\n', '\tformat!(\n\t\t"xxh3:{:016x}",\n\t\t&hasher.digest(),\n\t)\n')


def s_reformat(t):
    return t.replace(PO_BODY, '\tstart.players.iter().map(|p| PortOccupancy { port: p.port, follower: p.character == ICE_CLIMBERS }).collect()\n')


O, P, Q, R, S = ['RollbacksLayout'], ['VersionTextLayout'], ['MeleeStringLayout'], ['HashingLayout'], ['PortOccupancyLayout']
TESTS = {
    'identity': ([], O + P + Q + R + S),
    # ---- O
    'o1_orders_swapped': ([(IMM, seq(rep1(ARM_FIRST, ARM_FIRST.replace('.enumerate()),', '.enumerate().rev()),')),
                                     rep1(ARM_LAST, ARM_LAST.replace('.enumerate().rev()),', '.enumerate()),'))))], O),
    'o2_result_init_true': ([(IMM, 'let mut result = vec![false; self.len()];', 'let mut result = vec![true; self.len()];')], O),
    'o3_seen_set_false': ([(IMM, '\t\t\t\tseen[zero_based_id] = true;\n', '\t\t\t\tseen[zero_based_id] = false;\n')], O),
    'o4_marks_swapped': ([(IMM, IFELSE, IFELSE.replace('result[idx] = false;', 'result[idx] = TMP;').replace('result[idx] = true;', 'result[idx] = false;').replace('TMP', 'true'))], O),
    'o5_count_plus_2': ([(IMM, '\t\t\t1 + usize::try_from(i64::from(*idx)', '\t\t\t2 + usize::try_from(i64::from(*idx)')], O),
    'o6_cond_not_negated': ([(IMM, 'if !seen[zero_based_id] {', 'if seen[zero_based_id] {')], O),
    'o7_count_default_1': ([(IMM, '.max().map_or(0, |idx| {', '.max().map_or(1, |idx| {')], O),
    'o8_zero_based_off_by_one': ([(IMM, ZB, ZB.replace('i64::from(frame::FIRST_INDEX)).unwrap();', 'i64::from(frame::FIRST_INDEX) - 1).unwrap();'))], O),
    # ---- P
    'p1_display_arg_order': ([(SLP, 'write!(f, "{}.{}.{}", self.0, self.1, self.2)', 'write!(f, "{}.{}.{}", self.0, self.2, self.1)')], P),
    'p2_display_separator': ([(PEP, 'write!(f, "{}.{}.{}", self.0, self.1, self.2)', 'write!(f, "{}.{}-{}", self.0, self.1, self.2)')], P),
    'p3_split_char': ([(SLP, "s.split('.')", "s.split(',')")], P),
    'p4_three_next_calls': ([(PEP, seq(rep1('match (i.next(), i.next(), i.next(), i.next()) {', 'match (i.next(), i.next(), i.next()) {'),
                                       rep1('(Some(major), Some(minor), Some(revision), None) =>', '(Some(major), Some(minor), Some(revision)) =>')))], P),
    'p5_ctor_order': ([(SLP, '\t\t\t\tparse_u8(major)?,\n\t\t\t\tparse_u8(minor)?,\n', '\t\t\t\tparse_u8(minor)?,\n\t\t\t\tparse_u8(major)?,\n')], P),
    'p6_target_u16': ([(IO, 'fn parse_u8(s: &str) -> Result<u8> {', 'fn parse_u8(s: &str) -> Result<u16> {')], P),
    'p7_accept_four': ([(SLP, '(Some(major), Some(minor), Some(patch), None) =>', '(Some(major), Some(minor), Some(patch), Some(_extra)) =>')], P),
    # ---- Q
    'q1_cut_byte': ([(SJ, 'position(|&x| x == 0).unwrap_or(s.len())', 'position(|&x| x == 1).unwrap_or(s.len())')], Q),
    'q2_default_const': ([(SJ, 'position(|&x| x == 0).unwrap_or(s.len())', 'position(|&x| x == 0).unwrap_or(8)')], Q),
    'q3_slice_from_1': ([(SJ, '(&s[0..first_null])', '(&s[1..first_null])')], Q),
    'q4_decoder': ([(SJ, 'SHIFT_JIS.decode_without_bom_handling_and_without_replacement(', 'SHIFT_JIS.decode_without_bom_handling(')], Q),
    'q5_other_map_fn': ([(SJ, seq(rep1('.chars().map(fix_char).collect::<String>()', '.chars().map(keep_char).collect::<String>()'),
                                  rep1('fn fix_char(c: char) -> char {', 'fn keep_char(c: char) -> char {\n\tc\n}\n\nfn fix_char(c: char) -> char {')))], Q),
    'q6_name_code_swapped': ([(DE, seq(rep1(NP_NAME, NP_NAME.replace('name.as_slice()', 'code.as_slice()')), rep1(NP_CODE, NP_CODE.replace('code.as_slice()', 'name.as_slice()'))))], Q),
    'q7_name_tag_block_17': ([(DE, '\tv1_3: Option<[u8; 16]>,\n', '\tv1_3: Option<[u8; 17]>,\n')], Q),
    # ---- R
    'r1_update_from_1': ([(IO, HR_READ, HR_READ.replace('&buf[..n]', '&buf[1..n]'))], R),
    'r2_hash_default_true': ([(DE, 'let hash = opts.map_or(false, |o| o.compute_hash);', 'let hash = opts.map_or(true, |o| o.compute_hash);')], R),
    'r3_fields_swapped': ([(DE, seq(rep1('let hash = opts.map_or(false, |o| o.compute_hash);', 'let hash = opts.map_or(false, |o| o.skip_frames);'),
                                    rep1('if opts.map_or(false, |o| o.skip_frames) {', 'if opts.map_or(false, |o| o.compute_hash) {')))], R),
    'r4_seek_when_hashing': ([(DE, SKIP_ALT, SKIP_ALT_SWAPPED)], R),
    'r5_format_upper_8': ([(IO, 'format!("xxh3:{:016x}", &hasher.digest())', 'format!("xxh3:{:08X}", &hasher.digest())')], R),
    'r6_digest128': ([(IO, 'format!("xxh3:{:016x}", &hasher.digest())', 'format!("xxh3:{:016x}", &hasher.digest128())')], R),
    'r7_skip_default_true': ([(DE, 'if opts.map_or(false, |o| o.skip_frames) {', 'if opts.map_or(true, |o| o.skip_frames) {')], R),
    # ---- S
    's1_other_field': ([(GAME, 'follower: p.character == ICE_CLIMBERS,', 'follower: p.costume == ICE_CLIMBERS,')], S),
    's2_not_equal': ([(GAME, 'follower: p.character == ICE_CLIMBERS,', 'follower: p.character != ICE_CLIMBERS,')], S),
    's3_constant': ([(GAME, 'pub const ICE_CLIMBERS: u8 = 14;', 'pub const ICE_CLIMBERS: u8 = 15;')], S),
    's4_greater_equal': ([(GAME, 'follower: p.character == ICE_CLIMBERS,', 'follower: p.character >= ICE_CLIMBERS,')], S),
}
LOUD = [
    ('o_reformat', [(IMM, o_reformat)], 'same'),
    ('p_reformat', [(SLP, p_reformat), (PEP, p_reformat), (IO, p_reformat_io)], 'same'),
    ('q_reformat', [(SJ, q_reformat), (DE, q_reformat_de)], 'same'),
    ('r_reformat', [(IO, r_reformat)], 'same'),
    ('s_reformat', [(GAME, s_reformat)], 'same'),
    # ---- O
    ('o_continue_guard', [(IMM, ZB, '\t\t\tif *id < frame::FIRST_INDEX {\n\t\t\t\tcontinue;\n\t\t\t}\n' + ZB)], 'RollbacksSrc.v'),
    ('o_seen_assign_var', [(IMM, seq(rep1('\t\tlet mut seen = vec![false; unique_id_count];\n', '\t\tlet mut seen = vec![false; unique_id_count];\n\t\tlet first = true;\n'),
                                     rep1('seen[zero_based_id] = true;', 'seen[zero_based_id] = first;')))], 'RollbacksSrc.v'),
    ('o_seen_assign_first', [(IMM, 'seen[zero_based_id] = true;', 'seen[zero_based_id] = first;')], 'RollbacksSrc.v'),
    ('o_cast_not_checked', [(IMM, ZB, '\t\t\tlet zero_based_id = (i64::from(*id) - i64::from(frame::FIRST_INDEX)) as usize;\n')], 'RollbacksSrc.v'),
    ('o_cond_compound', [(IMM, 'if !seen[zero_based_id] {', 'if !seen[zero_based_id] || idx >= 1 {')], 'RollbacksSrc.v'),
    ('o_min_not_max', [(IMM, 'self.id.values_iter().max().map_or(', 'self.id.values_iter().min().map_or(')], 'RollbacksSrc.v'),
    ('o_len_plus_one', [(IMM, 'vec![false; self.len()]', 'vec![false; self.len() + 1]')], 'RollbacksSrc.v'),
    ('o_skip_first', [(IMM, ARM_FIRST, ARM_FIRST.replace('.enumerate()),', '.enumerate().skip(1)),'))], 'RollbacksSrc.v'),
    ('o_else_if', [(IMM, '\t\t\t} else {\n\t\t\t\tresult[idx] = true;\n', '\t\t\t} else if idx > 0 {\n\t\t\t\tresult[idx] = true;\n')], 'RollbacksSrc.v'),
    ('o_result_other_index', [(IMM, '\t\t\t\tresult[idx] = true;\n', '\t\t\t\tresult[zero_based_id] = true;\n')], 'RollbacksSrc.v'),
    ('o_unwrap_or', [(IMM, ZB, ZB.replace('.unwrap();', '.unwrap_or(0);'))], 'RollbacksSrc.v'),
    # ---- P
    ('p_cast', [(IO, PARSE_U8, 'fn parse_u8(s: &str) -> Result<u8> {\n\ts.parse::<u16>().map(|x| x as u8).map_err(|_| err!("couldn\'t parse integer: {}", s))\n}\n')], 'VersionTextSrc.v'),
    ('p_turbofish_i8', [(IO, PARSE_U8, PARSE_U8.replace('s.parse()', 's.parse::<i8>().map(|x| x as u8)'))], 'VersionTextSrc.v'),
    ('p_trimmed', [(IO, PARSE_U8, PARSE_U8.replace('s.parse()', 's.trim().parse()'))], 'VersionTextSrc.v'),
    ('p_fmt_width', [(SLP, 'write!(f, "{}.{}.{}", self.0, self.1, self.2)', 'write!(f, "{}.{}.{:02}", self.0, self.1, self.2)')], 'VersionTextSrc.v'),
    ('p_component_trim', [(SLP, '\t\t\t\tparse_u8(minor)?,\n', '\t\t\t\tparse_u8(minor.trim())?,\n')], 'VersionTextSrc.v'),
    ('p_splitn', [(PEP, "s.split('.')", "s.splitn(3, '.')")], 'VersionTextSrc.v'),
    ('p_guarded_arm', [(SLP, '(Some(major), Some(minor), Some(patch), None) =>', '(Some(major), Some(minor), Some(patch), None) if !patch.is_empty() =>')], 'VersionTextSrc.v'),
    ('p_unwrap_or', [(PEP, '\t\t\t\tparse_u8(revision)?,\n', '\t\t\t\tparse_u8(revision).unwrap_or(0),\n')], 'VersionTextSrc.v'),
    ('p_third_arm', [(SLP, '\t\t\t_ => Err(err!("invalid Slippi version: {}", s.to_string())),\n',
                      '\t\t\t(Some(major), Some(minor), None, None) => Ok(Version(parse_u8(major)?, parse_u8(minor)?, 0)),\n\t\t\t_ => Err(err!("invalid Slippi version: {}", s.to_string())),\n')], 'VersionTextSrc.v'),
    # ---- Q
    ('q_ok_flatten', [(DE, NAME_TAG, '\tlet name_tag = v1_3\n\t\t.map(|v1_3| MeleeString::try_from(v1_3.as_slice()).ok())\n\t\t.flatten();\n')], 'MeleeStringSrc.v'),
    ('q_flat_map', [(DE, NAME_TAG, '\tlet name_tag = v1_3.iter().flat_map(|v1_3| MeleeString::try_from(v1_3.as_slice())).next();\n')], 'MeleeStringSrc.v'),
    ('q_unwrap_or', [(DE, NP_CODE, '\t\t\t\tcode: MeleeString::try_from(code.as_slice()).unwrap_or(MeleeString(String::new())),\n')], 'MeleeStringSrc.v'),
    ('q_no_question', [(DE, NP_NAME, '\t\t\t\tname: MeleeString::try_from(name.as_slice()).unwrap(),\n')], 'MeleeStringSrc.v'),
    ('q_lossy_arm', [(SJ, '\t\t\t_ => Err(err!("invalid Shift JIS sequence")),\n', '\t\t\t_ => Ok(MeleeString(String::new())),\n')], 'MeleeStringSrc.v'),
    ('q_some_is_err', [(SJ, '\t\t\tSome(cow) => Ok(MeleeString(cow.to_string())),\n', '\t\t\tSome(cow) => Err(err!("invalid Shift JIS sequence {}", cow)),\n')], 'MeleeStringSrc.v'),
    ('q_rposition', [(SJ, 's.iter().position(|&x| x == 0)', 's.iter().rposition(|&x| x == 0)')], 'MeleeStringSrc.v'),
    ('q_extra_call', [(DE, NAME_TAG, NAME_TAG + '\tlet _tag2 = MeleeString::try_from(&v0[..]).ok();\n')], 'MeleeStringSrc.v'),
    ('q_slice_to_len', [(SJ, '(&s[0..first_null])', '(&s[0..s.len()])')], 'MeleeStringSrc.v'),
    ('q_map_closure', [(SJ, '.chars().map(fix_char).collect::<String>()', '.chars().map(|c| c).collect::<String>()')], 'MeleeStringSrc.v'),
    # ---- R
    ('r_update_whole_buf', [(IO, HR_READ, HR_READ.replace('&buf[..n]', 'buf'))], 'HashingSrc.v'),
    ('r_seek_keeps_hasher', [(IO, '\t\tself.hasher = None;\n', '')], 'HashingSrc.v'),
    ('r_always_hashing', [(IO, 'hasher: hash.then(|| Box::new(Xxh3::new())),', 'hasher: Some(Box::new(Xxh3::new())),')], 'HashingSrc.v'),
    ('r_seeded', [(IO, 'hasher: hash.then(|| Box::new(Xxh3::new())),', 'hasher: hash.then(|| Box::new(Xxh3::with_seed(1))),')], 'HashingSrc.v'),
    ('r_update_before_read', [(IO, '\t\tlet n = self.reader.read(buf)?;\n' + HR_READ, HR_READ.replace('&buf[..n]', '&buf[..0]') + '\t\tlet n = self.reader.read(buf)?;\n')], 'HashingSrc.v'),
    ('r_extra_fn', [(IO, '\tpub fn into_digest(self) -> Option<String> {', '\tpub fn reset(&mut self) {\n\t\tself.hasher = None;\n\t}\n\n\tpub fn into_digest(self) -> Option<String> {')], 'HashingSrc.v'),
    ('r_format_suffix', [(IO, 'format!("xxh3:{:016x}", &hasher.digest())', 'format!("xxh3:{:016x}!", &hasher.digest())')], 'HashingSrc.v'),
    # ---- S
    ('s_reversed', [(GAME, PO_BODY, PO_BODY.replace('\t\t.iter()\n', '\t\t.iter()\n\t\t.rev()\n'))], 'PortOccupancySrc.v'),
    ('s_filtered', [(GAME, PO_BODY, PO_BODY.replace('\t\t.iter()\n', '\t\t.iter()\n\t\t.filter(|p| p.stocks > 0)\n'))], 'PortOccupancySrc.v'),
    ('s_follower_const', [(GAME, 'follower: p.character == ICE_CLIMBERS,', 'follower: false,')], 'PortOccupancySrc.v'),
    ('s_port_const', [(GAME, '\t\t\tport: p.port,\n\t\t\tfollower', '\t\t\tport: Port::P1,\n\t\t\tfollower')], 'PortOccupancySrc.v'),
    ('s_two_fields', [(GAME, 'follower: p.character == ICE_CLIMBERS,', 'follower: p.character == ICE_CLIMBERS && p.costume == 0,')], 'PortOccupancySrc.v'),
]
# mutations of fn read (src/io/slippi/de.rs) that the older read()-tail front end (Gen/ReadTail.v) rejects as well: two error entries
ALSO_READ_TAIL = [
    ('r_digest_early', [(DE, seq(rep1('\tstate.game.hash = r.into_digest();\n', ''), rep1('\tmatch r.read_u8()? {\n\t\t0x55 =>', '\tstate.game.hash = None;\n\tmatch r.read_u8()? {\n\t\t0x55 =>')))], 'HashingSrc.v'),
    ('r_wrapped_twice', [(DE, '\tlet mut r = HashingReader::new(r, hash);\n', '\tlet mut r = HashingReader::new(r, hash);\n\tlet mut r = HashingReader::new(r, false);\n')], 'HashingSrc.v'),
    ('r_hash_not_first', [(DE, '\tlet hash = opts.map_or(false, |o| o.compute_hash);\n', '\tlet mut r = r;\n\tlet hash = opts.map_or(false, |o| o.compute_hash);\n')], 'HashingSrc.v'),
]

if __name__ == '__main__':
    if sys.argv[1:2] == ['--loud']:
        ref = {f: open(BASE + '/coq/theories/Gen/' + f).read() for f in GEN if f != 'Funs.v'}
        bad = 0
        for name, edits, expect in LOUD + [(n, e, (x, 'ReadTail.v')) for n, e, x in ALSO_READ_TAIL]:
            if len(sys.argv) > 2 and name not in sys.argv[2:]:
                continue
            r = run(name, edits, quiet=True)
            rep = json.loads(r.stdout.strip().split('\n')[-1]) if r.stdout.strip().startswith('{') else {'errors': [{'file': '?', 'error': r.stdout + r.stderr}]}
            errs = rep['errors']
            if expect == 'same':
                ok = r.returncode == 0 and all(open(T2 + '/coq/theories/Gen/' + f).read() == ref[f] for f in ref)
                print('%-24s %s' % (name, 'OK: generated files identical' if ok else 'BAD: %s' % (errs or 'output differs')))
            else:
                want = sorted(expect) if isinstance(expect, tuple) else [expect]
                mine = [e for e in errs if e['file'] == want[0]] or errs
                ok = r.returncode == 3 and sorted(e['file'] for e in errs) == want and all('rust2coq FAILED' in open(T2 + '/coq/theories/Gen/' + f).read() for f in want)
                print('%-24s %s %s' % (name, 'OK: loud:' if ok else 'BAD (rc=%d):' % r.returncode, mine[0]['error'][:230] if mine else (r.stderr[-300:] or 'NO ERROR')))
            bad += (not ok)
        print('bad =', bad)
    else:
        names = list(TESTS) if sys.argv[1:2] == ['--all'] else sys.argv[1:]
        for k in names:
            run(k, *TESTS[k])
