#!/usr/bin/env python3
"""self-test driver for the fourth batch of front ends (raw_size / frame_counts / gecko_codes_size, the statement sequence of slippi::write):
mutate a scratch copy of the pristine Rust source, run the translator on it into a second Coq tree, build the targets.
usage: mut4.py <test>...  |  mut4.py --all  |  mut4.py --loud [name...]"""
import os, shutil, subprocess, sys, json, re
BASE = '/tmp/ag/tgen5'
PRISTINE = BASE + '/repo0'          # git archive HEAD of /repo (the live /repo is being mutated by other jobs)
MUT = BASE + '/repo_mut'
T2 = '/tmp/ag/tgen5b'
FW = 'src/frame/immutable/slippi.rs'
DE = 'src/io/slippi/de.rs'
SER = 'src/io/slippi/ser.rs'
UDE = 'src/io/ubjson/de.rs'
USER = 'src/io/ubjson/ser.rs'
NEW_PROOFS = ('WriterRawLayout.v', 'WriterStepsLayout.v')
GEN = ('Funs.v', 'Tables.v', 'Layouts.v', 'WriterSizes.v', 'SlppEntries.v', 'FrameWrite.v', 'Splitter.v', 'ReadTail.v', 'UbjsonMarkers.v', 'WriterRaw.v', 'WriterSteps.v')

def prepare():
    if not os.path.isdir(PRISTINE):
        os.makedirs(PRISTINE)
        subprocess.check_call('git -C /repo archive HEAD | tar -x -C %s' % PRISTINE, shell=True)
    shutil.rmtree(MUT, ignore_errors=True)
    os.makedirs(MUT + '/gen/resources')
    shutil.copytree(PRISTINE + '/src', MUT + '/src')
    shutil.copy(PRISTINE + '/Cargo.toml', MUT + '/Cargo.toml')
    shutil.copy(PRISTINE + '/gen/resources/frames.json', MUT + '/gen/resources/frames.json')
    if not os.path.isdir(T2):
        os.makedirs(T2)
        subprocess.check_call(['cp', '-a', BASE + '/coq', T2 + '/coq'])
        os.makedirs(T2 + '/tools')
    shutil.copy(BASE + '/tools/rust2coq.py', T2 + '/tools/rust2coq.py')
    for f in NEW_PROOFS:
        shutil.copy(BASE + '/coq/theories/Proofs/' + f, T2 + '/coq/theories/Proofs/' + f)

def run(name, edits, targets=(), quiet=False):
    prepare()
    for ed in edits:
        p = MUT + '/' + ed[0]
        s = open(p).read()
        if callable(ed[1]):
            s2 = ed[1](s)
            assert s2 != s, (name, 'callable edit made no change')
            s = s2
        else:
            assert s.count(ed[1]) >= 1, (name, ed[1])
            s = s.replace(ed[1], ed[2], 1)
        open(p, 'w').write(s)
    r = subprocess.run([sys.executable, T2 + '/tools/rust2coq.py'], env=dict(os.environ, PEPPI_REPO=MUT), capture_output=True, text=True)
    if not quiet:
        print('==== %s: translator rc=%d %s' % (name, r.returncode, r.stdout.strip()[-400:]))
        if r.stderr.strip():
            print('stderr:', r.stderr[-2000:])
    for t in targets:
        b = subprocess.run('cd %s/coq && ./Makefile.gen.sh && timeout 2400 make -j6 theories/Proofs/%s.vo 2>&1 | grep -v "^COQ\\|^Closed" | head -150' % (T2, t),
                           shell=True, capture_output=True, text=True)
        out = b.stdout.strip()
        print('build %s: %s' % (t, 'OK (no errors)' if 'Error' not in out else 'FAILED\n' + out))
    return r


def drop_line(marker):
    def f(s):
        lines = s.split('\n')
        k = [i for i, l in enumerate(lines) if marker in l]
        assert len(k) == 1, (marker, k)
        del lines[k[0]]
        return '\n'.join(lines)
    return f
def h_swap_fields(s):
    a = '\t\tframes: len.try_into().unwrap(),\n'
    b = '\t\titems: frames.item.as_ref().map_or(0, |i| i.id.len() as u32),\n'
    assert a in s and b in s
    return s.replace(a, '\t\tframes: frames.item.as_ref().map_or(0, |i| i.id.len() as u32),\n').replace(b, '\t\titems: len.try_into().unwrap(),\n')
GECKO = '\tif let Some(codes) = &game.gecko_codes {\n\t\tgecko_codes(w, codes)?;\n\t}\n\n'
FRAMES = '\tgame.frames.write(w, ver)?;\n\n'
DOUBLE = '\t\tif game.quirks.map_or(false, |q| q.double_game_end) {\n\t\t\tgame_end(w, end, ver)?;\n\t\t}\n'
ENTRY = '\t\tw.write_u8(event)?;\n\t\tw.write_u16::<BE>(size)?;\n'
def g_reformat(s):
    s = s.replace('\t\t\t+ counts.frame_data * (1 + sizes[&(FramePre as u8)] as u32) // FramePre\n', '\t\t\t+ counts.frame_data\n\t\t\t\t* (1 + sizes[&(FramePre as u8)] as u32)\n')
    s = s.replace('\tlet num_blocks = u32::try_from(gecko_codes.bytes.len()).unwrap() / 512;', '\tlet num_blocks =\n\t\tu32::try_from(gecko_codes.bytes.len()).unwrap() / 512;')
    return s.replace('\t\t\t\tlen - p.leader.validity.as_ref().map_or(0, |v| v.unset_bits())\n', '\t\t\t\tlen - p\n\t\t\t\t\t.leader\n\t\t\t\t\t.validity\n\t\t\t\t\t.as_ref()\n\t\t\t\t\t.map_or(0, |v| v.unset_bits())\n')
def i_reformat(s):
    s = s.replace('\tw.write_u8((payload_sizes.sizes.len() * 3 + 1).try_into().unwrap())?;', '\tw.write_u8(\n\t\t(payload_sizes.sizes.len() * 3 + 1)\n\t\t\t.try_into()\n\t\t\t.unwrap(),\n\t)?;')
    return s.replace('\t\tw.write_all(&[\n\t\t\t0x55, 0x08, 0x6d, 0x65, 0x74, 0x61, 0x64, 0x61, 0x74, 0x61, 0x7b,\n\t\t])?;', '\t\tw.write_all(&[0x55, 0x08, 0x6d, 0x65, 0x74, 0x61, 0x64, 0x61, 0x74, 0x61, 0x7b])?;')
R = ['WriterRawLayout']; S = ['WriterStepsLayout']
TESTS = {
    'identity': ([], R + S),
    'g_drop_term': ([(SER, drop_line('// FramePost'))], R),
    'g_swap_counts': ([(SER, 'map_or(0, |s| counts.items * (1 + *s as u32))', 'map_or(0, |s| counts.frames * (1 + *s as u32))')], R),
    'g_table_len': ([(SER, '(3 * self.sizes.len() as u32)', '(2 * self.sizes.len() as u32)')], R),
    'g_req_frame_start': ([(SER, 'sizes.get(&(FrameStart as u8)).map_or(0, |s| counts.frames * (1 + *s as u32))', 'counts.frames * (1 + sizes[&(FrameStart as u8)] as u32)')], R),
    'g_swap_terms': ([(SER, '\t\t\t+ sizes.get(&(FrameEnd as u8)).map_or(0, |s| counts.frames * (1 + *s as u32)) // FrameEnd\n\t\t\t+ sizes.get(&(Item as u8)).map_or(0, |s| counts.items * (1 + *s as u32)) // Item\n',
                       '\t\t\t+ sizes.get(&(Item as u8)).map_or(0, |s| counts.items * (1 + *s as u32)) // Item\n\t\t\t+ sizes.get(&(FrameEnd as u8)).map_or(0, |s| counts.frames * (1 + *s as u32)) // FrameEnd\n')], R),
    'h_follower_len': ([(SER, '\t\t\t\t\t\tlen - f.validity.as_ref().map_or(0, |v| v.unset_bits())\n', '\t\t\t\t\t\tlen\n')], R),
    'h_swap_fields': ([(SER, h_swap_fields)], R),
    'h_gecko_516': ([(SER, 'num_blocks * (512 + 5)', 'num_blocks * (512 + 4)')], R),
    'h_gecko_div': ([(SER, '.unwrap() / 512;', '.unwrap() / 256;')], R),
    'h_gecko_mod': ([(SER, 'assert_eq!(gecko_codes.bytes.len() % 512, 0);', 'assert_eq!(gecko_codes.bytes.len() % 516, 0);')], R),
    'i_swap_gecko_frames': ([(SER, GECKO + FRAMES, FRAMES + GECKO)], S),
    'i_table_len': ([(SER, 'payload_sizes.sizes.len() * 3 + 1', 'payload_sizes.sizes.len() * 3 + 2')], S),
    'i_no_double': ([(SER, DOUBLE, '')], S),
    'i_final_byte': ([(SER, 'w.write_all(&[0x7d])?; // closing brace for top-level map', 'w.write_all(&[0x7e])?; // closing brace for top-level map')], S),
    'i_entry_order': ([(SER, ENTRY, '\t\tw.write_u16::<BE>(size)?;\n\t\tw.write_u8(event)?;\n')], S),
    'i_meta_prefix': ([(SER, '0x55, 0x08, 0x6d, 0x65, 0x74, 0x61, 0x64, 0x61, 0x74, 0x61, 0x7b,', '0x55, 0x08, 0x6d, 0x65, 0x74, 0x61, 0x64, 0x61, 0x74, 0x41, 0x7b,')], S),
    'i_sig_after_size': ([(SER, '\tw.write_all(&slippi::FILE_SIGNATURE)?;\n\tw.write_u32::<BE>(payload_sizes.raw_size(game))?;\n', '\tw.write_u32::<BE>(payload_sizes.raw_size(game))?;\n\tw.write_all(&slippi::FILE_SIGNATURE)?;\n')], S),
}
LOUD = [
  ('g_reformat', [(SER, g_reformat)], 'same'),
  ('g_unknown_term', [(SER, '\t\t\t+ game.gecko_codes.as_ref().map_or(0, gecko_codes_size)\n', '\t\t\t+ game.gecko_codes.as_ref().map_or(0, gecko_codes_size)\n\t\t\t+ 7 * counts.frames\n')], 'WriterRaw.v'),
  ('g_minus', [(SER, '\t\t1 + 1 + (3 * self.sizes.len() as u32) // Payload sizes', '\t\t1 + 1 - (3 * self.sizes.len() as u32) // Payload sizes')], 'WriterRaw.v'),
  ('g_unknown_count', [(SER, 'map_or(0, |s| counts.items * (1 + *s as u32))', 'map_or(0, |s| counts.ports * (1 + *s as u32))')], 'WriterRaw.v'),
  ('g_extra_stmt', [(SER, '\t\tlet counts = frame_counts(&game.frames);\n', '\t\tlet counts = frame_counts(&game.frames);\n\t\tlet extra = 1u32;\n')], 'WriterRaw.v'),
  ('g_hashmap_changed', [(SER, 'self.sizes.iter().map(|(k, v)| (*k, *v)).collect();', 'self.sizes.iter().rev().map(|(k, v)| (*k, *v)).collect();')], 'WriterRaw.v'),
  ('h_len_plus', [(SER, '\t\tframes: len.try_into().unwrap(),', '\t\tframes: (len + 1).try_into().unwrap(),')], 'WriterRaw.v'),
  ('h_field_order', [(SER, '\t\tframes: len.try_into().unwrap(),\n', ''), (SER, '\t\titems: frames.item.as_ref().map_or(0, |i| i.id.len() as u32),\n', '\t\titems: frames.item.as_ref().map_or(0, |i| i.id.len() as u32),\n\t\tframes: len.try_into().unwrap(),\n')], 'WriterRaw.v'),
  ('h_no_assert', [(SER, '\tassert_eq!(gecko_codes.bytes.len() % 512, 0);\n', '')], 'WriterRaw.v'),
  ('h_gecko_expr', [(SER, 'num_blocks * (512 + 5)', 'num_blocks.pow(2)')], 'WriterRaw.v'),
  ('i_reformat', [(SER, i_reformat)], 'same'),
  ('i_unknown_stmt', [(SER, FRAMES, FRAMES + '\tw.flush()?;\n')], 'WriterSteps.v'),
  ('i_conditional', [(SER, FRAMES, FRAMES + '\tif game.end.is_none() {\n\t\tw.write_u8(0)?;\n\t}\n')], 'WriterSteps.v'),
  ('i_helper_changed', [(SER, '\tw.write_u8(Event::GameEnd as u8)?;\n\tOk(w.write_all(&e.bytes.0)?)', '\tw.write_u8(Event::GameEnd as u8)?;\n\tw.write_u8(0)?;\n\tOk(w.write_all(&e.bytes.0)?)')], 'WriterSteps.v'),
  ('i_early_return', [(SER, FRAMES, FRAMES + '\tif game.end.is_none() {\n\t\treturn Ok(());\n\t}\n')], 'WriterSteps.v'),
  ('i_le', [(SER, 'w.write_u32::<BE>(payload_sizes.raw_size(game))?;', 'w.write_u32::<LE>(payload_sizes.raw_size(game))?;')], 'WriterSteps.v'),
  ('i_meta_else', [(SER, '\t\tw.write_all(&[0x7d])?; // closing brace for `metadata`\n\t}\n', '\t\tw.write_all(&[0x7d])?; // closing brace for `metadata`\n\t} else {\n\t\tw.write_u8(0)?;\n\t}\n')], 'WriterSteps.v'),
  ('i_no_assert', [(SER, '\tslippi::assert_max_version(game.start.slippi.version)?;\n', '')], 'WriterSteps.v'),
  ('i_bad_byte', [(SER, 'w.write_all(&[0x7d])?; // closing brace for top-level map', 'w.write_all(&[0x17d])?;')], 'WriterSteps.v'),
]

if __name__ == '__main__':
    if sys.argv[1:2] == ['--loud']:
        ref = {f: open(BASE + '/coq/theories/Gen/' + f).read() for f in GEN if f != 'Funs.v'}
        bad = 0
        for name, edits, expect in LOUD:
            if len(sys.argv) > 2 and name not in sys.argv[2:]:
                continue
            r = run(name, edits, quiet=True)
            rep = json.loads(r.stdout.strip().split('\n')[-1]) if r.stdout.strip().startswith('{') else {'errors': [{'file': '?', 'error': r.stdout + r.stderr}]}
            errs = rep['errors']
            if expect == 'same':
                ok = r.returncode == 0 and all(open(T2 + '/coq/theories/Gen/' + f).read() == ref[f] for f in ref)
                print('%-20s %s' % (name, 'OK: generated files identical' if ok else 'BAD: %s' % (errs or 'output differs')))
            else:
                ok = r.returncode == 3 and len(errs) == 1 and errs[0]['file'] == expect and 'rust2coq FAILED' in open(T2 + '/coq/theories/Gen/' + expect).read()
                print('%-20s %s %s' % (name, 'OK: loud:' if ok else 'BAD (rc=%d):' % r.returncode, errs[0]['error'][:250] if errs else (r.stderr[-300:] or 'NO ERROR')))
            bad += (not ok)
        print('bad =', bad)
    else:
        names = list(TESTS) if sys.argv[1:2] == ['--all'] else sys.argv[1:]
        for k in names:
            run(k, *TESTS[k])
