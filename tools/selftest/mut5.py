#!/usr/bin/env python3
"""self-test driver for the event-handler front end (parse_event arms, impl ParseState helpers):
mutate a scratch copy of the pristine Rust source, run the translator on it into a second Coq tree, build the targets.
usage: mut5.py <test>...  |  mut5.py --all  |  mut5.py --loud [name...]"""
import os, shutil, subprocess, sys, json, re
BASE = '/tmp/ag/tgen6'
PRISTINE = BASE + '/repo0'          # git archive HEAD of /repo (the live /repo is being mutated by other jobs)
MUT = BASE + '/repo_mut'
T2 = '/tmp/ag/tgen6b'
FW = 'src/frame/immutable/slippi.rs'
DE = 'src/io/slippi/de.rs'
SER = 'src/io/slippi/ser.rs'
UDE = 'src/io/ubjson/de.rs'
USER = 'src/io/ubjson/ser.rs'
NEW_PROOFS = ('ParseLayout.v',)
GEN = ('Funs.v', 'Tables.v', 'Layouts.v', 'WriterSizes.v', 'SlppEntries.v', 'FrameWrite.v', 'Splitter.v', 'ReadTail.v', 'UbjsonMarkers.v', 'WriterRaw.v', 'WriterSteps.v', 'ParseEvent.v')

def prepare():
    if not os.path.isdir(PRISTINE):
        os.makedirs(PRISTINE)
        subprocess.check_call('git -C /repo archive HEAD | tar -x -C %s' % PRISTINE, shell=True)
    shutil.rmtree(MUT, ignore_errors=True)
    os.makedirs(MUT + '/gen/resources')
    shutil.copytree(PRISTINE + '/src', MUT + '/src')
    shutil.copy(PRISTINE + '/Cargo.toml', MUT + '/Cargo.toml')
    shutil.copy(PRISTINE + '/gen/resources/frames.json', MUT + '/gen/resources/frames.json')
    if not os.path.isdir(T2):
        os.makedirs(T2)
        subprocess.check_call(['cp', '-a', BASE + '/coq', T2 + '/coq'])
        os.makedirs(T2 + '/tools')
    shutil.copy(BASE + '/tools/rust2coq.py', T2 + '/tools/rust2coq.py')
    for f in NEW_PROOFS:
        shutil.copy(BASE + '/coq/theories/Proofs/' + f, T2 + '/coq/theories/Proofs/' + f)

def run(name, edits, targets=(), quiet=False):
    prepare()
    for ed in edits:
        p = MUT + '/' + ed[0]
        s = open(p).read()
        if callable(ed[1]):
            s2 = ed[1](s)
            assert s2 != s, (name, 'callable edit made no change')
            s = s2
        else:
            assert s.count(ed[1]) >= 1, (name, ed[1])
            s = s.replace(ed[1], ed[2], 1)
        open(p, 'w').write(s)
    r = subprocess.run([sys.executable, T2 + '/tools/rust2coq.py'], env=dict(os.environ, PEPPI_REPO=MUT), capture_output=True, text=True)
    if not quiet:
        print('==== %s: translator rc=%d %s' % (name, r.returncode, r.stdout.strip()[-400:]))
        if r.stderr.strip():
            print('stderr:', r.stderr[-2000:])
    for t in targets:
        b = subprocess.run('cd %s/coq && ./Makefile.gen.sh && timeout 2400 make -j6 theories/Proofs/%s.vo 2>&1 | grep -v "^COQ\\|^Closed" | head -150' % (T2, t),
                           shell=True, capture_output=True, text=True)
        out = b.stdout.strip()
        print('build %s: %s' % (t, 'OK (no errors)' if 'Error' not in out else 'FAILED\n' + out))
    return r


def in_fn(name, f):
    def g(s):
        i = s.index(name)
        return s[:i] + f(s[i:])
    return g
def rep1(old, new):
    def f(t):
        assert old in t, old
        return t.replace(old, new, 1)
    return f
PE = 'pub fn parse_event<R: Read>'
START_CHECK = '\t\t\t\tif state.game.frames.start.is_none() {\n\t\t\t\t\treturn Err(err!("unexpected Frame Start event"));\n\t\t\t\t}\n'
OPEN = '\t\t\t\tstate.frame_open(id);\n'
def item_to_end(t):
    i = t.index('\t\t\tItem => {')
    return t[:i] + t[i:].replace('\t\t\t\t\t.item\n\t\t\t\t\t.as_mut()\n\t\t\t\t\t.unwrap()\n\t\t\t\t\t.read_push', '\t\t\t\t\t.end\n\t\t\t\t\t.as_mut()\n\t\t\t\t\t.unwrap()\n\t\t\t\t\t.read_push', 1)
def post_no_expect(t):
    i = t.index('\t\t\tFramePost => {')
    return t[:i] + t[i:].replace('\t\t\t\tstate.expect_id(id)?;\n', '', 1)
def reformat(t):
    t = t.replace('\t\t\t\tstate\n\t\t\t\t\t.game\n\t\t\t\t\t.frames\n\t\t\t\t\t.start\n\t\t\t\t\t.as_mut()\n\t\t\t\t\t.unwrap()\n\t\t\t\t\t.read_push(r, state.game.start.slippi.version)?;',
                  '\t\t\t\tstate.game.frames.start.as_mut().unwrap().read_push(r, state.game.start.slippi.version)?;')
    t = t.replace('\t\t\t\ttrace!("Frame pre: {}:{}", id, port);\n', '')
    t = t.replace('\t\t\t\tlet is_follower = r.read_u8()? != 0;\n\t\t\t\ttrace!("Frame post', '\t\t\t\tlet is_follower =\n\t\t\t\t\tr.read_u8()? != 0;\n\t\t\t\ttrace!("Frame post')
    return t.replace('\t\t\tGameStart => return Err(err!("Duplicate start event")),', '\t\t\tGameStart => {\n\t\t\t\treturn Err(err!("Duplicate start event"));\n\t\t\t}')
P = ['ParseLayout']
TESTS = {
    'identity': ([], P),
    'j1_pre_no_close': ([(DE, in_fn(PE, rep1('\t\t\t\t\t\tstate.frame_close();\n\t\t\t\t\t\tstate.frame_open(id);\n', '\t\t\t\t\t\tstate.frame_open(id);\n')))], P),
    'j2_end_gate': ([(DE, in_fn(PE, rep1('state.game.start.slippi.version.lt(3, 0)', 'state.game.start.slippi.version.lt(2, 2)')))], P),
    'j3_open_before_check': ([(DE, in_fn(PE, rep1(START_CHECK + OPEN, OPEN + START_CHECK)))], P),
    'j4_no_validity_push': ([(DE, '\t\t\t\tdata.validity.as_mut().map(|v| v.push(true));\n', '')], P),
    'j5_item_to_end': ([(DE, in_fn(PE, item_to_end))], P),
    'j6_bytes_read': ([(DE, 'state.bytes_read += size + 1;', 'state.bytes_read += size;')], P),
    'j7_first_index': ([(DE, 'unwrap_or(frame::FIRST_INDEX - 1)', 'unwrap_or(frame::FIRST_INDEX - 2)')], P),
    'j8_pre_gate': ([(DE, in_fn(PE, rep1('if state.game.start.slippi.version.gte(2, 2) {', 'if state.game.start.slippi.version.gte(3, 0) {')))], P),
    'j9_post_no_expect': ([(DE, in_fn(PE, post_no_expect))], P),
    'j10_fend_close_first': ([(DE, in_fn(PE, rep1('\t\t\t\t\t.read_push(r, state.game.start.slippi.version)?;\n\t\t\t\tstate.frame_close();\n', '\t\t\t\t\t.read_push(r, state.game.start.slippi.version)?;\n')))], P),
}
LOUD = [
  ('j_reformat', [(DE, in_fn(PE, reformat))], 'same'),
  ('j_unknown_stmt', [(DE, in_fn(PE, rep1(OPEN, OPEN + '\t\t\t\tstate.bytes_read += 1;\n')))], 'ParseEvent.v'),
  ('j_extra_read', [(DE, in_fn(PE, rep1('\t\t\t\tlet port = r.read_u8()?;\n', '\t\t\t\tlet port = r.read_u8()?;\n\t\t\t\tlet extra = r.read_u8()?;\n')))], 'ParseEvent.v'),
  ('j_id_u16', [(DE, in_fn(PE, rep1('let id = r.read_i32::<BE>()?;', 'let id = r.read_i16::<BE>()? as i32;')))], 'ParseEvent.v'),
  ('j_else_on_close', [(DE, in_fn(PE, rep1('\t\t\t\t\tstate.frame_close();\n\t\t\t\t}\n\t\t\t\tstate.game.end', '\t\t\t\t\tstate.frame_close();\n\t\t\t\t} else {\n\t\t\t\t\tstate.frame_open(0);\n\t\t\t\t}\n\t\t\t\tstate.game.end')))], 'ParseEvent.v'),
  ('j_loop_in_arm', [(DE, in_fn(PE, rep1(OPEN, '\t\t\t\tfor _ in 0..2 {\n\t\t\t\t\tstate.frame_open(id);\n\t\t\t\t}\n')))], 'ParseEvent.v'),
  ('j_helper_open', [(DE, 'self.game.frames.id.push(Some(id));', 'self.game.frames.id.push(None);')], 'ParseEvent.v'),
  ('j_helper_expect', [(DE, 'Some(last_id) if last_id == id => Ok(()),', 'Some(last_id) if last_id <= id => Ok(()),')], 'ParseEvent.v'),
  ('j_helper_close', [(DE, '\t\t\twhile p.leader.len() < len {', '\t\t\twhile p.leader.len() + 1 < len {')], 'ParseEvent.v'),
  ('j_helper_data_mut', [(DE, '\t\t\t.filter(|p| p.port as u8 == port)\n', '')], 'ParseEvent.v'),
  ('j_prologue_size', [(DE, in_fn(PE, rep1('\t\t.get() as usize;\n\tlet mut buf = vec![0; size];', '\t\t.get() as usize + 1;\n\tlet mut buf = vec![0; size];')))], 'ParseEvent.v'),
  ('j_unknown_column', [(DE, in_fn(PE, rep1('if state.game.frames.item.is_none() {', 'if state.game.frames.item_offset.is_none() {')))], 'ParseEvent.v'),
  ('j_event_counts_gone', [(DE, '\t*state.event_counts.entry(code).or_default() += 1;\n', '')], 'ParseEvent.v'),
  ('j_after_match', [(DE, '\tstate.bytes_read += size + 1; // +1 byte for the event code\n', '\tstate.frame_close();\n\tstate.bytes_read += size + 1; // +1 byte for the event code\n')], 'ParseEvent.v'),
  ('j_item_offset_partial', [(DE, in_fn(PE, rep1('\t\t\t\t\t.try_push(new_len.checked_sub(old_len).unwrap())\n', '\t\t\t\t\t.try_push(new_len)\n')))], 'ParseEvent.v'),
]

if __name__ == '__main__':
    if sys.argv[1:2] == ['--loud']:
        ref = {f: open(BASE + '/coq/theories/Gen/' + f).read() for f in GEN if f != 'Funs.v'}
        bad = 0
        for name, edits, expect in LOUD:
            if len(sys.argv) > 2 and name not in sys.argv[2:]:
                continue
            r = run(name, edits, quiet=True)
            rep = json.loads(r.stdout.strip().split('\n')[-1]) if r.stdout.strip().startswith('{') else {'errors': [{'file': '?', 'error': r.stdout + r.stderr}]}
            errs = rep['errors']
            if expect == 'same':
                ok = r.returncode == 0 and all(open(T2 + '/coq/theories/Gen/' + f).read() == ref[f] for f in ref)
                print('%-20s %s' % (name, 'OK: generated files identical' if ok else 'BAD: %s' % (errs or 'output differs')))
            else:
                ok = r.returncode == 3 and len(errs) == 1 and errs[0]['file'] == expect and 'rust2coq FAILED' in open(T2 + '/coq/theories/Gen/' + expect).read()
                print('%-20s %s %s' % (name, 'OK: loud:' if ok else 'BAD (rc=%d):' % r.returncode, errs[0]['error'][:250] if errs else (r.stderr[-300:] or 'NO ERROR')))
            bad += (not ok)
        print('bad =', bad)
    else:
        names = list(TESTS) if sys.argv[1:2] == ['--all'] else sys.argv[1:]
        for k in names:
            run(k, *TESTS[k])
