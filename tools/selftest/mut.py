#!/usr/bin/env python3
"""self-test driver: mutate a scratch copy of the Rust source, run the translator on it into a second Coq tree, build StartLayout.vo"""
import os, shutil, subprocess, sys, json
BASE = '/tmp/ag/tgen'
MUT = BASE + '/repo_mut'
T2 = '/tmp/ag/tgen2'

def prepare():
    shutil.rmtree(MUT, ignore_errors=True)
    os.makedirs(MUT + '/gen/resources')
    shutil.copytree('/repo/src', MUT + '/src')
    shutil.copy('/repo/Cargo.toml', MUT + '/Cargo.toml')
    shutil.copy('/repo/gen/resources/frames.json', MUT + '/gen/resources/frames.json')
    if not os.path.isdir(T2):
        os.makedirs(T2)
        subprocess.check_call(['cp', '-a', BASE + '/coq', T2 + '/coq'])
        os.makedirs(T2 + '/tools')
    shutil.copy(BASE + '/tools/rust2coq.py', T2 + '/tools/rust2coq.py')
    shutil.copy(BASE + '/coq/theories/Proofs/StartLayout.v', T2 + '/coq/theories/Proofs/StartLayout.v')

def run(name, edits, build=True):
    prepare()
    p = MUT + '/src/io/slippi/de.rs'
    s = open(p).read()
    for old, new in edits:
        assert s.count(old) >= 1, (name, old)
        s = s.replace(old, new, 1)
    open(p, 'w').write(s)
    r = subprocess.run([sys.executable, T2 + '/tools/rust2coq.py'], env=dict(os.environ, PEPPI_REPO=MUT), capture_output=True, text=True)
    print('==== %s: translator rc=%d %s' % (name, r.returncode, r.stdout.strip()[-600:]))
    if r.stderr.strip():
        print('stderr:', r.stderr[-2000:])
    if build:
        b = subprocess.run('cd %s/coq && ./Makefile.gen.sh && timeout 2400 make -j6 theories/Proofs/StartLayout.vo 2>&1 | grep -v "^COQ\\|^Closed" | head -150' % T2,
                           shell=True, capture_output=True, text=True)
        out = b.stdout.strip()
        print('build: %s' % ('OK (no errors)' if not out else 'FAILED\n' + out))
    return r

if __name__ == '__main__':
    which = sys.argv[1:]
    TESTS = {
        'identity': ([], True),
        'swap_team': ([('let team_shade = r.read_u8()?;', 'let team_XX = r.read_u8()?;'), ('let team_color = r.read_u8()?;', 'let team_shade = r.read_u8()?;'),
                       ('let team_XX = r.read_u8()?;', 'let team_color = r.read_u8()?;')], True),
        'stage_u32': ([('let stage = r.read_u16::<BE>()?;', 'let stage = r.read_u32::<BE>()?;')], True),
        'swap_pal_frozen': ([('let is_pal = if_more', 'let is_XX = if_more'), ('let is_frozen_ps = if_more', 'let is_pal = if_more'), ('let is_XX = if_more', 'let is_frozen_ps = if_more')], True),
        'swap_ucf': ([('dash_back: match r.read_u32::<BE>()? {\n\t\t\t\t\t0 => None,\n\t\t\t\t\tx => Some(game::DashBack::try_from(x).map_err(invalid_data)?),\n\t\t\t\t},\n\t\t\t\tshield_drop: match r.read_u32::<BE>()? {\n\t\t\t\t\t0 => None,\n\t\t\t\t\tx => Some(game::ShieldDrop::try_from(x).map_err(invalid_data)?),\n\t\t\t\t},',
                       'shield_drop: match r.read_u32::<BE>()? {\n\t\t\t\t\t0 => None,\n\t\t\t\t\tx => Some(game::ShieldDrop::try_from(x).map_err(invalid_data)?),\n\t\t\t\t},\n\t\t\t\tdash_back: match r.read_u32::<BE>()? {\n\t\t\t\t\t0 => None,\n\t\t\t\t\tx => Some(game::DashBack::try_from(x).map_err(invalid_data)?),\n\t\t\t\t},')], True),
        'swap_scene': ([('minor: r.read_u8()?,\n\t\t\tmajor: r.read_u8()?,', 'major: r.read_u8()?,\n\t\t\tminor: r.read_u8()?,')], True),
        'swap_match': ([('let game = r.read_u32::<BE>()?;\n\t\tlet tiebreaker = r.read_u32::<BE>()?;', 'let tiebreaker = r.read_u32::<BE>()?;\n\t\tlet game = r.read_u32::<BE>()?;')], True),
        'unmapped_shift': ([('r.read_exact(&mut unmapped[6..21])?;', 'r.read_exact(&mut unmapped[6..20])?;')], True),
        'end_lras_u16': ([('Ok(match r.read_u8()? {\n\t\t\t255 => None,', 'Ok(match r.read_u16::<BE>()? {\n\t\t\t255 => None,')], True),
        'v1_3_width': ([('player_bytes::<16, NUM_PORTS>(r)', 'player_bytes::<17, NUM_PORTS>(r)')], True),
        'cpu_level_moved': ([('r.read_exact(&mut unmapped[5..7])?;\n\tlet cpu_level = {\n\t\tlet cpu_level = r.read_u8()?;', 'let cpu_level = {\n\t\tlet cpu_level = r.read_u8()?;'), ('r.read_exact(&mut unmapped[7..15])?;', 'r.read_exact(&mut unmapped[5..15])?;')], True),
    }
    for k in which:
        run(k, *TESTS[k])
