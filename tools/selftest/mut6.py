#!/usr/bin/env python3
"""self-test driver for the sixth batch of front ends: Arrow frame glue (K), frame-level transpose (L), reader prologue (M),
.slpp reader helpers (N): mutate a scratch copy of the pristine Rust source, run the translator on it into a second Coq tree,
build the targets.
usage: mut6.py <test>...  |  mut6.py --all  |  mut6.py --loud [name...]"""
import os, shutil, subprocess, sys, json, re
BASE = '/tmp/ag/tgen7'
PRISTINE = BASE + '/repo0'          # git archive HEAD of /repo (the live /repo is being mutated by other jobs)
MUT = BASE + '/repo_mut'
T2 = '/tmp/ag/tgen7b'
AF = 'src/frame/immutable/peppi.rs'
IMM = 'src/frame/immutable/mod.rs'
MUTF = 'src/frame/mutable.rs'
DE = 'src/io/slippi/de.rs'
PDE = 'src/io/peppi/de.rs'
PSER = 'src/io/peppi/ser.rs'
NEW_PROOFS = ('ArrowFrameLayout.v', 'FrameTransposeLayout.v', 'ReadPrologueLayout.v', 'SlppHelpersLayout.v')
NEW_GEN = ('ArrowFrame.v', 'FrameTranspose.v', 'ReadPrologue.v', 'SlppHelpers.v')
GEN = ('Funs.v', 'Tables.v', 'Layouts.v', 'WriterSizes.v', 'SlppEntries.v', 'FrameWrite.v', 'Splitter.v', 'ReadTail.v', 'UbjsonMarkers.v',
       'WriterRaw.v', 'WriterSteps.v', 'ParseEvent.v') + NEW_GEN


def prepare():
    if not os.path.isdir(PRISTINE):
        os.makedirs(PRISTINE)
        subprocess.check_call('git -C /repo archive HEAD | tar -x -C %s' % PRISTINE, shell=True)
    shutil.rmtree(MUT, ignore_errors=True)
    os.makedirs(MUT + '/gen/resources')
    shutil.copytree(PRISTINE + '/src', MUT + '/src')
    shutil.copy(PRISTINE + '/Cargo.toml', MUT + '/Cargo.toml')
    shutil.copy(PRISTINE + '/gen/resources/frames.json', MUT + '/gen/resources/frames.json')
    if not os.path.isdir(T2):
        os.makedirs(T2)
        subprocess.check_call(['cp', '-a', BASE + '/coq', T2 + '/coq'])
        os.makedirs(T2 + '/tools')
    shutil.copy(BASE + '/tools/rust2coq.py', T2 + '/tools/rust2coq.py')
    for f in NEW_PROOFS:
        shutil.copy(BASE + '/coq/theories/Proofs/' + f, T2 + '/coq/theories/Proofs/' + f)


def run(name, edits, targets=(), quiet=False):
    prepare()
    for ed in edits:
        p = MUT + '/' + ed[0]
        s = open(p).read()
        if callable(ed[1]):
            s2 = ed[1](s)
            assert s2 != s, (name, 'callable edit made no change')
            s = s2
        else:
            assert s.count(ed[1]) >= 1, (name, ed[1])
            s = s.replace(ed[1], ed[2], 1)
        open(p, 'w').write(s)
    r = subprocess.run([sys.executable, T2 + '/tools/rust2coq.py'], env=dict(os.environ, PEPPI_REPO=MUT), capture_output=True, text=True)
    if not quiet:
        print('==== %s: translator rc=%d %s' % (name, r.returncode, r.stdout.strip()[-300:]))
        if r.stderr.strip():
            print('stderr:', r.stderr[-2000:])
    for t in targets:
        b = subprocess.run('cd %s/coq && ./Makefile.gen.sh && timeout 2400 make -j6 theories/Proofs/%s.vo 2>&1 | grep -v "^COQ\\|^Closed" | head -40' % (T2, t),
                           shell=True, capture_output=True, text=True)
        out = b.stdout.strip()
        if 'Error' not in out:
            print('build %s: OK (no errors)' % t)
        else:
            m = re.search(r'File "\./theories/(\S+)", line (\d+)', out)
            thm = theorem_at(T2 + '/coq/theories/' + m.group(1), int(m.group(2))) if m else '?'
            print('build %s: FAILED at %s line %s (%s)\n%s' % (t, m.group(1) if m else '?', m.group(2) if m else '?', thm, out[:1500]))
    return r


def theorem_at(path, line):
    """the name of the last Theorem/Lemma/Example/Corollary at or before the line"""
    name = '?'
    for i, l in enumerate(open(path).read().split('\n')[:line]):
        m = re.match(r'(Theorem|Lemma|Example|Corollary|Definition|Fixpoint) (\w+)', l)
        if m:
            name = m.group(2)
    return name


def in_fn(name, f, nth=1):
    def g(s):
        i = -1
        for _ in range(nth):
            i = s.index(name, i + 1)
        return s[:i] + f(s[i:])
    return g


def rep1(old, new):
    def f(t):
        assert old in t, old
        return t.replace(old, new, 1)
    return f


def seq(*fs):
    def g(s):
        for f in fs:
            s = f(s)
        return s
    return g


F_DT = '\tfn data_type(version: Version, ports: &[PortOccupancy])'
F_INTO = '\tpub fn into_struct_array(self, version: Version, ports: &[PortOccupancy])'
F_FROM = '\tpub fn from_struct_array(array: StructArray, version: Version) -> Self {\n\t\tlet (fields, values, _) = array.into_data();\n\t\tassert_eq!("id"'
END_PUSH = '\t\t\t\tif version.gte(3, 7) {\n\t\t\t\t\tarrays.push(self.end.unwrap().into_struct_array(version).boxed());\n\t\t\t\t}\n'
ITEM_PUSH = ('\t\t\t\tlet item_values = self.item.unwrap().into_struct_array(version).boxed();\n\t\t\t\tarrays.push(\n\t\t\t\t\tListArray::new(\n'
             '\t\t\t\t\t\tSelf::item_data_type(version),\n\t\t\t\t\t\tself.item_offset.unwrap(),\n\t\t\t\t\t\titem_values,\n\t\t\t\t\t\tNone,\n\t\t\t\t\t)\n'
             '\t\t\t\t\t.boxed(),\n\t\t\t\t);\n')
START_FIELD = '\t\t\tfields.push(Field::new(\n\t\t\t\t"start",\n\t\t\t\tStart::data_type(version).clone(),\n\t\t\t\tfalse,\n\t\t\t));\n'
FR_T1 = '\tpub fn transpose_one(&self, i: usize, version: Version) -> transpose::Frame {'
END_TR = '\t\t\tend: version\n\t\t\t\t.gte(3, 0)\n\t\t\t\t.then(|| self.end.as_ref().unwrap().transpose_one(i, version)),\n'
START_TR = '\t\t\tstart: version\n\t\t\t\t.gte(2, 2)\n\t\t\t\t.then(|| self.start.as_ref().unwrap().transpose_one(i, version)),\n'
ITEMS_TR = ('\t\t\titems: version.gte(3, 0).then(|| {\n\t\t\t\tlet (start, end) = self.item_offset.as_ref().unwrap().start_end(i);\n\t\t\t\t(start..end)\n'
            '\t\t\t\t\t.map(|i| self.item.as_ref().unwrap().transpose_one(i, version))\n\t\t\t\t\t.collect()\n\t\t\t}),\n')
PP = 'fn parse_payloads<R: Read>'
PGS = 'fn parse_game_start<R: Read>'
PH = 'pub fn parse_header<R: Read>'
GECKO_OK = '\tOk(game::GeckoCodes {\n\t\tactual_size: u32::from_le_bytes(actual_size),\n\t\tbytes: bytes,\n\t})\n'


def k_reformat(t):
    t = t.replace(START_FIELD, '\t\t\tfields.push(Field::new("start", Start::data_type(version).clone(), false));\n')
    t = t.replace(ITEM_PUSH, '\t\t\t\tlet item_values = self\n\t\t\t\t\t.item\n\t\t\t\t\t.unwrap()\n\t\t\t\t\t.into_struct_array(version)\n\t\t\t\t\t.boxed();\n'
                  '\t\t\t\tarrays.push(ListArray::new(Self::item_data_type(version), self.item_offset.unwrap(), item_values, None).boxed());\n')
    t = t.replace('\t\t\ttrue => (Some(3), 4),\n\t\t\t_ => (None, 3),\n', '\t\t\ttrue => (Some(3), 4), _ => (None, 3)\n')
    t = t.replace('\t\t\tstart: values.get(2).map(|v| {\n\t\t\t\tStart::from_struct_array(\n\t\t\t\t\tv.as_any().downcast_ref::<StructArray>().unwrap().clone(),\n\t\t\t\t\tversion,\n\t\t\t\t)\n\t\t\t}),\n',
                  '\t\t\tstart: values\n\t\t\t\t.get(2)\n\t\t\t\t.map(|v| Start::from_struct_array(v.as_any().downcast_ref::<StructArray>().unwrap().clone(), version)),\n')
    return t.replace('\t\tfields.get(1).map(|f| assert_eq!("follower", f.name));\n', '\t\tfields.get(1).map(|f| {\n\t\t\tassert_eq!("follower", f.name);\n\t\t});\n')


def l_reformat(t):
    t = t.replace(START_TR, '\t\t\tstart: version.gte(2, 2).then(|| self.start.as_ref().unwrap().transpose_one(i, version)),\n')
    t = t.replace('\t\t\tfollower: self.follower.as_ref().map(|f| f.transpose_one(i, version)),\n',
                  '\t\t\tfollower: self\n\t\t\t\t.follower\n\t\t\t\t.as_ref()\n\t\t\t\t.map(|f| {\n\t\t\t\t\tf.transpose_one(i, version)\n\t\t\t\t}),\n')
    return t.replace('\t\t\t\t\t.map(|i| self.item.as_ref().unwrap().transpose_one(i, version))\n\t\t\t\t\t.collect()\n',
                     '\t\t\t\t\t.map(|i| {\n\t\t\t\t\t\tself.item.as_ref().unwrap().transpose_one(i, version)\n\t\t\t\t\t})\n\t\t\t\t\t.collect()\n')


def m_reformat(t):
    t = t.replace('\tif size % 3 != 1 {\n\t\treturn Err(err!("invalid payload size: {}", size));\n\t}\n',
                  '\tif size % 3 != 1 { return Err(err!("invalid payload size: {}", size)) }\n')
    t = t.replace('\t\tsizes[code as usize] =\n\t\t\tSome(NonZeroU16::new(size).ok_or_else(|| err!("zero-size event payload"))?);\n',
                  '\t\tsizes[code as usize] = Some(\n\t\t\tNonZeroU16::new(size)\n\t\t\t\t.ok_or_else(|| err!("zero-size event payload"))?,\n\t\t);\n')
    t = t.replace('\tdebug!("Event {:#02x} @{:#x}", code, bytes_read);\n\n\tlet size = payload_sizes[code as usize]', '\n\tlet size = payload_sizes[code as usize]')
    return t.replace('\t\tOk(Event::GameStart) => Ok((bytes_read + size + 1, game_start(&mut &*buf)?)),\n',
                     '\t\tOk(Event::GameStart) => Ok((\n\t\t\tbytes_read + size + 1,\n\t\t\tgame_start(&mut &*buf)?,\n\t\t)),\n')


def n_reformat(t):
    t = t.replace(GECKO_OK, '\tOk(game::GeckoCodes { actual_size: u32::from_le_bytes(actual_size), bytes: bytes })\n')
    t = t.replace('\t\t\tSome("metadata.json") => metadata = read_peppi_metadata(file)?,\n', '\t\t\tSome("metadata.json") => {\n\t\t\t\tmetadata = read_peppi_metadata(file)?;\n\t\t\t}\n')
    return t.replace('\t\tserde_json::Value::Null => Ok(None),\n', '\t\tserde_json::Value::Null => {\n\t\t\tOk(None)\n\t\t}\n')


K, L, M, N = ['ArrowFrameLayout'], ['FrameTransposeLayout'], ['ReadPrologueLayout'], ['SlppHelpersLayout']
TESTS = {
    'identity': ([], K + L + M + N),
    # ---- K
    'k1_end_gate_30': ([(AF, seq(in_fn(F_DT, rep1('if version.gte(3, 7) {', 'if version.gte(3, 0) {')),
                                 in_fn(F_INTO, rep1('if version.gte(3, 7) {', 'if version.gte(3, 0) {'))))], K),
    'k2_item_before_end': ([(AF, in_fn(F_INTO, rep1(END_PUSH + ITEM_PUSH, ITEM_PUSH + END_PUSH)))], K),
    'k3_from_indices': ([(AF, '\t\t\ttrue => (Some(3), 4),', '\t\t\ttrue => (Some(4), 3),')], K),
    'k4_start_renamed': ([(AF, in_fn(F_DT, rep1('"start",', '"begin",')))], K),
    'k5_data_post_first': ([(AF, '\t\t\tField::new("pre", Pre::data_type(version).clone(), false),\n\t\t\tField::new("post", Post::data_type(version).clone(), false),\n',
                             '\t\t\tField::new("post", Post::data_type(version).clone(), false),\n\t\t\tField::new("pre", Pre::data_type(version).clone(), false),\n')], K),
    'k6_empty_end_from_22': ([(AF, '\t\t\t\tNone => version.gte(3, 0).then(|| End {', '\t\t\t\tNone => version.gte(2, 2).then(|| End {')], K),
    'k7_assert_item_index': ([(AF, '\t\t\t} else if version.gte(3, 0) {\n\t\t\t\tassert_eq!("item", fields[3].name);', '\t\t\t} else if version.gte(3, 0) {\n\t\t\t\tassert_eq!("item", fields[4].name);')], K),
    # ---- L
    'l1_end_gate_37': ([(IMM, END_TR, END_TR.replace('.gte(3, 0)', '.gte(3, 7)'))], L),
    'l2_items_gate_32': ([(IMM, 'items: version.gte(3, 0).then(|| {', 'items: version.gte(3, 2).then(|| {')], L),
    'l3_mutable_start_gate': ([(MUTF, START_TR, START_TR.replace('.gte(2, 2)', '.gte(2, 0)'))], L),
    'l4_end_from_start': ([(IMM, in_fn(FR_T1, rep1('.then(|| self.end.as_ref().unwrap().transpose_one(i, version)),', '.then(|| self.start.as_ref().unwrap().transpose_one(i, version)),')))], L),
    # ---- M
    'm1_size_test': ([(DE, 'if size % 3 != 1 {', 'if size % 3 != 0 {')], M),
    'm2_bytes_read': ([(DE, 'Ok((1 + size as usize, sizes))', 'Ok((2 + size as usize, sizes))')], M),
    'm3_entry_size_u32': ([(DE, in_fn(PP, rep1('let size = buf.read_u16::<BE>()?;', 'let size = buf.read_u32::<BE>()?;')))], M),
    'm4_start_bytes_read': ([(DE, 'Ok((bytes_read + size + 1, game_start(&mut &*buf)?))', 'Ok((bytes_read + size, game_start(&mut &*buf)?))')], M),
    'm5_header_u16': ([(DE, in_fn(PH, seq(rep1('-> Result<u32>', '-> Result<u16>'), rep1('r.read_u32::<BE>()', 'r.read_u16::<BE>()'))))], M),
    'm6_required_event': ([(DE, 'sizes[Event::GameStart as usize]', 'sizes[Event::FrameStart as usize]')], M),
    'm7_step_by_2': ([(DE, '(0..size - 1).step_by(3)', '(0..size - 1).step_by(2)')], M),
    # ---- N
    'n1_reader_big_endian': ([(PDE, 'u32::from_le_bytes(actual_size)', 'u32::from_be_bytes(actual_size)')], N),
    'n2_writer_big_endian': ([(PSER, 'gecko_codes.actual_size.to_le_bytes().to_vec()', 'gecko_codes.actual_size.to_be_bytes().to_vec()')], N),
    'n3_null_is_error': ([(PDE, '\t\tserde_json::Value::Null => Ok(None),\n', '\t\tserde_json::Value::Null => Err(err!("no metadata")),\n')], N),
    'n4_object_is_none': ([(PDE, '\t\tserde_json::Value::Object(map) => Ok(Some(map)),\n', '\t\tserde_json::Value::Object(map) => Ok(None),\n')], N),
}
LOUD = [
    ('k_reformat', [(AF, k_reformat)], 'same'),
    ('l_reformat', [(IMM, l_reformat), (MUTF, l_reformat)], 'same'),
    ('m_reformat', [(DE, m_reformat)], 'same'),
    ('n_reformat', [(PDE, n_reformat)], 'same'),
    # ---- K
    ('k_else_on_gate', [(AF, in_fn(F_DT, rep1('\t\t\t\t\tfields.push(Field::new("end", End::data_type(version).clone(), false));\n\t\t\t\t}\n',
                                              '\t\t\t\t\tfields.push(Field::new("end", End::data_type(version).clone(), false));\n\t\t\t\t} else {\n'
                                              '\t\t\t\t\tfields.push(Field::new("end", DataType::Int32, false));\n\t\t\t\t}\n')))], 'ArrowFrame.v'),
    ('k_insert_not_push', [(AF, in_fn(F_DT, rep1('fields.push(Field::new("end", End::data_type(version).clone(), false));', 'fields.insert(2, Field::new("end", End::data_type(version).clone(), false));')))], 'ArrowFrame.v'),
    ('k_other_condition', [(AF, in_fn(F_INTO, rep1('\t\tif version.gte(2, 2) {\n\t\t\tarrays.push(self.start', '\t\tif self.start.is_some() {\n\t\t\tarrays.push(self.start')))], 'ArrowFrame.v'),
    ('k_unwrap_or_default', [(AF, 'arrays.push(self.end.unwrap().into_struct_array(version).boxed());', 'arrays.push(self.end.unwrap_or_default().into_struct_array(version).boxed());')], 'ArrowFrame.v'),
    ('k_plain_else_assert', [(AF, '\t\t\t} else if version.gte(3, 0) {\n\t\t\t\tassert_eq!("item", fields[3].name);', '\t\t\t} else {\n\t\t\t\tassert_eq!("item", fields[3].name);')], 'ArrowFrame.v'),
    ('k_extra_fn', [(AF, F_DT, '\tfn extra_type(version: Version) -> DataType {\n\t\tDataType::Int32\n\t}\n\n' + F_DT)], 'ArrowFrame.v'),
    ('k_loop_push', [(AF, in_fn(F_INTO, rep1('\t\tif version.gte(2, 2) {\n\t\t\tarrays.push(self.start', '\t\tfor _ in 0..1 {\n\t\t\tarrays.push(self.id.clone().boxed());\n\t\t}\n\t\tif version.gte(2, 2) {\n\t\t\tarrays.push(self.start')))], 'ArrowFrame.v'),
    ('k_start_by_index', [(AF, '\t\t\tstart: values.get(2).map(|v| {', '\t\t\tstart: values.get(2).filter(|_| version.gte(2, 2)).map(|v| {')], 'ArrowFrame.v'),
    ('k_port_helper_changed', [(AF, 'format!("{}", p.port),', 'format!("{:?}", p.port),')], 'ArrowFrame.v'),
    # ---- L
    ('l_field_order', [(IMM, in_fn(FR_T1, rep1(END_TR + ITEMS_TR, ITEMS_TR + END_TR)))], 'FrameTranspose.v'),
    ('l_then_some', [(IMM, END_TR, '\t\t\tend: version\n\t\t\t\t.gte(3, 0)\n\t\t\t\t.then_some(self.end.as_ref().unwrap().transpose_one(i, version)),\n')], 'FrameTranspose.v'),
    ('l_stmt_before_literal', [(MUTF, FR_T1 + '\n', FR_T1 + '\n\t\tlet i = i + 1;\n')], 'FrameTranspose.v'),
    ('l_item_other_index', [(IMM, '.map(|i| self.item.as_ref().unwrap().transpose_one(i, version))', '.map(|k| self.item.as_ref().unwrap().transpose_one(i, version))')], 'FrameTranspose.v'),
    ('l_offsets_indexed', [(IMM, 'let (start, end) = self.item_offset.as_ref().unwrap().start_end(i);', 'let (start, end) = self.item_offset.as_ref().unwrap().start_end(i + 1);')], 'FrameTranspose.v'),
    # ---- M
    ('m_extra_stmt', [(DE, in_fn(PP, rep1('\tlet mut sizes: PayloadSizes = [None; 256];\n', '\tlet mut sizes: PayloadSizes = [None; 256];\n\tsizes[0] = NonZeroU16::new(1);\n')))], 'ReadPrologue.v'),
    ('m_little_endian', [(DE, in_fn(PP, rep1('buf.read_u16::<BE>()', 'buf.read_u16::<LE>()')))], 'ReadPrologue.v'),
    ('m_division', [(DE, 'if size % 3 != 1 {', 'if size / 3 != 1 {')], 'ReadPrologue.v'),
    ('m_entry_order', [(DE, in_fn(PP, rep1('\t\tlet code = buf.read_u8()?;\n\t\tlet size = buf.read_u16::<BE>()?;\n', '\t\tlet size = buf.read_u16::<BE>()?;\n\t\tlet code = buf.read_u8()?;\n')))], 'ReadPrologue.v'),
    ('m_zero_allowed', [(DE, 'Some(NonZeroU16::new(size).ok_or_else(|| err!("zero-size event payload"))?);', 'NonZeroU16::new(size);')], 'ReadPrologue.v'),
    ('m_other_signature', [(DE, 'expect_bytes(&mut r, &super::FILE_SIGNATURE)?;', 'expect_bytes(&mut r, &crate::io::peppi::FILE_SIGNATURE)?;')], 'ReadPrologue.v'),
    ('m_start_any_event', [(DE, in_fn(PGS, rep1('\t\t_ => Err(err!("Invalid event before start: {:#02x}", code)),\n', '\t\t_ => Ok((bytes_read, game_start(&mut &*buf)?)),\n')))], 'ReadPrologue.v'),
    ('m_expect_bytes_changed', [('src/io/mod.rs', '\tif expected == actual.as_slice() {', '\tif expected.len() == actual.len() {')], 'ReadPrologue.v'),
    # ---- N
    ('n_no_version_check', [(PDE, '\t\t\t\tsuper::assert_current_version(p.version)?;\n', '')], 'SlppHelpers.v'),
    ('n_eight_byte_size', [(PDE, 'let mut actual_size = [0; 4];', 'let mut actual_size = [0; 8];')], 'SlppHelpers.v'),
    ('n_guarded_arm', [(PDE, '\t\tserde_json::Value::Object(map) => Ok(Some(map)),\n', '\t\tserde_json::Value::Object(map) if !map.is_empty() => Ok(Some(map)),\n')], 'SlppHelpers.v'),
    ('n_catch_all_ok', [(PDE, '\t\tobj => Err(err!("expected map, got: {:?}", obj)),\n', '\t\t_ => Ok(None),\n')], 'SlppHelpers.v'),
    ('n_writer_extra', [(PSER, '\t\tbuf.write_all(&gecko_codes.bytes)?;\n', '\t\tbuf.write_all(&[0])?;\n\t\tbuf.write_all(&gecko_codes.bytes)?;\n')], 'SlppHelpers.v'),
    ('n_helper_elsewhere', [(PDE, '\t\t\tSome("end.raw") => end = Some(read_peppi_end(file)?),\n', '\t\t\tSome("end.raw") => end = read_peppi_end(file).ok(),\n')], 'SlppHelpers.v'),
]

if __name__ == '__main__':
    if sys.argv[1:2] == ['--loud']:
        ref = {f: open(BASE + '/coq/theories/Gen/' + f).read() for f in GEN if f != 'Funs.v'}
        bad = 0
        for name, edits, expect in LOUD:
            if len(sys.argv) > 2 and name not in sys.argv[2:]:
                continue
            r = run(name, edits, quiet=True)
            rep = json.loads(r.stdout.strip().split('\n')[-1]) if r.stdout.strip().startswith('{') else {'errors': [{'file': '?', 'error': r.stdout + r.stderr}]}
            errs = rep['errors']
            if expect == 'same':
                ok = r.returncode == 0 and all(open(T2 + '/coq/theories/Gen/' + f).read() == ref[f] for f in ref)
                print('%-24s %s' % (name, 'OK: generated files identical' if ok else 'BAD: %s' % (errs or 'output differs')))
            else:
                ok = r.returncode == 3 and len(errs) == 1 and errs[0]['file'] == expect and 'rust2coq FAILED' in open(T2 + '/coq/theories/Gen/' + expect).read()
                print('%-24s %s %s' % (name, 'OK: loud:' if ok else 'BAD (rc=%d):' % r.returncode, errs[0]['error'][:230] if errs else (r.stderr[-300:] or 'NO ERROR')))
            bad += (not ok)
        print('bad =', bad)
    else:
        names = list(TESTS) if sys.argv[1:2] == ['--all'] else sys.argv[1:]
        for k in names:
            run(k, *TESTS[k])
