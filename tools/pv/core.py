"""Check protocol shared by all properties (DESIGN.md section 6)."""
import fcntl, hashlib, json, os, re, subprocess, sys, time

from . import run as R

VERIF = R.VERIF
WORK = R.WORK
COQ = os.path.join(VERIF, 'coq')
REPO = os.environ.get('PEPPI_REPO', '/repo')
MODELRUN = os.path.join(WORK, 'extract', 'modelrun')

TRUSTED_BASE = [
    'Coq 8.16.1 kernel including the VM (vm_compute on closed terms: regenerated tables, example replays, byte constants); no native_compute',
    'axioms: none (every property theorem is closed under the global context; counted and audited on every run); Section hypotheses about library codecs (serde_json, arrow2 IPC) are explicit premises of the C02/C18 entry-level theorems',
    'tools/rust2coq.py: that the regenerated definitions and tables (the files under coq/theories/Gen: Funs, Tables, Layouts, WriterSizes, SlppEntries, FrameWrite, Splitter, ReadTail, UbjsonMarkers, WriterRaw, WriterSteps, ParseEvent, ArrowFrame, FrameTranspose, ReadPrologue, SlppHelpers, RollbacksSrc, VersionTextSrc, MeleeStringSrc, HashingSrc, PortOccupancySrc, StartWiring, JsonShape, UbjsonBodies, TarSrc, SlppWriteSrc, SlppReadSrc, SlppOptsSrc; the complete list of this run is in the translator field) mean what the Rust text means; each front end accepts only the statement shapes it knows and fails loudly otherwise; the source is read through a normalisation pre-pass whose rewrites (binder renaming by position under freshness, literal folding, lt/!gte, map_or, if-let/match, single-use let/const/helper inlining, for/collect) are equivalences of Rust programs under the side conditions listed in tools/selftest/NOTES-tolerance.md',
    'Layout/Sem.v interpreters: reading of the generated idioms (read_<p>::<BE> big-endian, push(Some x), value(i), size_of)',
    'extraction with ExtrOcamlBasic only (bool, option, unit, list, prod, sumbool, sumor; inlined andb/orb), OCaml 4.13.1, modelrun/driver.ml + modes.ml glue (one Obj.magic cast int -> Byte.byte, self-checked at start-up)',
    'Rust harness /verif/harness (pvh) and the Python orchestration, generators, oracles and diff',
    'hand transcriptions: Layout/Spec.v (Slippi spec offsets); Model/*.v (hand model of src/io/**, src/frame preambles, std read_exact and the hashing wrapper: tied by the correspondence run); Recorder.v / Irregular*.v (the definitions of well-formed replay, its canonical stream, the game it denotes, tolerated irregularities: compared with the independent Python generator on every run)',
]

FORBIDDEN = re.compile(r'\b(Admitted|admit|Axiom|Axioms|Parameter|Parameters|Conjecture|Hypothesis|Hypotheses|Variable|Variables)\b|Unset\s+Guard|bypass_check|type-in-type|impredicative-set|Admit Obligations')


def theorems_of(pid):
    """names of the property theorems in coq/theories/Properties/<pid>.v (each must have its Print Assumptions)"""
    path = os.path.join(COQ, 'theories', 'Properties', pid + '.v')
    try:
        txt = re.sub(r'\(\*.*?\*\)', '', open(path).read(), flags=re.S)
    except FileNotFoundError:
        return []
    names = re.findall(r'^(?:Theorem|Lemma)\s+(\w+)', txt, flags=re.M)
    printed = set(re.findall(r'^Print Assumptions\s+(\w+)\.', txt, flags=re.M))
    return [n for n in names if n in printed]


class Ctx:
    def __init__(self, pid, tier, seed):
        self.pid = pid
        self.tier = tier
        self.seed = seed
        self.t0 = time.time()
        self.notes = []
        self.broken = []        # names of obligations / correspondences that no longer check
        self.obligations = 0
        self.discharged = 0
        self.translator = None
        self.coq_log = ''

    def note(self, s):
        self.notes.append(s)
        print('[%s] %s' % (self.pid, s), flush=True)


class lock:
    def __init__(self, name='build'):
        os.makedirs(WORK, exist_ok=True)
        self.path = os.path.join(WORK, name + '.lock')

    def __enter__(self):
        self.f = open(self.path, 'w')
        fcntl.flock(self.f, fcntl.LOCK_EX)

    def __exit__(self, *a):
        fcntl.flock(self.f, fcntl.LOCK_UN)
        self.f.close()


def sh(cmd, timeout=1800, cwd=None, env=None):
    e = dict(os.environ)
    e.update({'CARGO_NET_OFFLINE': 'true'})
    if env:
        e.update(env)
    try:
        p = subprocess.run(cmd, shell=isinstance(cmd, str), cwd=cwd, env=e, capture_output=True, text=True,
                           timeout=timeout)
        return p.returncode, p.stdout + p.stderr
    except subprocess.TimeoutExpired as ex:
        return 124, 'TIMEOUT after %ss: %s' % (timeout, cmd)


def step_translate(ctx):
    rc, out = sh([sys.executable, os.path.join(VERIF, 'tools', 'rust2coq.py')], env={'PEPPI_REPO': REPO})
    try:
        rep = json.loads(out.strip().split('\n')[-1])
    except Exception:
        rep = {'errors': [{'file': '?', 'error': out[-500:]}], 'files': [], 'changed': []}
    ctx.translator = rep
    if rc != 0:
        # which of the failed front ends matter for THIS property is decided after the Coq dependencies are known (step_coq):
        # a generated file none of the property's theorem files depends on cannot invalidate them
        ctx.translator_errors = list(rep.get('errors', [])) or [{'file': '?', 'error': out[-500:]}]
        ctx.note('translator FAILED: %s' % rep.get('errors'))
        return False
    ctx.note('translator ok: files=%s changed=%s' % (rep['files'], rep['changed']))
    return True


def coq_deps(targets):
    """transitive .vo dependencies of the targets, from coq/.Makefile.d (written by coqdep when make runs); None if unreadable"""
    try:
        txt = open(os.path.join(COQ, '.Makefile.d')).read()
    except OSError:
        return None
    g = {}
    for line in txt.replace('\\\n', ' ').split('\n'):
        if ':' not in line:
            continue
        lhs, rhs = line.split(':', 1)
        ds = [d for d in rhs.split() if d.endswith('.vo')]
        for t in lhs.split():
            if t.endswith('.vo'):
                g.setdefault(t, set()).update(ds)
    if not g:
        return None
    seen = set(); todo = list(targets)
    while todo:
        t = todo.pop()
        if t in seen:
            continue
        seen.add(t)
        todo.extend(g.get(t, ()))
    return seen


def step_coq(ctx, targets, theorems):
    """build the property's .vo files; count Print Assumptions results"""
    sh(['./Makefile.gen.sh'], cwd=COQ)
    ok_all = True
    log_all = ''
    for t in targets:
        # force the property file itself to be re-checked so that its Print Assumptions output is captured
        vo = os.path.join(COQ, t)
        for ext in ('', 'k', 's'):
            try:
                os.unlink(vo + ext)
            except FileNotFoundError:
                pass
        rc, out = sh('timeout 1500 make -j16 %s' % t, cwd=COQ, timeout=1600)
        log_all += out
        if rc != 0:
            ok_all = False
            m = re.search(r'File "([^"]+)", line (\d+)[^\n]*\n(Error:[^\n]*(?:\n[^\n]+){0,4})', out)
            where = ('%s:%s %s' % (m.group(1), m.group(2), m.group(3).replace('\n', ' '))) if m else out[-400:]
            ctx.broken.append('proof obligation: make %s failed: %s' % (t, where[:600]))
            ctx.note('coq build FAILED for %s: %s' % (t, where[:300]))
    ctx.coq_log = log_all
    # translator failures: relevant iff the generated file is among the (transitive) dependencies of this property's targets
    errs = getattr(ctx, 'translator_errors', [])
    if errs:
        deps = coq_deps(targets)
        outside = []
        for e in errs:
            f = e.get('file', '?')
            if deps is None or f == '?' or ('theories/Gen/' + f.replace('.v', '.vo')) in deps:
                ctx.broken.append('translator: %s: %s' % (f, e.get('error')))
                ok_all = False
            else:
                outside.append(f)
        if outside:
            ctx.note('translator front ends that failed but generate nothing this property depends on (not counted here): %s' % sorted(set(outside)))
            ctx.translator = dict(ctx.translator or {}, failed_outside_this_property=sorted(set(outside)))
    closed = log_all.count('Closed under the global context')
    axioms = re.findall(r'Axioms:\n((?:.+\n)+?)(?:\n|$)', log_all)
    ctx.obligations += len(theorems)
    if ok_all:
        if closed < len(theorems):
            ctx.broken.append('assumption audit: %d of %d property theorems are closed under the global context; axioms reported: %s'
                              % (closed, len(theorems), axioms))
            ok_all = False
            ctx.discharged += closed
        else:
            ctx.discharged += len(theorems)
    return ok_all


def step_coqchk(ctx, pid):
    """thorough tier: re-check the compiled property module and everything it depends on with the independent checker coqchk,
    and read its context summary (axioms, type-in-type, unsafe fixpoints, assumed positivity)"""
    rc, out = sh('timeout 1500 coqchk -silent -o -Q theories Peppi Peppi.Properties.%s' % pid, cwd=COQ, timeout=1600)
    ctx.obligations += 1
    summary = out[out.find('CONTEXT SUMMARY'):] if 'CONTEXT SUMMARY' in out else out[-600:]
    clean = (rc == 0 and all(('* %s: <none>' % k) in summary for k in
                             ('Axioms', 'Constants/Inductives relying on type-in-type', 'Constants/Inductives relying on unsafe (co)fixpoints',
                              'Inductives whose positivity is assumed')))
    ctx.note('coqchk: %s' % ('modules re-checked; axioms <none>; no type-in-type / unsafe fixpoints / assumed positivity' if clean else summary[-400:].replace('\n', ' ')))
    if not clean:
        ctx.broken.append('coqchk: independent re-check of Peppi.Properties.%s failed or reports assumptions: %s' % (pid, summary[-400:].replace('\n', ' ')))
        return False
    ctx.discharged += 1
    return True


def step_audit(ctx):
    bad = []
    for root, _, files in os.walk(os.path.join(COQ, 'theories')):
        for f in files:
            if not f.endswith('.v'):
                continue
            p = os.path.join(root, f)
            txt = open(p).read()
            # strip comments
            txt2 = re.sub(r'\(\*.*?\*\)', '', txt, flags=re.S)
            for m in FORBIDDEN.finditer(txt2):
                line = txt2[:m.start()].count('\n') + 1
                # Variables/Hypotheses are allowed inside Sections only
                if m.group(0).split()[0] in ('Variable', 'Variables', 'Hypothesis', 'Hypotheses'):
                    before = txt2[:m.start()]
                    if len(re.findall(r'^\s*Section\s', before, flags=re.M)) > len(re.findall(r'^\s*End\s', before, flags=re.M)):
                        continue
                if 'translator_failed' in txt2:
                    continue
                bad.append('%s:%d %s' % (os.path.relpath(p, VERIF), line, m.group(0)))
    proj = open(os.path.join(COQ, '_CoqProject')).read()
    for flag in ('-type-in-type', '-impredicative-set', '-vos', '-vok'):
        if flag in proj:
            bad.append('_CoqProject: ' + flag)
    ctx.obligations += 1
    if bad:
        ctx.broken.append('source audit: forbidden constructs: %s' % bad[:10])
        ctx.note('audit FAILED: %s' % bad[:10])
        return False
    ctx.discharged += 1
    return True


def step_harness(ctx, release=False):
    with lock('cargo'):
        # keep the lock file in step with /repo's, then build against the working tree
        cmd = 'cargo build --offline' + (' --release' if release else '')
        rc, out = sh(cmd, cwd=os.path.join(VERIF, 'harness'), timeout=1500,
                     env={'RUSTFLAGS': os.environ.get('RUSTFLAGS', '')})
        if rc != 0:
            ctx.broken.append('harness build failed: %s' % out[-600:])
            ctx.note('harness build FAILED: %s' % out[-800:])
            return False
    return True


def newest(paths):
    t = 0
    for p in paths:
        if os.path.isdir(p):
            for root, _, files in os.walk(p):
                for f in files:
                    if f.endswith(('.v', '.ml', '.sh')):
                        t = max(t, os.path.getmtime(os.path.join(root, f)))
        elif os.path.exists(p):
            t = max(t, os.path.getmtime(p))
    return t


def step_modelrun(ctx):
    with lock('extract'):
        src = newest([os.path.join(COQ, 'theories'), os.path.join(COQ, 'extract'), os.path.join(VERIF, 'modelrun')])
        if os.path.exists(MODELRUN) and os.path.getmtime(MODELRUN) >= src:
            return True
        # the model files must be compiled first
        rc, out = sh('timeout 1500 make -j16 theories/Model/Api.vo', cwd=COQ, timeout=1600)
        if rc != 0:
            ctx.broken.append('model build failed: %s' % out[-600:])
            ctx.note('model build FAILED: %s' % out[-600:])
            return False
        rc, out = sh([os.path.join(VERIF, 'modelrun', 'build.sh')], timeout=900)
        if rc != 0:
            ctx.broken.append('extraction/model runner build failed: %s' % out[-600:])
            ctx.note('modelrun build FAILED: %s' % out[-800:])
            return False
    return True


def run_model(mode, cases, batch_timeout=900):
    """same protocol as pvh; the model runner needs an unlimited stack (Coq list functions are not tail recursive).
    A batch that exceeds its time budget is split; a single case that does (the extracted model counts in unary in a few
    places) is reported as UNMODELLED, i.e. left out of the comparison and counted, never turned into a verdict."""
    import tempfile
    os.makedirs(os.path.join(WORK, 'cases'), exist_ok=True)
    fd, path = tempfile.mkstemp(prefix='m_', suffix='.cases', dir=os.path.join(WORK, 'cases'))
    with os.fdopen(fd, 'w') as f:
        for cid, fields in cases:
            f.write(cid + ' ' + ' '.join(fields) + '\n')
    try:
        try:
            p = subprocess.run('ulimit -s unlimited; exec %s %s %s' % (MODELRUN, mode, path), shell=True,
                               capture_output=True, text=True, timeout=batch_timeout)
        except subprocess.TimeoutExpired:
            if len(cases) == 1:
                return {cases[0][0]: ['UNMODELLED model-timeout']}
            half = len(cases) // 2
            t = max(60, batch_timeout // 3)
            res = run_model(mode, cases[:half], t)
            res.update(run_model(mode, cases[half:], t))
            return res
        blocks, order, ended = R.parse_blocks(p.stdout)
        if not ended:
            raise RuntimeError('model runner died: %s' % p.stderr[-500:])
        return blocks
    finally:
        os.unlink(path)


def shard(cases, n=16):
    k = max(1, (len(cases) + n - 1) // n)
    return [cases[i:i + k] for i in range(0, len(cases), k)]


def run_parallel(fn, mode, cases, n=16, **kw):
    from concurrent.futures import ThreadPoolExecutor
    res = {}
    shards = shard(cases, n)
    with ThreadPoolExecutor(max_workers=n) as ex:
        for r in ex.map(lambda s: fn(mode, s, **kw), shards):
            res.update(r)
    return res


class Corr:
    """result of a correspondence / oracle run"""

    def __init__(self):
        self.evaluations = 0
        self.hashes = set()
        self.nontrivial = 0
        self.samples = []
        self.disagreements = []   # (case id, description, replay dict)
        self.oracle_failures = []  # (case id, description, replay dict)
        self.distribution = {}
        self.rule = ''
        self.exhaustive = False

    def count(self, key, k=1):
        self.distribution[key] = self.distribution.get(key, 0) + k

    def seen(self, case_repr, nontrivial=True):
        self.evaluations += 1
        h = hashlib.sha256(case_repr.encode() if isinstance(case_repr, str) else case_repr).hexdigest()
        if h not in self.hashes:
            self.hashes.add(h)
            if nontrivial:
                self.nontrivial += 1

    def sample(self, s, limit=6):
        if len(self.samples) < limit:
            self.samples.append(s)


def load_known():
    p = os.path.join(VERIF, 'known_findings.json')
    try:
        return json.load(open(p))
    except Exception:
        return {'known': [], 'fixed': []}


def write_replay(ctx, kind, payload):
    os.makedirs(os.path.join(VERIF, 'replays'), exist_ok=True)
    body = json.dumps(payload, indent=1, sort_keys=True)
    h = hashlib.sha256(body.encode()).hexdigest()[:12]
    path = os.path.join(VERIF, 'replays', '%s-%s-%s.json' % (ctx.pid, kind, h))
    with open(path, 'w') as f:
        f.write(body)
    return path


def finish(ctx, corr, theorems, level_text, extra=None):
    """decide, write evidence, print VIOLATION lines, exit"""
    known = load_known()
    violations = []
    printed_known = set()
    # 1. concrete failing inputs found by the spec-level oracle on the implementation
    for cid, desc, rep in corr.oracle_failures:
        kn = [k for k in known.get('known', []) if k.get('property') == ctx.pid and k.get('match') and k['match'] in desc]
        if kn:
            if kn[0]['match'] not in printed_known:      # one line per listed finding, however many inputs exhibit it
                printed_known.add(kn[0]['match'])
                print('KNOWN-FINDING: property=%s %s' % (ctx.pid, kn[0].get('what', desc)))
            continue
        violations.append(('input', cid, desc, rep))
    # 2. broken obligations / correspondence with no failing input
    broken = list(ctx.broken)
    for cid, desc, rep in corr.disagreements:
        broken.append('correspondence: model and implementation differ on %s: %s' % (cid, desc))
    lines = []
    if violations:
        # report the smallest failing input
        # (among those that carry their input; a failure recorded without its input only when there is no other)
        has_input = lambda rep: any(k in rep for k in ('fields', 'replay_hex', 'input_hex', 'archive_hex', 'full_replay_hex', 'bytes'))
        violations.sort(key=lambda v: (0 if has_input(v[3]) else 1, len(json.dumps(v[3]))))
        kind, cid, desc, rep = violations[0]
        rep = dict(rep)
        rep.update({'property': ctx.pid, 'case': cid, 'what': desc, 'broken_obligations': broken,
                    'other_failing_cases': [v[1] for v in violations[1:20]]})
        path = write_replay(ctx, 'input', rep)
        lines.append('VIOLATION property=%s replay=%s' % (ctx.pid, path))
    elif broken:
        rep = {'property': ctx.pid, 'no_failing_input_found': True, 'no_longer_checks': broken,
               'searched': {'evaluations': corr.evaluations, 'rule': corr.rule},
               'first_disagreements': [d[2] for d in corr.disagreements[:3]]}
        path = write_replay(ctx, 'obligation', rep)
        lines.append('VIOLATION property=%s replay=%s no-failing-input-found' % (ctx.pid, path))
    wall = time.time() - ctx.t0
    ev = {
        'property_id': ctx.pid,
        'tier': ctx.tier,
        'seed': ctx.seed,
        'level': 'proof',
        'coverage': {
            'obligations': ctx.obligations,
            'discharged': ctx.discharged,
            'checker_cmd': 'cd /verif/coq && make theories/Properties/%s.vo  (coqc 8.16.1, full .vo build; Print Assumptions under every property theorem)' % ctx.pid,
            'trusted_base': TRUSTED_BASE,
            'theorems': theorems,
            'evaluations': corr.evaluations,
            'distinct_nontrivial': corr.nontrivial,
            'rule': corr.rule,
            'samples': corr.samples[:8] or ['(no correspondence cases in this run)'],
            'exhaustive': corr.exhaustive,
            'input_distribution': corr.distribution,
            'translator': ctx.translator,
            'correspondence_disagreements': len(corr.disagreements),
            'oracle_failures': len(corr.oracle_failures),
            'no_longer_checks': broken,
            'explanation': level_text,
        },
        'assumptions': TRUSTED_BASE,
        'wall_s': round(wall, 2),
        'violations': len(lines),
    }
    if extra:
        ev['coverage'].update(extra)
    os.makedirs(os.path.join(VERIF, 'evidence'), exist_ok=True)
    with open(os.path.join(VERIF, 'evidence', ctx.pid + '.json'), 'w') as f:
        json.dump(ev, f, indent=1)
    for l in lines:
        print(l)
    print('[%s] %s tier=%s seed=%d obligations=%d/%d corr.evaluations=%d distinct=%d wall=%.1fs'
          % (ctx.pid, 'FAIL' if lines else 'PASS', ctx.tier, ctx.seed, ctx.discharged, ctx.obligations,
             corr.evaluations, corr.nontrivial, wall), flush=True)
    sys.exit(1 if lines else 0)
