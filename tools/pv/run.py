"""Running the Rust harness (pvh) and the extracted model on case files."""
import os, subprocess, tempfile, hashlib

VERIF = os.path.dirname(os.path.dirname(os.path.dirname(os.path.abspath(__file__))))
WORK = os.path.join(VERIF, '.work')
PVH_DEBUG = os.path.join(WORK, 'cargo-target', 'debug', 'pvh')
PVH_RELEASE = os.path.join(WORK, 'cargo-target', 'release', 'pvh')

def hx(b): return b.hex() if b else '-'

def parse_blocks(text):
    """'== id' blocks -> dict id -> list of lines; returns (dict, order, ended)"""
    res = {}; order = []; cur = None; ended = False
    for line in text.split('\n'):
        if line.startswith('== '):
            cur = line[3:].strip()
            if cur == 'END':
                ended = True; cur = None
            else:
                res[cur] = []; order.append(cur)
        elif cur is not None and line != '':
            res[cur].append(line)
    return res, order, ended

def run_pvh(mode, cases, timeout_ms=8000, binary=None, batch_timeout=600):
    """cases: list of (id, [fields]); returns dict id -> list of lines.
    A process abort (stack overflow, abort) marks the case running at that time as ABORT and continues."""
    binary = binary or PVH_DEBUG
    os.makedirs(os.path.join(WORK, 'cases'), exist_ok=True)
    results = {}
    pending = list(cases)
    while pending:
        fd, path = tempfile.mkstemp(prefix='c_', suffix='.cases', dir=os.path.join(WORK, 'cases'))
        with os.fdopen(fd, 'w') as f:
            for cid, fields in pending:
                f.write(cid + ' ' + ' '.join(fields) + '\n')
        try:
            p = subprocess.run([binary, mode, path, str(timeout_ms)], capture_output=True, text=True,
                               timeout=batch_timeout)
            out = p.stdout
        except subprocess.TimeoutExpired as e:
            out = (e.stdout or b'').decode() if isinstance(e.stdout, bytes) else (e.stdout or '')
        finally:
            os.unlink(path)
        blocks, order, ended = parse_blocks(out)
        results.update(blocks)
        if ended:
            break
        # the process died while running the last started case
        if not order:
            raise RuntimeError('pvh produced no output: ' + (p.stderr[:500] if 'p' in dir() else ''))
        dead = order[-1]
        results[dead] = ['ABORT']
        idx = [c[0] for c in pending].index(dead)
        pending = pending[idx + 1:]
    return results

def digest(lines):
    return hashlib.sha256('\n'.join(lines).encode()).hexdigest()[:16]
