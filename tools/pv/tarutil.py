"""minimal tar block reader/writer (GNU headers with zeroed metadata, as peppi's writer produces)"""
import struct, json


def parse(arch):
    out = []
    pos = 0
    while pos + 512 <= len(arch):
        h = arch[pos:pos + 512]
        if h == bytes(512):
            break
        name = h[:100].split(b'\0')[0]
        size = int(h[124:135], 8)
        out.append((name, arch[pos + 512:pos + 512 + size], h))
        pos += 512 + ((size + 511) // 512) * 512
    return out


def header(name, size):
    h = bytearray(512)
    h[:len(name)] = name
    h[100:108] = b'0000644\0'
    h[124:136] = b'%011o\0' % size
    h[136:148] = b'%011o\0' % 0
    h[148:156] = b' ' * 8
    h[257:265] = b'ustar  \0'
    ck = sum(h)
    h[148:156] = b'%07o\0' % ck
    return bytes(h)


def build(entries):
    out = b''
    for name, content in entries:
        out += header(name, len(content)) + content + bytes((512 - len(content) % 512) % 512)
    return out + bytes(1024)


def cjson_of_py(o):
    """the harness's canonical JSON text for a parsed JSON document (floats are f32 renderings)"""
    if o is None: return 'null'
    if o is True: return 'true'
    if o is False: return 'false'
    if isinstance(o, int): return str(o)
    if isinstance(o, float):
        return 'f%d' % struct.unpack('>I', struct.pack('>f', o))[0]
    if isinstance(o, str): return '"' + o.encode('utf-8').hex() + '"'
    if isinstance(o, list): return '[' + ','.join(cjson_of_py(x) for x in o) + ']'
    if isinstance(o, dict): return '{' + ','.join('"' + k.encode('utf-8').hex() + '":' + cjson_of_py(v) for k, v in o.items()) + '}'
    raise ValueError(o)
