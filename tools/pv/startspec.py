"""Independent (Python) transcription of the Slippi spec for Game Start / Game End: offsets are those of the spec
(counted from the command byte, so block offset = spec offset - 1).  Produces the canonical JSON text of
harness/src/dump.rs for what the library must expose."""
import struct

def hexs(b): return '"' + b.hex() + '"'
def jstr(s): return hexs(s.encode() if isinstance(s, str) else s)
def f32(bits):
    return 'null' if (bits >> 23) & 0xff == 0xff else 'f%d' % bits
def obj(pairs): return '{' + ','.join(jstr(k) + ':' + v for k, v in pairs) + '}'
def arr(items): return '[' + ','.join(items) + ']'
def i8(x): return x - 256 if x >= 128 else x

PORTS = ['P1', 'P2', 'P3', 'P4']
PTYPE = {0: 'Human', 1: 'Cpu', 2: 'Demo'}
FIX = {1: 'Ucf', 2: 'Arduino'}
LANG = {0: 'Japanese', 1: 'English'}
METHOD = {0: 'Unresolved', 1: 'Time', 2: 'Game', 3: 'Resolved', 7: 'NoContest'}

class Unknown(Exception): pass
class Invalid(Exception): pass

def sjis(b):
    """single-byte Shift-JIS (WHATWG); anything else is outside this oracle"""
    b = b.split(b'\0')[0]
    out = ''
    for x in b:
        if x <= 0x80: out += chr(x)
        elif 0xa1 <= x <= 0xdf: out += chr(0xff61 + x - 0xa1)
        elif x == 0xa0 or x >= 0xfd: raise Invalid()
        else: raise Unknown()
    return out.encode('utf-8')

def nul_utf8(b, dflt):
    i = b.find(b'\0')
    s = b[:i] if i >= 0 else b[:dflt]
    try:
        s.decode('utf-8')
    except UnicodeDecodeError:
        raise Invalid()
    return s

# spec offsets (command byte = 0)
def start_json(blk):
    n = len(blk)
    if n < 320: raise Invalid()
    sizes = [320, 352, 416, 417, 418, 420, 584, 700, 701, 760]
    # every optional tail is attempted as soon as a byte remains, and must then be complete
    present = [n > s for s in sizes[:-1]]
    for s0, s1 in zip(sizes[:-1], sizes[1:]):
        if s0 < n < s1: raise Invalid()
    def u8(o): return blk[o - 1]
    def be(o, w): return int.from_bytes(blk[o - 1:o - 1 + w], 'big')
    teams = u8(0xD) != 0
    players = []
    for p in range(4):
        o = 0x65 + 0x24 * p
        ty = u8(o + 1)
        pairs = [('port', jstr(PORTS[p])), ('character', str(u8(o))), ('type', jstr(PTYPE.get(ty, '?'))), ('stocks', str(u8(o + 2))),
                 ('costume', str(u8(o + 3))),
                 ('team', obj([('color', str(u8(o + 9))), ('shade', str(u8(o + 7)))]) if teams else 'null'),
                 ('handicap', str(u8(o + 8))), ('bitfield', str(u8(o + 0xC))),
                 ('cpu_level', str(u8(o + 0xF)) if ty == 1 else 'null'),
                 ('offense_ratio', f32(be(o + 0x18, 4))), ('defense_ratio', f32(be(o + 0x1C, 4))), ('model_scale', f32(be(o + 0x20, 4)))]
        if present[0]:
            db, sd = be(0x141 + 8 * p, 4), be(0x145 + 8 * p, 4)
            for x in (db, sd):
                if x not in (0, 1, 2): raise Invalid()
            pairs.append(('ucf', obj([('dash_back', jstr(FIX[db]) if db else 'null'), ('shield_drop', jstr(FIX[sd]) if sd else 'null')])))
        if present[1]:
            pairs.append(('name_tag', hexs(sjis(blk[0x161 - 1 + 16 * p:0x161 - 1 + 16 * p + 16]))))
        if present[5]:
            name = sjis(blk[0x1A5 - 1 + 31 * p:0x1A5 - 1 + 31 * p + 31])
            code = sjis(blk[0x221 - 1 + 10 * p:0x221 - 1 + 10 * p + 10])
            np = [('name', hexs(name)), ('code', hexs(code))]
            if present[6]:
                np.append(('suid', hexs(nul_utf8(blk[0x249 - 1 + 29 * p:0x249 - 1 + 29 * p + 29], 28))))
            pairs.append(('netplay', obj(np)))
        if ty in PTYPE:
            players.append(obj(pairs))
    out = [('slippi', obj([('version', arr([str(u8(1)), str(u8(2)), str(u8(3))]))])),
           ('bitfield', arr([str(u8(5 + i)) for i in range(4)])),
           ('is_raining_bombs', 'true' if u8(0xB) else 'false'),
           ('is_teams', 'true' if teams else 'false'),
           ('item_spawn_frequency', str(i8(u8(0x10)))), ('self_destruct_score', str(i8(u8(0x11)))),
           ('stage', str(be(0x13, 2))), ('timer', str(be(0x15, 4))),
           ('item_spawn_bitfield', arr([str(u8(0x28 + i)) for i in range(5)])),
           ('damage_ratio', f32(be(0x35, 4))),
           ('players', arr(players)), ('random_seed', str(be(0x13D, 4)))]
    if present[2]: out.append(('is_pal', 'true' if u8(0x1A1) else 'false'))
    if present[3]: out.append(('is_frozen_ps', 'true' if u8(0x1A2) else 'false'))
    if present[4]: out.append(('scene', obj([('minor', str(u8(0x1A3))), ('major', str(u8(0x1A4)))])))
    if present[7]:
        l = u8(0x2BD)
        if l not in LANG: raise Invalid()
        out.append(('language', jstr(LANG[l])))
    if present[8]:
        mid = nul_utf8(blk[0x2BE - 1:0x2BE - 1 + 51], 50)
        out.append(('match', obj([('id', hexs(mid)), ('game', str(be(0x2F1, 4))), ('tiebreaker', str(be(0x2F5, 4)))])))
    return obj(out)

def end_json(blk):
    n = len(blk)
    if n < 1 or blk[0] not in METHOD: raise Invalid()
    out = [('method', jstr(METHOD[blk[0]]))]
    if n > 1:
        x = blk[1]
        if x == 255: out.append(('lras_initiator', 'null'))
        elif x < 4: out.append(('lras_initiator', jstr(PORTS[x])))
        else: raise Invalid()
    if n > 2:
        if n < 6: raise Invalid()
        pl = []
        for p in range(4):
            x = blk[2 + p]
            if x == 255: continue
            if x > 3: raise Invalid()
            pl.append(obj([('port', jstr(PORTS[p])), ('placement', str(x))]))
        out.append(('players', arr(pl)))
    return obj(out)
