"""C06 -- reading never panics, aborts or hangs, whatever bytes it is given"""
import random
from .. import core, run as R, synth
from .readerlib import both_modes, fixtures, readsched_corr

ID = 'C06'
TARGETS = ['theories/Properties/C06.vo']
THEOREMS = core.theorems_of(ID)
LEVEL = ('total reader model in which every assert/unwrap/index of the Rust reader is an explicit Panic branch and the loops run on fuel; proved (Properties/C06.v): for EVERY byte string and option set slp_read returns a value or an error, never Panic or Fuel, and only consumes input; each incremental call (parse_header/start/event/metadata) is total under the state invariant parse_start establishes and parse_event preserves, and a successful event call consumes at least one byte; read errors injected by the underlying stream at any read call surface as I/O errors, never as values built from partial data (Model/Frag.v); the model predicts the outcome class of the real reader on structure-aware malformed inputs under every option combination and through the incremental API; aborts and hangs are observed in child processes (real stack and allocator behaviour are outside the model: partial)')


def run(ctx):
    rng = random.Random(ctx.seed)
    corr = core.Corr()
    thorough = ctx.tier == 'thorough'
    corr.rule = ('malformed streams derived from well-formed replays: event delete/duplicate/swap, wrong frame id, port, follower flag, events illegal for the '
                 'version, payload-table edits, declared raw length edits, splitter blocks, deep/invalid metadata, start/end block corruption, header flips, '
                 'random byte flips, truncation, insertion of random bytes; plus random garbage and mutated fixtures; each under the 4 option sets and a sample '
                 'through the incremental API. Oracle: outcome is OK or ERR. Non-trivial = rejected or accepted with a different game than the source replay.')
    muts = []
    n = 8000 if thorough else 900
    while len(muts) < n:
        r = synth.gen_wf(rng, nframes=rng.choice([0, 1, 2, 4]))
        try:
            b, kind = synth.mutate_structural(rng, r)
        except Exception:
            continue
        muts.append((kind.rstrip('0123456789'), b))
    for _ in range(60):
        muts.append(('garbage', bytes(rng.randrange(256) for _ in range(rng.choice([0, 1, 10, 15, 16, 40, 400])))))
        muts.append(('header+garbage', synth.HEADER + bytes(rng.randrange(256) for _ in range(rng.choice([0, 3, 4, 5, 60])))))
    for name, b in fixtures(120000, wellformed=False):
        for _ in range(6 if thorough else 2):
            x = bytearray(b)
            for _ in range(rng.randrange(1, 6)):
                x[rng.randrange(len(x))] = rng.randrange(256)
            muts.append(('fixture-flip', bytes(x)))
            muts.append(('fixture-cut', b[:rng.randrange(len(b))]))
    cases = []
    for i, (k, b) in enumerate(muts):
        for o in ['-', 's', 'h', 'sh']:
            cases.append(('m%d_%s' % (i, o.replace('-', 'n')), [b.hex() or '-', o, '-', '-']))
    impl, model = both_modes(ctx, 'read', cases, corr, parallel=16, timeout_ms=20000, hashes=True)
    inc = [('j%d' % i, [b.hex() or '-', rng.choice(['-', '1', '7']), '0']) for i, (k, b) in enumerate(muts) if i % 3 == 0]
    impl2, model2 = both_modes(ctx, 'incr', inc, corr, parallel=16, timeout_ms=20000)
    for cid, f in cases + inc:
        res = (impl if cid[0] == 'm' else impl2).get(cid) or ['ABORT']
        i = int(cid[1:].split('_')[0])
        corr.count(muts[i][0])
        head = res[0].split()[0] if cid[0] == 'm' else ('PANIC' if any(l.startswith(('PANIC', 'ABORT', 'HANG', 'SKIPPED-AFTER-HANGS')) for l in res) else 'OK')
        corr.seen(f[0] + f[1], nontrivial=(head != 'OK'))
        corr.count('outcome_' + head)
        if head in ('PANIC', 'ABORT', 'HANG', 'SKIPPED-AFTER-HANGS') or (cid[0] == 'j' and any(('PANIC' in l or 'ABORT' in l or 'HANG' in l) for l in res)):
            corr.oracle_failures.append((cid, 'reader %s on a %s input (%d bytes, opts %s): %s' % (head, muts[i][0], len(muts[i][1]), f[1], [l[:160] for l in res[:3]]),
                                         {'mode': 'read' if cid[0] == 'm' else 'incr', 'fields': f, 'input_hex': f[0], 'kind': muts[i][0],
                                          'rerun': 'pvh %s <file: x <input_hex> %s ...>' % ('read' if cid[0] == 'm' else 'incr', f[1])}))
    corr.sample({'kind': muts[0][0], 'bytes': len(muts[0][1]), 'hex_prefix': muts[0][1][:48].hex()})
    corr.sample({'kind': muts[7][0], 'bytes': len(muts[7][1])})
    # read errors injected at arbitrary read calls, with short reads and Interrupted retries, on well-formed and malformed streams:
    # the model (Frag.run_frag) predicts outcome and consumed bytes; the oracle is no PANIC/ABORT/HANG
    fs_streams = [synth.emit(synth.gen_wf(rng, nframes=rng.choice([0, 1, 3]))) for _ in range(60 if thorough else 15)] + [b for k, b in muts[:(400 if thorough else 60)] if b and len(b) <= 6000][:(200 if thorough else 40)]   # the fragment-level model counts in unary: small streams only
    impl3, _ = readsched_corr(ctx, corr, rng, fs_streams, 3, faults=True)
    for cid, res in impl3.items():
        if any(l.startswith(('PANIC', 'ABORT', 'HANG', 'SKIPPED-AFTER-HANGS')) for l in (res or ['ABORT'])):
            corr.oracle_failures.append((cid, 'reader %s on a stream read through short reads / injected faults (case %s of the read-schedule run)' % ((res or ['ABORT'])[0], cid),
                                         {'mode': 'readsched', 'case': cid, 'fields': getattr(corr, 'sched_cases', {}).get(cid), 'rerun': 'pvh readsched <file: x <fields...>>'}))
    # a fault at EVERY read call of small replays, under every option set: the read must fail (never a game from partial reads)
    small = [synth.emit(synth.gen_wf(rng, nframes=rng.choice([0, 1, 2]), gecko=0)) for _ in range(6 if thorough else 3)]
    sweep = []
    for i, b in enumerate(small):
        for o in ['-', 's', 'h', 'sh']:
            sweep.append(('n%d_%s' % (i, o.replace('-', 'n')), [b.hex(), o, ','.join(['g100000'] * 4000)]))
    clean = core.run_parallel(R.run_pvh, 'readsched', sweep, n=8)
    fcases = []
    for cid, f in sweep:
        d = {l.split('=', 1)[0]: l.split('=', 1)[1] for l in clean.get(cid, []) if '=' in l}
        if (clean.get(cid) or ['?'])[0] != 'OK' or 'err.sched_left' not in d:
            continue          # (skip_frames on an unfinished replay is an error anyway)
        ncalls = 4000 - int(d['err.sched_left'])
        for k in range(ncalls):
            fcases.append(('%s_f%d' % (cid, k), [f[0], f[1], ','.join(['g100000'] * k + ['f'])]))
    fres = core.run_parallel(R.run_pvh, 'readsched', fcases, n=16)
    for cid, f in fcases:
        corr.seen('faultsweep' + cid + f[0][:40]); corr.count('fault_at_every_read_call')
        res = fres.get(cid) or ['ABORT']
        if not res[0].startswith('ERR'):
            corr.oracle_failures.append((cid, 'a read error injected at read call %s did not surface as an error: %s' % (cid.rsplit('_f', 1)[1], res[0]),
                                         {'mode': 'readsched', 'fields': f, 'input_hex': f[0], 'opts': f[1], 'rerun': 'pvh readsched <file: x <input_hex> %s <sched>>' % f[1]}))
    return corr
