"""C02 -- .slp -> .slpp -> .slp is lossless under every compression option"""
import random
from .. import core, run as R, synth
from .readerlib import dump_dict

ID = 'C02'
TARGETS = ['theories/Properties/C02.vo']
THEOREMS = core.theorems_of(ID)
LEVEL = ('entry-level model of the .slpp writer/reader with serde_json and the Arrow IPC writer/reader as parameters satisfying dec(enc x) = x for each compression '
         '(hypotheses of the theorem, named in the trusted base); proved: what the writer emits for a coherent game is read back as the same game with its hash and '
         'quirks, for games with no frames / metadata / end / gecko alike; together with C01 on the model this gives the identical .slp. The real arrow2/LZ4/ZSTD/tar/'
         'serde code is exercised by the differential run on thousands of generated games (partial: the codecs are not verified)')


def run(ctx):
    rng = random.Random(ctx.seed)
    corr = core.Corr()
    thorough = ctx.tier == 'thorough'
    corr.rule = ('generated well-formed replays of every layout version (directed: zero frames, no metadata, no end, no gecko, doubled end, absent characters, '
                 'rollbacks, items) x {none, LZ4, ZSTD} x {hash requested or not}: slippi::read -> peppi::write -> peppi::read -> slippi::write; oracle: output bytes '
                 '== input bytes, hash and quirks after the trip == before; plus metadata nested 1..200 deep: accepted implies the trip is lossless')
    reps = []
    for v in synth.BOUNDARY_VERSIONS:
        for shape in (['zero', 'nometa', 'noend', 'nogecko', 'double'] if thorough else [rng.choice(['zero', 'nometa', 'noend', 'double'])]):
            kw = dict(v=v, nframes=3, end='single', metadata={'k': 'v'}, gecko='rand')
            if shape == 'zero': kw['nframes'] = 0
            if shape == 'nometa': kw['metadata'] = None
            if shape == 'noend': kw['end'] = None
            if shape == 'nogecko': kw['gecko'] = 0
            if shape == 'double': kw['end'] = 'double'
            reps.append(synth.gen_wf(rng, **kw))
    while len(reps) < (1500 if thorough else 150):
        reps.append(synth.gen_wf(rng))
    cases = []; info = []
    for i, r in enumerate(reps):
        b = synth.emit(r).hex()
        for c in 'nlz':
            h = rng.choice(['-', 'h'])
            cid = 'c%d_%s' % (i, c)
            cases.append((cid, [b, h, c, '-'])); info.append((cid, i, c, h))
    res = core.run_parallel(R.run_pvh, 'slpp', cases, n=16, timeout_ms=60000)
    hs = core.run_parallel(R.run_pvh, 'xxh', [('x%d' % i, [synth.emit(r).hex()]) for i, r in enumerate(reps)], n=8)
    cd = dict(cases)
    for cid, i, c, h in info:
        r = reps[i]
        corr.seen(cd[cid][0] + c + h); corr.count('compression_' + c); corr.count('v%d.%d' % r.ver[:2])
        out = res.get(cid) or ['?']
        d = dump_dict(out)
        def fail(what):
            corr.oracle_failures.append((cid, 'version %d.%d.%d, %s: %s' % (r.ver + ({'n': 'no compression', 'l': 'LZ4', 'z': 'ZSTD'}[c], what)),
                                         {'mode': 'slpp', 'fields': cd[cid], 'replay_hex': cd[cid][0], 'rerun': 'pvh slpp <file: x <replay_hex> %s %s ->' % (h, c)}))
        if out[0] != 'OK':
            fail('well-formed replay rejected / conversion failed: %s' % [l[:120] for l in out[:2]]); continue
        if not d.get('slpp.write', '').startswith('OK'):
            fail('.slpp writer failed: %s' % d.get('slpp.write', '')[:120]); continue
        if d.get('slpp.read') != 'OK':
            fail('.slpp reader failed on the writer\'s output: %s' % d.get('err.msg', d.get('slpp.read'))); continue
        if d.get('slp2_identical') != '1':
            fail('the game read back from .slpp does not serialise to the original .slp (%s)' % d.get('slp2', d.get('slp2.len'))); continue
        exp_hash = (hs.get('x%d' % i) or ['?'])[0] if h == 'h' else 'none'
        if d.get('g2.hash') != exp_hash:
            fail('hash after the trip is %s, before it was %s' % (d.get('g2.hash'), exp_hash)); continue
        exp_q = '1' if r.end == 'double' else 'none'
        if d.get('g2.quirks') != exp_q:
            fail('quirks after the trip %s, before %s' % (d.get('g2.quirks'), exp_q)); continue
    # the deepest metadata nesting: whatever the .slp reader accepts must survive the trip (the JSON reader of the .slpp side has its own
    # recursion limit, so the two limits must fit together); a depth the .slp reader refuses is outside the property
    deep = []
    for dpt in (1, 64, 126, 127, 128, 129, 200):
        r = synth.gen_wf(rng, rng.choice(synth.BOUNDARY_VERSIONS), nframes=1, gecko=0, metadata=None)
        b = synth.emit(r)
        b = b[:-1] + b'U\x08metadata{' + b'U\x01n{' * (dpt - 1) + b'U\x01xl\x00\x00\x00\x01' + b'}' * (dpt - 1) + b'}' + b'}'
        deep.append(('deep%d' % dpt, [b.hex(), rng.choice(['-', 'h']), rng.choice('nlz'), '-']))
    dres = core.run_parallel(R.run_pvh, 'slpp', deep, n=4, timeout_ms=60000)
    for cid, f in deep:
        corr.seen(cid + f[0][:32] + f[2]); corr.count('deep_metadata')
        out = dres.get(cid) or ['?']
        d = dump_dict(out)
        dpt = int(cid[4:])
        why = None
        if out[0].startswith('ERR'):
            corr.count('deep_metadata_refused_by_slp_reader'); continue      # not an accepted replay: outside this property (C16 checks the limit)
        elif out[0] != 'OK':
            why = 'metadata nested %d deep: %s' % (dpt, [l[:120] for l in out[:2]])
        elif not d.get('slpp.write', '').startswith('OK') or d.get('slpp.read') != 'OK' or d.get('slp2_identical') != '1':
            why = ('metadata nested %d deep is accepted from .slp but does not survive .slp -> .slpp -> .slp: %s'
                   % (dpt, [l[:120] for l in out if l.startswith(('slpp.', 'slp2', 'PANIC', 'ABORT', 'HANG', 'err.'))][:3]))
        if why:
            corr.oracle_failures.append((cid, why, {'mode': 'slpp', 'fields': [f[0][:2000] + '...'] + f[1:], 'replay_hex': f[0],
                                                    'rerun': 'pvh slpp <file: x <replay_hex> %s %s ->' % (f[1], f[2])}))
    corr.sample({'version': list(reps[0].ver), 'frames': len(reps[0].frames), 'compression': 'each of n,l,z'})
    return corr
