"""C09 -- writers refuse versions above the maximum"""
import random, re
from .. import core, run as R, synth
from .common import both

ID = 'C09'
TARGETS = ['theories/Properties/C09.vo']
THEOREMS = core.theorems_of(ID)
LEVEL = ('proved (Properties/C09.v): the regenerated guard is the lexicographic comparison with the regenerated maximum for every version triple; both writer models refuse every game above it; the .slp writer model returns an error ONLY then; differential run of both real writers over a boundary grid and random triples (thorough: all 2^24) on a zero-frame game and on a game with frames')
MAXV = (3, 16, 0)


def base_replay(rng, nframes=0):
    r = synth.gen_wf(rng, (3, 16), nframes=nframes, ports=[(0, False), (1, True)], end='single', metadata={'a': 1}, gecko=0)
    b = synth.emit(r)
    off = 15 + 2 + 3 * len(synth.payload_table(r)) + 1
    assert b[off:off + 3] == bytes([3, 16, 0])
    return b, off


def run(ctx):
    rng = random.Random(ctx.seed)
    corr = core.Corr()
    thorough = ctx.tier == 'thorough'
    corr.rule = ('zero-frame replay with the three version bytes of its Game Start block patched to (a,b,c); read; slippi::write and peppi::write '
                 '(none/LZ4/ZSTD); outcome class per writer compared with the model guard and with the oracle (a,b,c) <= (3,16,0). '
                 'quick: boundary grid + random triples; thorough: run-length encoding over all 2^24 triples (.slp) and majors 3,4 (.slpp)')
    base, off = base_replay(rng)
    trip = [(a, b, c) for a in (0, 1, 2, 3, 4, 255) for b in (0, 15, 16, 17, 255) for c in (0, 1, 255)]
    trip += [(rng.randrange(256), rng.randrange(256), rng.randrange(256)) for _ in range(800 if thorough else 200)]
    trip += [(3, 16, c) for c in range(0, 256, 5)] + [(3, b, 0) for b in range(256)] + [(a, 0, 0) for a in range(256)]
    cases = []
    chunk = 100
    for i in range(0, len(trip), chunk):
        cases.append(('m%d' % i, [base.hex(), str(off), ','.join('%d.%d.%d' % t for t in trip[i:i + chunk])]))
    # the guard must not depend on the game's content: the same boundary grid on a game WITH frames (3.16 layout; the version bytes
    # only select the guard: for triples whose layout differs the reader may refuse, which is reported as such and not judged)
    base2, off2 = base_replay(rng, nframes=2)
    grid2 = [(3, 16, c) for c in (0, 1, 2, 255)] + [(3, b, 0) for b in (16, 17, 200, 255)] + [(a, 0, 0) for a in (4, 5, 100, 255)]
    cases.append(('g0', [base2.hex(), str(off2), ','.join('%d.%d.%d' % t for t in grid2)]))
    impl, model = both(ctx, 'maxver', cases, corr, timeout_ms=120000, parallel=8)
    for cid, f in cases:
        for l in impl.get(cid, []):
            m = re.match(r'(\d+)\.(\d+)\.(\d+) (.*)$', l)
            if not m:
                corr.oracle_failures.append((cid, 'unexpected harness line %r' % l[:100], {'line': l}))
                continue
            t = tuple(int(m.group(i)) for i in (1, 2, 3))
            corr.seen('maxver %s %s' % (cid[0], t))
            if cid[0] == 'g' and m.group(4).startswith('read=ERR'):
                corr.count('with_frames_not_readable_at_this_version'); continue
            want = 'OK' if t <= MAXV else 'ERR'
            exp = 'slp=%s slpp.n=%s slpp.l=%s slpp.z=%s' % (want, want, want, want)
            corr.count('accepted' if want == 'OK' else 'refused')
            if m.group(4) != exp:
                corr.oracle_failures.append((cid, 'version %d.%d.%d: writers gave "%s", the property demands "%s"' % (t + (m.group(4), exp)),
                                             {'mode': 'maxver', 'version': list(t), 'got': m.group(4), 'expected': exp,
                                              'base_replay_hex': base.hex(), 'version_offset': off,
                                              'rerun': 'pvh maxver <file: x <base hex> %d %d.%d.%d>' % ((off,) + t)}))
    corr.sample({'mode': 'maxver', 'version_offset': off, 'triples': cases[0][1][2][:80], 'base_replay_len': len(base)})
    if thorough:
        sw = [('w%d' % a, [base.hex(), str(off), str(a), str(a), '1' if a in (3, 4) else '0']) for a in range(256)]
        impl, model = both(ctx, 'maxsweep', sw, corr, timeout_ms=3000000, parallel=16, binary=R.PVH_RELEASE)
        for cid, f in sw:
            a = int(f[2])
            corr.evaluations += 65536
            lines = impl.get(cid, [])
            ok = 'slp=OK' + (' slpp.n=OK slpp.l=OK slpp.z=OK' if f[4] == '1' else '')
            er = 'slp=ERR' + (' slpp.n=ERR slpp.l=ERR slpp.z=ERR' if f[4] == '1' else '')
            if a < 3:
                exp = ['run from=%d.0.0 n=65536 %s' % (a, ok)]
            elif a == 3:
                k = 16 * 256 + 1
                exp = ['run from=3.0.0 n=%d %s' % (k, ok), 'run from=3.16.1 n=%d %s' % (65536 - k, er)]
            else:
                exp = ['run from=%d.0.0 n=65536 %s' % (a, er)]
            if lines != exp:
                corr.oracle_failures.append((cid, 'major %d: writer outcomes %s, the property demands %s' % (a, lines[:4], exp),
                                             {'mode': 'maxsweep', 'major': a, 'got': lines[:10], 'expected': exp, 'base_replay_hex': base.hex(), 'version_offset': off}))
        corr.exhaustive = True
        corr.count('sweep_triples', 1 << 24)
    return corr
