"""C05 -- Game Start / Game End fields = spec-offset values of the raw blocks"""
import random, struct
from .. import core, run as R, synth, startspec
from .common import both

ID = 'C05'
TARGETS = ['theories/Properties/C05.vo']
THEOREMS = core.theorems_of(ID)
LEVEL = ('hand model of game_start / player / game_end (Model/Start.v) and of the serde renderings (Model/Json.v); proved (Properties/C05.v): the decoders keep the raw blocks, every exposed field is the stated slice of the block, optional tails by length, JSON omits absent options -- and the same statements restated through the read layout regenerated from src/io/slippi/de.rs on every run (offsets, widths, order of reads, tail sizes, per-player geometry), so a moved/swapped/resized read breaks a proof; model tied to the code by a 3-way differential run (implementation, model, independent Python transcription of the spec) incl. a byte-sensitivity sweep; Shift-JIS double-byte names are outside the executable model (partial)')

SIZES = [320, 352, 416, 417, 418, 420, 584, 700, 701, 760]


def mini_replay(start_blk, end_blk, ver=None):
    """smallest replay carrying the two blocks: table, start, end, closing brace"""
    t = [(0x36, len(start_blk)), (0x37, 60), (0x38, 60), (0x39, len(end_blk))]
    raw = bytes([0x35, len(t) * 3 + 1]) + b''.join(bytes([c]) + struct.pack('>H', s) for c, s in t)
    raw += bytes([0x36]) + start_blk + bytes([0x39]) + end_blk
    return synth.wrap(raw, None)


def run(ctx):
    rng = random.Random(ctx.seed)
    corr = core.Corr()
    thorough = ctx.tier == 'thorough'
    corr.rule = ('Game Start / Game End blocks inside a minimal replay (table, start, end): random valid blocks of every length class (10 start, 3 end), '
                 'lengths between classes, random garbage, and a sensitivity sweep flipping every byte of a 760-byte block; the JSON rendering and raw '
                 'bytes from the library are compared with the model and with the Python transcription of the spec offsets')
    blocks = []
    vers = [(0, 1), (1, 0), (1, 3), (1, 5), (2, 0), (3, 7), (3, 9), (3, 11), (3, 12), (3, 14), (3, 16)]
    n = 60 if not thorough else 400
    for v in vers:
        for _ in range(n // 4):
            ports = synth.rand_ports(rng)
            blk = bytearray(synth.start_block(rng, v + (0,), ports, sane=rng.random() < 0.5))
            # teams / bombs / pal flags and sentinels at interesting values
            blk[12] = rng.choice([0, 1, 2, 255]); blk[10] = rng.choice([0, 1, 7])
            blocks.append((bytes(blk), synth.end_block(rng, v + (0,))))
    # lengths between the classes and beyond
    base = synth.start_block(rng, (3, 16, 0), [(0, False), (2, True)])
    for L in [1, 100, 319, 320, 321, 351, 352, 353, 415, 416, 417, 418, 419, 420, 421, 583, 584, 585, 699, 700, 701, 702, 759, 760, 761, 800, 1000]:
        blk = (base + bytes(rng.randrange(256) for _ in range(300)))[:L]
        blocks.append((blk, bytes([2, 255, 0, 1, 255, 255])))
    for eb in [bytes([2]), bytes([7, 255]), bytes([3, 1]), bytes([0, 4]), bytes([1, 2, 0]), bytes([2, 255, 0, 1, 2, 3]), bytes([2, 255, 255, 255, 255, 255]),
               bytes([2, 0, 4, 0, 0, 0]), bytes([9, 255]), bytes([2, 255, 0, 1, 255, 255, 9, 9]), bytes([2, 255, 0, 128, 255, 255])]:
        blocks.append((base, eb))
    # sensitivity sweep: flip each byte of a full block
    stride = 1 if thorough else 3
    for off in range(0, 760, stride):
        b = bytearray(base); b[off] ^= rng.choice([1, 0x80, 0xff])
        blocks.append((bytes(b), bytes([2, 255, 0, 1, 255, 255])))
    for _ in range(40 if not thorough else 300):
        blocks.append((bytes(rng.randrange(256) for _ in range(rng.choice(SIZES))), bytes(rng.randrange(256) for _ in range(rng.choice([1, 2, 6])))))
    cases = [('s%d' % i, [mini_replay(sb, eb).hex(), '-', '-', '-']) for i, (sb, eb) in enumerate(blocks)]
    impl, model = both_filtered(ctx, cases, corr)
    unk = 0
    for (cid, f), (sb, eb) in zip(cases, blocks):
        corr.seen(f[0])
        corr.count('start_len_%d' % len(sb)); corr.count('end_len_%d' % len(eb))
        out = impl.get(cid) or ['<missing>']
        try:
            es = startspec.start_json(sb)
            ee = startspec.end_json(eb)
            exp_ok = True
        except startspec.Invalid:
            exp_ok = False
        except startspec.Unknown:
            unk += 1
            continue
        def fail(what, extra):
            corr.oracle_failures.append((cid, what, dict({'mode': 'read', 'fields': f, 'start_block_hex': sb.hex(), 'end_block_hex': eb.hex(),
                                                          'rerun': 'pvh read <file: x %s - - ->' % f[0][:40]}, **extra)))
        if not exp_ok:
            corr.count('expected_error')
            if not out[0].startswith('ERR'):
                fail('a block the spec parser must reject was accepted: %s' % out[0], {'got': out[:3]})
            continue
        corr.count('expected_ok')
        if out[0] != 'OK':
            fail('valid blocks rejected: %s' % out[:2], {'got': out[:3]}); continue
        d = dict(l.split('=', 1) for l in out if '=' in l)
        if d.get('start.bytes') != sb.hex() or d.get('end.bytes') != eb.hex():
            fail('raw block not retained unchanged', {'start.bytes': d.get('start.bytes', '')[:80], 'end.bytes': d.get('end.bytes')})
        elif d.get('start.json') != es:
            fail('Game Start rendering differs from the spec-offset values: %s' % first_diff(d.get('start.json', ''), es), {'got': d.get('start.json'), 'expected': es})
        elif d.get('end.json') != ee:
            fail('Game End rendering differs from the spec-offset values', {'got': d.get('end.json'), 'expected': ee})
    corr.count('outside_single_byte_shift_jis', unk)
    corr.sample({'start_block_len': len(blocks[0][0]), 'end_block_hex': blocks[0][1].hex(), 'replay_hex_prefix': cases[0][1][0][:120]})
    corr.sample({'sensitivity_case': cases[-50][0], 'replay_len': len(cases[-50][1][0]) // 2})
    return corr


def first_diff(a, b):
    for i, (x, y) in enumerate(zip(a, b)):
        if x != y:
            return 'at char %d: got ...%s expected ...%s' % (i, a[max(0, i - 40):i + 40], b[max(0, i - 40):i + 40])
    return 'length %d vs %d' % (len(a), len(b))


def both_filtered(ctx, cases, corr):
    """like common.both on mode read, but a model answer UNMODELLED (double-byte Shift-JIS) is not a disagreement"""
    impl = core.run_parallel(R.run_pvh, 'read', cases, n=8)
    model = core.run_parallel(core.run_model, 'read', cases, n=8) if getattr(ctx, 'model_ok', True) else {}
    for cid, f in cases:
        a = canon(impl.get(cid)); b = model.get(cid)
        if b is None or (b and b[0] == 'UNMODELLED'):
            continue
        if a != b:
            from .common import first_diff as fd
            corr.disagreements.append((cid, fd(a, b), {'mode': 'read', 'fields': f, 'implementation': a[:30], 'model': b[:30]}))
    return impl, model


def canon(lines):
    out = []
    for l in lines or []:
        if l.startswith('ERR'): l = 'ERR'
        if l.startswith('err.') or l.startswith('panic.'): continue
        out.append(l)
    return out
