"""C17 -- serialising any accepted game gives a self-consistent file and a fixed point"""
import random, struct
from .. import core, run as R, synth
from .readerlib import both_modes, dump_dict

ID = 'C17'
TARGETS = ['theories/Properties/C17.vo']
THEOREMS = core.theorems_of(ID)
LEVEL = ('proved (Properties/C17.v): for the game of EVERY well-formed replay (end/metadata present or missing) the written file is the canonical stream, its header declares exactly the length of its raw element, it re-reads whole to the same game and re-writing is a fixed point; unknown events are no-ops of the event handler in any state; the remaining tolerated irregularities (junk after Game End, permuted events inside a frame) are decided by the differential run: reader/writer models tied to the code by read->write->read->write on irregular replays; oracle on the real library: declared raw length = position of the metadata/closing byte, re-read yields the same game, re-write is byte-identical')


def irregular(rng, n):
    out = []
    while len(out) < n:
        kind = rng.choice(['unknown', 'junk', 'perm', 'noend', 'nometa', 'plain', 'unknown+perm'])
        if kind == 'unknown':
            r = synth.gen_wf(rng); b, _, _ = synth.with_unknown_events(rng, r)
        elif kind == 'junk':
            r = synth.gen_wf(rng, end=rng.choice(['single', 'double'])); b = synth.junk_after_end(rng, r)
        elif kind == 'perm':
            v = rng.choice([x for x in synth.BOUNDARY_VERSIONS if x >= (3, 0)])
            r = synth.gen_wf(rng, v, nframes=rng.choice([2, 4, 6])); b = synth.permute_in_frames(rng, r)
        elif kind == 'unknown+perm':
            v = rng.choice([x for x in synth.BOUNDARY_VERSIONS if x >= (3, 0)])
            r = synth.gen_wf(rng, v, nframes=3); b0 = synth.permute_in_frames(rng, r)
            b = b0  # permutation only changes order; unknown events are covered separately
        elif kind == 'noend':
            r = synth.gen_wf(rng, end=None); b = synth.emit(r)
        elif kind == 'nometa':
            r = synth.gen_wf(rng, metadata=None); b = synth.emit(r)
        else:
            r = synth.gen_wf(rng); b = synth.emit(r)
        out.append((kind, b))
    return out


def run(ctx):
    rng = random.Random(ctx.seed)
    corr = core.Corr()
    thorough = ctx.tier == 'thorough'
    corr.rule = ('replays that are well-formed up to one tolerated irregularity: unknown declared events at random boundaries, extra bytes after Game End, '
                 'shuffled pre/item/post order inside frames (>= 3.0), missing Game End, missing metadata; read -> write -> read -> write on the real library; '
                 'oracle: byte at 15+declared length is the metadata key or the closing brace and is followed by exactly the metadata element, second read = first, '
                 'second write = first write')
    items = irregular(rng, 2500 if thorough else 400)
    cases = [('i%d' % i, [b.hex(), '-']) for i, (k, b) in enumerate(items)]
    impl, model = both_modes(ctx, 'rt', cases, corr, parallel=16, timeout_ms=60000)
    for (cid, f), (kind, b) in zip(cases, items):
        corr.seen(f[0]); corr.count(kind)
        out = impl.get(cid) or ['<missing>']
        d = dump_dict(out)
        def fail(what, extra=None):
            corr.oracle_failures.append((cid, '%s replay: %s' % (kind, what), dict({'mode': 'rt', 'fields': f, 'replay_hex': f[0], 'irregularity': kind,
                                                                              'rerun': 'pvh rt <file: x <replay_hex> ->'}, **(extra or {}))))
        if out[0] != 'OK':
            fail('tolerated irregularity rejected by the reader: %s' % out[0]); continue
        w1 = d.get('write1', '')
        if w1.startswith(('ERR', 'PANIC')) or len(w1) < 32:
            fail('writer failed: %s' % w1[:60]); continue
        w = bytes.fromhex(w1)
        declared = struct.unpack('>I', w[11:15])[0]
        pos = 15 + declared
        if pos >= len(w) or w[pos] not in (0x55, 0x7d) or (w[pos] == 0x7d and pos != len(w) - 1) or (w[pos] == 0x55 and w[pos:pos + 11] != b'U\x08metadata{'):
            fail('declared raw length %d does not end at the metadata key / closing brace (file length %d)' % (declared, len(w)), {'declared': declared, 'file_len': len(w)}); continue
        if d.get('read2') != 'OK':
            fail('written file cannot be read again: %s' % d.get('read2')); continue
        if d.get('same_game') != '1':
            fail('second read yields a different game'); continue
        if d.get('write2_eq') != '1':
            fail('writing the re-read game does not reproduce the written file'); continue
    corr.sample({'irregularity': items[0][0], 'bytes': len(items[0][1]), 'hex_prefix': items[0][1][:40].hex()})
    corr.sample({'irregularity': items[5][0], 'bytes': len(items[5][1])})
    # irregular renderings inside the class of the theorems (Proofs/Irregular2.v): the generator's stream must be the
    # stream the Coq definition describes (emit_irr), the decidable membership test (wf_irreg2_b, proved sound) must
    # accept the generator's description, and the real reader must return the game the theorem promises
    icases = []; ibytes = {}
    for i in range(400 if thorough else 60):
        r = synth.gen_wf(rng, nframes=rng.choice([0, 1, 3, 6]))
        b, ex, ev, j, nsw = synth.irregular_in_class(rng, r)
        cid = 'q%d' % i
        icases.append((cid, synth.irr_case(r, ex, ev, j, '-'))); ibytes[cid] = (b, nsw, len(ex), len(j))
    if getattr(ctx, 'model_ok', True):
        from .readerlib import canon
        from .common import first_diff
        imodel = core.run_parallel(core.run_model, 'emitirr', icases, n=8)
        iimpl = core.run_parallel(R.run_pvh, 'read', [(cid, [ibytes[cid][0].hex(), '-', '-', '-']) for cid, _ in icases], n=8)
        for cid, f in icases:
            b, nsw, nex, nj = ibytes[cid]
            corr.seen('irr' + b.hex()[:200] + str(len(b))); corr.count('irregular_in_class')
            corr.count('irr_swaps' if nsw else 'irr_noswap'); corr.count('irr_extras' if nex else 'irr_noextras'); corr.count('irr_junk' if nj else 'irr_nojunk')
            m = imodel.get(cid) or []
            md = dump_dict(m[:3])
            info = {'mode': 'emitirr', 'fields': [x[:4000] for x in f], 'stream_hex': b.hex(), 'swaps': nsw}
            if any('UNMODELLED' in l for l in m[:5]):
                continue
            if md.get('emit') != b.hex():
                corr.disagreements.append((cid, 'emit_irr of the Coq definition differs from the generated irregular stream', info)); continue
            if md.get('wf') != '1' or md.get('wf_irreg') != '1':
                corr.disagreements.append((cid, 'generated irregular rendering is not in the class of the theorem: wf=%s wf_irreg2_b=%s' % (md.get('wf'), md.get('wf_irreg')), info)); continue
            a = canon(iimpl.get(cid)); bm = m[3:]
            if a != bm:
                corr.oracle_failures.append((cid, 'reader on an irregular rendering does not return the game of the canonical replay: %s' % first_diff(a, bm),
                                             dict(info, rerun='pvh read <file: x <stream_hex> - - ->')))
    return corr
