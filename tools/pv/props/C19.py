"""C19 -- name fields: Shift-JIS up to the first NUL; exact normalisation"""
import random, re
from .. import core, run as R, synth
from .common import both

ID = 'C19'
TARGETS = ['theories/Properties/C19.vo']
THEOREMS = core.theorems_of(ID)
LEVEL = ('fix_char regenerated from src/game/shift_jis.rs and proved equal to the stated map for every code point, idempotent, scalar-valued '
         '(the unwrap cannot fail); NUL truncation proved for an arbitrary strict decoder; the real MeleeString::try_from / to_normalized are '
         'compared with the model on all scalar values and on exhaustive 1-byte / sampled 2-byte sequences x NUL layouts (the Shift-JIS table '
         'itself is an oracle: partial)')


def norm_oracle(c):
    if 0xff01 <= c <= 0xff5e: return c - 0xfee0
    return {0x3000: 0x20, 0x2019: 0x27, 0x201d: 0x22}.get(c, c)


def run(ctx):
    rng = random.Random(ctx.seed)
    corr = core.Corr()
    thorough = ctx.tier == 'thorough'
    corr.rule = ('normalisation: every Unicode scalar value through MeleeString::to_normalized (non-identity pairs and idempotence failures listed, '
                 'compared with the regenerated fix_char and with the stated map); decoding: every 1-byte and a sample (thorough: all) of 2-byte '
                 'sequences, each as is, NUL-terminated with two different garbage tails, and inside a 16-byte field; oracle: tails never matter, '
                 'no U+FFFD in a successful result, single-byte results equal the WHATWG single-byte map')
    # ---- normalisation sweep, in 17 planes
    ncases = [('n%d' % p, [str(p * 0x10000), str(p * 0x10000 + 0xffff)]) for p in range(17)]
    impl, model = both(ctx, 'norm', ncases, corr, parallel=8, timeout_ms=120000)
    total = 0
    pairs = {}
    for cid, f in ncases:
        for l in impl.get(cid, []):
            m = re.match(r'map (\d+) -> ([\d,]+)', l)
            if m:
                pairs[int(m.group(1))] = m.group(2)
            elif l.startswith('nonidem'):
                corr.oracle_failures.append((cid, 'normalisation is not idempotent at code point %s' % l.split()[1], {'mode': 'norm', 'line': l}))
            elif l.startswith('scalars='):
                total += int(l.split('=')[1])
    exp = {c: str(norm_oracle(c)) for c in list(range(0xff01, 0xff5f)) + [0x3000, 0x2019, 0x201d]}
    if pairs != exp:
        diff = sorted(set(pairs.items()) ^ set(exp.items()))[:6]
        corr.oracle_failures.append(('norm', 'normalisation differs from the stated map at %s' % diff,
                                     {'mode': 'norm', 'differences(code point, image)': diff,
                                      'rerun': 'pvh norm <file: x 0 1114111>'}))
    if total != 0x110000 - 0x800:
        corr.oracle_failures.append(('norm', 'swept %d scalar values, expected %d' % (total, 0x110000 - 0x800), {}))
    corr.evaluations += total
    corr.count('scalar_values', total)
    corr.exhaustive = True
    # ---- decoding
    seqs = [bytes([a]) for a in range(1, 256)]
    two = [(a, b) for a in range(1, 256) for b in range(1, 256)]
    if not thorough:
        two = rng.sample(two, 3000) + [(a, b) for a in (0x81, 0x82, 0x9f, 0xe0, 0xfc, 0x41, 0xa1, 0xdf, 0x80, 0xa0, 0xfd) for b in (0x3f, 0x40, 0x7e, 0x7f, 0x80, 0xfc, 0xfd, 0x41)]
    seqs += [bytes(t) for t in two]
    seqs += [bytes(rng.choice([0x41, 0x82, 0xa0, 0xb1, 0x81, 0x40, 0x7e, 0x5c, 0xe0]) for _ in range(rng.randrange(0, 12))) for _ in range(500)]
    seqs = [s for s in seqs if 0 not in s]
    cases = []
    for i, s in enumerate(seqs):
        t1 = bytes(rng.randrange(256) for _ in range(rng.randrange(0, 6)))
        t2 = bytes(rng.randrange(256) for _ in range(rng.randrange(1, 9)))
        cases.append(('a%d' % i, [s.hex() or '-']))
        cases.append(('b%d' % i, [(s + b'\0' + t1).hex()]))
        cases.append(('c%d' % i, [(s + b'\0' + t2).hex()]))
    cases.append(('empty', ['-'])); cases.append(('nul', ['00'])); cases.append(('nultail', ['00ff81']))
    impl = core.run_parallel(R.run_pvh, 'sjis', cases, n=8)
    model = core.run_parallel(core.run_model, 'sjis', cases, n=8) if getattr(ctx, 'model_ok', True) else {}
    unmod = 0
    for cid, f in cases:
        corr.seen('sjis ' + f[0])
        a = impl.get(cid)
        b = model.get(cid)
        if b is not None and b[0] == 'UNMODELLED':
            unmod += 1
        elif b is not None and a != b:
            corr.disagreements.append((cid, 'sjis %s: impl %s model %s' % (f[0], a, b), {'mode': 'sjis', 'fields': f, 'implementation': a, 'model': b}))
        if a and a[0].startswith('OK') and 'repl=1' in a:
            corr.oracle_failures.append((cid, 'decoding %s yields a replacement character' % f[0], {'mode': 'sjis', 'fields': f, 'got': a}))
    for i, s in enumerate(seqs):
        a, b, c = impl.get('a%d' % i), impl.get('b%d' % i), impl.get('c%d' % i)
        if not (a == b == c):
            corr.oracle_failures.append(('a%d' % i, 'bytes after the first NUL change the result for %s: %s / %s / %s' % (s.hex(), a, b, c),
                                         {'mode': 'sjis', 'bytes': s.hex(), 'plain': a, 'nul_tail1': b, 'nul_tail2': c,
                                          'fields': [cases[3 * i + 1][1][0]], 'rerun': 'pvh sjis <file: x %s>' % cases[3 * i + 1][1][0]}))
        if len(s) == 1:
            x = s[0]
            if x <= 0x80: exp1 = 'OK ' + chr(x).encode('utf-8').hex()
            elif 0xa1 <= x <= 0xdf: exp1 = 'OK ' + chr(0xff61 + x - 0xa1).encode('utf-8').hex()
            else: exp1 = 'ERR'
            if (a or ['?'])[0] != exp1:
                corr.oracle_failures.append(('a%d' % i, 'single byte %02x decodes to %s, expected %s' % (x, a, exp1), {'mode': 'sjis', 'fields': [s.hex()], 'got': a}))
    corr.count('sjis_cases', len(cases)); corr.count('sjis_outside_executable_model', unmod)
    # ---- the name FIELDS of a Game Start block (name tag 16 bytes, display name 31, connect code 10): filled to the last byte without a NUL,
    # with a NUL at every position, and with half-width katakana; the whole block goes through the real reader and the model
    from .readerlib import both_modes
    fcases = []; fexp = {}
    kana = bytes(range(0xa1, 0xe0))
    def dec(field):
        body = field.split(b'\0')[0]
        return ''.join(chr(c) if c < 0x80 else chr(0xff61 + c - 0xa1) for c in body)
    for i in range(40 if thorough else 12):
        r = synth.gen_wf(rng, rng.choice([(3, 9), (3, 12), (3, 16)]), nframes=0, gecko=0)
        b = bytearray(synth.emit(r))
        so = 15 + 2 + 3 * len(synth.payload_table(r)) + 1          # offset of the Game Start block
        def fill(off, n, k):
            src = kana if i % 3 == 2 else b'ABCDEFGHIJKLMNOPQRSTUVWXYZabcdefghijklmnopqrstuvwxyz0123456789#'
            body = bytes(rng.choice(src) for _ in range(n))
            if k < n: body = body[:k] + b'\0' + bytes(rng.randrange(256) for _ in range(n - k - 1))
            b[so + off:so + off + n] = body
            return dec(body)
        exp = []
        for p_ in range(4):
            t = fill(352 + 16 * p_, 16, rng.choice([16, 16, 15, 0, rng.randrange(17)]))      # name tags (v1.3)
            n_ = fill(420 + 31 * p_, 31, rng.choice([31, 31, 30, 0, rng.randrange(32)]))     # display names (v3.9)
            c_ = fill(544 + 10 * p_, 10, rng.choice([10, 10, 9, 0, rng.randrange(11)]))      # connect codes (v3.9)
            if any(pp == p_ for pp, _ in r.ports):
                exp.append((t, n_, c_))
        fcases.append(('f%d' % i, [bytes(b).hex(), '-', '-', '-'])); fexp['f%d' % i] = exp
    fimpl, fmodel = both_modes(ctx, 'read', fcases, corr, parallel=8)
    hx = lambda t: t.encode('utf-8').hex()
    for cid, f in fcases:
        corr.seen(f[0]); corr.count('start_block_name_fields')
        out = fimpl.get(cid) or ['?']
        info = {'mode': 'read', 'fields': f, 'replay_hex': f[0], 'rerun': 'pvh read <file: x <replay_hex> - - ->'}
        if out[0] != 'OK':
            corr.oracle_failures.append((cid, 'a Game Start block with full-length / NUL-terminated ASCII or katakana names is rejected: %s' % out[:2], info)); continue
        sj = next((l for l in out if l.startswith('start.json=')), '')
        got = list(zip(re.findall(r'"6e616d655f746167":"([0-9a-f]*)"', sj), re.findall(r'"6e616d65":"([0-9a-f]*)"', sj), re.findall(r'"636f6465":"([0-9a-f]*)"', sj)))
        want = [(hx(t), hx(n_), hx(c_)) for t, n_, c_ in fexp[cid]]
        if got != want:
            k = next((j for j in range(min(len(got), len(want))) if got[j] != want[j]), min(len(got), len(want)))
            corr.oracle_failures.append((cid, 'name fields are not the bytes up to the first NUL (occupied player #%d: tag/name/code decoded as %s, the field bytes say %s)'
                                         % (k, [bytes.fromhex(x).decode('utf-8', 'replace') for x in (got[k] if k < len(got) else ())],
                                            [bytes.fromhex(x).decode('utf-8') for x in (want[k] if k < len(want) else ())]), info))
    # ---- an invalid Shift-JIS sequence BEFORE the first NUL of a name field of an occupied port: reading the replay must fail (full read, skip-frames
    # read, and the same block after the NUL must be harmless)
    bad_seqs = [b'\xff', b'\xa0', b'\xfd', b'\xfe', b'\x81', b'A\x81', b'\x81\x00'[:1] + b'', b'\xe0', b'ab\xfc\xfc']
    icases = []; iinfo = {}
    for i in range(36 if thorough else 18):
        r = synth.gen_wf(rng, rng.choice([(3, 9), (3, 10), (3, 12), (3, 16), (1, 3), (2, 0)]), nframes=rng.choice([0, 1]), gecko=0, end='single')
        b = bytearray(synth.emit(r))
        so = 15 + 2 + 3 * len(synth.payload_table(r)) + 1
        p_ = rng.choice([pp for pp, _ in r.ports])
        fields = [('name tag', 352 + 16 * p_, 16)] + ([('netplay name', 420 + 31 * p_, 31), ('connect code', 544 + 10 * p_, 10)] if synth.gte(r.ver, 3, 9) else [])
        name, off, n = fields[i % len(fields)]
        seq = bad_seqs[i % len(bad_seqs)]
        if seq in (b'\x81', b'A\x81', b'\xe0'):
            body = seq + b'\0' + bytes(n - len(seq) - 1)            # a lead byte followed by the NUL: incomplete
        else:
            body = (seq + b'\0' * n)[:n]
        after = bytearray(b)
        b[so + off:so + off + n] = body
        after[so + off:so + off + n] = (b'ok\0' + seq + b'\0' * n)[:n]          # the same bytes after the first NUL: ignored
        for o in ('-', 's'):
            cid = 'bad%d_%s' % (i, o.replace('-', 'n'))
            icases.append((cid, [bytes(b).hex(), o, '-', '-'])); iinfo[cid] = (name, seq, r.ver, p_, True)
        cid = 'aft%d' % i
        icases.append((cid, [bytes(after).hex(), '-', '-', '-'])); iinfo[cid] = (name, seq, r.ver, p_, False)
    iimpl, _ = both_modes(ctx, 'read', icases, corr, parallel=8)
    for cid, f in icases:
        name, seq, ver, p_, bad = iinfo[cid]
        corr.seen(f[0] + f[1]); corr.count('invalid_name_field_replays' if bad else 'invalid_bytes_after_nul_replays')
        out = iimpl.get(cid) or ['?']
        info = {'mode': 'read', 'fields': f, 'replay_hex': f[0], 'rerun': 'pvh read <file: x <replay_hex> %s - ->' % f[1]}
        if bad and not out[0].startswith('ERR'):
            corr.oracle_failures.append((cid, 'version %d.%d: the %s of port %d holds the invalid Shift-JIS sequence %s before its first NUL, but reading (opts %s) gives %s instead of an error'
                                         % (ver[0], ver[1], name, p_, seq.hex(), f[1], out[0]), info))
        if not bad and out[0] != 'OK':
            corr.oracle_failures.append((cid, 'version %d.%d: bytes %s AFTER the first NUL of the %s of port %d make reading fail: %s' % (ver[0], ver[1], seq.hex(), name, p_, out[:2]), info))
    corr.sample({'sjis': cases[5]}); corr.sample({'sjis': cases[-4]}); corr.sample({'norm': ncases[15]})
    return corr
