"""C07 -- a replay file cut short at any byte never yields a partial game, panic or hang"""
import random
from .. import core, run as R, synth
from .readerlib import both_modes, dump_dict, canon

ID = 'C07'
TARGETS = ['theories/Properties/C07.vo']
THEOREMS = core.theorems_of(ID)
LEVEL = ('proved for the .slp reader model: every parser of the model extends (success on a prefix implies the same success on the whole input), the full file is '
         'consumed to its last byte, hence every proper prefix of a finished well-formed replay is an error, with and without skip_frames; the .slp model is '
         'tied to the code by exhaustive prefix runs. .slpp half: tar/Arrow-IPC truncation behaviour is library behaviour: the real reader is run on every '
         'prefix (quick: dense around every entry and message boundary) of archives under each compression; oracle: error, or exactly the full game (partial)')


def run(ctx):
    rng = random.Random(ctx.seed)
    corr = core.Corr()
    thorough = ctx.tier == 'thorough'
    corr.rule = ('.slp: every proper prefix of finished well-formed replays of several versions (with and without metadata, doubled end, gecko), read with and without '
                 'skip_frames: must be ERR. .slpp: prefixes of the archives the writer produces for small games under none/LZ4/ZSTD (thorough: every offset; quick: every '
                 'offset in the first 4 KiB, +-24 around every tar entry boundary and every 512-block, every 5th offset inside frames.arrow, the last 3 KiB): must be '
                 'ERR, or OK with a game equal to the full one; never PANIC/HANG')
    vers = [(0, 1), (1, 0), (2, 0), (2, 2), (3, 0), (3, 7), (3, 16)] if not thorough else synth.BOUNDARY_VERSIONS
    cases = []; info = {}
    for vi, v in enumerate(vers):
        r = synth.gen_wf(rng, v, nframes=2, ports=[(0, True), (1, False)], end=rng.choice(['single', 'double']), metadata=rng.choice([None, {'k': 'v', 'n': {'x': -1}}]),
                         gecko=rng.choice([0, 1]), absent=0.2, items=1)
        b = synth.emit(r)
        for n in range(len(b)):
            for o in ('-', 's'):
                cid = 'p%d_%d_%s' % (vi, n, o.replace('-', 'n'))
                cases.append((cid, [b[:n].hex() or '-', o, '-', '-'])); info[cid] = (v, n, len(b), b)
    impl, model = both_modes(ctx, 'read', cases, corr, parallel=16, timeout_ms=10000)
    for cid, f in cases:
        v, n, L, b = info[cid]
        corr.seen('%s %d %s' % (v, n, f[1])); corr.count('slp_prefixes')
        out = impl.get(cid) or ['ABORT']
        if out[0] != 'ERR':
            corr.oracle_failures.append((cid, 'version %d.%d replay cut at byte %d of %d (opts %s) gives %s instead of an error' % (v + (n, L, f[1], out[0])),
                                         {'mode': 'read', 'fields': f, 'full_replay_hex': b.hex(), 'cut_at': n, 'rerun': 'pvh read <file: x <first cut_at bytes of full_replay_hex> %s - ->' % f[1]}))
    # ---- .slpp
    arch_cases = []
    for c in 'nlz':
        v = rng.choice([(2, 0), (3, 5), (3, 16)])
        r = synth.gen_wf(rng, v, nframes=3, ports=[(0, True), (1, False)], end='single', metadata={'a': 'b'}, gecko=rng.choice([0, 1]), absent=0.2, items=1)
        arch_cases.append(('a' + c, [synth.emit(r).hex(), '-', c, '-', '1']))
    res = R.run_pvh('slpp', arch_cases, timeout_ms=60000)
    sc = []; ainfo = {}
    for cid, f in arch_cases:
        d = dump_dict(res.get(cid) or [])
        if 'slpp.bytes' not in d:
            corr.oracle_failures.append((cid, '.slpp writer failed on a well-formed game: %s' % (res.get(cid) or ['?'])[:3], {'mode': 'slpp', 'fields': f})); continue
        arch = bytes.fromhex(d['slpp.bytes'])
        full = R.run_pvh('slppread', [('full', [arch.hex(), '-', '1'])])['full']
        offs = set(range(0, min(4096, len(arch)))) | set(range(max(0, len(arch) - 3072), len(arch)))
        if thorough:
            offs = set(range(len(arch)))
        else:
            for blk in range(0, len(arch), 512):
                offs |= set(range(max(0, blk - 24), min(len(arch), blk + 24)))
            fa = arch.find(b'frames.arrow')
            offs |= set(range(fa, len(arch), 5))
        for n in sorted(offs):
            k = '%s_%d' % (cid, n)
            sc.append((k, [arch[:n].hex() or '-', rng.choice(['-', '-', 's']), '1'])); ainfo[k] = (cid, n, len(arch), full, arch)
    sres = core.run_parallel(R.run_pvh, 'slppread', sc, n=16, timeout_ms=5000)
    for k, f in sc:
        cid, n, L, full, arch = ainfo[k]
        corr.seen(k); corr.count('slpp_prefixes_' + cid[1])
        out = sres.get(k) or ['ABORT']
        head = out[0].split()[0]
        def fail(what):
            corr.oracle_failures.append((k, '.slpp archive (%s) cut at byte %d of %d: %s' % ({'n': 'no compression', 'l': 'LZ4', 'z': 'ZSTD'}[cid[1]], n, L, what),
                                         {'mode': 'slppread', 'fields': [f[0][:200] + '...', f[1], '1'], 'archive_hex': arch.hex(), 'cut_at': n, 'opts': f[1],
                                          'rerun': 'pvh slppread <file: x <first cut_at bytes of archive_hex> %s 1>' % f[1]}))
        if head in ('PANIC', 'ABORT', 'HANG', 'SKIPPED-AFTER-HANGS'):
            fail('%s %s' % (head, out[1:2])); continue
        if head == 'OK':
            corr.count('slpp_prefix_accepted')
            if 's' in f[1]:
                a = [l for l in canon(out) if l.startswith(('start.', 'end', 'metadata', 'gecko', 'hash', 'quirks'))]
                b = [l for l in canon(full) if l.startswith(('start.', 'end', 'metadata', 'gecko', 'hash', 'quirks'))]
            else:
                a, b = canon(out), canon(full)
            if a != b:
                from .common import first_diff
                fail('accepted, but the game is not the full game: ' + first_diff(a, b))
    corr.sample({'slp_versions': ['%d.%d' % v for v in vers]}); corr.sample({'slpp_offsets_tried': len(sc)})
    return corr
