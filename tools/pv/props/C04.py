"""C04 -- frame rows, character presence and item grouping mirror the event history"""
import itertools, random
from .. import core, run as R, synth, spec
from .readerlib import both_modes, canon, dump_dict
from .C03 import rows_of

ID = 'C04'
TARGETS = ['theories/Properties/C04.vo']
THEOREMS = core.theorems_of(ID)
LEVEL = ("proved (Properties/C04.v): for EVERY well-formed replay in each framing regime the parsed frames are frames_of(history), whose columns are written out directly from the event history: one row per frame occurrence in file order (rolled-back ids once per occurrence), slots = occupied leaders/followers in port order, slot k's pre/post/validity columns = column k of the history (payloads where the character had events, null row + false bit where not), start/end one entry per row, row i's items = rows [off_i, off_i+1) of the flat item column = the occurrence's item events in order, every column exactly one entry per row; reader model tied to the code by differential runs; the history-mirroring oracle is evaluated on the real reader, including exhaustive presence patterns on small games")


def check_history(r, d, corr, cid, hexdata):
    v = r.ver
    def fail(what, extra=None):
        corr.oracle_failures.append((cid, 'version %d.%d.%d: %s' % (v + (what,)),
                                     dict({'mode': 'read', 'fields': [hexdata, '-', '-', '-'], 'replay_hex': hexdata, 'rerun': 'pvh read <file: x <replay_hex> - - ->'}, **(extra or {}))))
        return False
    n = len(r.frames)
    if d.get('frames.len') != str(n):
        return fail('%s frame rows for %d frame occurrences' % (d.get('frames.len'), n))
    ids = ','.join(str(f.fid) for f in r.frames)
    if d.get('ids', '') != ids:
        return fail('frame ids %s, the file has %s' % (d.get('ids', '')[:80], ids[:80]))
    sp = spec.load()
    for k, (p, ics) in enumerate(r.ports):
        if d.get('port[%d].port' % k) != str(p):
            return fail('port slot %d is port %s, expected %d' % (k, d.get('port[%d].port' % k), p))
        for fol, who in ((0, 'leader'), (1, 'follower')):
            if fol and not ics:
                if d.get('port[%d].follower' % k) != 'none':
                    return fail('follower columns on a non-Ice-Climbers port %d' % p)
                continue
            pres = [any(c[0] == p and c[1] == fol for c in f.chars) for f in r.frames]
            exp = 'none' if all(pres) else '[' + ''.join('1' if x else '0' for x in pres) + ']'
            got = d.get('port[%d].%s.validity' % (k, who))
            if got != exp:
                return fail('presence bits of port %d %s are %s, the history says %s' % (p, who, got, exp))
            for E, key, idx in (('Pre', 'pre', 2), ('Post', 'post', 3)):
                label = 'port[%d].%s.%s' % (k, who, key)
                names, rows = rows_of(d, label)
                if rows is None or len(rows) != n:
                    return fail('%s has %s rows for %d frames' % (label, None if rows is None else len(rows), n))
                for i, f in enumerate(r.frames):
                    ch = [c for c in f.chars if c[0] == p and c[1] == fol]
                    if ch:
                        en, evs = spec.expected_row(sp[E], spec.HDR[E], v, ch[0][idx])
                        if rows[i] != evs:
                            return fail('%s row %d does not hold the values of that frame occurrence' % (label, i), {'got': rows[i], 'expected': evs})
                    elif any(rows[i]):
                        return fail('%s row %d of an absent character is not null' % (label, i), {'got': rows[i]})
    if r.frames and r.frames[0].fstart is not None:
        names, rows = rows_of(d, 'fstart')
        if rows is None or len(rows) != n:
            return fail('frame-start columns have %s rows for %d frames' % (None if rows is None else len(rows), n))
    if spec.enabled(v, (3, 0)):
        offs = [0]
        for f in r.frames: offs.append(offs[-1] + len(f.items))
        if d.get('item_offset') != ','.join(map(str, offs)):
            return fail('item offsets %s, the history says %s' % (d.get('item_offset'), offs))
        names, rows = rows_of(d, 'item')
        flat = [it for f in r.frames for it in f.items]
        if rows is None or len(rows) != len(flat):
            return fail('%s item rows for %d item events' % (None if rows is None else len(rows), len(flat)))
        for i, it in enumerate(flat):
            en, evs = spec.expected_row(sp['Item'], spec.HDR['Item'], v, it)
            if rows[i] != evs:
                return fail('item row %d is not the %d-th item event' % (i, i), {'got': rows[i], 'expected': evs})
    return True


def run(ctx):
    rng = random.Random(ctx.seed)
    corr = core.Corr()
    thorough = ctx.tier == 'thorough'
    corr.rule = ('generated well-formed replays as for C01 plus an exhaustive presence sweep: 2 ports (one Ice Climbers = 3 characters) x %d frames, every '
                 'presence pattern, at one version per regime (<2.2, 2.2-2.x, >=3.0); oracle: ids, presence bits, per-row values, null rows, item offsets '
                 'recomputed from the generated history. Distinct = distinct replay bytes.') % (3 if thorough else 2)
    reps = [synth.gen_wf(rng) for _ in range(1500 if thorough else 250)]
    nfr = 3 if thorough else 2
    for v in [(1, 0), (2, 0), (2, 2), (3, 0), (3, 16)]:
        slots = [(0, 0), (0, 1), (3, 0)]
        for pat in itertools.product([0, 1], repeat=len(slots) * nfr):
            r = synth.gen_wf(rng, v, nframes=nfr, ports=[(0, True), (3, False)], end='single', metadata=None, gecko=0, absent=0, items=1)
            ok = True
            for fi, f in enumerate(r.frames):
                keep = [s for si, s in enumerate(slots) if pat[fi * len(slots) + si]]
                f.chars = [c for c in f.chars if (c[0], c[1]) in keep]
                if not synth.gte(v, 2, 2) and not f.chars:
                    ok = False
            if ok:
                reps.append(r)
    cases = []
    for i, r in enumerate(reps):
        cases.append(('h%d' % i, [synth.emit(r).hex(), '-', '-', '-']))
    impl, model = both_modes(ctx, 'read', cases, corr, parallel=16)
    for (cid, f), r in zip(cases, reps):
        corr.seen(f[0])
        corr.count('regime_%s' % ('lt2.2' if not synth.gte(r.ver, 2, 2) else 'lt3.0' if not synth.gte(r.ver, 3, 0) else 'ge3.0'))
        out = impl.get(cid) or ['<missing>']
        if out[0] != 'OK':
            corr.oracle_failures.append((cid, 'well-formed replay rejected: %s' % out[:2], {'mode': 'read', 'fields': f, 'replay_hex': f[0]}))
            continue
        check_history(r, dump_dict(out), corr, cid, f[0])
    r0 = reps[-1]
    corr.sample({'version': list(r0.ver), 'presence': [[(c[0], c[1]) for c in f.chars] for f in r0.frames]})
    corr.sample({'version': list(reps[0].ver), 'ids': [f.fid for f in reps[0].frames], 'items': [len(f.items) for f in reps[0].frames]})
    return corr
