"""helpers shared by the property modules"""
import random
from .. import core, run as R


def both(ctx, mode, cases, corr, timeout_ms=8000, parallel=1, binary=None):
    """run the implementation (pvh) and the extracted model on the same cases; record disagreements"""
    if parallel > 1:
        impl = core.run_parallel(R.run_pvh, mode, cases, n=parallel, timeout_ms=timeout_ms, binary=binary)
    else:
        impl = R.run_pvh(mode, cases, timeout_ms=timeout_ms, binary=binary)
    if not getattr(ctx, 'model_ok', True):
        # model unavailable (its build is one of the broken obligations): implementation + oracle only
        return impl, {}
    if parallel > 1:
        model = core.run_parallel(core.run_model, mode, cases, n=parallel)
    else:
        model = core.run_model(mode, cases)
    for cid, fields in cases:
        a = impl.get(cid)
        b = model.get(cid)
        if a != b:
            d = first_diff(a, b)
            corr.disagreements.append((cid, d, {'mode': mode, 'case': cid, 'fields': [f[:4000] for f in fields],
                                                'implementation': (a or ['<missing>'])[:40], 'model': (b or ['<missing>'])[:40],
                                                'first_difference': d,
                                                'rerun': 'pvh %s <casefile with: %s ...>' % (mode, cid)}))
    return impl, model


def first_diff(a, b):
    a = a or []
    b = b or []
    for i in range(max(len(a), len(b))):
        x = a[i] if i < len(a) else '<end>'
        y = b[i] if i < len(b) else '<end>'
        if x != y:
            return 'line %d: impl=%s | model=%s' % (i, x[:200], y[:200])
    return 'equal'
