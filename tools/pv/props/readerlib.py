"""shared pieces of the reader/writer based property modules"""
import re
from .. import core, run as R, synth


def canon(lines):
    out = []
    for l in lines or []:
        if l.startswith('ERR'): l = 'ERR'
        l = re.sub(r'=ERR \w+', '=ERR', l)
        if l.startswith('err.') or l.startswith('panic.'): continue
        out.append(l)
    return out


def resolve_hashes(model, cases):
    """model prints hash=H(n): replace by the one-shot XXH3-64 of the first n bytes (computed by pvh's xxh mode)"""
    need = []
    for cid, f in cases:
        for l in model.get(cid, []):
            m = re.match(r'hash=H\((\d+)\)', l)
            if m:
                need.append((cid, int(m.group(1)), f[0]))
    if not need:
        return
    xc = [('%s' % cid, [hx[:2 * n] or '-']) for cid, n, hx in need]
    res = core.run_parallel(R.run_pvh, 'xxh', xc, n=8)
    for cid, n, hx in need:
        d = (res.get(cid) or ['?'])[0]
        model[cid] = [('hash=' + d) if l.startswith('hash=H(') else l for l in model[cid]]


def both_modes(ctx, mode, cases, corr, parallel=8, timeout_ms=8000, skip_unmodelled=True, hashes=False):
    impl = core.run_parallel(R.run_pvh, mode, cases, n=parallel, timeout_ms=timeout_ms)
    impl = {k: canon(v) for k, v in impl.items()}
    if not getattr(ctx, 'model_ok', True):
        return impl, {}
    model = core.run_parallel(core.run_model, mode, cases, n=parallel)
    if hashes:
        resolve_hashes(model, cases)
    unm = 0
    for cid, f in cases:
        a = impl.get(cid); b = model.get(cid)
        if b and any('UNMODELLED' in l for l in b[:3]):
            unm += 1
            continue
        if a != b:
            from .common import first_diff
            d = first_diff(a, b)
            corr.disagreements.append((cid, '%s: %s' % (mode, d), {'mode': mode, 'case': cid, 'fields': [x[:6000] for x in f],
                                                                   'implementation': (a or ['<missing>'])[:12], 'model': (b or ['<missing>'])[:12],
                                                                   'first_difference': d}))
    corr.count('outside_executable_model', unm)
    return impl, model


def dump_dict(lines):
    d = {}
    for l in lines or []:
        if '=' in l:
            k, v = l.split('=', 1)
            d[k] = v
    return d


def fixtures(max_size=300000, wellformed=True):
    """the repository's replay files; wellformed: without corrupt.slp and unknown_event.slp (not canonical recorder output)"""
    import glob, os
    out = []
    for f in sorted(glob.glob('/repo/tests/data/*.slp')):
        if wellformed and os.path.basename(f) in ('corrupt.slp', 'unknown_event.slp'):
            continue
        if os.path.getsize(f) <= max_size:
            out.append((os.path.basename(f), open(f, 'rb').read()))
    return out
