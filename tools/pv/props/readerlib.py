"""shared pieces of the reader/writer based property modules"""
import re
from .. import core, run as R, synth


def canon(lines):
    out = []
    for l in lines or []:
        if l.startswith('ERR'): l = 'ERR'
        l = re.sub(r'=ERR \w+', '=ERR', l)
        if l.startswith('err.') or l.startswith('panic.'): continue
        out.append(l)
    return out


def resolve_hashes(model, cases):
    """model prints hash=H(n): replace by the one-shot XXH3-64 of the first n bytes (computed by pvh's xxh mode)"""
    need = []
    for cid, f in cases:
        for l in model.get(cid, []):
            m = re.match(r'hash=H\((\d+)\)', l)
            if m:
                need.append((cid, int(m.group(1)), f[0]))
    if not need:
        return
    xc = [('%s' % cid, [hx[:2 * n] or '-']) for cid, n, hx in need]
    res = core.run_parallel(R.run_pvh, 'xxh', xc, n=8)
    for cid, n, hx in need:
        d = (res.get(cid) or ['?'])[0]
        model[cid] = [('hash=' + d) if l.startswith('hash=H(') else l for l in model[cid]]


def both_modes(ctx, mode, cases, corr, parallel=8, timeout_ms=8000, skip_unmodelled=True, hashes=False):
    impl = core.run_parallel(R.run_pvh, mode, cases, n=parallel, timeout_ms=timeout_ms)
    impl = {k: canon(v) for k, v in impl.items()}
    if not getattr(ctx, 'model_ok', True):
        return impl, {}
    model = core.run_parallel(core.run_model, mode, cases, n=parallel)
    if hashes:
        resolve_hashes(model, cases)
    unm = 0
    for cid, f in cases:
        a = impl.get(cid); b = model.get(cid)
        if b and any('UNMODELLED' in l for l in b[:3]):
            unm += 1
            continue
        if a != b:
            from .common import first_diff
            d = first_diff(a, b)
            corr.disagreements.append((cid, '%s: %s' % (mode, d), {'mode': mode, 'case': cid, 'fields': [x[:6000] for x in f],
                                                                   'implementation': (a or ['<missing>'])[:12], 'model': (b or ['<missing>'])[:12],
                                                                   'first_difference': d}))
    corr.count('outside_executable_model', unm)
    return impl, model


def dump_dict(lines):
    d = {}
    for l in lines or []:
        if '=' in l:
            k, v = l.split('=', 1)
            d[k] = v
    return d


def fixtures(max_size=300000, wellformed=True):
    """the repository's replay files; wellformed: without corrupt.slp and unknown_event.slp (not canonical recorder output)"""
    import glob, os
    out = []
    for f in sorted(glob.glob('/repo/tests/data/*.slp')):
        if wellformed and os.path.basename(f) in ('corrupt.slp', 'unknown_event.slp'):
            continue
        if os.path.getsize(f) <= max_size:
            out.append((os.path.basename(f), open(f, 'rb').read()))
    return out


# ---- the fragmenting-stream model (Model/Frag.v) against std's read_exact and the real reader -------------------
def rand_sched(rng, n, faults=False, interrupts=True):
    """a read schedule in the harness/modelrun syntax: g<k> | i | f"""
    out = []
    for _ in range(n):
        x = rng.random()
        if interrupts and x < 0.12:
            out.append('i')
        elif faults and x < 0.15:
            out.append('f')
        else:
            out.append('g%d' % rng.choice([0, 1, 1, 2, 3, 4, 7, 16, 64, 513, 5000]))
    return ','.join(out) or '-'


def rexact_corr(ctx, corr, rng, n):
    """std::io::Read::read_exact over a scheduled reader vs Frag.read_exact_f: results, positions, schedule use"""
    cases = []
    for i in range(n):
        data = bytes(rng.randrange(256) for _ in range(rng.choice([0, 1, 5, 17, 40, 200])))
        sched = rand_sched(rng, rng.choice([0, 1, 3, 8, 30]), faults=True)
        sizes = ','.join(str(rng.choice([0, 1, 2, 3, 4, 8, 13, 64])) for _ in range(rng.randrange(1, 7)))
        cases.append(('x%d' % i, [data.hex() or '-', sched, sizes]))
    impl = core.run_parallel(R.run_pvh, 'rexact', cases, n=4)
    if not getattr(ctx, 'model_ok', True):
        return
    model = core.run_parallel(core.run_model, 'rexact', cases, n=4)
    for cid, f in cases:
        corr.seen('rexact' + '|'.join(f)); corr.count('read_exact_schedules')
        if impl.get(cid) != model.get(cid):
            from .common import first_diff
            corr.disagreements.append((cid, 'rexact: %s' % first_diff(impl.get(cid), model.get(cid)),
                                       {'mode': 'rexact', 'fields': f, 'implementation': impl.get(cid), 'model': model.get(cid)}))


def readsched_corr(ctx, corr, rng, streams, per_stream, faults, opts=('-', 'h')):
    """the real reader over a scheduled reader (short reads, Interrupted, optional faults) vs the reader program run
    by Frag.run_frag over the same schedule: outcome, consumed bytes, game, hashed prefix"""
    cases = []
    for i, b in enumerate(streams):
        for j in range(per_stream):
            k = rng.choice([0, 2, 10, 60, 400])
            sched = rand_sched(rng, k, faults=False)
            if faults and k:
                parts = sched.split(',')
                parts[rng.randrange(len(parts))] = 'f'
                sched = ','.join(parts)
            o = rng.choice(opts)
            cases.append(('s%d_%d' % (i, j), [b.hex(), o, sched]))
    impl, model = both_modes(ctx, 'readsched', cases, corr, parallel=16, hashes=True)
    corr.sched_cases = dict(cases)
    for cid, f in cases:
        corr.seen('readsched' + f[1] + f[2] + f[0][:64]); corr.count('reader_over_schedule' + ('_faulty' if 'f' in f[2].split(',') else ''))
        if any('MODEL-HASH-MISMATCH' in l for l in model.get(cid, [])):
            corr.disagreements.append((cid, 'model: hashed bytes differ from consumed bytes', {'mode': 'readsched', 'fields': f}))
    return impl, model
