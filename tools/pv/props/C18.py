"""C18 -- .slpp is a tar starting with peppi.json whose entries agree with each other"""
import json, random
from .. import core, run as R, synth, tarutil, startspec
from .readerlib import dump_dict, canon

ID = 'C18'
TARGETS = ['theories/Properties/C18.vo']
THEOREMS = core.theorems_of(ID)
LEVEL = ('proved (Properties/C18.v): entry order, presence conditions, raw/JSON consistency, file signature at offset 0 of the tar bytes, unknown entries ignored, old format version rejected -- and the same through the tables regenerated from the .slpp writer (tar_append sequence with guards) and reader (name match arms, breaking arm) on every run; tar block model predicts the archive byte for byte in the differential run; archives with unknown entries (incl. names without a UTF-8 file name), patched versions (both read modes) and the deepest accepted metadata are read by the real library')
UNKNOWN = [b'notes.txt', b'extras/thumb.png', b'zzz', b'start.jso', b'PEPPI.JSON', b'frames.arrow.bak', b'a' * 99,
           b'./', b'extras/', b'..', b'\xff\xfe.bin', b'caf\xe9/\x80', b'.']   # names without a (UTF-8) file name are unknown entries too


def run(ctx):
    rng = random.Random(ctx.seed)
    corr = core.Corr()
    thorough = ctx.tier == 'thorough'
    corr.rule = ('generated games (with/without end, gecko, metadata, frames; all layout versions) written to .slpp under none/LZ4/ZSTD, twice; tar blocks parsed '
                 'independently; oracle: entry list and order, signature at offset 0, JSON entries parse and equal the spec rendering of the raw entries, two writes '
                 'identical; the model predicts the archive bytes; archives with unknown entries inserted at every position before frames.arrow read as the same game; '
                 'archives with the format version patched are rejected iff version < 2.0.0')
    reps = [synth.gen_wf(rng, nframes=rng.choice([0, 1, 3])) for _ in range(500 if thorough else 90)]
    cases = []
    for i, r in enumerate(reps):
        c = rng.choice('nlz'); h = rng.choice(['-', 'h'])
        b = synth.emit(r).hex()
        cases.append(('a%d' % i, [b, h, c, '-', '1'])); cases.append(('b%d' % i, [b, h, c, '-', '1']))
    res = core.run_parallel(R.run_pvh, 'slpp', cases, n=16, timeout_ms=60000)
    marc = []
    rdc = []; rinfo = {}
    for i, r in enumerate(reps):
        cid = 'a%d' % i
        f = dict(cases)[cid]
        corr.seen(f[0] + f[1] + f[2]); corr.count('compression_' + f[2]); corr.count('end_%s' % r.end); corr.count('gecko_%s' % (r.gecko is not None))
        out = res.get(cid) or ['?']
        d = dump_dict(out)
        def fail(what, extra=None):
            corr.oracle_failures.append((cid, what, dict({'mode': 'slpp', 'fields': f, 'replay_hex': f[0], 'rerun': 'pvh slpp <file: x <replay_hex> %s %s - 1>' % (f[1], f[2])}, **(extra or {}))))
        if 'slpp.bytes' not in d:
            fail('.slpp writer failed: %s' % [l[:100] for l in out[:3]]); continue
        arch = bytes.fromhex(d['slpp.bytes'])
        if dump_dict(res.get('b%d' % i) or []).get('slpp.bytes') != d['slpp.bytes']:
            fail('writing the same game twice gives different bytes'); continue
        if arch[:10] != b'peppi.json':
            fail('archive does not start with the file signature: %r' % arch[:10]); continue
        ents = tarutil.parse(arch)
        names = [n.decode() for n, _, _ in ents]
        exp = ['peppi.json', 'metadata.json', 'start.json', 'start.raw'] + (['end.json', 'end.raw'] if r.end else []) + (['gecko_codes.raw'] if r.gecko is not None else []) + ['frames.arrow']
        if names != exp:
            fail('archive entries %s, expected %s' % (names, exp)); continue
        E = {n.decode(): c for n, c, _ in ents}
        try:
            pj = json.loads(E['peppi.json']); mj = json.loads(E['metadata.json']); sj = json.loads(E['start.json'])
            ej = json.loads(E['end.json']) if r.end else None
        except Exception as e:
            fail('a JSON entry is not valid JSON: %r' % e); continue
        if E['start.raw'] != r.start_blk or (r.end and E['end.raw'] != r.end_blk):
            fail('raw entries are not the retained blocks'); continue
        try:
            if tarutil.cjson_of_py(sj) != startspec.start_json(E['start.raw']):
                fail('start.json is not the rendering of start.raw', {'got': tarutil.cjson_of_py(sj)[:300], 'expected': startspec.start_json(E['start.raw'])[:300]}); continue
            if r.end and tarutil.cjson_of_py(ej) != startspec.end_json(E['end.raw']):
                fail('end.json is not the rendering of end.raw', {'got': tarutil.cjson_of_py(ej), 'expected': startspec.end_json(E['end.raw'])}); continue
        except startspec.Unknown:
            pass
        if r.gecko is not None and E['gecko_codes.raw'] != (r.gecko[0]).to_bytes(4, 'little') + r.gecko[1]:
            fail('gecko_codes.raw is not actual_size (LE) + the blocks'); continue
        if (mj is None) != (r.metadata is None):
            fail('metadata.json %r for metadata %r' % (mj, r.metadata)); continue
        if pj.get('version') != [2, 0, 0] or ('slp_hash' in pj) != ('h' in f[1]) or ('quirks' in pj) != (r.end == 'double'):
            fail('peppi.json %r does not carry version/hash/quirks as expected' % pj); continue
        # the model's byte-for-byte prediction
        h = pj.get('slp_hash')
        marc.append((cid, [f[0], f[1], h.encode().hex() if h else '-', E['metadata.json'].hex() or '-', E['start.json'].hex(), (E.get('end.json') or b'').hex() or '-', E['frames.arrow'].hex() or '-']))
        rinfo[cid] = (arch, ents, out)
        # unknown entries at every position before frames.arrow; version patches
        if i % 3 == 0:
            base = [(n, c) for n, c, _ in ents]
            for pos in range(len(base)):
                extra = (rng.choice(UNKNOWN), bytes(rng.randrange(256) for _ in range(rng.choice([0, 1, 511, 512, 700]))))
                rdc.append(('u%d_%d' % (i, pos), [tarutil.build(base[:pos] + [extra] + base[pos:]).hex(), '-', '1'])); rinfo['u%d_%d' % (i, pos)] = cid
            for ver in ([1, 9, 9], [0, 0, 0], [2, 0, 0], [2, 0, 1], [3, 0, 0], [255, 255, 255], [1, 255, 255]):
                pj2 = dict(pj); pj2['version'] = ver
                b2 = [(n, json.dumps(pj2, separators=(',', ':')).encode() if n == b'peppi.json' else c) for n, c in base]
                for ro in ('-', 's'):      # the format-version gate applies to both read modes
                    k = 'v%d_%s_%s' % (i, '_'.join(map(str, ver)), ro.replace('-', 'n'))
                    rdc.append((k, [tarutil.build(b2).hex(), ro, '1'])); rinfo[k] = (cid, ver)
            rdc.append(('base%d' % i, [tarutil.build(base).hex(), '-', '1'])); rinfo['base%d' % i] = cid
    if getattr(ctx, 'model_ok', True) and marc:
        mres = core.run_parallel(core.run_model, 'slpparch', marc, n=16)
        for cid, f in marc:
            m = dump_dict(mres.get(cid) or [])
            if (mres.get(cid) or ['?'])[0] == 'UNMODELLED':
                continue
            if m.get('arch') != rinfo[cid][0].hex():
                a = bytes.fromhex(m.get('arch', '')) if m.get('arch') else b''
                b = rinfo[cid][0]
                k = next((i for i in range(min(len(a), len(b))) if a[i] != b[i]), min(len(a), len(b)))
                corr.disagreements.append((cid, 'the tar model does not predict the archive: first difference at byte %d (model %s, real %s)' % (k, a[k:k + 8].hex(), b[k:k + 8].hex()),
                                           {'mode': 'slpparch', 'case': cid, 'model_head': (mres.get(cid) or ['?'])[0][:200]}))
    rres = core.run_parallel(R.run_pvh, 'slppread', rdc, n=16, timeout_ms=20000)
    for k, f in rdc:
        corr.seen(k + f[0][:64]); out = canon(rres.get(k) or ['?'])
        if k.startswith('u'):
            corr.count('unknown_entry_archives')
            base = canon(rres.get('base' + k[1:].split('_')[0]) or ['?'])
            if out != base:
                from .common import first_diff
                corr.oracle_failures.append((k, 'an unknown archive entry changes the result: ' + first_diff(out, base), {'mode': 'slppread', 'fields': [f[0][:400] + '...', '-', '1'], 'archive_hex': f[0]}))
        elif k.startswith('v'):
            corr.count('version_patched_archives')
            cid, ver = rinfo[k]
            want = 'ERR' if tuple(ver) < (2, 0, 0) else 'OK'
            if out[0] != want:
                corr.oracle_failures.append((k, 'archive with format version %s: reader gives %s, expected %s' % (ver, out[0], want), {'mode': 'slppread', 'archive_hex': f[0], 'fields': [f[0][:400] + '...', '-', '1']}))
        elif k.startswith('base'):
            if out[0] != 'OK':
                corr.oracle_failures.append((k, 'rebuilt archive rejected: %s' % out[:2], {'mode': 'slppread', 'archive_hex': f[0]}))
    # every archive the writer produces from an accepted game must be readable by the library's own reader, also for the deepest
    # metadata nesting the .slp reader accepts (the JSON reader has its own recursion limit)
    def nest(d):
        m = {'x': 1}
        for _ in range(d - 1):
            m = {'n': m}
        return m
    deep = []
    for d in (100, 126, 127, 128, 129):
        r = synth.gen_wf(rng, (3, 16), nframes=1, gecko=0, metadata=None)
        b = synth.emit(r)
        b = b[:-1] + b'U\x08metadata{' + b'U\x01n{' * (d - 1) + b'U\x01xl\x00\x00\x00\x01' + b'}' * (d - 1) + b'}' + b'}'
        deep.append(('deep%d' % d, [b.hex(), '-', rng.choice('nlz'), '-', '0']))
    dres = core.run_parallel(R.run_pvh, 'slpp', deep, n=4, timeout_ms=60000)
    for cid, f in deep:
        corr.seen(cid + f[0][:32]); corr.count('deep_metadata_archives')
        out = dres.get(cid) or ['?']
        d = dump_dict(out)
        if out[0].startswith('ERR'):
            continue                      # the .slp reader refuses this depth: nothing to archive
        if out[0] != 'OK' or not (d.get('slpp.write', '').startswith('OK')) or d.get('slpp.read') != 'OK' or d.get('same_game') != '1':
            corr.oracle_failures.append((cid, 'metadata nested %s deep is accepted from .slp but the archive written from it is not read back as the same game: %s'
                                         % (cid[4:], [l[:120] for l in out if l.startswith(('slpp.', 'same_game', 'PANIC', 'ABORT', 'HANG', 'err.'))][:3]),
                                         {'mode': 'slpp', 'fields': [f[0][:2000] + '...'] + f[1:], 'replay_hex': f[0], 'rerun': 'pvh slpp <file: x <replay_hex> - %s - 0>' % f[2]}))
    corr.sample({'entries': ['peppi.json', 'metadata.json', 'start.json', 'start.raw', '...'], 'compression': cases[0][1][2]})
    corr.sample({'unknown_entry_names': [u.decode() for u in UNKNOWN[:4]]})
    return corr
