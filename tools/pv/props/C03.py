"""C03 -- every decoded frame field = big-endian bytes at its spec offset for the version"""
import random, re
from .. import core, run as R, synth, spec
from .common import both

ID = 'C03'
TARGETS = ['theories/Properties/C03.vo']
THEOREMS = core.theorems_of(ID)
LEVEL = ('the per-struct reader tables are regenerated from src/frame/mutable.rs on every run; proved for all versions and payloads: a field '
         'is exposed iff version >= its spec since-version and then equals the big-endian bytes at its spec offset; the closed obligation '
         '"regenerated table = Layout/Spec.v" is re-checked by the kernel; the real columns are compared with the spec offsets on generated replays')
NEEDS_MODEL = True


def parse_dump(lines):
    d = {}
    for l in lines:
        if '=' in l:
            k, v = l.split('=', 1)
            d[k] = v
    return d


def rows_of(d, label):
    names = d.get(label + '.cols')
    if names is None:
        return None, None
    names = names.split(',') if names else []
    n = int(d.get(label + '.rows', '0'))
    rows = []
    for i in range(n):
        s = d.get('%s[%d]' % (label, i), '')
        rows.append([int(x) for x in s.split(',')] if s else [])
    return names, rows


def check_replay(r, d, sp, corr, cid, hexdata):
    """spec-level oracle on the implementation's column dump"""
    v = r.ver
    def fail(what, extra):
        corr.oracle_failures.append((cid, 'version %d.%d.%d: %s' % (v + (what,)),
                                     dict({'mode': 'read', 'version': list(v), 'replay_hex': hexdata, 'fields': [hexdata, '-', '-', '-'],
                                           'rerun': 'pvh read <file: x <replay_hex> - - ->'}, **extra)))
    slots = r.slots()
    # character rows
    for k, (p, ics) in enumerate(r.ports):
        for fol, who in ((0, 'leader'), (1, 'follower')):
            if fol and not ics:
                continue
            for E, key, idx in (('Pre', 'pre', 2), ('Post', 'post', 3)):
                label = 'port[%d].%s.%s' % (k, who, key)
                names, rows = rows_of(d, label)
                if names is None:
                    fail('%s columns missing from the game' % label, {})
                    return
                for i, f in enumerate(r.frames):
                    ch = [c for c in f.chars if c[0] == p and c[1] == fol]
                    if not ch:
                        continue
                    en, ev = spec.expected_row(sp[E], spec.HDR[E], v, ch[0][idx])
                    if names != en:
                        fail('%s exposes fields %s, the spec prescribes %s' % (label, names, en), {'exposed': names, 'spec': en})
                        return
                    if i >= len(rows) or rows[i] != ev:
                        got = rows[i] if i < len(rows) else None
                        bad = [(n, a, b) for n, a, b in zip(en, got or [], ev) if a != b][:3]
                        fail('%s row %d: fields differ from the bytes at their spec offsets: %s' % (label, i, bad),
                             {'row': i, 'got': got, 'expected': ev, 'names': en})
                        return
    for E, label, get in (('Start', 'fstart', lambda f: f.fstart), ('End', 'fend', lambda f: f.fend)):
        if get(r.frames[0]) is None:
            continue
        names, rows = rows_of(d, label)
        if names is None:
            fail('%s columns missing' % label, {}); return
        for i, f in enumerate(r.frames):
            en, ev = spec.expected_row(sp[E], spec.HDR[E], v, get(f))
            if names != en:
                fail('%s exposes %s, spec %s' % (label, names, en), {'exposed': names, 'spec': en}); return
            if en and (i >= len(rows) or rows[i] != ev):
                fail('%s row %d differs from spec offsets' % (label, i), {'got': rows[i] if i < len(rows) else None, 'expected': ev, 'names': en}); return
    items = [it for f in r.frames for it in f.items]
    if items:
        names, rows = rows_of(d, 'item')
        if names is None:
            fail('item columns missing', {}); return
        for i, it in enumerate(items):
            en, ev = spec.expected_row(sp['Item'], spec.HDR['Item'], v, it)
            if names != en:
                fail('item exposes %s, spec %s' % (names, en), {'exposed': names, 'spec': en}); return
            if i >= len(rows) or rows[i] != ev:
                fail('item row %d differs from spec offsets' % i, {'got': rows[i] if i < len(rows) else None, 'expected': ev, 'names': en}); return


def run(ctx):
    rng = random.Random(ctx.seed)
    corr = core.Corr()
    thorough = ctx.tier == 'thorough'
    sp = spec.load()
    corr.rule = ('one generated replay per version (quick: every layout boundary version and its neighbours, patch 0/1/255; thorough: every '
                 '(major<=3, minor) plus samples of majors 4-255), 3 frames, ICs + a second port, absent characters, items, random field bytes '
                 'incl. NaN patterns; every exposed column of every row is compared with the bytes at the spec offset (Layout/Spec.v). '
                 'Distinct = distinct replay bytes.')
    versions = []
    if thorough:
        versions = [(M, m, 0) for M in range(4) for m in range(256)] + [(M, m, rng.choice([0, 1, 255])) for M in (4, 5, 100, 255) for m in (0, 1, 6, 7, 16, 255)]
    else:
        base = synth.BOUNDARY_VERSIONS + synth.OTHER_VERSIONS + [(3, 17), (3, 255), (4, 0), (4, 6), (4, 7), (255, 255), (2, 3), (0, 0)]
        versions = [(a, b, rng.choice([0, 0, 1, 255])) for (a, b) in base]
    cases = []
    reps = {}
    for i, v in enumerate(versions):
        r = synth.gen_wf(rng, v, nframes=3, ports=[(rng.choice([0, 1]), True), (rng.choice([2, 3]), False)], end='single',
                         metadata=None, gecko=0, absent=0.15, items=2)
        b = synth.emit(r)
        cid = 'v%d_%d_%d_%d' % (v + (i,))
        cases.append((cid, [b.hex(), '-', '-', '-']))
        reps[cid] = (r, b)
    from .readerlib import both_modes
    impl, model = both_modes(ctx, 'read', cases, corr, parallel=8) if MODEL_READ else (core.run_parallel(R.run_pvh, 'read', cases, n=8), {})
    for cid, f in cases:
        r, b = reps[cid]
        corr.seen(b)
        corr.count('version_%d.%d' % r.ver[:2])
        out = impl.get(cid) or ['<missing>']
        if out[0] != 'OK':
            corr.oracle_failures.append((cid, 'well-formed replay of version %s rejected: %s' % (r.ver, out[:2]),
                                         {'mode': 'read', 'replay_hex': b.hex(), 'got': out[:3]}))
            continue
        check_replay(r, parse_dump(out), sp, corr, cid, b.hex())
    # the same fields seen through the single-frame record views (finished game and in-progress parse state): every view value must be
    # the column value at that index, which the block above has compared with the bytes at the spec offset
    from .C13 import check_views
    vcases = []
    for cid, f in cases:
        vcases.append((cid + '_i', [f[0], 'i'])); vcases.append((cid + '_m', [f[0], 'm']))
    vimpl, _ = both_modes(ctx, 'view', vcases, corr, parallel=8, timeout_ms=60000) if MODEL_READ else (core.run_parallel(R.run_pvh, 'view', vcases, n=8), {})
    for cid, f in vcases:
        corr.seen('view' + f[1] + f[0][:64] + str(len(f[0]))); corr.count('record_views_' + f[1])
        out = vimpl.get(cid) or ['?']
        if out[0] != 'OK' or any(('PANIC' in l or l.startswith('ABORT')) for l in out):
            corr.oracle_failures.append((cid, 'record view failed: %s' % [l[:100] for l in out if 'PANIC' in l or l.startswith(('ERR', 'ABORT', '?'))][:2],
                                         {'mode': 'view', 'fields': f, 'replay_hex': f[0]})); continue
        if f[1] == 'i':
            check_views(out, '', '', corr, cid, f, None)
        else:
            for k in sorted({int(l[4:l.index(']')]) for l in out if l.startswith('  v[')}):
                if not check_views(out, '  s[%d] ' % k, '  v[%d] ' % k, corr, cid, f, None):
                    break
    corr.sample({'case': cases[0][0], 'replay_len': len(reps[cases[0][0]][1]), 'replay_hex_prefix': cases[0][1][0][:160]})
    corr.sample({'versions': ['%d.%d.%d' % v for v in versions[:40]]})
    corr.distribution = {'versions': len(versions)}
    return corr


# switched on when the reader model (Model/Reader.v) is part of the extracted API
MODEL_READ = True
