"""C15 -- rollback de-duplication"""
import itertools, random
from .. import core, run as R
from .common import both

ID = 'C15'
TARGETS = ['theories/Properties/C15.vo']
THEOREMS = core.theorems_of(ID)
LEVEL = ('hand model of Frame::rollbacks/rollbacks_ (seen-table indexed by id - FIRST_INDEX, FIRST_INDEX regenerated from the source); '
         'proved for every id sequence with ids >= -123: no panic, one mark per row, marked iff an earlier (keep-first) / later (keep-last) '
         'row has the same id, all-false without repeats; model tied to Frame::rollbacks by differential runs (random + exhaustive short sequences)')


def oracle(ids):
    first = ''.join('1' if ids[k] in ids[:k] else '0' for k in range(len(ids)))
    last = ''.join('1' if ids[k] in ids[k + 1:] else '0' for k in range(len(ids)))
    return ['first=[%s]' % first, 'last=[%s]' % last]


def run(ctx):
    rng = random.Random(ctx.seed)
    corr = core.Corr()
    thorough = ctx.tier == 'thorough'
    corr.rule = ('id sequences: exhaustive over 4 ids up to length 6 (quick) / 7 (thorough); random histories with rollbacks, gaps, starts after -123, '
                 'ends below the maximum; a few sequences with ids near i32::MAX run on the implementation only. Oracle: brute-force earlier/later-equal test.')
    seqs = []
    base = [-123, -122, -121, 5]
    for n in range(0, 8 if thorough else 7):
        for t in itertools.product(base, repeat=n):
            seqs.append(list(t))
    for _ in range(20000 if thorough else 3000):
        n = rng.randrange(0, 40)
        cur = rng.choice([-123, -123, -100, 0, 50])
        s = []
        for _ in range(n):
            s.append(cur)
            r = rng.random()
            if r < 0.25: cur = max(-123, cur - rng.randrange(0, 5))
            elif r < 0.35: cur += rng.randrange(2, 30)
            else: cur += 1
        seqs.append(s)
    cases = [('r%d' % i, [','.join(map(str, s)) or '-']) for i, s in enumerate(seqs)]
    impl, model = both(ctx, 'rollbacks', cases, corr, parallel=8)
    for (cid, f), s in zip(cases, seqs):
        corr.seen(f[0])
        corr.count('len_%d' % min(len(s), 10))
        if len(set(s)) < len(s): corr.count('with_repeats')
        if impl.get(cid) != oracle(s):
            corr.oracle_failures.append((cid, 'ids %s: masks %s, the property demands %s' % (s[:20], impl.get(cid), oracle(s)),
                                         {'mode': 'rollbacks', 'ids': s, 'got': impl.get(cid), 'expected': oracle(s),
                                          'rerun': 'pvh rollbacks <file: x %s>' % f[0]}))
    # huge ids: implementation + oracle only (the model's seen table would have 2^31 entries)
    big = [[2147483647], [2147483647, 5, 2147483647], [2147483524, 2147483525, 2147483524], [-123, 2147483647, -123]]
    # distinct ids that coincide modulo a power of two (a narrowed index type would alias them), and equal ids far from the start
    for k in (8, 15, 16, 17, 24, 31):
        d = 1 << k
        big += [[0, d], [-123, -123 + d], [5, 5 + d, 5], [d, 0, d - 1, d + 1], [-123 + d, -123, -123 + d]] if d + 5 < 2 ** 31 else [[0, d - 1], [-123, d - 124]]
    big += [[rng.randrange(-123, 2 ** 20) for _ in range(rng.randrange(2, 12))] for _ in range(60)]
    bc = [('b%d' % i, [','.join(map(str, s))]) for i, s in enumerate(big)]
    res = R.run_pvh('rollbacks', bc, timeout_ms=60000)
    for (cid, f), s in zip(bc, big):
        corr.seen(f[0]); corr.count('huge_ids')
        if res.get(cid) != oracle(s):
            corr.oracle_failures.append((cid, 'ids %s: masks %s, the property demands %s' % (s, res.get(cid), oracle(s)),
                                         {'mode': 'rollbacks', 'ids': s, 'got': res.get(cid), 'expected': oracle(s)}))
    # the masks of games as the reader returns them (all columns present, rollbacks in the id sequence), including games whose raw
    # element stops inside the last frame (after its Frame Start or after some of its Pre events): still one boolean per id row
    from .. import synth
    gc = []
    for i in range(120 if thorough else 30):
        r = synth.gen_wf(rng, rng.choice([(1, 0), (2, 2), (3, 0), (3, 7), (3, 16)]), nframes=rng.choice([1, 2, 4, 7]), end=rng.choice(['single', None]), gecko=0)
        gc.append(('g%d' % i, [synth.emit(r).hex()]))
        if r.frames and r.ver >= (3, 0, 0):
            evs = synth.events_of(r)
            last_fs = max(k for k, e in enumerate(evs) if e[0] == 'fstart')
            for cut in (last_fs + 1, last_fs + 2):
                gc.append(('g%d_c%d' % (i, cut), [synth.assemble(r, evs[:cut]).hex()]))
    gres = core.run_parallel(R.run_pvh, 'rbgame', gc, n=8)
    for cid, f in gc:
        corr.seen('rbgame' + f[0][:80] + str(len(f[0]))); corr.count('parsed_games' + ('_cut_inside_last_frame' if '_c' in cid else ''))
        out = gres.get(cid) or ['?']
        if out[0] != 'OK':
            if '_c' in cid: continue        # the reader may refuse a stream that stops inside a frame
            corr.oracle_failures.append((cid, 'well-formed replay rejected: %s' % out[:2], {'mode': 'rbgame', 'fields': f})); continue
        d = {l.split('=', 1)[0]: l.split('=', 1)[1] for l in out if '=' in l}
        ids = [int(x) for x in d.get('ids', '').split(',') if x]
        if [d.get('first'), d.get('last')] != [x.split('=', 1)[1] for x in oracle(ids)]:
            corr.oracle_failures.append((cid, 'parsed game with ids %s: masks first=%s last=%s, the property demands %s' % (ids[:20], d.get('first'), d.get('last'), oracle(ids)),
                                         {'mode': 'rbgame', 'fields': f, 'replay_hex': f[0], 'ids': ids, 'rerun': 'pvh rbgame <file: x <replay_hex>>'}))
    corr.sample({'ids': seqs[700]}); corr.sample({'ids': seqs[-1]}); corr.sample({'ids': big[1]})
    return corr
