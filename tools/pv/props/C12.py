"""C12 -- incremental parsing equals one-shot parsing for any read fragmentation"""
import random, re
from .. import core, run as R, synth
from .readerlib import both_modes, dump_dict, canon, rexact_corr, readsched_corr

ID = 'C12'
TARGETS = ['theories/Properties/C12.vo']
THEOREMS = core.theorems_of(ID)
LEVEL = ('proved (Properties/C12.v): every parse_event call only appends to every column, so the frames completed so far are a prefix of every later state and of the final game; the frame count never decreases; the consumed-byte count grows by exactly the bytes each call consumed; the one-shot reader is header + start + n single-event calls + a fixed epilogue, its game a function of the incrementally reached state; each API call and the whole one-shot read, run over ANY fragmentation schedule of the underlying stream (Model/Frag.v), return what the flat model returns; incremental model tied to parse_header/parse_start/parse_event/parse_metadata by per-call differential runs with fragmenting readers; oracle on the real library: final incremental game = one-shot game, bytes_read = consumed - 15 after every call, frame count monotone, rows of completed frames never change (one recorded known finding: pre-3.0 replay without Game End)')

ROW = re.compile(r'^(.*)\[(\d+)\]=(.*)$')
KNOWN_TAG = 'pre-3.0 replay without Game End: the last frame stays open in the incremental API'


def confined(r, fin, ref):
    """the incremental and one-shot dumps differ only in the last-row padding of characters absent from the last frame"""
    last = len(r.frames) - 1
    absent = []
    for k, (p, ics) in enumerate(r.ports):
        for fol, who in ((0, 'leader'), (1, 'follower')):
            if fol and not ics: continue
            if not any(c[0] == p and c[1] == fol for c in r.frames[-1].chars):
                absent.append('port[%d].%s.' % (k, who))
    da = [l for l in fin if l not in ref]
    db = [l for l in ref if l not in fin]
    def ok(l):
        if not any(l.startswith(a) for a in absent): return False
        rest = l.split('.', 2)[2]
        return rest.startswith(('validity=', 'pre.rows=', 'post.rows=', 'pre[%d]=' % last, 'post[%d]=' % last))
    return all(ok(l) for l in da + db)



def run(ctx):
    rng = random.Random(ctx.seed)
    corr = core.Corr()
    thorough = ctx.tier == 'thorough'
    corr.rule = ('well-formed replays (all regimes, incl. absent characters in the last frame before 3.0, rollbacks, gecko splitter blocks, with/without Game End '
                 'and metadata) driven through the incremental API with read chunk patterns (whole, 1, 2, irregular, two-piece splits); after every call the state '
                 'is dumped. Compared with the model call by call and with the one-shot read of the same bytes.')
    reps = [synth.gen_wf(rng, nframes=rng.choice([0, 1, 2, 3, 5])) for _ in range(600 if thorough else 120)]
    for v in [(0, 1), (1, 0), (2, 0), (2, 2), (2, 9)]:
        for e in ('single', None):       # without Game End this is the recorded known finding: always exercised
            r = synth.gen_wf(rng, v, nframes=3, ports=[(0, True), (1, False)], end=e, gecko=0, absent=0)
            f = r.frames[-1]; f.chars = f.chars[:1]
            reps.append(r)
    cases = []; one = []
    for i, r in enumerate(reps):
        b = synth.emit(r)
        for j, fr in enumerate(['-', '1', '3,1,7', '%d,100000' % rng.randrange(1, len(b))] + (['2', '64'] if thorough else [])):
            cases.append(('i%d_%d' % (i, j), [b.hex(), fr, '1']))
        one.append(('o%d' % i, [b.hex(), '-', '-', '-']))
    # a caller that keeps calling parse_event until the declared length is reached (it does not stop at the first Game End): replays ending in
    # a doubled Game End, and ordinary ones, must come out as the one-shot game as well
    for i, r in enumerate(reps):
        if r.end == 'double' or i % 10 == 0:
            cases.append(('i%d_a' % i, [synth.emit(r).hex(), rng.choice(['-', '1', '3,1,7']), '1', 'a']))
    for v in [(1, 0), (2, 2), (3, 0), (3, 15)]:
        r = synth.gen_wf(rng, v, nframes=2, end='double')
        reps.append(r); one.append(('o%d' % (len(reps) - 1), [synth.emit(r).hex(), '-', '-', '-']))
        cases.append(('i%d_a' % (len(reps) - 1), [synth.emit(r).hex(), '-', '1', 'a']))
    impl, model = both_modes(ctx, 'incr', cases, corr, parallel=16, timeout_ms=60000)
    oneshot = core.run_parallel(R.run_pvh, 'read', one, n=16)
    for cid, f in cases:
        corr.seen(f[0] + f[1]); corr.count('chunks_' + ('whole' if f[1] == '-' else 'frag'))
        out = impl.get(cid) or ['?']
        i = int(cid[1:].split('_')[0])
        def fail(what, extra=None):
            corr.oracle_failures.append((cid, what, dict({'mode': 'incr', 'fields': f, 'replay_hex': f[0], 'chunks': f[1],
                                                         'rerun': 'pvh incr <file: x <replay_hex> %s 1%s>' % (f[1], ' a' if len(f) > 3 else '')}, **(extra or {}))))
        if 'final' not in out:
            fail('incremental parse of a well-formed replay stopped: %s' % [l for l in out if not l.startswith('  ')][-2:]); continue
        # per-call accounting
        lastlen = 0; ok = True
        states = {}
        for l in out:
            m = re.match(r'(start|ev\[(\d+)\])=\S+ br=(\d+) consumed=(\d+) len=(\d+)', l)
            if m:
                br, cons, ln = int(m.group(3)), int(m.group(4)), int(m.group(5))
                if br != cons - 15:
                    fail('bytes_read %d after %s but %d raw bytes were consumed' % (br, m.group(1), cons - 15)); ok = False; break
                if ln < lastlen:
                    fail('frame count decreased from %d to %d at %s' % (lastlen, ln, m.group(1))); ok = False; break
                lastlen = ln
                cur = int(m.group(2)) if m.group(2) else -1
                states[cur] = (ln, [])
            elif l.startswith('  s['):
                k = int(l[4:l.index(']')])
                states[k][1].append(l[l.index(']') + 2:])
        if not ok:
            continue
        fin = out[out.index('final') + 1:]
        ref = [l for l in canon(oneshot.get('o%d' % i) or []) if not l.startswith(('OK', 'consumed=', 'hash=', 'quirks='))]
        if fin != ref:
            from .common import first_diff
            r = reps[i]
            # known finding: before 3.0 a replay WITHOUT Game End leaves its last frame open for an incremental caller (no public
            # call closes it); the only admissible difference is the missing null row of characters absent from that last frame
            dangling = (not synth.gte(r.ver, 3, 0)) and not r.end and r.frames and len(r.frames[-1].chars) < len(r.slots())
            if dangling and confined(r, fin, ref):
                corr.oracle_failures.append((cid, KNOWN_TAG + ': version %d.%d, %d frames' % (r.ver[0], r.ver[1], len(r.frames)), {'replay_hex': f[0]}))
                continue
            fail('the incremental game differs from the one-shot game: ' + first_diff(fin, ref)); continue
        # rows of completed frames are final
        final_rows = {}
        for l in fin:
            m = ROW.match(l)
            if m: final_rows[(m.group(1), int(m.group(2)))] = m.group(3)
        for k, (ln, lines) in states.items():
            for l in lines:
                m = ROW.match(l)
                if m and not m.group(1).startswith('item') and int(m.group(2)) < ln - 1:
                    if final_rows.get((m.group(1), int(m.group(2)))) != m.group(3):
                        fail('row %s[%s] of a completed frame changed after call %d' % (m.group(1), m.group(2), k)); ok = False; break
            if not ok: break
    corr.sample({'version': list(reps[0].ver), 'frames': len(reps[0].frames), 'chunks': cases[2][1][1]})
    # the in-progress row view (impl game::Game for ParseState, mutable Frame::transpose_one) after every event: implementation vs model,
    # and each view line against the column rows of the same state
    from .C13 import check_views
    vcases = [('w%d' % i, [synth.emit(r).hex(), 'm']) for i, r in enumerate(reps[:(80 if thorough else 25)] + reps[-5:]) if r.frames]
    vimpl, _ = both_modes(ctx, 'view', vcases, corr, parallel=16, timeout_ms=60000)
    vone, _ = both_modes(ctx, 'view', [('o' + c[1:], [f_[0], 'i']) for c, f_ in vcases], corr, parallel=16, timeout_ms=60000)
    for cid, f in vcases:
        corr.seen('view' + f[0]); corr.count('in_progress_views')
        out = vimpl.get(cid) or ['?']
        if out[0] != 'OK' or any(('PANIC' in l or l.startswith('ABORT')) for l in out):
            corr.oracle_failures.append((cid, 'in-progress row view failed: %s' % [l[:100] for l in out if 'PANIC' in l or l.startswith(('ERR', 'ABORT', '?'))][:2],
                                         {'mode': 'view', 'fields': f, 'replay_hex': f[0]})); continue
        ks = sorted({int(l[4:l.index(']')]) for l in out if l.startswith('  v[')})
        good = True
        for k in ks:
            if not check_views(out, '  s[%d] ' % k, '  v[%d] ' % k, corr, cid, f, None):
                good = False; break
        # the same frames seen through the finished game (Game::frame(i) of the one-shot result): same records
        fo = vone.get('o' + cid[1:]) or ['?']
        if good and ks and fo[0] == 'OK':
            pre = '  v[%d] ' % ks[-1]
            inprog = {l[len(pre):].split('=', 1)[0]: l[len(pre):].split('=', 1)[1] for l in out if l.startswith(pre) and '=' in l}
            fin1 = {l.split('=', 1)[0]: l.split('=', 1)[1] for l in fo if l.startswith('f[') and '=' in l}
            bad = [k_ for k_ in inprog if k_ in fin1 and fin1[k_] != inprog[k_]]
            if bad:
                a_, b_ = inprog[bad[0]].split(','), fin1[bad[0]].split(',')
                j = next((x for x in range(min(len(a_), len(b_))) if a_[x] != b_[x]), min(len(a_), len(b_)))
                corr.oracle_failures.append((cid, 'frame record %s, component %d: %s while parsing but %s in the one-shot game (Game::frame of the same index)'
                                             % (bad[0], j, ','.join(a_[j:j + 3])[:60], ','.join(b_[j:j + 3])[:60]),
                                             {'mode': 'view', 'fields': f, 'replay_hex': f[0], 'rerun': 'pvh view <file: x <replay_hex> m> and ... i>'}))
            corr.count('views_compared_with_oneshot', len(inprog))
    # the fragmenting-stream model: std read_exact over arbitrary schedules, and the whole reader over short reads + Interrupted
    rexact_corr(ctx, corr, rng, 600 if thorough else 150)
    readsched_corr(ctx, corr, rng, [synth.emit(r) for r in reps[:(120 if thorough else 30)]], 3, faults=False)
    return corr
