"""C11 -- the replay hash is XXH3-64 of exactly the file's bytes, however they arrive"""
import random, re
from .. import core, run as R, synth
from .readerlib import both_modes, dump_dict, readsched_corr

ID = 'C11'
TARGETS = ['theories/Properties/C11.vo']
THEOREMS = core.theorems_of(ID)
LEVEL = ("proved (Properties/C11.v): for EVERY well-formed replay, with or without skip_frames, the reader consumes the whole file and the hashed prefix is the whole file, no hash when not requested; for EVERY input and EVERY fragmentation schedule of the underlying stream (Model/Frag.v: std read_exact over short reads and Interrupted retries, hashing wrapper fed with what each read returned) the full read returns the flat model's game and the hasher saw exactly the consumed prefix (C11_digest_any_fragmentation; the skip path uses copy/seek rather than exact reads and is covered by the differential run); XXH3 itself and the 16-hex-digit formatting are an oracle: the streaming digest of the real run is compared with the one-shot xxh3_64 over the same bytes")


def run(ctx):
    rng = random.Random(ctx.seed)
    corr = core.Corr()
    thorough = ctx.tier == 'thorough'
    corr.rule = ('well-formed replays x read fragmentation (whole, 1-byte reads, fixed chunks, cyclic irregular chunks, two-piece splits) x skip_frames x hash on/off/no options at all; '
                 'oracle: hash == "xxh3:" + 16 lower-case hex digits of the one-shot XXH3-64 of the whole file (computed by a different code path), none when '
                 'not requested; the hash string survives a .slpp round trip unchanged')
    reps = [synth.gen_wf(rng, end=rng.choice(['single', 'double', 'single', None])) for _ in range(400 if thorough else 60)]
    cases = []; info = []
    for i, r in enumerate(reps):
        b = synth.emit(r)
        frs = ['-', '1', '2', '3,1,7', '64', '1000', '%d,100000' % rng.randrange(1, len(b)), '%d,100000' % rng.randrange(1, 40), '5,1,1,300']
        if thorough:
            frs += ['%d,100000' % k for k in rng.sample(range(1, len(b)), min(30, len(b) - 1))]
        for j, fr in enumerate(frs):
            for o in (['h', 'hs'] if r.end else ['h']) + (['-', 'N'] if j == 0 else []):      # 'N': opts = None (the API's defaults: no hash)
                cid = 'c%d_%d_%s' % (i, j, o.replace('-', 'n'))
                cases.append((cid, [b.hex(), o, fr, '-'])); info.append((cid, i, o, fr))
    impl, model = both_modes(ctx, 'read', cases, corr, parallel=16, hashes=True)
    xx = core.run_parallel(R.run_pvh, 'xxh', [('x%d' % i, [synth.emit(r).hex()]) for i, r in enumerate(reps)], n=8)
    cd = dict(cases)
    for cid, i, o, fr in info:
        corr.seen(cd[cid][0] + o + fr); corr.count('opts_' + o); corr.count('frag_' + ('whole' if fr == '-' else 'chunked'))
        out = impl.get(cid) or ['?']
        def fail(what):
            corr.oracle_failures.append((cid, what, {'mode': 'read', 'fields': cd[cid], 'replay_hex': cd[cid][0], 'opts': o, 'chunks': fr,
                                                     'rerun': 'pvh read <file: x <replay_hex> %s %s ->' % (o, fr)}))
        if out[0] != 'OK':
            fail('well-formed replay rejected under fragmentation %s: %s' % (fr, out[0])); continue
        h = dump_dict(out).get('hash')
        exp = (xx.get('x%d' % i) or ['?'])[0] if 'h' in o else 'none'
        if h != exp:
            fail('hash is %s, expected %s (opts %s, read chunks %s)' % (h, exp, o, fr))
        elif 'h' in o and not re.fullmatch(r'xxh3:[0-9a-f]{16}', h):
            fail('hash %r is not "xxh3:" + 16 hex digits' % h)
    # carried unchanged through .slpp
    sl = [('z%d' % i, [synth.emit(r).hex(), 'h', rng.choice(['n', 'l', 'z']), '-']) for i, r in enumerate(reps[:40])]
    res = core.run_parallel(R.run_pvh, 'slpp', sl, n=16, timeout_ms=60000)
    for (cid, f), r in zip(sl, reps):
        corr.seen('slpp' + f[0]); corr.count('slpp')
        d = dump_dict(res.get(cid) or [])
        exp = (xx.get('x' + cid[1:]) or ['?'])[0]
        if d.get('g2.hash') != exp:
            corr.oracle_failures.append((cid, 'hash after the .slpp round trip is %s, expected %s' % (d.get('g2.hash'), exp), {'mode': 'slpp', 'fields': f}))
    # not requested (explicitly, or by calling with no options at all): nothing is stored in the archive either
    sl2 = [('y%d_%s' % (i, o), [synth.emit(r).hex(), o, rng.choice(['n', 'l', 'z']), po]) for i, r in enumerate(reps[:16]) for o, po in (('-', '-'), ('N', 'N'))]
    res2 = core.run_parallel(R.run_pvh, 'slpp', sl2, n=16, timeout_ms=60000)
    for cid, f in sl2:
        corr.seen('slpp-nohash' + f[0] + f[1]); corr.count('slpp_no_hash')
        d = dump_dict(res2.get(cid) or [])
        if d.get('g2.hash') != 'none':
            corr.oracle_failures.append((cid, 'no hash was requested (%s) but the game read back from .slpp reports %s'
                                         % ('opts = None' if f[1] == 'N' else 'compute_hash = false', d.get('g2.hash', (res2.get(cid) or ['?'])[:2])),
                                         {'mode': 'slpp', 'fields': f, 'replay_hex': f[0], 'rerun': 'pvh slpp <file: x <replay_hex> %s %s %s>' % (f[1], f[2], f[3])}))
    corr.sample({'bytes': len(cases[0][1][0]) // 2, 'opts': cases[3][1][1], 'chunks': cases[3][1][2]})
    # arbitrary read schedules (short reads of any size, Interrupted retries): same game, hash over exactly the consumed bytes
    readsched_corr(ctx, corr, rng, [synth.emit(r) for r in reps[:(120 if thorough else 30)]], 3, faults=False, opts=('h',))
    return corr
