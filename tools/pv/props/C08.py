"""C08 -- unknown events and longer payloads never disturb known data"""
import random
from .. import core, run as R, synth
from .readerlib import both_modes, dump_dict

ID = 'C08'
TARGETS = ['theories/Properties/C08.vo']
THEOREMS = core.theorems_of(ID)
LEVEL = ('proved (Properties/C08.v): an event with a code peppi does not know is consumed whole and changes nothing but the byte count, in any state; a whole file with such events interleaved anywhere (also between splitter blocks and inside frames) parses to exactly the game of the file without them; extra trailing payload bytes are ignored by the row decoder and the block decoders; splitter handling = constants regenerated from handle_splitter_event; differential run with insertions at every boundary and newer-version payloads, full and skip-frames reads')


def strip(lines, extra=False):
    out = []
    for l in lines:
        if l.startswith('consumed='): continue
        # with extra bytes the raw blocks differ by construction; the double-Game-End bookkeeping flag is not a field of any event
        # (it only serves re-serialisation, which is refused above 3.16 anyway)
        if extra and l.startswith(('start.bytes=', 'end.bytes=', 'quirks=')): continue
        out.append(l)
    return out


def run(ctx):
    rng = random.Random(ctx.seed)
    corr = core.Corr()
    thorough = ctx.tier == 'thorough'
    corr.rule = ('(a) well-formed replays with 1-3 undeclared-to-peppi event codes added to the payload table and events of those codes inserted at random '
                 'boundaries after Game Start (between splitter blocks, inside frames, between frames, before/after Game End); oracle: same game as without. '
                 '(b) replays of versions above 3.16 whose known events, Game Start and Game End carry 1-9 extra trailing bytes; oracle: every known field equals '
                 'the field of the same replay without the extra bytes')
    cases = []; meta = []
    n = 1500 if thorough else 250
    for i in range(n):
        r = synth.gen_wf(rng, gecko=rng.choice([0, 0, 2, 3]) if rng.random() < 0.5 else 'rand')
        b, plain, evs = synth.with_unknown_events(rng, r, density=rng.choice([0.1, 0.3, 0.6]))
        cases.append(('u%d' % i, [b.hex(), '-', '-', '-'])); cases.append(('p%d' % i, [plain.hex(), '-', '-', '-']))
        meta.append(('unknown', 'u%d' % i, 'p%d' % i, sum(1 for k, _ in evs if k == 'unknown')))
        if r.end and i % 3 == 0:          # the skip-frames read jumps over them by the declared sizes
            cases.append(('us%d' % i, [b.hex(), 's', '-', '-'])); cases.append(('ps%d' % i, [plain.hex(), 's', '-', '-']))
            meta.append(('unknown', 'us%d' % i, 'ps%d' % i, sum(1 for k, _ in evs if k == 'unknown')))
    for i in range(n // 2):
        v = rng.choice([(3, 17), (3, 20), (3, 255), (4, 0), (4, 6), (5, 1), (255, 255)])
        x = rng.randrange(1, 10)
        seed = rng.getrandbits(32)
        r1 = synth.gen_wf(random.Random(seed), v + (0,), end=rng.choice(['single', 'double', None]), gecko=0)
        # the same replay with x extra trailing bytes on every frame-level payload, the start block and the end block
        r2 = synth.gen_wf(random.Random(seed), v + (0,), end=r1.end, gecko=0)
        r2.extra = x
        for f in r2.frames:
            f.chars = [(p, fol, pre + synth.rb(rng, x), post + synth.rb(rng, x)) for (p, fol, pre, post) in f.chars]
            f.items = [it + synth.rb(rng, x) for it in f.items]
            f.fstart = f.fstart + synth.rb(rng, x); f.fend = f.fend + synth.rb(rng, x)
        r2.start_blk = r2.start_blk + synth.rb(rng, x)
        if r2.end: r2.end_blk = r2.end_blk + synth.rb(rng, x)
        cases.append(('x%d' % i, [synth.emit(r2).hex(), '-', '-', '-'])); cases.append(('y%d' % i, [synth.emit(r1).hex(), '-', '-', '-']))
        meta.append(('extra', 'x%d' % i, 'y%d' % i, x))
        if r1.end and i % 2 == 0:         # skip-frames must use the Game End size the file declares, not the one peppi knows
            cases.append(('xs%d' % i, [synth.emit(r2).hex(), 's', '-', '-'])); cases.append(('ys%d' % i, [synth.emit(r1).hex(), 's', '-', '-']))
            meta.append(('extra', 'xs%d' % i, 'ys%d' % i, x))
    impl, model = both_modes(ctx, 'read', cases, corr, parallel=16)
    cd = dict(cases)
    for kind, a, b, k in meta:
        corr.seen(cd[a][0]); corr.count(kind)
        oa, ob = impl.get(a) or ['<missing>'], impl.get(b) or ['<missing>']
        if ob[0] != 'OK':
            corr.oracle_failures.append((b, 'reference replay rejected: %s' % ob[0], {'mode': 'read', 'fields': cd[b]})); continue
        if oa[0] != 'OK':
            corr.oracle_failures.append((a, ('replay with %d unknown declared events' % k if kind == 'unknown' else 'replay of a newer version with %d extra trailing bytes per event' % k)
                                         + ' is rejected: %s' % oa[0], {'mode': 'read', 'fields': cd[a], 'replay_hex': cd[a][0], 'reference_hex': cd[b][0]}))
            continue
        sa, sb = strip(oa, kind == 'extra'), strip(ob, kind == 'extra')
        if sa != sb:
            from .common import first_diff
            corr.oracle_failures.append((a, ('unknown events change the parsed game: ' if kind == 'unknown' else 'extra trailing bytes change known fields: ') + first_diff(sa, sb),
                                         {'mode': 'read', 'fields': cd[a], 'replay_hex': cd[a][0], 'reference_hex': cd[b][0]}))
    corr.sample({'kind': meta[0][0], 'inserted': meta[0][3], 'bytes': len(cases[0][1][0]) // 2}); corr.sample({'kind': meta[-1][0], 'extra_bytes': meta[-1][3]})
    return corr
