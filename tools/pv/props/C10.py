"""C10 -- skip-frames parsing returns the same start, end and metadata as a full parse"""
import random
from .. import core, run as R, synth
from .readerlib import both_modes, dump_dict, canon

ID = 'C10'
TARGETS = ['theories/Properties/C10.vo']
THEOREMS = core.theorems_of(ID)
LEVEL = ('proved (Properties/C10.v): for EVERY finished well-formed replay (any version, gecko blocks, single or doubled Game End, metadata or none), hashing on or off, the skipping read succeeds, consumes the whole file and returns the same start, end and metadata as the full read with an empty frame set; reader model tied to the code by differential runs; oracle on the real library: skip read = full read, zero frames, and the result survives write + re-read in .slp and .slpp (.slpp half: C02/C18 model + runs)')
KEYS = ('start.bytes', 'start.json', 'end.bytes', 'end.json', 'metadata')


def run(ctx):
    rng = random.Random(ctx.seed)
    corr = core.Corr()
    thorough = ctx.tier == 'thorough'
    corr.rule = ('finished well-formed replays (Game End single or doubled as the last event) of every layout version, with and without hashing, incl. zero-frame '
                 'and frame-less-with-gecko games; read(skip) vs read(full); then read(skip) -> write -> read(skip) -> write; then the same through .slpp '
                 '(write .slpp from the skip result, read back with and without skip_frames)')
    reps = []
    n = 1500 if thorough else 250
    for v in synth.BOUNDARY_VERSIONS:
        reps.append(synth.gen_wf(rng, v, nframes=0, end='single', gecko=0))
    while len(reps) < n:
        reps.append(synth.gen_wf(rng, end=rng.choice(['single', 'single', 'double'])))
    cases = []
    for i, r in enumerate(reps):
        b = synth.emit(r).hex()
        h = rng.choice(['', 'h'])
        cases.append(('f%d' % i, [b, h or '-', '-', '-'])); cases.append(('s%d' % i, [b, 's' + h, '-', '-']))
    impl, model = both_modes(ctx, 'read', cases, corr, parallel=16, hashes=True)
    rt = [('r%d' % i, [synth.emit(r).hex(), 's']) for i, r in enumerate(reps)]
    impl2, model2 = both_modes(ctx, 'rt', rt, corr, parallel=16)
    sl = [('z%d' % i, [synth.emit(r).hex(), 's', rng.choice(['n', 'l', 'z']), rng.choice(['-', 's'])]) for i, r in enumerate(reps)]
    impl3 = core.run_parallel(R.run_pvh, 'slpp', sl, n=16, timeout_ms=60000)
    for i, r in enumerate(reps):
        corr.seen(cases[2 * i][1][0]); corr.count('frames_%d' % min(len(r.frames), 3)); corr.count('end_' + r.end)
        f, s = impl.get('f%d' % i) or ['?'], impl.get('s%d' % i) or ['?']
        hexd = cases[2 * i][1][0]
        def fail(what, extra=None):
            corr.oracle_failures.append(('s%d' % i, what, dict({'mode': 'read', 'fields': [hexd, 's', '-', '-'], 'replay_hex': hexd,
                                                               'rerun': 'pvh read <file: x <replay_hex> s - ->'}, **(extra or {}))))
        if f[0] != 'OK':
            fail('full read of a finished well-formed replay failed: %s' % f[0]); continue
        if s[0] != 'OK':
            fail('skip-frames read failed where the full read succeeds: %s' % s[0]); continue
        df, ds = dump_dict(f), dump_dict(s)
        bad = [k for k in KEYS if df.get(k) != ds.get(k)] + (['end'] if ('end' in df) != ('end' in ds) else [])
        if bad:
            fail('skip-frames read differs from the full read on %s' % bad, {'full': {k: df.get(k, '')[:100] for k in bad}, 'skip': {k: ds.get(k, '')[:100] for k in bad}}); continue
        if ds.get('frames.len') != '0':
            fail('skip-frames read has %s frames' % ds.get('frames.len')); continue
        if df.get('hash') != ds.get('hash') and ('h' in cases[2 * i][1][1]):
            fail('hash differs between skip and full read: %s vs %s' % (ds.get('hash'), df.get('hash'))); continue
        d2 = dump_dict(impl2.get('r%d' % i) or [])
        if d2.get('read2') != 'OK' or d2.get('same_game') != '1':
            fail('the skip-frames result cannot be written and re-read: write1=%s read2=%s same=%s' % (d2.get('write1', '')[:20], d2.get('read2'), d2.get('same_game'))); continue
        o3 = impl3.get('z%d' % i) or ['?']
        d3 = dump_dict(o3)
        if d3.get('slpp.write', '').split(' ')[0] != 'OK' or d3.get('slpp.read') != 'OK' or d3.get('same_game') != '1':
            fail('the skip-frames result does not survive .slpp write + read (%s): %s' % (sl[i][1][2:], [l[:80] for l in o3[:6]]), {'mode': 'slpp', 'fields': sl[i][1]}); continue
    corr.sample({'version': list(reps[30].ver), 'frames': len(reps[30].frames), 'end': reps[30].end, 'opts': [cases[60][1][1], cases[61][1][1]]})
    return corr
