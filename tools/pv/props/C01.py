"""C01 -- .slp read -> write reproduces the file"""
import random
from .. import core, run as R, synth
from .readerlib import both_modes, canon, dump_dict, fixtures

ID = 'C01'
TARGETS = ['theories/Properties/C01.vo']
THEOREMS = core.theorems_of(ID)
LEVEL = ('proved (Properties/C01.v) for EVERY well-formed replay r (Model/Recorder.v: any version <= max, any ports, any frame history with rollbacks/absent characters/items, gecko blocks, Game End single/doubled/missing, metadata or none): the reader model returns exactly game_of r and consumes the whole stream emit r (C01_read), the writer model on that game returns exactly emit r (C01_write), hence read-then-write is the identity on the file (C01_roundtrip); the regenerated reader/writer/size tables have the same shape, so the writer re-encodes every row to itself for every version (kernel-checked on every run); models tied to the code by differential runs (read->write->read->write on generated well-formed replays of every layout version, fixtures included) and the byte-identity oracle on the real library')


def gen(rng, n):
    out = []
    # directed corpus first: one replay per version class x shape
    for v in synth.BOUNDARY_VERSIONS:
        shape = rng.choice(['absent_leader', 'absent_follower', 'noend', 'nometa', 'zero', 'double', 'gecko', 'rollback'])
        kw = dict(v=v, ports=[(0, True), (2, False)], nframes=4, end='single', metadata={'a': 1}, gecko=0, absent=0.0)
        if shape == 'absent_leader': kw.update(absent=0.4)
        if shape == 'absent_follower': kw.update(absent=0.3)
        if shape == 'noend': kw.update(end=None)
        if shape == 'nometa': kw.update(metadata=None)
        if shape == 'zero': kw.update(nframes=0)
        if shape == 'double': kw.update(end='double')
        if shape == 'gecko': kw.update(gecko=2)
        if shape == 'rollback': kw.update(nframes=8)
        out.append(synth.gen_wf(rng, **kw))
    while len(out) < n:
        out.append(synth.gen_wf(rng))
    return out


def run(ctx):
    rng = random.Random(ctx.seed)
    corr = core.Corr()
    thorough = ctx.tier == 'thorough'
    corr.rule = ('generated well-formed replays (Recorder.wf_replay holds by construction and is re-checked by the model): every layout boundary version '
                 'and neighbours, port subsets with/without Ice Climbers, rollbacks (>= 2.2), absent characters, 0-5 items, gecko blocks, end none/single/double, '
                 'metadata none/empty/random tree, field bytes incl. NaN patterns; plus the fixture files. Oracle: write(read(x)) == x on the real library. '
                 'Distinct = distinct replay bytes.')
    reps = gen(rng, 3000 if thorough else 400)
    cases = []
    ecases = []
    for i, r in enumerate(reps):
        b = synth.emit(r)
        cases.append(('w%d' % i, [b.hex(), '-']))
        ecases.append(('w%d' % i, synth.to_case(r, '-')))
    fx = fixtures(10 ** 9 if thorough else 300000)
    for name, b in fx:
        cases.append((name, [b.hex(), '-']))
    impl, model = both_modes(ctx, 'rt', cases, corr, parallel=16, timeout_ms=120000)
    for cid, f in cases:
        corr.seen(f[0])
        out = impl.get(cid) or ['<missing>']
        d = dump_dict(out)
        corr.count('fixture' if not cid.startswith('w') else 'generated')
        if out[0] != 'OK' or d.get('identical') != '1':
            why = 'read failed: %s' % out[0] if out[0] != 'OK' else ('rewritten file differs from the input' if 'write1' in d and not d['write1'].startswith('ERR') else 'write failed: %s' % d.get('write1'))
            w1 = d.get('write1', '')
            extra = {}
            if len(w1) > 20 and not w1.startswith(('ERR', 'PANIC')):
                a = bytes.fromhex(f[0]); b2 = bytes.fromhex(w1)
                k = next((i for i in range(min(len(a), len(b2))) if a[i] != b2[i]), min(len(a), len(b2)))
                extra = {'first_differing_offset': k, 'input_len': len(a), 'output_len': len(b2), 'input_at': a[max(0, k - 8):k + 8].hex(), 'output_at': b2[max(0, k - 8):k + 8].hex()}
            corr.oracle_failures.append((cid, 'well-formed replay is not reproduced byte for byte: %s' % why,
                                         dict({'mode': 'rt', 'fields': [f[0], '-'], 'replay_hex': f[0], 'rerun': 'pvh rt <file: x <replay_hex> ->'}, **extra)))
    # the recorder model: emit r == generator bytes, wf_replay r, game_of r == what the real reader returns
    if getattr(ctx, 'model_ok', True):
        em = core.run_parallel(core.run_model, 'emit', ecases, n=16)
        rd = core.run_parallel(R.run_pvh, 'read', [(c, [f[0], '-', '-', '-']) for c, f in cases if c.startswith('w')], n=16)
        for (cid, f), r in zip(cases, reps):
            m = em.get(cid) or ['?', '?']
            if any('UNMODELLED' in l for l in m[:4]) or m[2:3] == ['NOGAME']:
                continue
            if m[0] != 'emit=' + f[0]:
                corr.disagreements.append((cid, 'Recorder.emit differs from the generator bytes', {'case': cid}))
            elif m[1] != 'wf=1':
                corr.disagreements.append((cid, 'generated replay does not satisfy Recorder.wf_replay', {'case': cid, 'replay_hex': f[0]}))
            elif canon(rd.get(cid)) != m[2:]:
                from .common import first_diff
                corr.disagreements.append((cid, 'game_of r differs from the real reader: ' + first_diff(canon(rd.get(cid)), m[2:]), {'case': cid, 'replay_hex': f[0]}))
    # are the files of real recorders inside the class the theorems quantify over?  (Model/Abstract.v: rebuild the abstract replay
    # from the parsed game, check wf_replay and emit = file, by computation in the extracted model)
    if getattr(ctx, 'model_ok', True) and fx:
        ic = core.run_parallel(core.run_model, 'inclass', [(n, [b.hex()]) for n, b in fx], n=8)
        inside = sorted(n for n, _ in fx if (ic.get(n) or ['?'])[0] == 'inclass=1')
        outside = sorted(n for n, _ in fx if (ic.get(n) or ['?'])[0] == 'inclass=0')
        unread = sorted(n for n, _ in fx if (ic.get(n) or ['?'])[0] not in ('inclass=1', 'inclass=0'))
        corr.count('fixtures_in_theorem_class', len(inside)); corr.count('fixtures_outside_theorem_class', len(outside))
        corr.count('fixtures_not_read_by_model', len(unread))
        corr.sample({'fixtures_in_theorem_class': inside, 'outside': outside, 'not_read_by_executable_model(shift-jis names)': unread})
    r0 = reps[0]
    corr.sample({'version': list(r0.ver), 'ports': r0.ports, 'frames': [f.fid for f in r0.frames], 'end': r0.end, 'bytes': len(cases[0][1][0]) // 2})
    corr.sample({'fixtures': [n for n, _ in fx]})
    return corr
