"""C20 -- version comparison, parsing, display"""
import random, re
from .. import core, run as R
from .common import both

ID = 'C20'
TARGETS = ['theories/Properties/C20.vo']
THEOREMS = core.theorems_of(ID)
LEVEL = ('gte/lt regenerated from src/io/slippi/mod.rs and proved equal to the lexicographic order for all N; '
         'display/parse hand model proved inverse on all u8 triples and characterised exactly; model tied to the code by '
         'exhaustive (thorough) or boundary-slice (quick) differential runs')


def u8str_ok(s):
    """Python oracle for u8::from_str on a byte string"""
    m = re.fullmatch(rb'\+?([0-9]+)', s)
    return bool(m) and int(m.group(1)) <= 255


def parse_oracle(s):
    parts = s.split(b'.')
    if len(parts) != 3 or not all(u8str_ok(p) for p in parts):
        return None
    return tuple(int(p) for p in parts)


def gen_strings(rng, n):
    out = []
    alphabet = [b'0', b'1', b'2', b'5', b'9', b'.', b'.', b'+', b'-', b' ', b'a', b'\xd9\xa1', b'00', b'255', b'256', b'25', b'', b'\t']
    for _ in range(n):
        t = rng.random()
        if t < 0.35:
            a, b, c = (rng.choice([0, 1, 9, 10, 99, 100, 199, 200, 255, rng.randrange(256)]) for _ in range(3))
            s = b'%d.%d.%d' % (a, b, c)
        elif t < 0.6:
            comps = []
            for _ in range(rng.choice([3, 3, 3, 2, 4, 1])):
                k = rng.random()
                v = rng.choice([0, 7, 16, 255, 256, 300, 1000, 99999999999999999999, rng.randrange(400)])
                if k < 0.5: comps.append(b'%d' % v)
                elif k < 0.65: comps.append(b'+%d' % v)
                elif k < 0.75: comps.append(b'0' * rng.randrange(1, 4) + b'%d' % v)
                elif k < 0.8: comps.append(b'-%d' % v)
                elif k < 0.85: comps.append(b'')
                elif k < 0.9: comps.append(b'+')
                else: comps.append(b' %d' % v)
            s = b'.'.join(comps)
        else:
            s = b''.join(rng.choice(alphabet) for _ in range(rng.randrange(0, 9)))
        out.append(s)
    return out


def run(ctx):
    rng = random.Random(ctx.seed)
    corr = core.Corr()
    corr.rule = ('gte/lt: run-length encoding of gte(v,M,m) over all 65536 (M,m) for a set of versions (quick: majors 0-4,254,255 x all minors; '
                 'thorough: all 65536 (major,minor)); text: display of triples and parse of generated valid/mutated strings for both Version types; '
                 'thorough adds the display/parse round trip of all 2^24 triples in the implementation. A case is non-trivial if distinct by content.')
    thorough = ctx.tier == 'thorough'
    # ---- gte sweep: each case covers 65536 thresholds for 256 versions
    majors = list(range(256)) if thorough else [0, 1, 2, 3, 4, 254, 255]
    cases = [('g%d' % a, [str(a), str(a), '0', '255']) for a in majors]
    binary = R.PVH_RELEASE if thorough else None
    impl, model = both(ctx, 'gtesweep', cases, corr, timeout_ms=600000, parallel=16, binary=binary)
    for cid, f in cases:
        lines = impl.get(cid, [])
        for l in lines:
            corr.seen('gte ' + l)
            m = re.match(r'v=(\d+)\.(\d+) runs=(\S+) neg=(\d)', l)
            if not m:
                corr.oracle_failures.append((cid, 'gte sweep produced %r' % l[:80], {'mode': 'gtesweep', 'line': l}))
                continue
            a, b = int(m.group(1)), int(m.group(2))
            # oracle: gte true exactly for (M,m) <= (a,b): a*256+b+1 thresholds true, then false
            k = a * 256 + b + 1
            exp = '1x%d' % k + (';0x%d' % (65536 - k) if k < 65536 else '')
            if m.group(3) != exp or m.group(4) != '1':
                corr.oracle_failures.append((cid, 'Version(%d,%d,_).gte is not the lexicographic test or lt is not its negation' % (a, b),
                                             {'mode': 'gtesweep', 'version': [a, b], 'expected_runs': exp, 'got': l[:300],
                                              'rerun': 'pvh gtesweep with case: x %d %d %d %d' % (a, a, b, b)}))
        corr.count('gte_versions', len(lines))
    corr.sample({'gtesweep': cases[0], 'impl_first_line': (impl.get(cases[0][0]) or ['?'])[0][:120]})
    corr.evaluations += 65535 * sum(len(impl.get(c[0], [])) for c in cases)
    # ---- text
    tcases = []
    n = 3000 if thorough else 600
    trip = [(a, b, c) for a in (0, 3, 9, 10, 99, 100, 255) for b in (0, 16, 100, 255) for c in (0, 1, 255)]
    trip += [(rng.randrange(256), rng.randrange(256), rng.randrange(256)) for _ in range(n)]
    for i, (a, b, c) in enumerate(trip):
        tcases.append(('s%d' % i, ['show', str(a), str(b), str(c)]))
        tcases.append(('q%d' % i, ['pshow', str(a), str(b), str(c)]))
    strs = gen_strings(rng, n * 2)
    strs = [s for s in strs if b' ' not in s and b'\t' not in s] + [b'3.16.0', b'0.1.0', b'+3.+16.+0', b'3.16', b'3.16.0.0', b'', b'..', b'256.0.0', b'0.0.256', b'03.016.000']
    # strings are transported as hex so any bytes are fine, but the harness needs valid UTF-8
    ok_strs = []
    for s in strs:
        try:
            s.decode('utf-8'); ok_strs.append(s)
        except UnicodeDecodeError:
            pass
    for i, s in enumerate(ok_strs):
        tcases.append(('p%d' % i, ['parse', s.hex() or '-']))
        tcases.append(('r%d' % i, ['pparse', s.hex() or '-']))
    impl, model = both(ctx, 'ver', tcases, corr, parallel=4)
    for cid, f in tcases:
        corr.seen(' '.join(f))
        out = (impl.get(cid) or ['?'])[0]
        if f[0] in ('show', 'pshow'):
            exp = (b'%d.%d.%d' % tuple(int(x) for x in f[1:4])).hex()
            corr.count('show')
            if out != exp:
                corr.oracle_failures.append((cid, 'display of %s is %s, expected %s' % (f[1:4], out, exp), {'mode': 'ver', 'fields': f, 'got': out}))
        else:
            s = bytes.fromhex(f[1]) if f[1] != '-' else b''
            o = parse_oracle(s)
            exp = 'ERR' if o is None else 'OK %d %d %d' % o
            corr.count('parse_ok' if o else 'parse_err')
            if out != exp:
                corr.oracle_failures.append((cid, 'parse(%r) gave %s, expected %s' % (s, out, exp), {'mode': 'ver', 'fields': f, 'string': repr(s), 'got': out, 'expected': exp}))
    corr.sample({'ver': tcases[0]}); corr.sample({'ver': tcases[-1], 'string': repr(ok_strs[-1])})
    if thorough:
        sw = [('t%d' % a, [str(a), str(a)]) for a in range(256)]
        res = core.run_parallel(R.run_pvh, 'textsweep', sw, n=16, timeout_ms=600000, binary=R.PVH_RELEASE)
        for cid, f in sw:
            l = (res.get(cid) or ['?'])[-1]
            corr.evaluations += 65536
            if l != 'n=65536 bad=0':
                corr.oracle_failures.append((cid, 'display/parse round trip fails for major %s: %s' % (f[0], res.get(cid)), {'mode': 'textsweep', 'fields': f, 'got': res.get(cid)}))
        corr.count('textsweep_triples', 1 << 24)
        corr.exhaustive = True
    return corr
