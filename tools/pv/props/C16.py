"""C16 -- metadata trees are read, written and stored with order and bytes preserved"""
import random, struct
from .. import core, run as R, synth, startspec
from .readerlib import both_modes, dump_dict

ID = 'C16'
TARGETS = ['theories/Properties/C16.vo']
THEOREMS = core.theorems_of(ID)
LEVEL = ("hand model of the UBJSON subset reader/writer (Model/Ubjson.v); proved (Properties/C16.v): read(write t) = t for EVERY well-formed tree (strings <= 255 bytes of UTF-8, i32 integers, nested maps with distinct keys, nesting within the reader's regenerated limit), order kept, truncated blocks rejected; in a whole file the parsed metadata is the replay's (present or absent); the JSON rendering has a left inverse (tree and key order recoverable); serde_json preserve_order is read from Cargo.toml; model tied to the code by differential runs on random trees embedded in replays; the serde_json text layer of the .slpp copy is exercised, not proved")


def rand_tree(rng, depth=0, maxdepth=4):
    m = {}
    for _ in range(rng.choice([0, 1, 2, 3, 5, 8])):
        kl = rng.choice([0, 1, 3, 8, 40, 255])
        k = ''.join(rng.choice('abcXYZ0189_-é漢字😀 ') for _ in range(kl))
        if rng.random() < 0.15: k = rng.choice(['\0', ' ', '\t', '\x7f', '\x01', '\0\0']) * rng.choice([0, 1]) + k[:200] + rng.choice(['\0', '\0\0', ' ', '\n', '\r', '\x1f'])
        while len(k.encode()) > 255: k = k[:-1]
        if k in m: continue
        t = rng.random()
        if t < 0.35:
            s = ''.join(rng.choice('abc 0:-TZ.üñ漢😀"\\\n') for _ in range(rng.choice([0, 1, 5, 20, 120])))
            if rng.random() < 0.2: s = rng.choice(['', '\0', ' ']) + s[:200] + rng.choice(['\0', '\0\0\0', ' ', '\t', '\x7f'])
            while len(s.encode()) > 255: s = s[:-1]
            m[k] = s
        elif t < 0.7:
            m[k] = rng.choice([0, 1, -1, 5209, -2 ** 31, 2 ** 31 - 1, -123, rng.randrange(-2 ** 31, 2 ** 31)])
        elif depth < maxdepth:
            m[k] = rand_tree(rng, depth + 1, maxdepth)
        else:
            m[k] = {}
    return m


def cj(t):
    if isinstance(t, dict): return startspec.obj([(k, cj(v)) for k, v in t.items()])
    if isinstance(t, str): return startspec.jstr(t)
    return str(t)


def nest(d, leaf):
    m = leaf
    for _ in range(d - 1):
        m = {'n': m}
    return m


def run(ctx):
    rng = random.Random(ctx.seed)
    corr = core.Corr()
    thorough = ctx.tier == 'thorough'
    corr.rule = ('random metadata trees (0-8 entries per map, keys/strings of 0-255 UTF-8 bytes incl. multi-byte characters, NUL and other control characters and blanks at either end, i32 extremes and negatives, empty maps, '
                 'nesting up to 4 and chains up to the limit 127) embedded in small replays, and replays without metadata; oracle: metadata read = the tree in '
                 'order, write(read) reproduces the file, the tree survives .slpp (JSON copy) and comes back to identical .slp bytes; none stays none')
    trees = [None, {}, {'a': {}}, nest(127, {'x': 1}), nest(126, {'k': 'v'}), nest(60, {}),
             {'consoleNick': 'Station 1\0\0', 'k\0': 'v', '\0': '\0', 'k': '\0v'}, {'0\0': 1, '0': 2, '0\0\0': 3, ' 0': 4, '0 ': 5}]
    trees += [rand_tree(rng) for _ in range(1500 if thorough else 250)]
    cases = []; sl = []
    for i, t in enumerate(trees):
        r = synth.gen_wf(rng, rng.choice([(0, 1), (2, 0), (3, 16)]), nframes=1, metadata=t, gecko=0, end=rng.choice(['single', None]))
        b = synth.emit(r)
        cases.append(('t%d' % i, [b.hex(), '-']))
        sl.append(('t%d' % i, [b.hex(), '-', rng.choice(['n', 'l', 'z']), '-']))
    import sys
    sys.setrecursionlimit(10000)
    impl, model = both_modes(ctx, 'rt', cases, corr, parallel=16, timeout_ms=30000)
    rd = core.run_parallel(R.run_pvh, 'read', [(c, [f[0], '-', '-', '-']) for c, f in cases], n=16)
    sres = core.run_parallel(R.run_pvh, 'slpp', sl, n=16, timeout_ms=60000)
    for (cid, f), t in zip(cases, trees):
        corr.seen(f[0]); corr.count('none' if t is None else 'entries_%d' % min(len(t), 4))
        def fail(what, extra=None):
            corr.oracle_failures.append((cid, what, dict({'mode': 'rt', 'fields': f, 'replay_hex': f[0], 'tree': repr(t)[:400], 'rerun': 'pvh rt <file: x <replay_hex> ->'}, **(extra or {}))))
        d = dump_dict(rd.get(cid) or [])
        exp = 'none' if t is None else cj(t)
        if (rd.get(cid) or ['?'])[0] != 'OK':
            fail('replay with a well-formed metadata block rejected: %s' % (rd.get(cid) or ['?'])[:2]); continue
        if d.get('metadata') != exp:
            fail('metadata read differs from the tree in the file', {'got': d.get('metadata', '')[:300], 'expected': exp[:300]}); continue
        if dump_dict(impl.get(cid) or []).get('identical') != '1':
            fail('writing the metadata back does not reproduce the original bytes'); continue
        ds = dump_dict(sres.get(cid) or [])
        if ds.get('slpp.read') != 'OK' or ds.get('same_game') != '1' or ds.get('slp2_identical') != '1':
            fail('metadata does not survive the .slpp JSON copy: %s' % [l[:100] for l in (sres.get(cid) or [])[:6]], {'mode': 'slpp'}); continue
    corr.sample({'tree': repr(trees[8])[:300]}); corr.sample({'tree': 'chain of 127 nested maps'})
    return corr
