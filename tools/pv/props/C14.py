"""C14 -- the Arrow struct array has the per-version schema and converts back losslessly"""
import random, re
from .. import core, run as R, synth, spec
from .readerlib import both_modes, dump_dict

ID = 'C14'
TARGETS = ['theories/Properties/C14.vo']
THEOREMS = core.theorems_of(ID)
LEVEL = ("proved (Properties/C14.v): the regenerated Arrow schema leaves are the reader's leaves = the spec per version; data_type / into / from agree positionally; enabled fields form a prefix; the export model is total for every version and non-empty port set with children id, ports, start (>= 2.2), end (>= 3.7), item (>= 3.0); differential run of into_struct_array / from_struct_array on generated games of every layout version")

PRIM = {'U8': 'u8', 'I8': 'i8', 'U16': 'u16', 'I16': 'i16', 'U32': 'u32', 'I32': 'i32', 'F32': 'f32'}
PORTN = ['P1', 'P2', 'P3', 'P4']


def expected_schema(r, sp):
    """list of (path, kind) lines the export must have, in order: struct fields and primitive leaves"""
    v = r.ver
    out = []
    def struct(path, E):
        leaves = [(p, t) for (p, t, off, since) in sp[E] if spec.enabled(v, since)]
        # group dotted prefixes
        own = []
        for p, t in leaves:
            head = p.split('.')[0]
            if not own or own[-1][0] != head:
                own.append((head, []))
            own[-1][1].append((p, t))
        out.append((path, 'struct:' + ','.join(h for h, _ in own)))
        for h, ls in own:
            if len(ls) == 1 and '.' not in ls[0][0]:
                out.append((path + '/' + h, PRIM[ls[0][1]]))
            else:
                out.append((path + '/' + h, 'struct:' + ','.join(p.split('.')[1] for p, _ in ls)))
                for p, t in ls:
                    out.append((path + '/' + h + '/' + p.split('.')[1], PRIM[t]))
    top = ['id', 'ports']
    if spec.enabled(v, (2, 2)): top.append('start')
    if spec.enabled(v, (3, 7)): top.append('end')
    if spec.enabled(v, (3, 0)): top.append('item')
    out.append(('frame', 'struct:' + ','.join(top)))
    out.append(('frame/id', 'i32'))
    out.append(('frame/ports', 'struct:' + ','.join(PORTN[p] for p, _ in r.ports)))
    for p, ics in r.ports:
        pp = 'frame/ports/' + PORTN[p]
        out.append((pp, 'struct:leader' + (',follower' if ics else '')))
        for who in ['leader'] + (['follower'] if ics else []):
            out.append((pp + '/' + who, 'struct:pre,post'))
            struct(pp + '/' + who + '/pre', 'Pre'); struct(pp + '/' + who + '/post', 'Post')
    if 'start' in top: struct('frame/start', 'Start')
    if 'end' in top: struct('frame/end', 'End')
    if 'item' in top:
        out.append(('frame/item', 'list:item'))
        struct('frame/item/[item]', 'Item')
    return out


def run(ctx):
    rng = random.Random(ctx.seed)
    corr = core.Corr()
    thorough = ctx.tier == 'thorough'
    corr.rule = ('well-formed replays: every layout version x port configurations (1-4 ports, Ice Climbers), absent characters, items; Frame::into_struct_array walked '
                 'recursively (field names, nesting, order, primitive types, struct validity, values); then from_struct_array and slippi::write; oracle: schema derived from '
                 'Layout/Spec.v for the version, leaf columns equal the column dump, leader/follower validity equals the presence bits, re-serialised .slp identical')
    sp = spec.load()
    reps = []
    vers = synth.BOUNDARY_VERSIONS + ([(3, 1), (3, 4), (2, 5), (0, 5)] if thorough else [])
    for v in vers:
        for _ in range(6 if thorough else 2):
            reps.append(synth.gen_wf(rng, v, nframes=rng.choice([0, 1, 3]), items=rng.choice([0, 2])))
    for _ in range(600 if thorough else 60):
        reps.append(synth.gen_wf(rng))
    cases = [('a%d' % i, [synth.emit(r).hex()]) for i, r in enumerate(reps)]
    impl, model = both_modes(ctx, 'arrow', cases, corr, parallel=16, timeout_ms=60000)
    for (cid, f), r in zip(cases, reps):
        corr.seen(f[0]); corr.count('v%d.%d' % r.ver[:2]); corr.count('ports_%d' % len(r.ports))
        out = impl.get(cid) or ['?']
        def fail(what, extra=None):
            corr.oracle_failures.append((cid, 'version %d.%d.%d: %s' % (r.ver + (what,)), dict({'mode': 'arrow', 'fields': f, 'replay_hex': f[0], 'rerun': 'pvh arrow <file: x <replay_hex>>'}, **(extra or {}))))
        if out[0] != 'OK' or 'arrow=OK' not in out:
            fail('Arrow export failed: %s' % [l[:120] for l in out if l.startswith(('PANIC', 'ERR', 'panic'))][:2]); continue
        A = [l for l in out if l.startswith('A ')]
        got = []
        vals = {}
        valid = {}
        for l in A:
            m = re.match(r'A (\S+) struct len=(\d+) fields=(\S*) nullable=(\S*) validity=(\S+)', l)
            if m:
                got.append((m.group(1), 'struct:' + m.group(3))); valid[m.group(1)] = m.group(5)
                if '1' in m.group(4): fail('field of %s is declared nullable' % m.group(1))
                continue
            m = re.match(r'A (\S+) list len=(\d+) inner=(\S+) offsets=(\S*)', l)
            if m:
                got.append((m.group(1), 'list:' + m.group(3))); vals[m.group(1)] = m.group(4); continue
            m = re.match(r'A (\S+) (\w+) len=(\d+) vals=(\S*)', l)
            if m:
                got.append((m.group(1), m.group(2))); vals[m.group(1)] = m.group(4)
        exp = expected_schema(r, sp)
        if got != exp:
            k = next((i for i, (a, b) in enumerate(zip(got, exp)) if a != b), min(len(got), len(exp)))
            fail('Arrow schema differs from the per-version field table at %s: got %s, expected %s' % (k, got[k] if k < len(got) else None, exp[k] if k < len(exp) else None)); continue
        d = dump_dict(out)
        # values: every leaf column equals the in-memory column
        ok = True
        def colvals(label, name):
            names = d.get(label + '.cols', '').split(',')
            n = int(d.get(label + '.rows', '0'))
            if name not in names: return None
            k = names.index(name)
            return ','.join(d.get('%s[%d]' % (label, i), '').split(',')[k] for i in range(n))
        for k, (p, ics) in enumerate(r.ports):
            for who in ['leader'] + (['follower'] if ics else []):
                base = 'frame/ports/%s/%s' % (PORTN[p], who)
                if valid.get(base) != d.get('port[%d].%s.validity' % (k, who)):
                    fail('validity of %s is %s, presence bits are %s' % (base, valid.get(base), d.get('port[%d].%s.validity' % (k, who)))); ok = False; break
                for key in ('pre', 'post'):
                    for path, kind in exp:
                        if path.startswith(base + '/' + key + '/') and not kind.startswith('struct'):
                            name = path[len(base + '/' + key + '/'):].replace('/', '.')
                            if vals.get(path) != colvals('port[%d].%s.%s' % (k, who, key), name):
                                fail('exported column %s differs from the in-memory column' % path); ok = False; break
                    if not ok: break
                if not ok: break
            if not ok: break
        if not ok: continue
        if vals.get('frame/id') is not None:
            ids = ','.join(str(x % (1 << 32)) for x in [fr.fid for fr in r.frames])
            if vals['frame/id'] != ids:
                fail('exported id column differs'); continue
        if 'frame/item' in vals and vals['frame/item'] != d.get('item_offset'):
            fail('item list offsets %s differ from the frame item offsets %s' % (vals['frame/item'], d.get('item_offset'))); continue
        if d.get('back_identical') != '1':
            fail('importing the exported array and writing .slp does not reproduce the input (%s)' % [l for l in out if l.startswith('back')]); continue
    corr.sample({'version': list(reps[0].ver), 'ports': reps[0].ports, 'schema_head': [x for x in expected_schema(reps[0], sp)[:6]]})
    return corr
