"""C13 -- the per-frame row view equals the columnar data at the same index"""
import random, re
from .. import core, run as R, synth
from .readerlib import both_modes, dump_dict

ID = 'C13'
TARGETS = ['theories/Properties/C13.vo']
THEOREMS = core.theorems_of(ID)
LEVEL = ("proved (Properties/C13.v): both regenerated transpose_one families are the identity leaf map over the reader's leaves with Option exactly on gated leaves (kernel-checked), so the row view at index i is the tuple of the columns at i; end to end on the hand model of Frame::transpose_one: for every well-formed replay the view of row i is the i-th frame occurrence of the file, in range iff i < rows; model tied to Game::frame / ParseState::frame by differential runs; oracle: every view line equals the column dump")


def check_views(lines, prefix_cols, prefix_view, corr, cid, fields, upto):
    """view lines f[i].X=vals must equal column rows X[i]"""
    d = {}
    for l in lines:
        if l.startswith(prefix_cols) and '=' in l:
            k, v = l[len(prefix_cols):].split('=', 1); d[k] = v
    offs = d.get('item_offset')
    offs = [int(x) for x in offs.split(',')] if offs and offs != 'none' else None
    for l in lines:
        if not l.startswith(prefix_view) or '=' not in l:
            continue
        k, v = l[len(prefix_view):].split('=', 1)
        m = re.match(r'f\[(\d+)\]\.(.*)$', k)
        if not m: continue
        i, rest = int(m.group(1)), m.group(2)
        exp = None
        if rest == 'id':
            exp = d.get('ids', '').split(',')[i]
        elif rest.endswith(('.pre', '.post')):
            exp = d.get('%s[%d]' % (rest, i))
        elif rest.endswith('.port'):
            exp = d.get(rest)
        elif rest == 'start':
            exp = d.get('fstart[%d]' % i) if d.get('fstart.cols') is not None else 'none'
        elif rest == 'end':
            if d.get('fend.cols') is None: exp = 'none'
            elif d.get('fend.cols') == '': exp = ''
            else: exp = d.get('fend[%d]' % i)
        elif rest == 'items':
            exp = 'none' if offs is None else None
            if offs is not None: continue
        elif rest == 'items.len':
            exp = str(offs[i + 1] - offs[i]) if offs else None
        elif rest.startswith('item['):
            j = int(rest[5:-1]); exp = d.get('item[%d]' % (offs[i] + j)) if offs else None
        elif rest.endswith('.follower'):
            exp = d.get(rest)              # 'none' exactly when the port has no follower columns; never because a row is null
        else:
            continue
        if exp != v:
            what = ('row view %s = none although the port has follower columns (a null follower row is a stored row, not a missing record)' % k
                    if rest.endswith('.follower') and exp is None else
                    'row view %s = %s but the columns hold %s at that index' % (k, v[:80], (exp or 'nothing')[:80]))
            corr.oracle_failures.append((cid, what,
                                         {'mode': 'view', 'fields': fields, 'replay_hex': fields[0], 'view_line': l[:200], 'rerun': 'pvh view <file: x <replay_hex> %s>' % fields[1]}))
            return False
    return True


def run(ctx):
    rng = random.Random(ctx.seed)
    corr = core.Corr()
    thorough = ctx.tier == 'thorough'
    corr.rule = ('well-formed replays of every layout version (Ice Climbers, absent characters, rollbacks, 0-5 items per frame): the finished representation '
                 '(Game::frame(i) for every i) and the in-progress one (ParseState::frame(i) for every completed frame after every Frame Start / Pre / Frame End event); '
                 'oracle: each view line equals the column rows at that index, items = the slice given by the item offsets')
    cases = []
    n = 800 if thorough else 150
    for i in range(n):
        r = synth.gen_wf(rng, nframes=rng.choice([1, 2, 3, 5]), items=rng.choice(['rand', 2, 3]))
        b = synth.emit(r).hex()
        cases.append(('i%d' % i, [b, 'i']))
        if i % 2 == 0:
            cases.append(('m%d' % i, [b, 'm']))
    for v in [(2, 2), (2, 9), (3, 0), (3, 6), (3, 16)]:
        r = synth.gen_wf(rng, v, nframes=4, ports=[(0, True), (2, False)], items=3, absent=0.3)
        cases.append(('x%d_%d' % v, [synth.emit(r).hex(), 'i'])); cases.append(('y%d_%d' % v, [synth.emit(r).hex(), 'm']))
    impl, model = both_modes(ctx, 'view', cases, corr, parallel=16, timeout_ms=60000)
    for cid, f in cases:
        corr.seen(f[0] + f[1]); corr.count('mode_' + f[1])
        out = impl.get(cid) or ['?']
        if out[0] != 'OK' or any(l.startswith(('PANIC', 'ABORT')) or 'PANIC' in l[:40] for l in out):
            corr.oracle_failures.append((cid, 'row view failed: %s' % [l[:100] for l in out if 'PANIC' in l or l.startswith(('ERR', 'ABORT'))][:2],
                                         {'mode': 'view', 'fields': f, 'replay_hex': f[0]})); continue
        if f[1] == 'i':
            check_views(out, '', '', corr, cid, f, None)
        else:
            ns = sorted({int(m.group(1)) for l in out for m in [re.match(r'  v\[(\d+)\]', l)] if m})
            for k in ns:
                if not check_views(out, '  s[%d] ' % k, '  v[%d] ' % k, corr, cid, f, None):
                    break
    corr.sample({'mode': cases[0][1][1], 'bytes': len(cases[0][1][0]) // 2}); corr.sample({'mode': cases[1][1][1]})
    return corr
