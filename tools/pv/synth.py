"""Structure-aware generator of Slippi replays (abstract replay -> bytes).

The abstract replay mirrors Coq's `Recorder.replay`; `emit` here is an independent Python
implementation of Coq's `emit` and every run cross-checks the two on the generated cases."""
import struct, random

MAXV = (3, 16, 0)

def gte(v, M, m): return v[0] > M or (v[0] == M and v[1] >= m)

# payload sizes *after* the command byte, headers included
def pre_body(v):  return 4+2+8+4+8+8+4+4+2+8 + (1 if gte(v,1,2) else 0) + (4 if gte(v,1,4) else 0) + (1 if gte(v,3,15) else 0)
def post_body(v):
    s = 1+2+8+4+4+4+4
    if gte(v,0,2): s += 4
    if gte(v,2,0): s += 5+4+1+2+1+1
    if gte(v,2,1): s += 1
    if gte(v,3,5): s += 20
    if gte(v,3,8): s += 4
    if gte(v,3,11): s += 4
    if gte(v,3,16): s += 4
    return s
def fstart_body(v): return 4 + (4 if gte(v,3,10) else 0)
def fend_body(v): return (4 if gte(v,3,7) else 0)
def item_body(v): return 2+1+4+8+8+2+4+4 + (4 if gte(v,3,2) else 0) + (1 if gte(v,3,6) else 0) + (2 if gte(v,3,16) else 0)
def gstart_size(v):
    s = 4+312+4
    if gte(v,1,0): s += 32
    if gte(v,1,3): s += 64
    if gte(v,1,5): s += 1
    if gte(v,2,0): s += 1
    if gte(v,3,7): s += 2
    if gte(v,3,9): s += 124+40
    if gte(v,3,11): s += 116
    if gte(v,3,12): s += 1
    if gte(v,3,14): s += 59
    return s
def gend_size(v): return 6 if gte(v,3,13) else 2 if gte(v,2,0) else 1

def ubj(m):
    out = b''
    for k, val in m.items():
        kb = k if isinstance(k, bytes) else k.encode()
        out += b'U' + bytes([len(kb)]) + kb
        if isinstance(val, (str, bytes)):
            vb = val if isinstance(val, bytes) else val.encode()
            out += b'SU' + bytes([len(vb)]) + vb
        elif isinstance(val, int):
            out += b'l' + struct.pack('>i', val)
        else:
            out += b'{' + ubj(val) + b'}'
    return out

class Frame:
    __slots__ = ('fid', 'fstart', 'chars', 'items', 'fend')
    def __init__(self, fid, fstart, chars, items, fend):
        self.fid = fid          # int (i32)
        self.fstart = fstart    # bytes (payload after the id) or None (<2.2)
        self.chars = chars      # list of (port, follower(0/1), pre bytes, post bytes): present characters, canonical order
        self.items = items      # list of bytes (payload after the id)
        self.fend = fend        # bytes (payload after the id) or None (<3.0)

class Replay:
    def __init__(self, ver, start_blk, ports, frames, end=None, end_blk=b'', metadata=None, gecko=None,
                 extra=0):
        self.ver = ver              # (a,b,c)
        self.start_blk = start_blk  # bytes
        self.ports = ports          # list of (port, is_ics) occupied, port order
        self.frames = frames
        self.end = end              # None | 'single' | 'double'
        self.end_blk = end_blk
        self.metadata = metadata    # None | dict (ordered)
        self.gecko = gecko          # None | (actual_size, bytes (multiple of 512))
        self.extra = extra          # extra trailing bytes per frame-level payload (versions > MAX)
    def slots(self):
        out = []
        for (p, ics) in self.ports:
            out.append((p, 0))
            if ics: out.append((p, 1))
        return out

def payload_table(r):
    v = r.ver; x = r.extra
    t = [(0x36, len(r.start_blk)), (0x37, 6 + pre_body(v) + x), (0x38, 6 + post_body(v) + x),
         (0x39, len(r.end_blk) if r.end else gend_size(v))]
    if gte(v,2,2):
        t.append((0x3A, 4 + fstart_body(v) + x))
        if gte(v,3,0):
            t.append((0x3B, 4 + item_body(v) + x))
            t.append((0x3C, 4 + fend_body(v) + x))
            if gte(v,3,3) and r.gecko is not None:
                t.append((0x3D, r.gecko[0] & 0xffff))
                t.append((0x10, 516))
    return t

def emit_gecko(g):
    actual, data = g
    out = b''; pos = 0
    while pos < actual:
        out += bytes([0x10]) + data[pos:pos+512] + struct.pack('>H', min(512, actual - pos)) + bytes([0x3D])
        pos += 512
        out += bytes([1 if pos >= actual else 0])
    return out

def emit_frame(r, f):
    v = r.ver; out = b''
    if gte(v,2,2): out += bytes([0x3A]) + struct.pack('>i', f.fid) + f.fstart
    for (p, fol, pre, post) in f.chars:
        out += bytes([0x37]) + struct.pack('>i', f.fid) + bytes([p, fol]) + pre
    if gte(v,3,0):
        for it in f.items: out += bytes([0x3B]) + struct.pack('>i', f.fid) + it
    for (p, fol, pre, post) in f.chars:
        out += bytes([0x38]) + struct.pack('>i', f.fid) + bytes([p, fol]) + post
    if gte(v,3,0): out += bytes([0x3C]) + struct.pack('>i', f.fid) + f.fend
    return out

def raw_of(r, table=None, inserts=None):
    t = table if table is not None else payload_table(r)
    raw = bytes([0x35, len(t)*3 + 1]) + b''.join(bytes([c]) + struct.pack('>H', s) for c, s in t)
    raw += bytes([0x36]) + r.start_blk
    if r.gecko is not None: raw += emit_gecko(r.gecko)
    for f in r.frames: raw += emit_frame(r, f)
    if r.end:
        raw += bytes([0x39]) + r.end_blk
        if r.end == 'double': raw += bytes([0x39]) + r.end_blk
    return raw

HEADER = b'{U\x03raw[$U#l'

def wrap(raw, metadata, raw_len=None):
    out = HEADER + struct.pack('>I', len(raw) if raw_len is None else raw_len) + raw
    if metadata is not None: out += b'U\x08metadata{' + ubj(metadata) + b'}'
    return out + b'}'

def emit(r):
    return wrap(raw_of(r), r.metadata)

# ---------------------------------------------------------------------------------------------
# random well-formed replays

def rb(rng, n): return bytes(rng.getrandbits(8) for _ in range(n))

SPECIAL_F32 = [0x7fc00000, 0x7f800001, 0xffc00001, 0x7f800000, 0xff800000, 0x80000000, 0, 0x3f800000, 0x7fffffff]

def row(rng, n):
    """n random bytes, with some 4-byte windows replaced by special float patterns"""
    b = bytearray(rb(rng, n))
    if n >= 4 and rng.random() < 0.3:
        for _ in range(rng.randrange(1, 4)):
            o = rng.randrange(0, n - 3)
            b[o:o+4] = struct.pack('>I', rng.choice(SPECIAL_F32))
    return bytes(b)

def start_block(rng, v, ports, extra=0, types=None, sane=True):
    """a Game Start block the reader accepts: enum-constrained bytes are valid, names are ASCII"""
    n = gstart_size(v) + extra
    b = bytearray(rb(rng, n)) if not sane else bytearray(n)
    if sane:
        # sprinkle random data in unconstrained regions
        for i in range(4, 4 + 0x60): b[i] = rng.getrandbits(8)
    b[0], b[1], b[2] = v[0], v[1], v[2]
    b[3] = rng.getrandbits(8)
    occupied = dict(ports)
    for i in range(6):
        off = 4 + 0x60 + 0x24 * i
        blk = bytearray(rb(rng, 0x24))
        if i < 4 and i in occupied:
            blk[0] = 14 if occupied[i] else rng.choice([x for x in range(0, 33) if x != 14])
            blk[1] = (types or {}).get(i, rng.choice([0, 1, 2]))
        else:
            if blk[0] == 14: blk[0] = 2
            blk[1] = 3
        b[off:off+0x24] = blk
    pos = 4 + 312
    b[pos:pos+4] = rb(rng, 4); pos += 4   # random seed
    if gte(v,1,0):
        for p in range(4):
            b[pos:pos+4] = struct.pack('>I', rng.choice([0, 1, 2])); b[pos+4:pos+8] = struct.pack('>I', rng.choice([0, 1, 2])); pos += 8
    if gte(v,1,3):
        for p in range(4):
            s = ascii_name(rng, 16); b[pos:pos+16] = s; pos += 16
    if gte(v,1,5): b[pos] = rng.choice([0, 1, 2, 255]); pos += 1
    if gte(v,2,0): b[pos] = rng.choice([0, 1, 2, 255]); pos += 1
    if gte(v,3,7): b[pos:pos+2] = rb(rng, 2); pos += 2
    if gte(v,3,9):
        for p in range(4): b[pos:pos+31] = ascii_name(rng, 31); pos += 31
        for p in range(4): b[pos:pos+10] = ascii_name(rng, 10); pos += 10
    if gte(v,3,11):
        for p in range(4): b[pos:pos+29] = ascii_name(rng, 29); pos += 29
    if gte(v,3,12): b[pos] = rng.choice([0, 1]); pos += 1
    if gte(v,3,14):
        b[pos:pos+51] = ascii_name(rng, 51); pos += 51
        b[pos:pos+8] = rb(rng, 8); pos += 8
    assert pos == gstart_size(v), (pos, gstart_size(v), v)
    for i in range(pos, n): b[i] = rng.getrandbits(8)
    return bytes(b)

def ascii_name(rng, n):
    k = rng.randrange(0, n + 1)
    s = bytes(rng.choice(b'abcdefghijklmnopqrstuvwxyzABCDEFGHIJKLMNOPQRSTUVWXYZ0123456789#-_ ') for _ in range(k))
    rest = n - k
    if rest > 0:
        s += b'\0' + rb(rng, rest - 1)   # garbage after the first NUL
    return s

def end_block(rng, v, extra=0):
    n = gend_size(v)
    b = bytearray(n)
    b[0] = rng.choice([0, 1, 2, 3, 7])
    if n > 1: b[1] = rng.choice([255, 0, 1, 2, 3])
    if n > 2:
        for i in range(4): b[2+i] = rng.choice([255, 0, 1, 2, 3])
    return bytes(b) + rb(rng, extra)

def rand_meta(rng, depth=0):
    m = {}
    for _ in range(rng.randrange(0, 5)):
        k = ''.join(rng.choice('abcdefgXYZ09_é漢') for _ in range(rng.randrange(0, 6)))
        if k in m: continue
        t = rng.random()
        if t < 0.4: m[k] = ''.join(rng.choice('abc 0:-TZ.üñ') for _ in range(rng.randrange(0, 12)))
        elif t < 0.75: m[k] = rng.choice([0, 1, -1, 5209, -2**31, 2**31 - 1, rng.randrange(-2**31, 2**31)])
        elif depth < 3: m[k] = rand_meta(rng, depth + 1)
        else: m[k] = {}
    return m

BOUNDARY_VERSIONS = [(0,1),(0,2),(1,0),(1,2),(1,3),(1,4),(1,5),(2,0),(2,1),(2,2),(3,0),(3,2),(3,3),(3,5),(3,6),(3,7),
                     (3,8),(3,9),(3,10),(3,11),(3,12),(3,13),(3,14),(3,15),(3,16)]
OTHER_VERSIONS = [(0,5),(1,1),(1,7),(2,5),(3,1),(3,4),(0,255),(1,255),(2,255)]

def rand_ports(rng):
    n = rng.choice([1, 2, 2, 2, 3, 4])
    ps = sorted(rng.sample(range(4), n))
    return [(p, rng.random() < 0.35) for p in ps]

def rand_ids(rng, v, n):
    ids = []; cur = -123
    if not gte(v,2,2):
        return list(range(-123, -123 + n))
    hi = -123
    while len(ids) < n:
        ids.append(cur)
        hi = max(hi, cur)
        if rng.random() < 0.2 and cur > -123:
            cur = rng.randrange(max(-123, cur - 4), cur + 1)   # rollback
        else:
            cur = cur + 1
    return ids

def gen_wf(rng, v=None, nframes=None, ports=None, end='rand', metadata='rand', gecko='rand', absent=0.2,
           items='rand', patch=None, extra=0, first_present=True):
    """a random replay satisfying wf_replay (Coq Recorder.wf_replay)"""
    if v is None:
        v2 = rng.choice(BOUNDARY_VERSIONS * 3 + OTHER_VERSIONS)
        v = (v2[0], v2[1], rng.choice([0, 0, 1, 255]) if patch is None else patch)
        if v[:2] == (3,16): v = (3, 16, 0)
    elif len(v) == 2:
        v = (v[0], v[1], 0 if patch is None else patch)
    if ports is None: ports = rand_ports(rng)
    if nframes is None: nframes = rng.choice([0, 1, 2, 3, 5, 8, 13])
    r = Replay(v, start_block(rng, v, ports, extra=0), ports, [])
    slots = r.slots()
    ids = rand_ids(rng, v, nframes)
    for fid in ids:
        chars = []
        for (p, fol) in slots:
            if rng.random() >= absent:
                chars.append((p, fol, row(rng, pre_body(v) + extra), row(rng, post_body(v) + extra)))
        if not gte(v,2,2) and not chars:
            # before 2.2 a frame exists only through its pre-frame events
            p, fol = rng.choice(slots)
            chars = [(p, fol, row(rng, pre_body(v) + extra), row(rng, post_body(v) + extra))]
        its = []
        if gte(v,3,0):
            k = rng.choice([0, 0, 0, 1, 2, 5]) if items == 'rand' else items
            its = [row(rng, item_body(v) + extra) for _ in range(k)]
        r.frames.append(Frame(fid, row(rng, fstart_body(v) + extra) if gte(v,2,2) else None, chars, its,
                              row(rng, fend_body(v) + extra) if gte(v,3,0) else None))
    if end == 'rand': end = rng.choice([None, 'single', 'single', 'single', 'double'])
    r.end = end
    r.end_blk = end_block(rng, v) if end else b''
    if metadata == 'rand': metadata = rng.choice([None, {}, rand_meta(rng), rand_meta(rng), {'startAt': '2018-06-22T07:52:59Z', 'lastFrame': 5085, 'players': {'0': {'characters': {'18': 5209}}}, 'playedOn': 'dolphin'}])
    r.metadata = metadata
    if gecko == 'rand': gecko = rng.choice([0, 0, 1, 2, 3]) if gte(v,3,3) else 0
    if gecko and gte(v,3,3):
        nb = gecko
        actual = rng.choice([nb * 512, nb * 512 - rng.randrange(0, 512)])
        r.gecko = (actual, rb(rng, nb * 512))
    r.extra = extra
    return r


def hx(b): return b.hex() if b else '-'

def to_case(r, opts='-'):
    """fields of the model runner's `emit` mode for the abstract replay r"""
    gecko = '-' if r.gecko is None else '%d:%s' % (r.gecko[0], r.gecko[1].hex())
    end = '-' if not r.end else ('s:' if r.end == 'single' else 'd:') + r.end_blk.hex()
    meta = '-' if r.metadata is None else (ubj(r.metadata) + b'}').hex()
    fs = []
    slots = r.slots()
    for f in r.frames:
        present = {(p, fol): (pre, post) for (p, fol, pre, post) in f.chars}
        chars = ','.join(('%s.%s' % (hx(present[s][0]), hx(present[s][1]))) if s in present else '-' for s in slots)
        items = ','.join(hx(i) for i in f.items) or '-'
        fs.append('%d/%s/%s/%s/%s' % (f.fid, hx(f.fstart), hx(f.fend), chars, items))
    return [r.start_blk.hex(), gecko, end, meta, ';'.join(fs) or '-', opts]


# ---------------------------------------------------------------------------------------------
# event-level view (for irregular and malformed streams)

def events_of(r):
    """the raw stream after Game Start as a list of (kind, bytes) events"""
    evs = []
    if r.gecko is not None:
        actual, data = r.gecko
        pos = 0
        while pos < actual:
            last = pos + 512 >= actual
            evs.append(('split', bytes([0x10]) + data[pos:pos + 512] + struct.pack('>H', min(512, actual - pos)) + bytes([0x3D, 1 if last else 0])))
            pos += 512
    v = r.ver
    for fi, f in enumerate(r.frames):
        if gte(v, 2, 2): evs.append(('fstart', bytes([0x3A]) + struct.pack('>i', f.fid) + f.fstart))
        for (p, fol, pre, post) in f.chars:
            evs.append(('pre', bytes([0x37]) + struct.pack('>i', f.fid) + bytes([p, fol]) + pre))
        if gte(v, 3, 0):
            for it in f.items: evs.append(('item', bytes([0x3B]) + struct.pack('>i', f.fid) + it))
        for (p, fol, pre, post) in f.chars:
            evs.append(('post', bytes([0x38]) + struct.pack('>i', f.fid) + bytes([p, fol]) + post))
        if gte(v, 3, 0): evs.append(('fend', bytes([0x3C]) + struct.pack('>i', f.fid) + f.fend))
    if r.end:
        evs.append(('end', bytes([0x39]) + r.end_blk))
        if r.end == 'double': evs.append(('end', bytes([0x39]) + r.end_blk))
    return evs


def assemble(r, evs, table=None, raw_len=None, metadata='same', tail=b''):
    t = table if table is not None else payload_table(r)
    raw = bytes([0x35, (len(t) * 3 + 1) & 0xff]) + b''.join(bytes([c]) + struct.pack('>H', s) for c, s in t)
    raw += bytes([0x36]) + r.start_blk + b''.join(e[1] for e in evs) + tail
    return wrap(raw, r.metadata if metadata == 'same' else metadata, raw_len)


UNKNOWN_CODES = [0x11, 0x3E, 0x7E, 0xFF, 0x01, 0x40]


def with_unknown_events(rng, r, density=0.3):
    """(bytes with unknown declared events inserted at random boundaries after Game Start, bytes without)"""
    codes = rng.sample(UNKNOWN_CODES, rng.randrange(1, 4))
    sizes = {c: rng.choice([1, 2, 7, 64, 300]) for c in codes}
    t = payload_table(r) + [(c, sizes[c]) for c in codes]
    rng.shuffle(t)
    # keep Game Start / Game End entries (any order is accepted by the reader)
    evs = events_of(r)
    out = []
    def junk():
        c = rng.choice(codes)
        return ('unknown', bytes([c]) + rb(rng, sizes[c]))
    # the event stream ends with the first Game End (what follows it inside the raw element is trailing content,
    # not events: see C17), so insertions go anywhere before it
    seen_end = False
    for e in evs:
        if not seen_end:
            while rng.random() < density: out.append(junk())
        out.append(e)
        if e[0] == 'end': seen_end = True
    if not r.end:
        while rng.random() < density: out.append(junk())
    if not any(k == 'unknown' for k, _ in out):
        first_end = next((i for i, e in enumerate(out) if e[0] == 'end'), len(out))
        out.insert(rng.randrange(0, first_end + 1), junk())
    return assemble(r, out, table=t), emit(r), out


def permute_in_frames(rng, r):
    """non-canonical event order inside frames: any order of pre/item/post between Frame Start and Frame End (>= 3.0),
    keeping each character's pre before nothing in particular (the reader does not care)"""
    evs = events_of(r)
    out = []; cur = None
    for e in evs:
        if e[0] == 'fstart':
            cur = []; out.append(e)
        elif e[0] == 'fend':
            rng.shuffle(cur); out.extend(cur); out.append(e); cur = None
        elif cur is not None and e[0] in ('pre', 'post', 'item'):
            cur.append(e)
        else:
            out.append(e)
    return assemble(r, out)


def canon_of_permuted(r):
    return emit(r)


def junk_after_end(rng, r):
    """extra bytes inside the raw element after Game End"""
    assert r.end
    n = rng.choice([1, 2, 5, 7, 30])
    if r.end == 'single':
        sz = 1 + len(r.end_blk)
        while n == sz: n += 1
    return assemble(r, events_of(r), tail=rb(rng, n))


def mutate_structural(rng, r):
    """one malformed stream derived from a well-formed replay (G-mal); returns (bytes, description)"""
    evs = events_of(r)
    t = payload_table(r)
    kind = rng.choice(['del', 'dup', 'swap', 'wrongid', 'port', 'follower', 'illegal', 'table', 'rawlen', 'bytes', 'trunc', 'splitter',
                       'deepmeta', 'badmeta', 'startblk', 'endblk', 'header', 'insert', 'unoccupy'])
    md = r.metadata
    raw_len = None
    desc = kind
    if kind == 'del' and evs:
        del evs[rng.randrange(len(evs))]
    elif kind == 'dup' and evs:
        i = rng.randrange(len(evs)); evs.insert(i, evs[i])
    elif kind == 'swap' and len(evs) > 1:
        i, j = rng.randrange(len(evs)), rng.randrange(len(evs)); evs[i], evs[j] = evs[j], evs[i]
    elif kind == 'wrongid':
        idx = [i for i, e in enumerate(evs) if e[0] in ('pre', 'post', 'item', 'fend', 'fstart')]
        if idx:
            i = rng.choice(idx); b = bytearray(evs[i][1]); b[1:5] = struct.pack('>i', rng.choice([-124, 0, 2**31 - 1, -2**31, struct.unpack('>i', b[1:5])[0] + 1])); evs[i] = (evs[i][0], bytes(b))
    elif kind == 'port':
        idx = [i for i, e in enumerate(evs) if e[0] in ('pre', 'post')]
        if idx:
            i = rng.choice(idx); b = bytearray(evs[i][1]); b[5] = rng.choice([0, 1, 2, 3, 4, 7, 255]); evs[i] = (evs[i][0], bytes(b))
    elif kind == 'follower':
        idx = [i for i, e in enumerate(evs) if e[0] in ('pre', 'post')]
        if idx:
            i = rng.choice(idx); b = bytearray(evs[i][1]); b[6] ^= rng.choice([1, 2, 255]); evs[i] = (evs[i][0], bytes(b))
    elif kind == 'illegal':
        # an event of a kind the version does not have, declared in the table
        c, n = rng.choice([(0x3A, 12), (0x3B, 44), (0x3C, 8), (0x10, 516), (0x3D, 10), (0x35, 4), (0x36, 4)])
        t = [x for x in t if x[0] != c] + [(c, n)]
        evs.insert(rng.randrange(len(evs) + 1), ('x', bytes([c]) + struct.pack('>i', rng.choice([-123, 0])) + rb(rng, n - 4)))
    elif kind == 'table':
        i = rng.randrange(len(t)); c, n = t[i]
        t[i] = (rng.choice([c, c, rng.randrange(256)]), rng.choice([0, 1, 3, n - 1, n + 1, 5, 65535]))
    elif kind == 'rawlen':
        full = assemble(r, evs, table=t)
        real = struct.unpack('>I', full[11:15])[0]
        raw_len = rng.choice([0, 1, 5, real - 1, real + 1, real - 7, real + 7, 0xffffffff, 0x7fffffff, len(r.start_blk) + 20])
        raw_len = max(0, raw_len)
    elif kind == 'splitter':
        n = rng.choice([515, 516, 517, 4])
        blk = bytearray(rb(rng, n))
        if n >= 516:
            blk[512:514] = struct.pack('>H', rng.choice([0, 512, 513, 65535])); blk[514] = rng.choice([0x3D, 0x37, 0x39, 0x10, 0x99]); blk[515] = rng.choice([0, 1])
        t = [x for x in t if x[0] != 0x10] + [(0x10, n)]
        for _ in range(rng.randrange(1, 3)):
            evs.insert(rng.randrange(len(evs) + 1), ('x', bytes([0x10]) + bytes(blk)))
    elif kind == 'deepmeta':
        d = rng.choice([126, 127, 128, 129, 500, 30000])
        md = None
        out = assemble(r, evs, table=t, metadata=None)
        out = out[:-1] + b'U\x08metadata{' + b'U\x01a{' * (d - 1) + b'}' * (d - 1) + b'}' + b'}'
        return out, 'deepmeta%d' % d
    elif kind == 'badmeta':
        out = assemble(r, evs, table=t, metadata=None)
        tail = rng.choice([b'U\x08metadata{U\x01aSU\x02\xff\xfe}}', b'U\x08metadata{U\x01al\x00\x00}}', b'U\x08metadata{U\x01aX}}', b'U\x08metadata{',
                           b'U\x07metadat{}}', b'X', b'', b'U\x08metadata{U\x01aSX\x01a}}', b'U\x08metadata{i\x01a}}', b'U\x08metadata{U\xffa}}'])
        return out[:-1] + tail, 'badmeta'
    elif kind == 'startblk':
        b = bytearray(r.start_blk)
        for _ in range(rng.randrange(1, 4)):
            b[rng.randrange(len(b))] = rng.randrange(256)
        r2 = Replay(r.ver, bytes(b), r.ports, r.frames, r.end, r.end_blk, r.metadata, r.gecko)
        return assemble(r2, evs, table=t), 'startblk'
    elif kind == 'unoccupy':
        # ports the Game Start declares empty (player type 3) or of an invalid type, while their frame events are still there
        b = bytearray(r.start_blk)
        every = rng.random() < 0.6
        for i in range(4):
            if every or rng.random() < 0.5:
                b[4 + 0x60 + 0x24 * i + 1] = rng.choice([3, 3, 3, 4, 255])
        r2 = Replay(r.ver, bytes(b), r.ports, r.frames, r.end, r.end_blk, r.metadata, r.gecko)
        return assemble(r2, evs, table=t), 'unoccupy'
    elif kind == 'endblk' and r.end:
        i = [k for k, e in enumerate(evs) if e[0] == 'end'][0]
        b = bytearray(evs[i][1]); b[rng.randrange(1, len(b))] = rng.randrange(256); evs[i] = ('end', bytes(b))
    elif kind == 'insert':
        evs.insert(rng.randrange(len(evs) + 1), ('x', rb(rng, rng.randrange(1, 9))))
    out = assemble(r, evs, table=t, raw_len=raw_len, metadata=md)
    if kind == 'bytes':
        b = bytearray(out)
        for _ in range(rng.randrange(1, 5)):
            b[rng.randrange(len(b))] = rng.randrange(256)
        out = bytes(b)
    elif kind == 'trunc':
        out = out[:rng.randrange(len(out))]
    elif kind == 'header':
        b = bytearray(out); b[rng.randrange(0, 17)] ^= rng.choice([1, 0x80, 0xff]); out = bytes(b)
    return out, desc


# ---------------------------------------------------------------------------------------------
# irregular renderings inside the class the Coq theorem covers (Proofs/Irregular2.v wf_irreg2): unknown events
# interleaved anywhere before Game End with their table entries appended, junk after a single Game End, adjacent
# exchanges of independent frame-interior events (>= 2.2).  Returns (bytes, extras, events, junk) so that the model can
# rebuild the stream (emit_irr) and decide the predicate (wf_irreg2_b).

def _slot_key(e):
    p = e[1][1:]
    return None if len(p) < 6 else (p[4], p[5] != 0)


def independent(e1, e2):
    ch = ('pre', 'post')
    if (e1[0] == 'item' and e2[0] in ch) or (e1[0] in ch and e2[0] == 'item'):
        return True
    if e1[0] in ch and e2[0] in ch:
        k1, k2 = _slot_key(e1), _slot_key(e2)
        return k1 is not None and k2 is not None and k1 != k2
    return False


def irregular_in_class(rng, r, swaps=None, density=0.25):
    v = r.ver
    evs = events_of(r)
    body = [e for e in evs if e[0] != 'end']
    ends = [e for e in evs if e[0] == 'end']
    nsw = 0
    if gte(v, 2, 2) and len(body) > 1:
        for _ in range(swaps if swaps is not None else rng.choice([0, 3, 20, 200])):
            i = rng.randrange(len(body) - 1)
            if independent(body[i], body[i + 1]):
                body[i], body[i + 1] = body[i + 1], body[i]; nsw += 1
    codes = rng.sample(UNKNOWN_CODES, rng.randrange(0, 4))
    sizes = {c: rng.choice([1, 2, 7, 64, 300]) for c in codes}
    extras = [(c, sizes[c]) for c in codes]
    out = []
    def unk():
        c = rng.choice(codes)
        return ('unknown', bytes([c]) + rb(rng, sizes[c]))
    for e in body:
        while codes and rng.random() < density: out.append(unk())
        out.append(e)
    while codes and rng.random() < density: out.append(unk())
    junk = b''
    if r.end == 'single' and rng.random() < 0.5:
        junk = rb(rng, rng.choice([1, 2, 3, 7, 40]))
        if len(junk) == 1 + gend_size(v) and junk[0] == 0x39:
            junk = bytes([0x00]) + junk[1:]
    b = assemble(r, out + ends, table=payload_table(r) + extras, tail=junk)
    return b, extras, [(e[1][0], e[1][1:]) for e in out], junk, nsw


def irr_case(r, extras, events, junk, opts='-'):
    """fields of the model runner's `emitirr` mode"""
    return to_case(r, opts) + [','.join('%d:%d' % cs for cs in extras) or '-',
                               ','.join('%d:%s' % (c, hx(p)) for c, p in events) or '-', hx(junk)]
