"""Parse coq/theories/Layout/Spec.v (the hand-written Slippi spec tables) for the Python-side oracles."""
import os, re
from . import run as R

WIDTH = {'U8': 1, 'I8': 1, 'U16': 2, 'I16': 2, 'U32': 4, 'I32': 4, 'F32': 4}
HDR = {'Pre': 7, 'Post': 7, 'Start': 5, 'Item': 5, 'End': 5}


def load():
    txt = open(os.path.join(R.VERIF, 'coq', 'theories', 'Layout', 'Spec.v')).read()
    out = {}
    for name, key in (('spec_pre', 'Pre'), ('spec_post', 'Post'), ('spec_start', 'Start'), ('spec_item', 'Item'), ('spec_end', 'End')):
        m = re.search(r'Definition %s : list spec_leaf := \[(.*?)\]\.' % name, txt, re.S)
        rows = []
        for r in re.finditer(r'SL "([^"]+)"\s+(\w+)\s+(\d+)\s+(None|\(V (\d+) (\d+)\))', m.group(1)):
            since = None if r.group(4) == 'None' else (int(r.group(5)), int(r.group(6)))
            rows.append((r.group(1), r.group(2), int(r.group(3)), since))
        out[key] = rows
    return out


def enabled(v, since):
    return since is None or (v[0], v[1]) >= since


def expected_row(spec_rows, hdr, v, payload):
    """names and values a row must show for version v given the payload after the event header"""
    names, vals = [], []
    for (path, ty, off, since) in spec_rows:
        if enabled(v, since):
            o = off - hdr
            w = WIDTH[ty]
            names.append(path)
            vals.append(int.from_bytes(payload[o:o + w], 'big'))
    return names, vals
